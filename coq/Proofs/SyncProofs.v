(* Lemmas about Model/Sync.v (property C10). *)
From Coq Require Import ZArith List Bool Lia Permutation Sorted.
From DV Require Import Model.Sync.
Import ListNotations.
Open Scope Z_scope.

(* ---------------------------------------------------------------------------------------- *)
(* bytes, raw store                                                                          *)

Lemma bytes_eqb_eq : forall a b, bytes_eqb a b = true <-> a = b.
Proof.
  induction a as [|x a IH]; destruct b as [|y b]; simpl; split; intro H; try reflexivity; try discriminate.
  - apply andb_true_iff in H. destruct H as [H1 H2]. apply Z.eqb_eq in H1. apply IH in H2. congruence.
  - inversion H; subst. rewrite Z.eqb_refl. simpl. apply IH. reflexivity.
Qed.

Lemma bytes_eqb_refl : forall a, bytes_eqb a a = true.
Proof. intro a. apply bytes_eqb_eq. reflexivity. Qed.

Lemma raw_get_in : forall base r b, raw_get base r = Some b -> In b base /\ b_round b = r.
Proof.
  induction base as [|x t IH]; simpl; intros r b H; [discriminate|].
  destruct (b_round x =? r) eqn:E.
  - inversion H; subst. apply Z.eqb_eq in E. auto.
  - apply IH in H. tauto.
Qed.

Lemma raw_last_none : forall base, raw_last base = None -> base = [].
Proof.
  destruct base as [|x t]; simpl; intro H; [reflexivity|].
  destruct (raw_last t) as [a|]; [destruct (b_round a <=? b_round x)|]; discriminate.
Qed.

Lemma raw_last_in : forall base l, raw_last base = Some l -> In l base.
Proof.
  induction base as [|x t IH]; simpl; intros l H; [discriminate|].
  destruct (raw_last t) as [a|] eqn:E.
  - destruct (b_round a <=? b_round x); inversion H; subst; auto.
  - inversion H; auto.
Qed.

Lemma raw_last_max : forall base l, raw_last base = Some l ->
  forall b, In b base -> b_round b <= b_round l.
Proof.
  induction base as [|x t IH]; simpl; intros l H b Hb; [contradiction|].
  destruct (raw_last t) as [a|] eqn:E.
  - destruct (b_round a <=? b_round x) eqn:C; inversion H; subst.
    + apply Z.leb_le in C. destruct Hb as [->|Hb]; [lia|]. specialize (IH a eq_refl b Hb). lia.
    + apply Z.leb_gt in C. destruct Hb as [->|Hb]; [lia|]. exact (IH l eq_refl b Hb).
  - inversion H; subst. apply raw_last_none in E. subst t. destruct Hb as [->|[]]. lia.
Qed.

Lemma raw_get_none_above : forall base l r, raw_last base = Some l -> b_round l < r ->
  raw_get base r = None.
Proof.
  intros base l r Hl Hr. destruct (raw_get base r) as [b|] eqn:E; [|reflexivity].
  apply raw_get_in in E. destruct E as [Hin Hround].
  pose proof (raw_last_max _ _ Hl _ Hin). lia.
Qed.

Lemma raw_last_cons_above : forall base l b, raw_last base = Some l -> b_round l <= b_round b ->
  raw_last (b :: base) = Some b.
Proof.
  intros base l b Hl Hr. simpl. rewrite Hl. apply Z.leb_le in Hr. rewrite Hr. reflexivity.
Qed.

Lemma raw_put_above : forall bk base l b, raw_last base = Some l -> b_round l < b_round b ->
  raw_put bk base b = b :: base.
Proof.
  intros bk base l b Hl Hr. destruct bk; simpl; [reflexivity|].
  rewrite (raw_get_none_above _ _ _ Hl Hr). reflexivity.
Qed.

Lemma raw_put_nonempty : forall bk base b, base <> [] -> raw_put bk base b <> [].
Proof.
  intros bk base b H. destruct bk; simpl; [discriminate|].
  destruct (raw_get base (b_round b)); [assumption|discriminate].
Qed.

Lemma raw_last_some : forall base, base <> [] -> exists l, raw_last base = Some l.
Proof.
  intros base H. destruct (raw_last base) as [l|] eqn:E; [eauto|].
  apply raw_last_none in E. contradiction.
Qed.

Lemma raw_get_put_same : forall base b, raw_get (raw_put BkOverwrite base b) (b_round b) = Some b.
Proof. intros. simpl. rewrite Z.eqb_refl. reflexivity. Qed.

Lemma raw_get_put_other : forall bk base b r, b_round b <> r ->
  raw_get (raw_put bk base b) r = raw_get base r.
Proof.
  intros bk base b r H. apply Z.eqb_neq in H. destruct bk; simpl.
  - rewrite H. reflexivity.
  - destruct (raw_get base (b_round b)); [reflexivity|]. simpl. rewrite H. reflexivity.
Qed.

Lemma raw_get_del_same : forall base r, raw_get (raw_del base r) r = None.
Proof.
  induction base as [|x t IH]; intro r; simpl; [reflexivity|].
  destruct (b_round x =? r) eqn:E; simpl; [apply IH|]. rewrite E. apply IH.
Qed.

Lemma raw_get_del_other : forall base r r', r <> r' -> raw_get (raw_del base r) r' = raw_get base r'.
Proof.
  induction base as [|x t IH]; intros r r' H; simpl; [reflexivity|].
  destruct (b_round x =? r) eqn:E; simpl.
  - apply Z.eqb_eq in E. replace (b_round x =? r') with false by (symmetry; apply Z.eqb_neq; lia).
    apply IH; exact H.
  - destruct (b_round x =? r'); [reflexivity|]. apply IH; exact H.
Qed.

Lemma raw_put_never_empty : forall bk base b, raw_put bk base b <> [].
Proof.
  intros bk base b. destruct bk; simpl; [discriminate|].
  destruct (raw_get base (b_round b)) eqn:E; [|discriminate].
  destruct base; [discriminate|discriminate].
Qed.

Lemma store_form_round : forall c b, b_round (store_form c b) = b_round b.
Proof. intros [] b; reflexivity. Qed.

Lemma store_form_sig : forall c b, b_sig (store_form c b) = b_sig b.
Proof. intros [] b; reflexivity. Qed.

(* ---------------------------------------------------------------------------------------- *)
(* ranges                                                                                    *)

Fixpoint zseq (i : Z) (n : nat) : list Z :=
  match n with O => [] | S n' => i :: zseq (i + 1) n' end.

Lemma zseq_in : forall n i r, In r (zseq i n) <-> i <= r < i + Z.of_nat n.
Proof.
  induction n as [|n IH]; intros i r; simpl zseq.
  - simpl. split; [contradiction|lia].
  - rewrite Nat2Z.inj_succ. simpl. rewrite IH. lia.
Qed.

(* the rounds of [ws] are h+1, h+2, ... *)
Fixpoint consec (h : Z) (ws : list beacon) : Prop :=
  match ws with
  | [] => True
  | b :: t => b_round b = h + 1 /\ consec (h + 1) t
  end.

Lemma consec_app : forall ws1 ws2 h, consec h ws1 -> consec (h + Z.of_nat (length ws1)) ws2 ->
  consec h (ws1 ++ ws2).
Proof.
  induction ws1 as [|b t IH]; intros ws2 h H1 H2; simpl in *.
  - replace (h + 0) with h in H2 by lia. exact H2.
  - destruct H1 as [Hb Ht]. split; [exact Hb|]. apply IH; [exact Ht|].
    replace (h + 1 + Z.of_nat (length t)) with (h + Z.pos (Pos.of_succ_nat (length t))) by lia. exact H2.
Qed.

Lemma consec_rounds : forall ws h, consec h ws -> map b_round ws = zseq (h + 1) (length ws).
Proof.
  induction ws as [|b t IH]; intros h H; simpl in *; [reflexivity|].
  destruct H as [Hb Ht]. rewrite Hb. f_equal. apply IH. exact Ht.
Qed.


(* ---------------------------------------------------------------------------------------- *)
(* Facts that hold for every stack, back-end, peer and stream: whatever is written verifies,  *)
(* and the raw store changes by exactly the logged writes                                     *)

Section GENERIC.
  Variable vfy : beacon -> bool.
  Variable chained : bool.
  Variable bk : backend.
  Variable sk : stack.

  Definition stored_of (resync : bool) (b : beacon) : beacon :=
    if resync then b else store_form chained b.

  Definition all_vfy (ws : list beacon) : Prop := Forall (fun b => vfy b = true) ws.

  (* what one logged write does to the raw store: a Put through the stack, or Del + Put on the
     re-sync path *)
  Definition apply_write (resync : bool) (base : raw) (b : beacon) : raw :=
    if resync then raw_put bk (raw_del base (b_round b)) b else raw_put bk base b.

  Lemma stack_put_inr : forall st b st', stack_put chained bk sk st b = inr st' ->
    st' = mkS (raw_put bk (s_base st) (store_form chained b)) (store_form chained b)
    /\ (sk = SkAppend -> b_round b = b_round (s_wlast st) + 1)
    /\ (chained = true -> b_prev b = b_sig (s_wlast st)).
  Proof.
    intros st b st' H. unfold stack_put in H.
    destruct sk.
    - unfold append_check in H.
      destruct (b_round b =? b_round (s_wlast st)) eqn:E1; [discriminate|].
      destruct (b_round b =? b_round (s_wlast st) + 1) eqn:E2; [|discriminate].
      apply Z.eqb_eq in E2.
      destruct (chained && negb (bytes_eqb (b_sig (s_wlast st)) (b_prev b))) eqn:E3; [discriminate|].
      inversion H; subst. split; [reflexivity|]. split; [auto|].
      intro Hc. rewrite Hc in E3. simpl in E3. apply negb_false_iff in E3.
      apply bytes_eqb_eq in E3. auto.
    - destruct (chained && negb (bytes_eqb (b_sig (s_wlast st)) (b_prev b))) eqn:E3; [discriminate|].
      inversion H; subst. split; [reflexivity|]. split; [discriminate|].
      intro Hc. rewrite Hc in E3. simpl in E3. apply negb_false_iff in E3.
      apply bytes_eqb_eq in E3. auto.
  Qed.

  (* [o] is a possible outcome from [st]: writes verify, the raw store grew by the writes *)
  Definition tn_gen (resync : bool) (st : store) (o : tn_out) : Prop :=
    all_vfy (tn_ws o) /\
    s_base (tn_st o) = fold_left (apply_write resync) (map (stored_of resync) (tn_ws o)) (s_base st) /\
    (resync = true -> s_wlast (tn_st o) = s_wlast st).

  Lemma tn_gen_nil : forall resync r st, tn_gen resync st (mkTn r st []).
  Proof. intros. repeat split. constructor. Qed.

  Lemma tn_gen_step : forall resync st st1 b o r,
    vfy b = true ->
    s_base st1 = apply_write resync (s_base st) (stored_of resync b) ->
    (resync = true -> s_wlast st1 = s_wlast st) ->
    tn_gen resync st1 o ->
    tn_gen resync st (mkTn r (tn_st o) (b :: tn_ws o)).
  Proof.
    intros resync st st1 b o r Hv Hb Hw [G1 [G2 G3]]. repeat split; simpl.
    - constructor; assumption.
    - rewrite G2, Hb. reflexivity.
    - intro Hr. rewrite (G3 Hr). auto.
  Qed.

  Lemma tn_loop_generic : forall resync upTo l st,
    tn_gen resync st (tn_loop vfy chained bk sk resync upTo st l).
  Proof.
    intros resync upTo. induction l as [|e l IH]; intro st; simpl.
    - apply tn_gen_nil.
    - destruct e as [m b| |]; try apply tn_gen_nil.
      assert (Hmain : tn_gen resync st
        (if negb (vfy b) then mkTn TnFail st []
         else if resync then
           if b_round b =? upTo then mkTn TnOk (insecure_put bk st b) [b]
           else mkTn (tn_r (tn_loop vfy chained bk sk resync upTo (insecure_put bk st b) l))
                     (tn_st (tn_loop vfy chained bk sk resync upTo (insecure_put bk st b) l))
                     (b :: tn_ws (tn_loop vfy chained bk sk resync upTo (insecure_put bk st b) l))
         else match stack_put chained bk sk st b with
              | inr st' =>
                  if b_round b =? upTo then mkTn TnOk st' [b]
                  else mkTn (tn_r (tn_loop vfy chained bk sk resync upTo st' l))
                            (tn_st (tn_loop vfy chained bk sk resync upTo st' l))
                            (b :: tn_ws (tn_loop vfy chained bk sk resync upTo st' l))
              | inl EAlready => mkTn (if b_round b =? upTo then TnOk else TnFail) st []
              | inl _ => mkTn TnFail st []
              end)).
      { destruct (vfy b) eqn:Hv; simpl; [|apply tn_gen_nil].
        destruct resync eqn:Hres.
        - destruct (b_round b =? upTo).
          + change (mkTn TnOk (insecure_put bk st b) [b])
              with (mkTn TnOk (tn_st (mkTn TnOk (insecure_put bk st b) [])) (b :: tn_ws (mkTn TnOk (insecure_put bk st b) []))).
            apply tn_gen_step with (st1 := insecure_put bk st b); try reflexivity; try assumption.
            apply tn_gen_nil.
          + apply tn_gen_step with (st1 := insecure_put bk st b); try reflexivity; try assumption.
            apply IH.
        - destruct (stack_put chained bk sk st b) as [e|st'] eqn:Hp.
          + destruct e; apply tn_gen_nil.
          + apply stack_put_inr in Hp. destruct Hp as [Hst' _].
            destruct (b_round b =? upTo).
            * change (mkTn TnOk st' [b])
                with (mkTn TnOk (tn_st (mkTn TnOk st' [])) (b :: tn_ws (mkTn TnOk st' []))).
              apply tn_gen_step with (st1 := st'); try assumption; try discriminate.
              { subst st'. reflexivity. }
              apply tn_gen_nil.
            * apply tn_gen_step with (st1 := st'); try assumption; try discriminate.
              { subst st'. reflexivity. }
              apply IH. }
      destruct m; try apply tn_gen_nil; exact Hmain.
  Qed.

  Lemma try_node_generic : forall from upTo st p,
    tn_gen (0 <? from) st (tn2 (try_node vfy chained bk sk from upTo st p)).
  Proof.
    intros from upTo st p. unfold try_node.
    destruct (raw_last (s_base st)) as [last|]; [|apply tn_gen_nil].
    destruct (negb (from =? 0) && (upTo <? from)); [apply tn_gen_nil|].
    destruct (negb (p_reach p)); [apply tn_gen_nil|]. simpl.
    apply tn_loop_generic.
  Qed.

  (* the same for Sync, over any list of peers *)
  Definition sy_gen (resync : bool) (st : store) (st' : store) (ws : list beacon) : Prop :=
    all_vfy ws /\
    s_base st' = fold_left (apply_write resync) (map (stored_of resync) ws) (s_base st) /\
    (resync = true -> s_wlast st' = s_wlast st).

  Lemma sy_gen_refl : forall resync st, sy_gen resync st st [].
  Proof. intros. repeat split. constructor. Qed.

  Lemma sy_gen_trans : forall resync st st1 st2 ws1 ws2,
    sy_gen resync st st1 ws1 -> sy_gen resync st1 st2 ws2 -> sy_gen resync st st2 (ws1 ++ ws2).
  Proof.
    intros resync st st1 st2 ws1 ws2 [A1 [A2 A3]] [B1 [B2 B3]]. repeat split.
    - apply Forall_app. split; assumption.
    - rewrite B2, A2, map_app, fold_left_app. reflexivity.
    - intro Hr. rewrite (B3 Hr), (A3 Hr). reflexivity.
  Qed.

  Lemma sync_loop_generic : forall from upTo ps st,
    let o := sync_loop vfy chained bk sk from upTo st ps in
    sy_gen (0 <? from) st (sy_st o) (sy_ws o).
  Proof.
    intros from upTo. induction ps as [|p ps IH]; intro st; simpl.
    - apply sy_gen_refl.
    - destruct (p_self p); [apply IH|].
      pose proof (try_node_generic from upTo st p) as G.
      destruct (tn_r (tn2 (try_node vfy chained bk sk from upTo st p))); simpl.
      + exact G.
      + apply sy_gen_trans with (st1 := tn_st (tn2 (try_node vfy chained bk sk from upTo st p))).
        * exact G.
        * apply IH.
      + exact G.
  Qed.

  Lemma resync_generic : forall from to st a1 a2,
    let o := resync vfy chained bk sk from to st a1 a2 in
    sy_gen (0 <? from) st (sy_st o) (sy_ws o).
  Proof.
    intros from to st a1 a2. unfold resync.
    destruct (from =? 0); [apply sy_gen_refl|].
    pose proof (sync_loop_generic from to a1 st) as G1. simpl in G1.
    destruct (sy_r (sync_loop vfy chained bk sk from to st a1)) as [|e|e]; try exact G1.
    - destruct e; try exact G1. simpl.
      eapply sy_gen_trans; [exact G1|]. apply sync_loop_generic.
    - destruct e; try exact G1.
  Qed.

  Lemma correct_past_generic : forall jobs st,
    (forall j, In j jobs -> 0 < fst j) ->
    let o := correct_past vfy chained bk sk st jobs in
    sy_gen true st (co_st o) (co_ws o).
  Proof.
    induction jobs as [|[r [a1 a2]] js IH]; intros st Hpos; simpl.
    - apply sy_gen_refl.
    - assert (Hr : 0 < r) by (apply (Hpos (r, (a1, a2))); left; reflexivity).
      assert (Hlt : (0 <? r) = true) by (apply Z.ltb_lt; exact Hr).
      pose proof (resync_generic r r st a1 a2) as G. simpl in G. rewrite Hlt in G.
      assert (IH' := IH (sy_st (resync vfy chained bk sk r r st a1 a2))
                        (fun j Hj => Hpos j (or_intror Hj))). simpl in IH'.
      destruct (sy_r (resync vfy chained bk sk r r st a1 a2)); simpl.
      + eapply sy_gen_trans; [exact G|exact IH'].
      + eapply sy_gen_trans; [exact G|exact IH'].
      + exact G.
  Qed.

  Lemma run_attempts_generic : forall upTo attempts st,
    let o := run_attempts vfy chained bk sk upTo st attempts in
    sy_gen false st (sy_st o) (sy_ws o).
  Proof.
    intros upTo. induction attempts as [|a rest IH]; intro st; simpl.
    - apply sy_gen_refl.
    - destruct ((0 <? upTo) && (upTo <=? head_of (s_base st))); [apply sy_gen_refl|].
      pose proof (sync_loop_generic 0 upTo a st) as G. simpl in G.
      destruct (sy_r (sync_loop vfy chained bk sk 0 upTo st a)); try exact G;
        simpl; (eapply sy_gen_trans; [exact G|apply IH]).
  Qed.
End GENERIC.

(* ---------------------------------------------------------------------------------------- *)
(* Writes in chain order, for any stack whose Put only accepts wlast+1 under an invariant     *)

Definition hd (st : store) : Z := b_round (s_wlast st).

(* the wrappers' [last] is the raw store's last *)
Definition wf (st : store) : Prop := raw_last (s_base st) = Some (s_wlast st).

Section INORDER.
  Variable vfy : beacon -> bool.
  Variable chained : bool.
  Variable bk : backend.
  Variable sk : stack.
  Variable Inv : store -> Prop.
  Hypothesis Inv_put : forall st b st', Inv st -> vfy b = true ->
    stack_put chained bk sk st b = inr st' ->
    b_round b = hd st + 1 /\ Inv st' /\ s_base st' = store_form chained b :: s_base st.

  Definition appended (st st' : store) (ws : list beacon) : Prop :=
    consec (hd st) ws /\
    hd st' = hd st + Z.of_nat (length ws) /\
    s_base st' = rev (map (store_form chained) ws) ++ s_base st /\
    Inv st'.

  Lemma appended_refl : forall st, Inv st -> appended st st [].
  Proof. intros st H. repeat split; simpl; try lia; auto. Qed.

  Lemma appended_step : forall st st1 st2 b ws,
    Inv st -> vfy b = true -> stack_put chained bk sk st b = inr st1 ->
    appended st1 st2 ws -> appended st st2 (b :: ws).
  Proof.
    intros st st1 st2 b ws Hi Hv Hp [A1 [A2 [A3 A4]]].
    destruct (Inv_put _ _ _ Hi Hv Hp) as [Hr [Hi1 Hb1]].
    apply stack_put_inr in Hp. destruct Hp as [Hst1 _].
    assert (Hhd1 : hd st1 = hd st + 1).
    { subst st1. unfold hd at 1. simpl. rewrite store_form_round. exact Hr. }
    repeat split.
    - exact Hr.
    - rewrite <- Hhd1. exact A1.
    - rewrite A2, Hhd1. simpl length. lia.
    - rewrite A3, Hb1. simpl. rewrite <- app_assoc. reflexivity.
    - exact A4.
  Qed.

  Lemma appended_trans : forall st st1 st2 ws1 ws2,
    appended st st1 ws1 -> appended st1 st2 ws2 -> appended st st2 (ws1 ++ ws2).
  Proof.
    intros st st1 st2 ws1 ws2 [A1 [A2 [A3 A4]]] [B1 [B2 [B3 B4]]]. repeat split.
    - apply consec_app; [exact A1|]. rewrite <- A2. exact B1.
    - rewrite B2, A2, app_length, Nat2Z.inj_add. lia.
    - rewrite B3, A3, map_app, rev_app_distr, app_assoc. reflexivity.
    - exact B4.
  Qed.

  Lemma tn_loop_inorder : forall upTo l st, Inv st ->
    let o := tn_loop vfy chained bk sk false upTo st l in appended st (tn_st o) (tn_ws o).
  Proof.
    intros upTo. induction l as [|e l IH]; intros st Hi; simpl.
    - apply appended_refl; exact Hi.
    - destruct e as [m b| |]; try (apply appended_refl; exact Hi).
      assert (Hmain : let o :=
        (if negb (vfy b) then mkTn TnFail st []
         else match stack_put chained bk sk st b with
              | inr st' =>
                  if b_round b =? upTo then mkTn TnOk st' [b]
                  else mkTn (tn_r (tn_loop vfy chained bk sk false upTo st' l))
                            (tn_st (tn_loop vfy chained bk sk false upTo st' l))
                            (b :: tn_ws (tn_loop vfy chained bk sk false upTo st' l))
              | inl EAlready => mkTn (if b_round b =? upTo then TnOk else TnFail) st []
              | inl _ => mkTn TnFail st []
              end) in appended st (tn_st o) (tn_ws o)).
      { destruct (vfy b) eqn:Hv; simpl; [|apply appended_refl; exact Hi].
        destruct (stack_put chained bk sk st b) as [e|st'] eqn:Hp.
        - destruct e; simpl; apply appended_refl; exact Hi.
        - destruct (Inv_put _ _ _ Hi Hv Hp) as [_ [Hi' _]].
          destruct (b_round b =? upTo); simpl.
          + eapply appended_step; [exact Hi|exact Hv|exact Hp|apply appended_refl; exact Hi'].
          + eapply appended_step; [exact Hi|exact Hv|exact Hp|apply IH; exact Hi']. }
      destruct m; try (apply appended_refl; exact Hi); exact Hmain.
  Qed.

  Lemma try_node_inorder : forall upTo st p, Inv st ->
    let o := tn2 (try_node vfy chained bk sk 0 upTo st p) in appended st (tn_st o) (tn_ws o).
  Proof.
    intros upTo st p Hi. unfold try_node.
    destruct (raw_last (s_base st)) as [last|]; [|apply appended_refl; exact Hi].
    simpl. destruct (negb (p_reach p)); [apply appended_refl; exact Hi|]. simpl.
    apply tn_loop_inorder. exact Hi.
  Qed.

  Lemma sync_loop_inorder : forall upTo ps st, Inv st ->
    let o := sync_loop vfy chained bk sk 0 upTo st ps in appended st (sy_st o) (sy_ws o).
  Proof.
    intros upTo. induction ps as [|p ps IH]; intros st Hi; simpl.
    - apply appended_refl; exact Hi.
    - destruct (p_self p); [apply IH; exact Hi|].
      pose proof (try_node_inorder upTo st p Hi) as G. simpl in G.
      destruct (tn_r (tn2 (try_node vfy chained bk sk 0 upTo st p))); simpl; try exact G.
      eapply appended_trans; [exact G|]. apply IH. destruct G as [_ [_ [_ G4]]]. exact G4.
  Qed.

  Lemma run_attempts_inorder : forall upTo attempts st, Inv st ->
    let o := run_attempts vfy chained bk sk upTo st attempts in appended st (sy_st o) (sy_ws o).
  Proof.
    intros upTo. induction attempts as [|a rest IH]; intros st Hi; simpl.
    - apply appended_refl; exact Hi.
    - destruct ((0 <? upTo) && (upTo <=? head_of (s_base st))); [apply appended_refl; exact Hi|].
      pose proof (sync_loop_inorder upTo a st Hi) as G. simpl in G.
      assert (Hi' : Inv (sy_st (sync_loop vfy chained bk sk 0 upTo st a))) by (destruct G as [_ [_ [_ G4]]]; exact G4).
      destruct (sy_r (sync_loop vfy chained bk sk 0 upTo st a)); try exact G;
        simpl; (eapply appended_trans; [exact G|apply IH; exact Hi']).
  Qed.
End INORDER.

(* the participant stack (appendStore present) is in order with no assumption on [vfy] at all *)
Lemma wf_put : forall vfy chained bk st b st', wf st -> vfy b = true ->
  stack_put chained bk SkAppend st b = inr st' ->
  b_round b = hd st + 1 /\ wf st' /\ s_base st' = store_form chained b :: s_base st.
Proof.
  intros vfy chained bk st b st' Hw _ Hp. apply stack_put_inr in Hp.
  destruct Hp as [Hst' [Hr _]]. specialize (Hr eq_refl). unfold wf in Hw.
  assert (Hput : raw_put bk (s_base st) (store_form chained b) = store_form chained b :: s_base st).
  { eapply raw_put_above; [exact Hw|]. rewrite store_form_round. lia. }
  subst st'. unfold wf, hd. simpl. rewrite Hput. split; [exact Hr|]. split; [|reflexivity].
  eapply raw_last_cons_above; [exact Hw|]. rewrite store_form_round. lia.
Qed.

(* ---------------------------------------------------------------------------------------- *)
(* Convergence: an honest chain, honest peers, tolerated (non-blocking) other peers           *)

Lemma stack_put_ok : forall chained bk sk st b,
  (sk = SkAppend -> b_round b = hd st + 1) ->
  (chained = true -> b_prev b = b_sig (s_wlast st)) ->
  stack_put chained bk sk st b =
    inr (mkS (raw_put bk (s_base st) (store_form chained b)) (store_form chained b)).
Proof.
  intros chained bk sk st b Hr Hp. unfold stack_put.
  assert (Hs : chained && negb (bytes_eqb (b_sig (s_wlast st)) (b_prev b)) = false).
  { destruct chained; [|reflexivity]. simpl. rewrite (Hp eq_refl), bytes_eqb_refl. reflexivity. }
  destruct sk.
  - unfold append_check. specialize (Hr eq_refl). unfold hd in Hr.
    replace (b_round b =? b_round (s_wlast st)) with false by (symmetry; apply Z.eqb_neq; lia).
    replace (b_round b =? b_round (s_wlast st) + 1) with true by (symmetry; apply Z.eqb_eq; lia).
    rewrite Hs. reflexivity.
  - rewrite Hs. reflexivity.
Qed.

Lemma stack_put_already : forall chained bk sk st b,
  stack_put chained bk sk st b = inl EAlready -> b_round b = hd st.
Proof.
  intros chained bk sk st b H. unfold stack_put in H. destruct sk.
  - unfold append_check in H.
    destruct (b_round b =? b_round (s_wlast st)) eqn:E1.
    + apply Z.eqb_eq in E1. exact E1.
    + destruct (b_round b =? b_round (s_wlast st) + 1).
      * destruct (chained && negb (bytes_eqb (b_sig (s_wlast st)) (b_prev b))); discriminate.
      * discriminate.
  - destruct (chained && negb (bytes_eqb (b_sig (s_wlast st)) (b_prev b))); discriminate.
Qed.

Lemma try_node_from0 : forall vfy chained bk sk upTo st p, wf st ->
  try_node vfy chained bk sk 0 upTo st p =
    if negb (p_reach p) then mkTn2 (mkTn TnFail st []) (Some (hd st + 1))
    else mkTn2 (tn_loop vfy chained bk sk false upTo st (p_stream p (hd st + 1))) (Some (hd st + 1)).
Proof.
  intros vfy chained bk sk upTo st p Hw. unfold try_node. rewrite Hw. reflexivity.
Qed.

Lemma stack_cases : forall s : stack, s = SkAppend \/ s = SkFollow.
Proof. destruct s; auto. Qed.

Section CHAIN.
  Variable vfy : beacon -> bool.
  Variable chained : bool.
  Variable bk : backend.
  Variable sk : stack.
  (* the honest chain: round r's beacon *)
  Variable chain : Z -> beacon.
  Hypothesis chain_round : forall r, b_round (chain r) = r.
  Hypothesis chain_vfy : forall r, 1 <= r -> vfy (chain r) = true.
  Hypothesis chain_link : chained = true -> forall r, 1 <= r -> b_prev (chain r) = b_sig (chain (r - 1)).
  (* only beacons of rounds >= 1 verify, and a verifying beacon carries THE signature of its
     round (BLS uniqueness + fork freedom, C02/C03) *)
  Hypothesis vfy_pos : forall b, vfy b = true -> 1 <= b_round b.
  Hypothesis vfy_sig : forall b, vfy b = true -> b_sig b = b_sig (chain (b_round b)).
  (* needed only where no appendStore guards the round (the follow stack): on the chained
     scheme the signed message contains the previous signature, and signatures of different
     rounds differ *)
  Hypothesis vfy_prev : sk = SkFollow -> chained = true ->
    forall b, vfy b = true -> b_prev b = b_sig (chain (b_round b - 1)).
  Hypothesis sig_inj : sk = SkFollow -> chained = true ->
    forall r r', 0 <= r -> 0 <= r' -> b_sig (chain r) = b_sig (chain r') -> r = r'.

  Definition cinv (st : store) : Prop :=
    wf st /\ 0 <= hd st /\ b_sig (s_wlast st) = b_sig (chain (hd st)).

  Definition ordered_stack : Prop := sk = SkAppend \/ chained = true.

  Lemma cinv_put_round : forall st b st', cinv st -> vfy b = true -> b_round b = hd st + 1 ->
    stack_put chained bk sk st b = inr st' ->
    cinv st' /\ s_base st' = store_form chained b :: s_base st /\ hd st' = hd st + 1.
  Proof.
    intros st b st' [Hw [H0 Hs]] Hv Hr Hp. apply stack_put_inr in Hp. destruct Hp as [Hst' _].
    unfold wf in Hw.
    assert (Hput : raw_put bk (s_base st) (store_form chained b) = store_form chained b :: s_base st).
    { eapply raw_put_above; [exact Hw|]. rewrite store_form_round. unfold hd in Hr. lia. }
    subst st'. unfold cinv, wf, hd in *. simpl. rewrite Hput, store_form_round, store_form_sig.
    repeat split; try lia.
    - eapply raw_last_cons_above; [exact Hw|]. rewrite store_form_round. lia.
    - apply vfy_sig. exact Hv.
  Qed.

  Lemma cinv_put : forall st b st', ordered_stack -> cinv st -> vfy b = true ->
    stack_put chained bk sk st b = inr st' ->
    b_round b = hd st + 1 /\ cinv st' /\ s_base st' = store_form chained b :: s_base st.
  Proof.
    intros st b st' Hord Hc Hv Hp.
    assert (Hr : b_round b = hd st + 1).
    { pose proof (stack_put_inr _ _ _ _ _ _ Hp) as [_ [Ha Hpv]].
      destruct (stack_cases sk) as [Hsk|Hsk]; [apply Ha; exact Hsk|].
      destruct Hord as [Ho|Hch]; [congruence|].
      destruct Hc as [_ [H0 Hs]].
      pose proof (vfy_prev Hsk Hch b Hv) as P1. rewrite (Hpv Hch), Hs in P1.
      pose proof (vfy_pos b Hv).
      pose proof (sig_inj Hsk Hch (hd st) (b_round b - 1) H0 ltac:(lia) P1). lia. }
    destruct (cinv_put_round _ _ _ Hc Hv Hr Hp) as [A [B _]]. auto.
  Qed.

  (* a stream whose writes stay in chain order: always so under an append store or a chained
     scheme; otherwise (follow stack, unchained scheme) only if it carries no verifying packet *)
  Definition orderly_stream (l : list elem) : Prop :=
    ordered_stack \/ forall m b, In (Pkt m b) l -> m = MdOther \/ vfy b = false.
  Definition quiet_stream (l : list elem) : Prop := ~ In Stall l.

  Definition orderly (p : peer) : Prop := p_self p = true \/ forall f, orderly_stream (p_stream p f).
  Definition quiet (p : peer) : Prop := p_self p = true \/ forall f, quiet_stream (p_stream p f).
  (* the peers an attempt gets through without blocking *)
  Definition tolerated (p : peer) : Prop := orderly p /\ quiet p.

  (* serves the honest chain from round f through upTo, then anything *)
  Inductive serves (upTo : Z) : Z -> list elem -> Prop :=
  | serves_last : forall m tl, m <> MdOther -> serves upTo upTo (Pkt m (chain upTo) :: tl)
  | serves_step : forall f m tl, f < upTo -> m <> MdOther -> serves upTo (f + 1) tl ->
      serves upTo f (Pkt m (chain f) :: tl).

  Definition honest (lo upTo : Z) (p : peer) : Prop :=
    p_self p = false /\ p_reach p = true /\
    forall f, lo <= f <= upTo -> serves upTo f (p_stream p f).

  (* outcome of one tryNode / one Sync *)
  Definition reached (upTo : Z) (st' : store) (ws : list beacon) : Prop :=
    hd st' = upTo /\ exists w, In w ws /\ b_round w = upTo.
  Definition short (upTo : Z) (st st' : store) (ws : list beacon) : Prop :=
    hd st <= hd st' < upTo /\ Forall (fun w => b_round w < upTo) ws.

  Definition tn_outcome (upTo : Z) (st : store) (o : tn_out) : Prop :=
    cinv (tn_st o) /\
    ((tn_r o = TnOk /\ reached upTo (tn_st o) (tn_ws o)) \/
     (tn_r o <> TnOk /\ short upTo st (tn_st o) (tn_ws o))).

  Lemma tn_any : forall upTo l st, cinv st -> hd st < upTo -> orderly_stream l ->
    tn_outcome upTo st (tn_loop vfy chained bk sk false upTo st l).
  Proof.
    intros upTo. induction l as [|e l IH]; intros st Hc Hlt Hg.
    - unfold tn_outcome, short; simpl. split; [exact Hc|]. right. split; [discriminate|]. split; [lia|constructor].
    - assert (Hfail : forall r, r <> TnOk -> tn_outcome upTo st (mkTn r st [])).
      { intros r Hr. unfold tn_outcome, short; simpl. split; [exact Hc|]. right. split; [exact Hr|]. split; [lia|constructor]. }
      destruct e as [m b| |].
      + assert (Hg' : orderly_stream l).
        { destruct Hg as [Hg|Hg]; [left; exact Hg|right]. intros m' b' Hin. apply Hg. right. exact Hin. }
        assert (Hmain : let o :=
          (if negb (vfy b) then mkTn TnFail st []
           else match stack_put chained bk sk st b with
                | inr st' =>
                    if b_round b =? upTo then mkTn TnOk st' [b]
                    else mkTn (tn_r (tn_loop vfy chained bk sk false upTo st' l))
                              (tn_st (tn_loop vfy chained bk sk false upTo st' l))
                              (b :: tn_ws (tn_loop vfy chained bk sk false upTo st' l))
                | inl EAlready => mkTn (if b_round b =? upTo then TnOk else TnFail) st []
                | inl _ => mkTn TnFail st []
                end) in
          m <> MdOther -> tn_outcome upTo st o).
        { intros o Hm. subst o. destruct (vfy b) eqn:Hv; simpl negb; cbv iota; [|apply Hfail; discriminate].
          assert (Hord : ordered_stack).
          { destruct Hg as [Hg|Hg]; [exact Hg|]. destruct (Hg m b (or_introl eq_refl)) as [G|G]; [contradiction|congruence]. }
          destruct (stack_put chained bk sk st b) as [e|st'] eqn:Hp.
          - destruct e; try (apply Hfail; discriminate).
            apply stack_put_already in Hp.
            replace (b_round b =? upTo) with false by (symmetry; apply Z.eqb_neq; lia). apply Hfail; discriminate.
          - destruct (cinv_put _ _ _ Hord Hc Hv Hp) as [Hr [Hc' Hb']].
            destruct (cinv_put_round _ _ _ Hc Hv Hr Hp) as [_ [_ Hhd']].
            unfold tn_outcome, short, reached in *.
            destruct (b_round b =? upTo) eqn:Eu.
            + apply Z.eqb_eq in Eu. simpl. split; [exact Hc'|]. left. split; [reflexivity|].
              split; [lia|]. exists b. split; [left; reflexivity|exact Eu].
            + apply Z.eqb_neq in Eu.
              assert (Hlt' : hd st' < upTo) by lia.
              specialize (IH st' Hc' Hlt' Hg'). simpl in IH. simpl.
              destruct IH as [I1 [[I2 [I3 [w [I4 I5]]]]|[I2 [I3 I4]]]].
              * split; [exact I1|]. left. split; [exact I2|]. split; [exact I3|].
                exists w. split; [right; exact I4|exact I5].
              * split; [exact I1|]. right. split; [exact I2|]. split; [lia|].
                constructor; [lia|exact I4]. }
        simpl. destruct m; [apply Hmain; discriminate|apply Hmain; discriminate|apply Hfail; discriminate].
      + simpl. apply Hfail; discriminate.
      + simpl. apply Hfail; discriminate.
  Qed.

  Lemma tn_honest : forall upTo f l, serves upTo f l ->
    forall st, cinv st -> hd st + 1 = f ->
    let o := tn_loop vfy chained bk sk false upTo st l in
    cinv (tn_st o) /\ tn_r o = TnOk /\ reached upTo (tn_st o) (tn_ws o).
  Proof.
    intros upTo f l Hs. induction Hs as [m tl Hm|f m tl Hlt Hm Hs IH]; intros st Hc Hf.
    - assert (H1 : 1 <= upTo) by (destruct Hc as [_ [H0 _]]; lia).
      assert (Hp : stack_put chained bk sk st (chain upTo) =
                   inr (mkS (raw_put bk (s_base st) (store_form chained (chain upTo))) (store_form chained (chain upTo)))).
      { apply stack_put_ok.
        - intros _. rewrite chain_round. lia.
        - intro Hch. rewrite (chain_link Hch upTo H1). destruct Hc as [_ [_ Hsig]].
          rewrite Hsig. f_equal. f_equal. lia. }
      pose proof (cinv_put_round _ _ _ Hc (chain_vfy upTo H1) ltac:(rewrite chain_round; lia) Hp) as [Hc' [_ Hhd']].
      simpl. rewrite (chain_vfy upTo H1). simpl. rewrite Hp, chain_round, Z.eqb_refl.
      destruct m; try contradiction; simpl;
        (split; [exact Hc'|]; split; [reflexivity|]; split; [lia|];
         exists (chain upTo); split; [left; reflexivity|apply chain_round]).
    - assert (H1 : 1 <= f) by (destruct Hc as [_ [H0 _]]; lia).
      assert (Hp : stack_put chained bk sk st (chain f) =
                   inr (mkS (raw_put bk (s_base st) (store_form chained (chain f))) (store_form chained (chain f)))).
      { apply stack_put_ok.
        - intros _. rewrite chain_round. lia.
        - intro Hch. rewrite (chain_link Hch f H1). destruct Hc as [_ [_ Hsig]].
          rewrite Hsig. f_equal. f_equal. lia. }
      pose proof (cinv_put_round _ _ _ Hc (chain_vfy f H1) ltac:(rewrite chain_round; lia) Hp) as [Hc' [_ Hhd']].
      specialize (IH _ Hc' ltac:(lia)). simpl in IH. destruct IH as [I1 [I2 [I3 [w [I4 I5]]]]].
      simpl. rewrite (chain_vfy f H1). simpl. rewrite Hp, chain_round.
      replace (f =? upTo) with false by (symmetry; apply Z.eqb_neq; lia).
      destruct m; try contradiction; simpl;
        (split; [exact I1|]; split; [exact I2|]; split; [exact I3|];
         exists w; split; [right; exact I4|exact I5]).
  Qed.

  Definition sy_outcome (upTo : Z) (st : store) (o : sync_out) : Prop :=
    cinv (sy_st o) /\
    ((sy_r o = SyncOk /\ reached upTo (sy_st o) (sy_ws o)) \/
     (sy_r o <> SyncOk /\ short upTo st (sy_st o) (sy_ws o))).

  (* any attempt, blocking or not, keeps the store a prefix of the honest chain below upTo *)
  Lemma sync_any : forall upTo ps st, Forall orderly ps -> cinv st -> hd st < upTo ->
    sy_outcome upTo st (sync_loop vfy chained bk sk 0 upTo st ps).
  Proof.
    intros upTo. induction ps as [|p ps IH]; intros st Hall Hc Hlt.
    - unfold sy_outcome, short; simpl. split; [exact Hc|]. right. split; [discriminate|]. split; [lia|constructor].
    - inversion Hall as [|? ? Hp Hps]; subst. simpl.
      destruct (p_self p) eqn:Hself; [apply IH; assumption|].
      destruct Hp as [Hp|Hp]; [congruence|].
      rewrite (try_node_from0 vfy chained bk sk upTo st p (proj1 Hc)).
      destruct (negb (p_reach p)); simpl.
      + specialize (IH st Hps Hc Hlt). exact IH.
      + pose proof (tn_any upTo (p_stream p (hd st + 1)) st Hc Hlt (Hp _)) as T.
        unfold tn_outcome in T. unfold sy_outcome.
        destruct T as [T1 [[T2 T3]|[T2 [T3 T4]]]].
        * rewrite T2. simpl. split; [exact T1|]. left. split; [reflexivity|exact T3].
        * destruct (tn_r (tn_loop vfy chained bk sk false upTo st (p_stream p (hd st + 1)))) eqn:Er;
            [contradiction| |]; simpl.
          -- specialize (IH _ Hps T1 ltac:(lia)). unfold sy_outcome, reached, short in *.
             destruct IH as [I1 [[I2 [I3 [w [I4 I5]]]]|[I2 [I3 I4]]]].
             ++ split; [exact I1|]. left. split; [exact I2|]. split; [exact I3|].
                exists w. split; [apply in_or_app; right; exact I4|exact I5].
             ++ split; [exact I1|]. right. split; [exact I2|]. split; [lia|].
                apply Forall_app. split; assumption.
          -- split; [exact T1|]. right. split; [discriminate|]. split; assumption.
  Qed.

  Lemma tn_quiet : forall resync upTo l st, quiet_stream l ->
    tn_r (tn_loop vfy chained bk sk resync upTo st l) <> TnBlocked.
  Proof.
    intros resync upTo. induction l as [|e l IH]; intros st Hq; simpl; [discriminate|].
    assert (Hq' : quiet_stream l) by (intro; apply Hq; right; assumption).
    destruct e as [m b| |]; [|exfalso; apply Hq; left; reflexivity|discriminate].
    assert (Hmain : tn_r
        (if negb (vfy b) then mkTn TnFail st []
         else if resync then
           if b_round b =? upTo then mkTn TnOk (insecure_put bk st b) [b]
           else mkTn (tn_r (tn_loop vfy chained bk sk resync upTo (insecure_put bk st b) l))
                     (tn_st (tn_loop vfy chained bk sk resync upTo (insecure_put bk st b) l))
                     (b :: tn_ws (tn_loop vfy chained bk sk resync upTo (insecure_put bk st b) l))
         else match stack_put chained bk sk st b with
              | inr st' =>
                  if b_round b =? upTo then mkTn TnOk st' [b]
                  else mkTn (tn_r (tn_loop vfy chained bk sk resync upTo st' l))
                            (tn_st (tn_loop vfy chained bk sk resync upTo st' l))
                            (b :: tn_ws (tn_loop vfy chained bk sk resync upTo st' l))
              | inl EAlready => mkTn (if b_round b =? upTo then TnOk else TnFail) st []
              | inl _ => mkTn TnFail st []
              end) <> TnBlocked).
    { destruct (negb (vfy b)); [discriminate|].
      destruct resync.
      - destruct (b_round b =? upTo); [discriminate|]. simpl. apply IH; exact Hq'.
      - destruct (stack_put chained bk sk st b) as [e|st'].
        + destruct e; simpl; try discriminate. destruct (b_round b =? upTo); discriminate.
        + destruct (b_round b =? upTo); [discriminate|]. simpl. apply IH; exact Hq'. }
    destruct m; try exact Hmain; discriminate.
  Qed.

  Lemma sync_quiet : forall from upTo ps st, Forall quiet ps ->
    forall e, sy_r (sync_loop vfy chained bk sk from upTo st ps) <> SyncBlocked e.
  Proof.
    intros from upTo. induction ps as [|p ps IH]; intros st Hall e; simpl; [discriminate|].
    inversion Hall as [|? ? Hp Hps]; subst.
    destruct (p_self p) eqn:Hself; [apply IH; assumption|].
    destruct Hp as [Hp|Hp]; [congruence|].
    destruct (tn_r (tn2 (try_node vfy chained bk sk from upTo st p))) eqn:Er; simpl.
    - discriminate.
    - apply IH; assumption.
    - exfalso. unfold try_node in Er.
      destruct (raw_last (s_base st)); [|discriminate].
      destruct (negb (from =? 0) && (upTo <? from)); [discriminate|].
      destruct (negb (p_reach p)); [discriminate|]. simpl in Er.
      eapply tn_quiet; [apply Hp|exact Er].
  Qed.

  Lemma sync_loop_err : forall from upTo ps st e,
    sy_r (sync_loop vfy chained bk sk from upTo st ps) = SyncErr e -> e = EFailedAll.
  Proof.
    intros from upTo. induction ps as [|p ps IH]; intros st e; simpl.
    - intro H; inversion H; reflexivity.
    - destruct (p_self p); [apply IH|].
      destruct (tn_r (tn2 (try_node vfy chained bk sk from upTo st p))); simpl; try discriminate.
      apply IH.
  Qed.

  Lemma Forall_tolerated : forall ps, Forall tolerated ps -> Forall orderly ps /\ Forall quiet ps.
  Proof.
    induction ps as [|p ps IH]; intro H; [split; constructor|].
    inversion H as [|? ? [Ho Hq] Hps]; subst. destruct (IH Hps). split; constructor; assumption.
  Qed.

  (* tolerated peers only: the attempt returns, either at the target or with ErrFailedAll *)
  Lemma sync_tolerated : forall upTo ps st, Forall tolerated ps -> cinv st -> hd st < upTo ->
    let o := sync_loop vfy chained bk sk 0 upTo st ps in
    cinv (sy_st o) /\
    ((sy_r o = SyncOk /\ reached upTo (sy_st o) (sy_ws o)) \/
     (sy_r o = SyncErr EFailedAll /\ short upTo st (sy_st o) (sy_ws o))).
  Proof.
    intros upTo ps st Hall Hc Hlt. destruct (Forall_tolerated _ Hall) as [Ho Hq].
    pose proof (sync_any upTo ps st Ho Hc Hlt) as [S1 [[S2 S3]|[S2 S3]]]; simpl.
    - split; [exact S1|]. left. auto.
    - split; [exact S1|]. right. split; [|exact S3].
      destruct (sy_r (sync_loop vfy chained bk sk 0 upTo st ps)) as [|e|e] eqn:Er.
      + contradiction.
      + rewrite (sync_loop_err _ _ _ _ _ Er). reflexivity.
      + exfalso. eapply sync_quiet; [exact Hq|exact Er].
  Qed.

  Lemma sync_converges : forall upTo pre h post st,
    Forall tolerated pre -> honest 1 upTo h -> cinv st -> hd st < upTo ->
    let o := sync_loop vfy chained bk sk 0 upTo st (pre ++ h :: post) in
    cinv (sy_st o) /\ sy_r o = SyncOk /\ reached upTo (sy_st o) (sy_ws o).
  Proof.
    intros upTo. induction pre as [|p pre IH]; intros h post st Hall Hh Hc Hlt.
    - destruct Hh as [Hself [Hreach Hserve]]. simpl. rewrite Hself.
      rewrite (try_node_from0 vfy chained bk sk upTo st h (proj1 Hc)). rewrite Hreach. simpl.
      assert (Hrange : 1 <= hd st + 1 <= upTo) by (destruct Hc as [_ [H0 _]]; lia).
      pose proof (tn_honest upTo _ _ (Hserve _ Hrange) st Hc eq_refl) as T. simpl in T.
      destruct T as [T1 [T2 T3]]. rewrite T2. simpl. auto.
    - inversion Hall as [|? ? [Hpo Hpq] Hps]; subst. simpl.
      destruct (p_self p) eqn:Hself; [apply IH; assumption|].
      destruct Hpo as [Hpo|Hpo]; [congruence|]. destruct Hpq as [Hpq|Hpq]; [congruence|].
      rewrite (try_node_from0 vfy chained bk sk upTo st p (proj1 Hc)).
      destruct (negb (p_reach p)); simpl.
      + specialize (IH h post st Hps Hh Hc Hlt). simpl in IH. exact IH.
      + pose proof (tn_any upTo (p_stream p (hd st + 1)) st Hc Hlt (Hpo _)) as T.
        pose proof (tn_quiet false upTo (p_stream p (hd st + 1)) st (Hpq _)) as Q.
        unfold tn_outcome in T.
        destruct T as [T1 [[T2 T3]|[T2 [T3 T4]]]].
        * rewrite T2. simpl. auto.
        * destruct (tn_r (tn_loop vfy chained bk sk false upTo st (p_stream p (hd st + 1)))) eqn:Er;
            [contradiction| |contradiction]; simpl.
          specialize (IH h post _ Hps Hh T1 ltac:(lia)). simpl in IH.
          destruct IH as [I1 [I2 [I3 [w [I4 I5]]]]].
          split; [exact I1|]. split; [exact I2|]. split; [exact I3|].
          exists w. split; [apply in_or_app; right; exact I4|exact I5].
  Qed.

  Lemma head_of_hd : forall st, wf st -> head_of (s_base st) = hd st.
  Proof. intros st H. unfold head_of, hd. rewrite H. reflexivity. Qed.

  (* Run: blocked or failed attempts are renewed; the first attempt that reaches an honest peer
     through tolerated ones ends the catch-up *)
  Lemma run_converges : forall upTo fails pre h post rest st,
    Forall (Forall orderly) fails -> Forall tolerated pre -> honest 1 upTo h ->
    cinv st -> hd st < upTo -> 0 < upTo ->
    let o := run_attempts vfy chained bk sk upTo st (fails ++ (pre ++ h :: post) :: rest) in
    cinv (sy_st o) /\ sy_r o = SyncOk /\ hd (sy_st o) = upTo.
  Proof.
    intros upTo. induction fails as [|a fails IH]; intros pre h post rest st Hf Hpre Hh Hc Hlt Hpos; simpl.
    - rewrite (head_of_hd st (proj1 Hc)).
      replace ((0 <? upTo) && (upTo <=? hd st)) with false
        by (symmetry; apply andb_false_iff; right; apply Z.leb_gt; lia).
      pose proof (sync_converges upTo pre h post st Hpre Hh Hc Hlt) as S. simpl in S.
      destruct S as [S1 [S2 [S3 _]]]. rewrite S2. auto.
    - inversion Hf as [|? ? Ha Hfs]; subst.
      rewrite (head_of_hd st (proj1 Hc)).
      replace ((0 <? upTo) && (upTo <=? hd st)) with false
        by (symmetry; apply andb_false_iff; right; apply Z.leb_gt; lia).
      pose proof (sync_any upTo a st Ha Hc Hlt) as [S1 [[S2 [S3 _]]|[S2 [S3 _]]]].
      + rewrite S2. auto.
      + specialize (IH pre h post rest _ Hfs Hpre Hh S1 ltac:(lia) Hpos). simpl in IH.
        destruct (sy_r (sync_loop vfy chained bk sk 0 upTo st a)); [contradiction| |]; simpl; exact IH.
  Qed.
End CHAIN.

(* ---------------------------------------------------------------------------------------- *)
(* CheckPastBeacons is exact                                                                  *)

Section CHECK.
  Variable vfy : beacon -> bool.

  (* round r cannot be read back, or what is read back does not verify *)
  Definition faultyb (base : raw) (r : Z) : bool :=
    match raw_get base r with None => true | Some b => negb (vfy b) end.

  Lemma check_loop_filter : forall base n i,
    check_loop vfy base n i = filter (faultyb base) (zseq i n).
  Proof.
    intros base. induction n as [|n IH]; intro i; simpl; [reflexivity|].
    unfold faultyb at 1. destruct (raw_get base i) as [b|] eqn:E.
    - apply raw_get_in in E. destruct E as [_ Er].
      destruct (vfy b); simpl; rewrite IH; [reflexivity|]. rewrite Er. reflexivity.
    - simpl. rewrite IH. reflexivity.
  Qed.

  Lemma check_past_exact : forall upTo st last, raw_last (s_base st) = Some last ->
    check_past vfy upTo st =
      Some (filter (faultyb (s_base st)) (zseq 1 (Z.to_nat (Z.min upTo (b_round last))))).
  Proof.
    intros upTo st last H. unfold check_past. rewrite H. rewrite check_loop_filter.
    f_equal. f_equal. f_equal. f_equal.
    destruct (b_round last <? upTo) eqn:E; [apply Z.ltb_lt in E|apply Z.ltb_ge in E]; lia.
  Qed.

  Lemma filter_zseq_sorted : forall (f : Z -> bool) n i,
    StronglySorted Z.lt (filter f (zseq i n)).
  Proof.
    intros f. induction n as [|n IH]; intro i; simpl; [constructor|].
    destruct (f i); [|apply IH].
    constructor; [apply IH|].
    apply Forall_forall. intros x Hx. apply filter_In in Hx. destruct Hx as [Hx _].
    apply zseq_in in Hx. lia.
  Qed.

  Lemma filter_zseq_in : forall (f : Z -> bool) n i r,
    In r (filter f (zseq i n)) <-> i <= r < i + Z.of_nat n /\ f r = true.
  Proof. intros. rewrite filter_In, zseq_in. tauto. Qed.
End CHECK.

(* ---------------------------------------------------------------------------------------- *)
(* CorrectPastBeacons: never damages a valid round; restores the listed rounds when an honest *)
(* peer is reached (on back-ends whose Put overwrites)                                        *)

Section REPAIR.
  Variable vfy : beacon -> bool.
  Variable chained : bool.
  Variable bk : backend.
  Variable sk : stack.
  Variable chain : Z -> beacon.
  Hypothesis chain_round : forall r, b_round (chain r) = r.
  Hypothesis chain_vfy : forall r, 1 <= r -> vfy (chain r) = true.
  Hypothesis vfy_sig : forall b, vfy b = true -> b_sig b = b_sig (chain (b_round b)).

  Definition valid_at (base : raw) (r : Z) : Prop :=
    exists b, raw_get base r = Some b /\ vfy b = true.

  (* one re-sync write: Del + Put *)
  Definition replace (base : raw) (w : beacon) : raw := apply_write bk true base w.

  Lemma replace_get_same : forall base w, raw_get (replace base w) (b_round w) = Some w.
  Proof.
    intros base w. unfold replace, apply_write. destruct bk; simpl.
    - rewrite Z.eqb_refl. reflexivity.
    - rewrite raw_get_del_same. simpl. rewrite Z.eqb_refl. reflexivity.
  Qed.

  Lemma replace_get_other : forall base w r, b_round w <> r ->
    raw_get (replace base w) r = raw_get base r.
  Proof.
    intros base w r H. unfold replace, apply_write.
    rewrite (raw_get_put_other bk _ w r H). apply raw_get_del_other. exact H.
  Qed.

  Lemma replace_keeps_valid : forall base w r b, vfy w = true ->
    raw_get base r = Some b -> vfy b = true ->
    exists b', raw_get (replace base w) r = Some b' /\ vfy b' = true /\ b_sig b' = b_sig b.
  Proof.
    intros base w r b Hw Hg Hb. destruct (Z.eq_dec (b_round w) r) as [E|E].
    - exists w. subst r. rewrite replace_get_same. split; [reflexivity|]. split; [exact Hw|].
      apply raw_get_in in Hg. destruct Hg as [_ Hr].
      rewrite (vfy_sig w Hw), (vfy_sig b Hb). congruence.
    - rewrite (replace_get_other base w r E). exists b. auto.
  Qed.

  Lemma fold_keeps_valid : forall ws base r b, Forall (fun w => vfy w = true) ws ->
    raw_get base r = Some b -> vfy b = true ->
    exists b', raw_get (fold_left replace ws base) r = Some b' /\ vfy b' = true /\ b_sig b' = b_sig b.
  Proof.
    induction ws as [|w ws IH]; intros base r b Hall Hg Hb; simpl.
    - exists b. auto.
    - inversion Hall as [|? ? Hw Hws]; subst.
      destruct (replace_keeps_valid base w r b Hw Hg Hb) as [b1 [G1 [V1 S1]]].
      destruct (IH _ r b1 Hws G1 V1) as [b2 [G2 [V2 S2]]].
      exists b2. split; [exact G2|]. split; [exact V2|congruence].
  Qed.

  Lemma fold_keeps_valid_at : forall ws base r, Forall (fun w => vfy w = true) ws ->
    valid_at base r -> valid_at (fold_left replace ws base) r.
  Proof.
    intros ws base r Hall [b [Hg Hb]].
    destruct (fold_keeps_valid ws base r b Hall Hg Hb) as [b' [G [V _]]]. exists b'. auto.
  Qed.

  (* on every back-end a re-sync write of a verifying beacon makes its round valid *)
  Lemma put_valid_at : forall base w, vfy w = true -> valid_at (replace base w) (b_round w).
  Proof. intros base w Hw. exists w. split; [apply replace_get_same|exact Hw]. Qed.

  Lemma replace_nonempty : forall base w, replace base w <> [].
  Proof. intros base w. unfold replace, apply_write. apply raw_put_never_empty. Qed.

  Lemma fold_nonempty : forall ws base, base <> [] -> fold_left replace ws base <> [].
  Proof.
    induction ws as [|w ws IH]; intros base H; simpl; [exact H|].
    apply IH. apply replace_nonempty.
  Qed.

  Lemma map_stored_true : forall ws, map (stored_of chained true) ws = ws.
  Proof. induction ws; simpl; congruence. Qed.

  (* tryNode in resync mode, any quiet stream: success means the target round is valid now *)
  Lemma tn_resync_any : forall r l st, quiet_stream l ->
    let o := tn_loop vfy chained bk sk true r st l in
    (tn_r o = TnOk /\ valid_at (s_base (tn_st o)) r) \/ tn_r o = TnFail.
  Proof.
    intros r. induction l as [|e l IH]; intros st Hq; simpl.
    - right. reflexivity.
    - assert (Hq' : quiet_stream l) by (intro; apply Hq; right; assumption).
      destruct e as [m b| |]; [|exfalso; apply Hq; left; reflexivity|right; reflexivity].
      assert (Hmain : let o :=
          (if negb (vfy b) then mkTn TnFail st []
           else if b_round b =? r then mkTn TnOk (insecure_put bk st b) [b]
           else mkTn (tn_r (tn_loop vfy chained bk sk true r (insecure_put bk st b) l))
                     (tn_st (tn_loop vfy chained bk sk true r (insecure_put bk st b) l))
                     (b :: tn_ws (tn_loop vfy chained bk sk true r (insecure_put bk st b) l))) in
          (tn_r o = TnOk /\ valid_at (s_base (tn_st o)) r) \/ tn_r o = TnFail).
      { destruct (vfy b) eqn:Hv; simpl; [|right; reflexivity].
        destruct (b_round b =? r) eqn:E; simpl.
        - apply Z.eqb_eq in E. left. split; [reflexivity|]. subst r.
          exact (put_valid_at (s_base st) b Hv).
        - apply (IH (insecure_put bk st b) Hq'). }
      destruct m; try exact Hmain; right; reflexivity.
  Qed.

  Definition quiet_peer (p : peer) : Prop := p_self p = true \/ forall f, quiet_stream (p_stream p f).

  (* an honest peer answers a request from round r with the chain's round r first *)
  Definition honest_at (r : Z) (p : peer) : Prop :=
    p_self p = false /\ p_reach p = true /\
    exists m tl, p_stream p r = Pkt m (chain r) :: tl /\ m <> MdOther.

  Lemma sync_resync_honest : forall r pre h post st, 1 <= r ->
    Forall quiet_peer pre -> honest_at r h -> s_base st <> [] ->
    let o := sync_loop vfy chained bk sk r r st (pre ++ h :: post) in
    sy_r o = SyncOk /\ valid_at (s_base (sy_st o)) r.
  Proof.
    intros r. induction pre as [|p pre IH]; intros h post st H1 Hall Hh Hne.
    - destruct Hh as [Hself [Hreach [m [tl [Hs Hm]]]]]. simpl. rewrite Hself. unfold try_node.
      destruct (raw_last_some _ Hne) as [last Hl]. rewrite Hl.
      replace (negb (r =? 0) && (r <? r)) with false
        by (symmetry; apply andb_false_iff; right; apply Z.ltb_ge; lia).
      rewrite Hreach. simpl.
      replace (r =? 0) with false by (symmetry; apply Z.eqb_neq; lia).
      replace (0 <? r) with true by (symmetry; apply Z.ltb_lt; lia).
      rewrite Hs. simpl. rewrite (chain_vfy r H1). simpl. rewrite chain_round, Z.eqb_refl.
      assert (Hv : valid_at (s_base (insecure_put bk st (chain r))) r).
      { pose proof (put_valid_at (s_base st) (chain r) (chain_vfy r H1)) as P.
        rewrite chain_round in P. exact P. }
      destruct m; try contradiction; simpl; auto.
    - inversion Hall as [|? ? Hp Hps]; subst. simpl.
      destruct (p_self p) eqn:Hself; [apply IH; assumption|].
      destruct Hp as [Hp|Hp]; [congruence|].
      unfold try_node. destruct (raw_last_some _ Hne) as [last Hl]. rewrite Hl.
      replace (negb (r =? 0) && (r <? r)) with false
        by (symmetry; apply andb_false_iff; right; apply Z.ltb_ge; lia).
      replace (r =? 0) with false by (symmetry; apply Z.eqb_neq; lia).
      replace (0 <? r) with true by (symmetry; apply Z.ltb_lt; lia).
      destruct (negb (p_reach p)); simpl.
      + apply IH; assumption.
      + pose proof (tn_resync_any r (p_stream p r) st (Hp r)) as T. simpl in T.
        pose proof (tn_loop_generic vfy chained bk sk true r (p_stream p r) st) as [G1 [G2 _]].
        destruct T as [[T1 T2]|T1]; rewrite T1; simpl.
        * auto.
        * assert (Hne' : s_base (tn_st (tn_loop vfy chained bk sk true r st (p_stream p r))) <> []).
          { rewrite G2, map_stored_true. apply fold_nonempty. exact Hne. }
          specialize (IH h post _ H1 Hps Hh Hne'). simpl in IH. exact IH.
  Qed.

  Definition job_ok (j : Z * (list peer * list peer)) : Prop :=
    1 <= fst j /\
    exists pre h post, fst (snd j) = pre ++ h :: post /\ Forall quiet_peer pre /\ honest_at (fst j) h.

  Lemma correct_past_repairs : forall jobs st,
    s_base st <> [] -> (forall j, In j jobs -> job_ok j) ->
    let o := correct_past vfy chained bk sk st jobs in
    co_r o = CorrOk /\ forall j, In j jobs -> valid_at (s_base (co_st o)) (fst j).
  Proof.
    induction jobs as [|[r [a1 a2]] js IH]; intros st Hne Hjobs; simpl.
    - split; [reflexivity|]. intros j [].
    - destruct (Hjobs (r, (a1, a2)) (or_introl eq_refl)) as [H1 [pre [h [post [Ha [Hq Hh]]]]]].
      simpl in H1, Ha, Hh. subst a1.
      pose proof (sync_resync_honest r pre h post st H1 Hq Hh Hne) as [S1 S2].
      assert (Hres : resync vfy chained bk sk r r st (pre ++ h :: post) a2 =
                     sync_loop vfy chained bk sk r r st (pre ++ h :: post)).
      { unfold resync. replace (r =? 0) with false by (symmetry; apply Z.eqb_neq; lia).
        rewrite S1. reflexivity. }
      rewrite Hres, S1.
      pose proof (sync_loop_generic vfy chained bk sk r r (pre ++ h :: post) st) as [G1 [G2 _]].
      replace (0 <? r) with true in G2 by (symmetry; apply Z.ltb_lt; lia).
      rewrite map_stored_true in G2.
      set (st1 := sy_st (sync_loop vfy chained bk sk r r st (pre ++ h :: post))) in *.
      assert (Hne1 : s_base st1 <> []) by (rewrite G2; apply fold_nonempty; exact Hne).
      specialize (IH st1 Hne1 (fun j Hj => Hjobs j (or_intror Hj))). simpl in IH. destruct IH as [I1 I2].
      simpl. split; [exact I1|].
      intros j [Hj|Hj]; [|apply I2; exact Hj].
      subst j. simpl.
      assert (Hpos : forall j, In j js -> 0 < fst j).
      { intros j Hj. destruct (Hjobs j (or_intror Hj)) as [J1 _]. lia. }
      pose proof (correct_past_generic vfy chained bk sk js st1 Hpos) as [C1 [C2 _]].
      rewrite map_stored_true in C2. rewrite C2. apply fold_keeps_valid_at; assumption.
  Qed.

  (* whatever the peers do, a round that was valid keeps its signature *)
  Lemma correct_past_no_damage : forall jobs st r b,
    (forall j, In j jobs -> 0 < fst j) ->
    raw_get (s_base st) r = Some b -> vfy b = true ->
    exists b', raw_get (s_base (co_st (correct_past vfy chained bk sk st jobs))) r = Some b' /\
               vfy b' = true /\ b_sig b' = b_sig b.
  Proof.
    intros jobs st r b Hpos Hg Hb.
    pose proof (correct_past_generic vfy chained bk sk jobs st Hpos) as [C1 [C2 _]].
    rewrite map_stored_true in C2. rewrite C2. apply fold_keeps_valid; assumption.
  Qed.
End REPAIR.

(* ---------------------------------------------------------------------------------------- *)
(* StartFollowChain                                                                           *)

Lemma done_fired_reached : forall upTo ws, 1 <= upTo ->
  (exists w, In w ws /\ b_round w = upTo) -> done_fired false upTo ws = true.
Proof.
  intros upTo ws H1 [w [Hin Hr]]. unfold done_fired. simpl. apply existsb_exists.
  exists w. split; [exact Hin|]. apply andb_true_iff. split.
  - apply Z.leb_le. lia.
  - apply negb_true_iff. apply Z.eqb_neq. lia.
Qed.

Lemma done_fired_short : forall keep upTo ws,
  Forall (fun w => b_round w < upTo) ws -> done_fired keep upTo ws = false.
Proof.
  intros keep upTo ws H. unfold done_fired. apply andb_false_iff. right.
  induction H as [|w ws Hw _ IH]; simpl; [reflexivity|].
  rewrite IH. replace (upTo <=? b_round w) with false by (symmetry; apply Z.leb_gt; lia). reflexivity.
Qed.

Lemma info_from_peers_app : forall l a,
  info_from_peers (l ++ [a]) =
    match a with
    | InfoUnreachable => info_from_peers l
    | InfoBad => None
    | InfoIs i => Some i
    end.
Proof. intros l a. unfold info_from_peers. rewrite fold_left_app. simpl. destruct a; reflexivity. Qed.

Section FOLLOWP.
  Variable vfy : beacon -> bool.
  Variable chained : bool.
  Variable bk : backend.
  Variable sk : stack.

  (* every stack Put of the retry loop verifies; the raw store grows by exactly those writes *)
  Lemma follow_loop_generic : forall live keep targ upTo fuel attempts st r st' ws,
    follow_loop chained bk sk vfy live keep targ upTo fuel st attempts = (r, st', ws) ->
    sy_gen vfy chained bk false st st' ws.
  Proof.
    intros live keep targ upTo. induction fuel as [|f IH]; intros attempts st r st' ws H.
    - simpl in H. inversion H; subst. apply sy_gen_refl.
    - destruct attempts as [|a rest]; simpl in H; [inversion H; subst; apply sy_gen_refl|].
      pose proof (sync_loop_generic vfy chained bk sk 0 upTo a st) as G. simpl in G.
      destruct (done_fired keep targ (sy_ws (sync_loop vfy chained bk sk 0 upTo st a))).
      + inversion H; subst. exact G.
      + destruct (sy_r (sync_loop vfy chained bk sk 0 upTo st a)) as [|e|e].
        * inversion H; subst. exact G.
        * destruct live.
          -- destruct (follow_loop chained bk sk vfy true keep targ upTo f
                        (sy_st (sync_loop vfy chained bk sk 0 upTo st a)) rest) as [[r2 st2] ws2] eqn:E.
             inversion H; subst. eapply sy_gen_trans; [exact G|]. eapply IH. exact E.
          -- inversion H; subst. exact G.
        * inversion H; subst. exact G.
  Qed.

  (* writes in chain order, for a stack whose Put only accepts wlast+1 under an invariant *)
  Variable Inv : store -> Prop.
  Hypothesis Inv_put : forall st b st', Inv st -> vfy b = true ->
    stack_put chained bk sk st b = inr st' ->
    b_round b = hd st + 1 /\ Inv st' /\ s_base st' = store_form chained b :: s_base st.

  Lemma follow_loop_inorder : forall live keep targ upTo fuel attempts st r st' ws, Inv st ->
    follow_loop chained bk sk vfy live keep targ upTo fuel st attempts = (r, st', ws) ->
    appended chained Inv st st' ws.
  Proof.
    intros live keep targ upTo. induction fuel as [|f IH]; intros attempts st r st' ws Hc H.
    - simpl in H. inversion H; subst. apply appended_refl; exact Hc.
    - destruct attempts as [|a rest]; simpl in H; [inversion H; subst; apply appended_refl; exact Hc|].
      pose proof (sync_loop_inorder vfy chained bk sk Inv Inv_put upTo a st Hc) as G.
      simpl in G.
      destruct (done_fired keep targ (sy_ws (sync_loop vfy chained bk sk 0 upTo st a))).
      + inversion H; subst. exact G.
      + destruct (sy_r (sync_loop vfy chained bk sk 0 upTo st a)) as [|e|e].
        * inversion H; subst. exact G.
        * destruct live.
          -- destruct (follow_loop chained bk sk vfy true keep targ upTo f
                        (sy_st (sync_loop vfy chained bk sk 0 upTo st a)) rest) as [[r2 st2] ws2] eqn:E.
             inversion H; subst. eapply appended_trans; [exact G|]. eapply IH; [|exact E].
             destruct G as [_ [_ [_ G4]]]. exact G4.
          -- inversion H; subst. exact G.
        * inversion H; subst. exact G.
  Qed.
End FOLLOWP.

Section FOLLOWCONV.
  Variable vfy : beacon -> bool.
  Variable chained : bool.
  Variable bk : backend.
  Variable sk : stack.
  Variable chain : Z -> beacon.
  Hypothesis chain_round : forall r, b_round (chain r) = r.
  Hypothesis chain_vfy : forall r, 1 <= r -> vfy (chain r) = true.
  Hypothesis chain_link : chained = true -> forall r, 1 <= r -> b_prev (chain r) = b_sig (chain (r - 1)).
  Hypothesis vfy_pos : forall b, vfy b = true -> 1 <= b_round b.
  Hypothesis vfy_sig : forall b, vfy b = true -> b_sig b = b_sig (chain (b_round b)).
  Hypothesis vfy_prev : sk = SkFollow -> chained = true ->
    forall b, vfy b = true -> b_prev b = b_sig (chain (b_round b - 1)).
  Hypothesis sig_inj : sk = SkFollow -> chained = true ->
    forall r r', 0 <= r -> 0 <= r' -> b_sig (chain r) = b_sig (chain r') -> r = r'.

  (* with the retry branch live: [length fails] failed attempts (tolerated peers only), then an
     attempt that reaches an honest peer; fuel must cover those attempts *)
  Lemma follow_loop_converges : forall upTo fails pre h post rest fuel st,
    (length fails < fuel)%nat -> 1 <= upTo ->
    Forall (Forall (tolerated vfy chained sk)) fails ->
    Forall (tolerated vfy chained sk) pre -> honest chain 1 upTo h ->
    cinv chain st -> hd st < upTo ->
    exists st' ws,
      follow_loop chained bk sk vfy true false upTo upTo fuel st (fails ++ (pre ++ h :: post) :: rest)
        = (FwDone, st', ws) /\ cinv chain st' /\ hd st' = upTo.
  Proof.
    intros upTo. induction fails as [|a fails IH]; intros pre h post rest fuel st Hfuel H1 Hf Hpre Hh Hc Hlt.
    - destruct fuel as [|f]; [simpl in Hfuel; lia|]. simpl.
      pose proof (sync_converges vfy chained bk sk chain chain_round chain_vfy chain_link vfy_pos vfy_sig
                    vfy_prev sig_inj upTo pre h post st Hpre Hh Hc Hlt) as S.
      simpl in S. destruct S as [S1 [S2 [S3 S4]]].
      rewrite (done_fired_reached upTo _ H1 S4). eauto.
    - destruct fuel as [|f]; [simpl in Hfuel; lia|]. simpl.
      inversion Hf as [|? ? Ha Hfs]; subst.
      pose proof (sync_tolerated vfy chained bk sk chain vfy_pos vfy_sig
                    vfy_prev sig_inj upTo a st Ha Hc Hlt) as S.
      simpl in S. destruct S as [S1 [[S2 [S3 S4]]|[S2 [S3 S4]]]].
      + rewrite (done_fired_reached upTo _ H1 S4). eauto.
      + rewrite (done_fired_short false upTo _ S4), S2.
        assert (Hfuel' : (length fails < f)%nat) by (simpl in Hfuel; lia).
        destruct (IH pre h post rest f _ Hfuel' H1 Hfs Hpre Hh S1 ltac:(lia)) as [st' [ws [E [C1 C2]]]].
        rewrite E. eauto.
  Qed.
End FOLLOWCONV.

(* ---------------------------------------------------------------------------------------- *)
(* Packaging for the property statements                                                      *)

Lemma quiet_tolerated_append : forall vfy chained p, quiet p -> tolerated vfy chained SkAppend p.
Proof.
  intros vfy chained p Hq. split; [|exact Hq].
  right. intro f. left. left. reflexivity.
Qed.

Lemma any_orderly_append : forall vfy chained (ps : list peer), Forall (orderly vfy chained SkAppend) ps.
Proof.
  intros vfy chained ps. apply Forall_forall. intros p _. right. intro f. left. left. reflexivity.
Qed.

(* a symbolic instance of the cryptographic assumptions (non-vacuity of the hypotheses, and
   the carrier of the concrete witnesses): round r's signature is the byte string [r+100] *)
Definition xsig (r : Z) : bytes := [r + 100].
Definition xchain (chained : bool) (r : Z) : beacon :=
  mkB r (if chained && (1 <=? r) then xsig (r - 1) else []) (xsig r).
Definition xvfy (chained : bool) (b : beacon) : bool :=
  (1 <=? b_round b) && bytes_eqb (b_sig b) (xsig (b_round b)) &&
  (negb chained || bytes_eqb (b_prev b) (xsig (b_round b - 1))).

Lemma xinst_laws : forall chained,
  (forall r, b_round (xchain chained r) = r) /\
  (forall r, 1 <= r -> xvfy chained (xchain chained r) = true) /\
  (chained = true -> forall r, 1 <= r -> b_prev (xchain chained r) = b_sig (xchain chained (r - 1))) /\
  (forall b, xvfy chained b = true -> 1 <= b_round b) /\
  (forall b, xvfy chained b = true -> b_sig b = b_sig (xchain chained (b_round b))) /\
  (chained = true -> forall b, xvfy chained b = true -> b_prev b = b_sig (xchain chained (b_round b - 1))) /\
  (forall r r', 0 <= r -> 0 <= r' -> b_sig (xchain chained r) = b_sig (xchain chained r') -> r = r').
Proof.
  intro chained. repeat split.
  - intros r H. unfold xvfy, xchain. cbn [b_round b_sig b_prev].
    replace (1 <=? r) with true by (symmetry; apply Z.leb_le; lia).
    rewrite bytes_eqb_refl. destruct chained; cbn [andb negb orb]; [apply bytes_eqb_refl|reflexivity].
  - intros Hc r H. subst chained. unfold xchain. simpl.
    replace (1 <=? r) with true by (symmetry; apply Z.leb_le; lia). reflexivity.
  - intros b H. unfold xvfy in H. apply andb_true_iff in H. destruct H as [H _].
    apply andb_true_iff in H. destruct H as [H _]. apply Z.leb_le in H. exact H.
  - intros b H. unfold xvfy in H. apply andb_true_iff in H. destruct H as [H _].
    apply andb_true_iff in H. destruct H as [_ H]. apply bytes_eqb_eq in H. exact H.
  - intros Hc b H. subst chained. unfold xvfy in H. apply andb_true_iff in H. destruct H as [_ H].
    simpl in H. apply bytes_eqb_eq in H. exact H.
  - intros r r' _ _ H. unfold xchain, xsig in H. simpl in H. inversion H. lia.
Qed.

(* an honest peer of the symbolic chain: serves rounds from.. (n of them), then keeps the
   channel open *)
Definition xhonest (chained : bool) (n : nat) : peer :=
  mkP false true (fun f => map (fun r => Pkt MdSame (xchain chained r)) (zseq f n) ++ [Stall]).

Lemma xhonest_serves : forall chained n upTo f, f <= upTo -> upTo < f + Z.of_nat n ->
  forall tl, serves (xchain chained) upTo f (map (fun r => Pkt MdSame (xchain chained r)) (zseq f n) ++ tl).
Proof.
  intros chained. induction n as [|n IH]; intros upTo f H1 H2 tl; [simpl in H2; lia|].
  simpl. destruct (Z.eq_dec f upTo) as [E|E].
  - subst f. apply serves_last. discriminate.
  - apply serves_step; [lia|discriminate|]. apply IH; lia.
Qed.

Lemma xhonest_honest : forall chained n upTo, upTo < 1 + Z.of_nat n ->
  honest (xchain chained) 1 upTo (xhonest chained n).
Proof.
  intros chained n upTo H. repeat split. intros f Hf. simpl. apply xhonest_serves; lia.
Qed.

Lemma fresh_store_cinv : forall bk chain g, b_round g = 0 -> b_sig g = b_sig (chain 0) ->
  exists st0, open_store (raw_put bk [] g) = Some st0 /\ cinv chain st0 /\ hd st0 = 0.
Proof.
  intros bk chain g Hr Hs. exists (mkS [g] g).
  assert (raw_put bk [] g = [g]) as -> by (destruct bk; reflexivity).
  split; [reflexivity|]. unfold cinv, wf, hd. simpl. rewrite Hr. repeat split; try lia; try exact Hs.
Qed.

(* ---------------------------------------------------------------------------------------- *)
(* Run with its clock: one request per period                                                 *)

Section TICKS.
  Variable vfy : beacon -> bool.
  Variable chained : bool.
  Variable bk : backend.
  Variable chain : Z -> beacon.
  Hypothesis chain_round : forall r, b_round (chain r) = r.
  Hypothesis chain_vfy : forall r, 1 <= r -> vfy (chain r) = true.
  Hypothesis chain_link : chained = true -> forall r, 1 <= r -> b_prev (chain r) = b_sig (chain (r - 1)).
  Hypothesis vfy_pos : forall b, vfy b = true -> 1 <= b_round b.
  Hypothesis vfy_sig : forall b, vfy b = true -> b_sig b = b_sig (chain (b_round b)).
  Variable factor upTo : Z.
  Hypothesis factor_nonneg : 0 <= factor.
  Hypothesis upTo_pos : 0 < upTo.

  Notation ticks := (run_ticks vfy chained bk SkAppend factor upTo).
  Notation request := (tick_request vfy chained bk SkAppend factor upTo).

  Lemma ticks_reached_stable : forall n now s, cinv chain (tk_st s) -> hd (tk_st s) = upTo ->
    ticks n now s = s.
  Proof.
    induction n as [|n IH]; intros now s Hc Hh; simpl; [reflexivity|].
    assert (E : request (now + 1) s = s).
    { unfold tick_request. rewrite (head_of_hd _ (proj1 Hc)), Hh.
      replace (0 <? upTo) with true by (symmetry; apply Z.ltb_lt; lia).
      rewrite Z.leb_refl. reflexivity. }
    rewrite E. apply IH; assumption.
  Qed.

  Definition due (now : Z) (s : tick_state) : bool :=
    negb (tk_inflight s) || (tk_last s + factor <? now).

  Definition started (now : Z) (s : tick_state) : tick_state :=
    let o := sync_loop vfy chained bk SkAppend 0 upTo (tk_st s)
               (match tk_left s with a :: _ => a | [] => [] end) in
    mkTk (sy_st o) (match sy_r o with SyncBlocked _ => true | _ => false end) now
         (tk_ws s ++ sy_ws o) (tk_reqs s ++ sy_reqs o) (tl (tk_left s)).

  Lemma request_behind : forall now s, cinv chain (tk_st s) -> hd (tk_st s) < upTo ->
    request now s = if due now s then started now s else s.
  Proof.
    intros now s Hc Hlt. unfold tick_request, due, started. rewrite (head_of_hd _ (proj1 Hc)).
    replace (upTo <=? hd (tk_st s)) with false by (symmetry; apply Z.leb_gt; lia).
    rewrite andb_false_r. reflexivity.
  Qed.

  (* [w]: ticks a Sync in flight may still have to wait before a request finds it overdue;
     factor + 1 ticks per attempt that blocks *)
  Lemma ticks_converge : forall fails pre h post rest,
    Forall (tolerated vfy chained SkAppend) pre -> honest chain 1 upTo h ->
    forall (w : nat) s now n,
    cinv chain (tk_st s) -> hd (tk_st s) < upTo ->
    tk_left s = fails ++ (pre ++ h :: post) :: rest ->
    (tk_inflight s = true -> tk_last s + factor - now <= Z.of_nat w) ->
    (w + 1 + length fails * (Z.to_nat factor + 1) <= n)%nat ->
    cinv chain (tk_st (ticks n now s)) /\ hd (tk_st (ticks n now s)) = upTo.
  Proof.
    induction fails as [|a fails IHf]; intros pre h post rest Hpre Hh;
      induction w as [|w IHw]; intros s now n Hc Hlt Hleft Hw Hn;
      (destruct n as [|n]; [simpl in Hn; lia|]); simpl ticks;
      rewrite (request_behind (now + 1) s Hc Hlt);
      destruct (due (now + 1) s) eqn:Hdue.
    - (* good attempt starts *)
      pose proof (sync_converges vfy chained bk SkAppend chain chain_round chain_vfy chain_link vfy_pos vfy_sig
                    (fun H => ltac:(discriminate H)) (fun H => ltac:(discriminate H))
                    upTo pre h post (tk_st s) Hpre Hh Hc Hlt) as [S1 [S2 [S3 _]]].
      assert (C : cinv chain (tk_st (started (now + 1) s)) /\ hd (tk_st (started (now + 1) s)) = upTo).
      { unfold started. rewrite Hleft. simpl. auto. }
      rewrite (ticks_reached_stable n (now + 1) _ (proj1 C) (proj2 C)). exact C.
    - (* w = 0 and not due: impossible *)
      exfalso. unfold due in Hdue. apply orb_false_iff in Hdue. destruct Hdue as [Hin Hnd].
      apply negb_false_iff in Hin. apply Z.ltb_ge in Hnd. specialize (Hw Hin). simpl in Hw. lia.
    - pose proof (sync_converges vfy chained bk SkAppend chain chain_round chain_vfy chain_link vfy_pos vfy_sig
                    (fun H => ltac:(discriminate H)) (fun H => ltac:(discriminate H))
                    upTo pre h post (tk_st s) Hpre Hh Hc Hlt) as [S1 [S2 [S3 _]]].
      assert (C : cinv chain (tk_st (started (now + 1) s)) /\ hd (tk_st (started (now + 1) s)) = upTo).
      { unfold started. rewrite Hleft. simpl. auto. }
      rewrite (ticks_reached_stable n (now + 1) _ (proj1 C) (proj2 C)). exact C.
    - (* still waiting *)
      unfold due in Hdue. apply orb_false_iff in Hdue. destruct Hdue as [Hin Hnd].
      apply negb_false_iff in Hin. apply Z.ltb_ge in Hnd.
      apply IHw; try assumption.
      + intros _. specialize (Hw Hin). rewrite Nat2Z.inj_succ in Hw. lia.
      + simpl in Hn |- *. lia.
    - (* a failing attempt starts *)
      pose proof (sync_any vfy chained bk SkAppend chain vfy_pos vfy_sig
                    (fun H => ltac:(discriminate H)) (fun H => ltac:(discriminate H))
                    upTo a (tk_st s) (any_orderly_append vfy chained a) Hc Hlt) as [S1 [[S2 [S3 _]]|[S2 [S3 _]]]].
      + assert (C : cinv chain (tk_st (started (now + 1) s)) /\ hd (tk_st (started (now + 1) s)) = upTo).
        { unfold started. rewrite Hleft. simpl. auto. }
        rewrite (ticks_reached_stable n (now + 1) _ (proj1 C) (proj2 C)). exact C.
      + apply (IHf pre h post rest Hpre Hh (Z.to_nat factor)).
        * unfold started. rewrite Hleft. simpl. exact S1.
        * unfold started. rewrite Hleft. simpl. lia.
        * unfold started. rewrite Hleft. reflexivity.
        * intros _. unfold started. simpl. rewrite Z2Nat.id by lia. lia.
        * simpl in Hn. lia.
    - exfalso. unfold due in Hdue. apply orb_false_iff in Hdue. destruct Hdue as [Hin Hnd].
      apply negb_false_iff in Hin. apply Z.ltb_ge in Hnd. specialize (Hw Hin). simpl in Hw. lia.
    - pose proof (sync_any vfy chained bk SkAppend chain vfy_pos vfy_sig
                    (fun H => ltac:(discriminate H)) (fun H => ltac:(discriminate H))
                    upTo a (tk_st s) (any_orderly_append vfy chained a) Hc Hlt) as [S1 [[S2 [S3 _]]|[S2 [S3 _]]]].
      + assert (C : cinv chain (tk_st (started (now + 1) s)) /\ hd (tk_st (started (now + 1) s)) = upTo).
        { unfold started. rewrite Hleft. simpl. auto. }
        rewrite (ticks_reached_stable n (now + 1) _ (proj1 C) (proj2 C)). exact C.
      + apply (IHf pre h post rest Hpre Hh (Z.to_nat factor)).
        * unfold started. rewrite Hleft. simpl. exact S1.
        * unfold started. rewrite Hleft. simpl. lia.
        * unfold started. rewrite Hleft. reflexivity.
        * intros _. unfold started. simpl. rewrite Z2Nat.id by lia. lia.
        * simpl in Hn. lia.
    - unfold due in Hdue. apply orb_false_iff in Hdue. destruct Hdue as [Hin Hnd].
      apply negb_false_iff in Hin. apply Z.ltb_ge in Hnd.
      apply IHw; try assumption.
      + intros _. specialize (Hw Hin). rewrite Nat2Z.inj_succ in Hw. lia.
      + simpl in Hn |- *. lia.
  Qed.
End TICKS.
