From Coq Require Import ZArith List Bool Lia.
From DV Require Import Model.HttpWait.
Import ListNotations.
Open Scope Z_scope.

(* an answer is exact when a delivered beacon is the one that was asked for; an empty 200 body
   is never exact *)
Definition exact (a : hanswer) : Prop :=
  match a with ABeacon asked got => asked = got | AEmpty _ => False | ANotFound _ => True end.

(* invariant: every waiter asked for latest+1 and the stream has delivered something *)
Definition hinv (s : hstate) : Prop := Forall (fun r => r = h_latest s + 1 /\ h_latest s <> 0) (h_pending s).

Lemma hstep_ok s e s' a : hinv s -> hstep s e = (s', a) -> hinv s' /\ Forall exact a.
Proof.
  unfold hinv. intros Hi H. destruct e as [r known|r| |r]; simpl in H.
  - destruct ((h_latest s + 1 =? r) && negb (h_latest s =? 0)) eqn:E; inversion H; subst; simpl.
    + apply andb_prop in E as [Ea Eb]. apply Z.eqb_eq in Ea. apply negb_true_iff in Eb. apply Z.eqb_neq in Eb.
      split; [|constructor]. apply Forall_app. split; [exact Hi|]. constructor; [split; lia|constructor].
    + split; [exact Hi|]. constructor; [destruct known; simpl; auto|constructor].
  - inversion H; subst; simpl. split; [constructor|].
    rewrite Forall_forall in *. intros x Hx. apply in_map_iff in Hx as [asked [<- Hin]].
    destruct (Hi asked Hin) as [Ha1 Ha2].
    destruct (Z.eqb_spec (h_latest s + 1) r) as [Er|Er]; simpl.
    + lia.
    + destruct (Z.eqb_spec (h_latest s) 0); [contradiction|]. simpl. exact I.
  - inversion H; subst; simpl. split; [constructor|].
    rewrite Forall_forall. intros x Hx. apply in_map_iff in Hx as [asked [<- _]]. exact I.
  - inversion H; subst. split; [exact Hi|constructor].
Qed.

(* for EVERY history of requests, watch items (consecutive, skipping, repeated) and stream
   failures, every answer is either "not found" or exactly the beacon that was asked for *)
Theorem all_answers_exact es : forall s, hinv s -> Forall exact (snd (hrun s es)).
Proof.
  induction es as [|e es IH]; intros s Hi; simpl; [constructor|].
  destruct (hstep s e) as [s1 a] eqn:E1. destruct (hrun s1 es) as [s2 a'] eqn:E2. simpl.
  destruct (hstep_ok s e s1 a Hi E1) as [Hi1 Ha]. apply Forall_app. split; [exact Ha|].
  specialize (IH s1 Hi1). rewrite E2 in IH. exact IH.
Qed.

Lemma hinit_inv : hinv hinit.
Proof. constructor. Qed.
