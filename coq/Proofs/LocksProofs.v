(* Soundness of the lock-path checker of Model/Locks.v (C14): if [paths_ok] accepts, then
   every execution of every entry point (any number of loop iterations, any branch, a panic at
   any panic-able point, calls of any depth) neither blocks on a mutex it holds itself nor
   ends with a lock held. *)
From Coq Require Import ZArith List Bool Lia.
From DV Require Import Model.Locks.
Import ListNotations.
Open Scope Z_scope.

Lemma mode_eqb_eq : forall a b, mode_eqb a b = true -> a = b.
Proof. destruct a, b; simpl; congruence. Qed.
Lemma lockop_eqb_eq : forall a b, lockop_eqb a b = true -> a = b.
Proof. destruct a, b; simpl; intro E; try discriminate; apply Z.eqb_eq in E; congruence. Qed.
Lemma list_eqb_eq : forall A (eq : A -> A -> bool), (forall x y, eq x y = true -> x = y) ->
  forall a b, list_eqb eq a b = true -> a = b.
Proof.
  intros A eq Heq. induction a as [|x a IH]; destruct b as [|y b]; simpl; intro E; try discriminate; auto.
  apply andb_true_iff in E as [E1 E2]. f_equal; auto.
Qed.
Lemma held_eqb_eq : forall a b, held_eqb a b = true -> a = b.
Proof.
  apply list_eqb_eq. intros [m1 d1] [m2 d2]; simpl. intro E.
  apply andb_true_iff in E as [E1 E2]. apply Z.eqb_eq in E1. apply mode_eqb_eq in E2. congruence.
Qed.
Lemma defers_eqb_eq : forall a b, defers_eqb a b = true -> a = b.
Proof. apply list_eqb_eq. apply list_eqb_eq. apply lockop_eqb_eq. Qed.

Lemma out_eqb_eq : forall a b, out_eqb a b = true -> a = b.
Proof.
  destruct a, b; simpl; intro E; try discriminate; auto.
  - apply andb_true_iff in E as [E1 E2]. apply held_eqb_eq in E1. apply defers_eqb_eq in E2. congruence.
  - apply andb_true_iff in E as [E1 E2]. apply andb_true_iff in E1 as [E0 E1].
    apply Z.eqb_eq in E0. apply held_eqb_eq in E1. apply defers_eqb_eq in E2. congruence.
  - apply andb_true_iff in E as [E1 E2]. apply held_eqb_eq in E1. apply defers_eqb_eq in E2. congruence.
  - apply andb_true_iff in E as [E1 E2]. apply held_eqb_eq in E1. apply defers_eqb_eq in E2. congruence.
Qed.
Lemma dedup_in : forall l x, In x l -> In x (dedup l).
Proof.
  induction l as [|a r IH]; simpl; intros x I; [contradiction|].
  destruct (existsb (out_eqb a) (dedup r)) eqn:E.
  - destruct I as [I|I]; [|auto]. subst x. apply existsb_exists in E as (y & Y1 & Y2).
    apply out_eqb_eq in Y2. subst y. exact Y1.
  - destruct I as [I|I]; [left; auto | right; auto].
Qed.

Section Sound.
Variable funs : Z -> option prog.
Variable allow : policy.

Scheme exec_mut := Induction for exec Sort Prop
  with fexec_mut := Induction for fexec Sort Prop.

Definition P_exec (p : prog) (h : held) (ds : defers) (o : out) (_ : exec funs allow p h ds o) : Prop :=
  forall n, In o (outs allow (fouts funs allow n) p h ds) \/ In OBad (outs allow (fouts funs allow n) p h ds).
Definition P_fexec (body : prog) (h : held) (fo : fout) (_ : fexec funs allow body h fo) : Prop :=
  forall n f, funs f = Some body ->
    In fo (fouts funs allow (S n) f h) \/ In FBad (fouts funs allow (S n) f h).

Lemma flat_bad : forall (q : held -> defers -> list out) l,
  In OBad l -> In OBad (flat_map (fun o => match o with ONorm h1 ds1 => q h1 ds1 | _ => [o] end) l).
Proof. intros q l I. apply in_flat_map. exists OBad. split; auto. simpl; auto. Qed.

Lemma finish_in : forall call body h o fo,
  (In o (outs allow call body h []) \/ In OBad (outs allow call body h [])) ->
  finish o = fo ->
  In fo (map finish (outs allow call body h [])) \/ In FBad (map finish (outs allow call body h [])).
Proof.
  intros call body h o fo [I|I] E.
  - left. subst fo. apply in_map. exact I.
  - right. change FBad with (finish OBad). apply in_map. exact I.
Qed.

Combined Scheme exec_fexec_ind from exec_mut, fexec_mut.

Lemma exec_fexec_complete :
  (forall p h ds o (e : exec funs allow p h ds o), P_exec p h ds o e) /\
  (forall body h fo (e : fexec funs allow body h fo), P_fexec body h fo e).
Proof.
  apply (exec_fexec_ind funs allow P_exec P_fexec); unfold P_exec, P_fexec; intros.
  - (* skip *) left; simpl; auto.
  - (* op ok *) left; simpl; rewrite e; simpl; auto.
  - (* op bad *) left; simpl; rewrite e; simpl; auto.
  - (* defer *) left; simpl; auto.
  - (* call *) simpl. destruct n as [|n'].
    + right. simpl. auto.
    + destruct (H n' f e) as [I|I].
      * left. apply (in_map (fun fo => lift fo ds)). exact I.
      * right. change OBad with (lift FBad ds). apply (in_map (fun fo => lift fo ds)). exact I.
  - (* call unknown *) right. simpl. destruct n as [|n']; simpl; [auto|]. rewrite e. simpl; auto.
  - (* send ok *) left; simpl; rewrite e; simpl; auto.
  - (* send bad *) left; simpl; rewrite e; simpl; auto.
  - (* close ok *) left; simpl; rewrite e; simpl; auto.
  - (* close bad *) left; simpl; rewrite e; simpl; auto.
  - (* panic no *) left; simpl; auto.
  - (* panic yes *) left; simpl; auto.
  - (* seq norm *) simpl. destruct (H n) as [I|I].
    + destruct (H0 n) as [J|J].
      * left. apply dedup_in. apply in_flat_map. exists (ONorm h1 ds1). split; auto.
      * right. apply dedup_in. apply in_flat_map. exists (ONorm h1 ds1). split; auto.
    + right. apply dedup_in. apply flat_bad. exact I.
  - (* seq other *) simpl. destruct (H n0) as [I|I].
    + left. apply dedup_in. apply in_flat_map. exists o. split; auto.
      destruct o; try (simpl; auto). exfalso. eapply n; reflexivity.
    + right. apply dedup_in. apply flat_bad. exact I.
  - (* alt l *) simpl. destruct (H n) as [I|I]; [left|right]; apply dedup_in; apply in_or_app; auto.
  - (* alt r *) simpl. destruct (H n) as [I|I]; [left|right]; apply dedup_in; apply in_or_app; auto.
  - (* loop done *) simpl. destruct (forallb _ _); [left|right]; simpl; auto.
  - (* loop iter *) simpl. destruct (forallb (neutral h ds) (outs allow (fouts funs allow n) p h ds)) eqn:N; [|right; simpl; auto].
    destruct (H n) as [I|I].
    + rewrite forallb_forall in N. pose proof (N _ I) as NI. simpl in NI.
      apply andb_true_iff in NI as [N1 N2]. apply held_eqb_eq in N1. apply defers_eqb_eq in N2. subst h1 ds1.
      specialize (H0 n). simpl in H0. rewrite (proj2 (forallb_forall _ _) N) in H0. exact H0.
    + right. right. apply filter_In. split; auto.
  - (* loop exit *) simpl. destruct (forallb (neutral h ds) (outs allow (fouts funs allow n0) p h ds)) eqn:N; [|right; simpl; auto].
    destruct (H n0) as [I|I].
    + left. right. apply filter_In. split; auto. destruct o; auto. exfalso. eapply n; reflexivity.
    + right. right. apply filter_In. split; auto.
  - (* block catch *) simpl. destruct (H n) as [I|I].
    + left. apply in_map_iff. exists (OBrk l h1 ds1). split; auto. rewrite Z.eqb_refl. reflexivity.
    + right. apply in_map_iff. exists OBad. split; auto.
  - (* block pass *) simpl. destruct (H n0) as [I|I].
    + left. apply in_map_iff. exists o. split; auto. destruct o; auto.
      destruct (l0 =? l) eqn:E; auto. apply Z.eqb_eq in E. subst l0. exfalso. eapply n; reflexivity.
    + right. apply in_map_iff. exists OBad. split; auto.
  - (* brk *) left; simpl; auto.
  - (* ret *) left; simpl; auto.
  - (* F_norm *) simpl. rewrite H0. eapply finish_in; [apply H|]. simpl. rewrite e0. reflexivity.
  - (* F_ret *) simpl. rewrite H0. eapply finish_in; [apply H|]. simpl. rewrite e0. reflexivity.
  - (* F_pan *) simpl. rewrite H0. eapply finish_in; [apply H|]. simpl. rewrite e0. reflexivity.
  - (* F_norm_bad *) simpl. rewrite H0. eapply finish_in; [apply H|]. simpl. rewrite e0. reflexivity.
  - (* F_ret_bad *) simpl. rewrite H0. eapply finish_in; [apply H|]. simpl. rewrite e0. reflexivity.
  - (* F_pan_bad *) simpl. rewrite H0. eapply finish_in; [apply H|]. simpl. rewrite e0. reflexivity.
  - (* F_bad *) simpl. rewrite H0. eapply finish_in; [apply H|]. reflexivity.
  - (* F_brk *) simpl. rewrite H0. eapply finish_in; [apply H|]. reflexivity.
Qed.


Theorem paths_ok_sound_aux : forall n entries, paths_ok funs allow n entries = true ->
  forall f body fo, In f entries -> funs f = Some body -> fexec funs allow body [] fo ->
  fo = FNorm [] \/ fo = FPan [].
Proof.
  intros n entries OK f body fo I F E.
  unfold paths_ok in OK. rewrite forallb_forall in OK. specialize (OK f I). rewrite forallb_forall in OK.
  destruct n as [|n].
  - specialize (OK FBad). simpl in OK. discriminate OK. auto.
  - destruct (proj2 exec_fexec_complete body [] fo E n f F) as [J|J].
    + specialize (OK fo J). destruct fo as [[|]|[|]|]; simpl in OK; try discriminate; auto.
    + specialize (OK FBad J). discriminate.
Qed.
End Sound.

(* the statement used by Props/C14.v *)
Definition no_self_deadlock (fo : fout) : Prop := fo <> FBad.
Definition locks_released (fo : fout) : Prop := fo = FNorm [] \/ fo = FPan [].

Theorem paths_ok_sound : forall fs allow n entries,
  paths_ok (flookup fs) allow n entries = true ->
  forall f body fo, In f entries -> flookup fs f = Some body ->
  fexec (flookup fs) allow body [] fo ->
  no_self_deadlock fo /\ locks_released fo.
Proof.
  intros fs allow n entries OK f body fo I F E.
  pose proof (paths_ok_sound_aux (flookup fs) allow n entries OK f body fo I F E) as R.
  split; [|exact R]. unfold no_self_deadlock. destruct R; subst; discriminate.
Qed.
