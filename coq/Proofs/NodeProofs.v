(* Proofs about the node-local model Model/Node.v: what a node stores (C01, C02 local part),
   when it creates a beacon (C03), what it emits and accepts relative to its clock (C04),
   and which shares count after a group transition (C07).  All statements are for arbitrary
   event lists: the events (packets from anyone, ticks late or lost, sync streams with any
   content, stops, restarts, transitions) are the universally quantified variable. *)
From Coq Require Import ZArith List Bool Lia.
From DV Require Import Model.Time Model.Node Proofs.TimeProofs.
Import ListNotations.
Open Scope Z_scope.

Fixpoint proj_puts (o : list out) : list beacon :=
  match o with [] => [] | OPut b :: o' => b :: proj_puts o' | _ :: o' => proj_puts o' end.

Lemma proj_puts_app a b : proj_puts (a ++ b) = proj_puts a ++ proj_puts b.
Proof. induction a as [|x a IH]; simpl; [reflexivity|]. destruct x; simpl; rewrite ?IH; reflexivity. Qed.

Lemma last_cons_def {A} (x : A) (a : list A) (d : A) : last (x :: a) d = last a x.
Proof. revert x d; induction a as [|y a IH]; intros x d; [reflexivity|]. change (last (x :: y :: a) d) with (last (y :: a) d). rewrite !IH. reflexivity. Qed.

Section NodeProofs.
  Variable C : cfg.
  Variable idx_of : Z -> Z.
  Variable vpart : Z -> Z -> Z -> Z -> bool.
  Variable recov : Z -> Z -> Z -> list Z -> Z -> option Z.
  Variable vrec : Z -> Z -> Z -> bool.
  Variable own_psig : Z -> Z -> Z -> Z.

  (* On unchained schemes the signed message does not contain the previous signature. *)
  Hypothesis vrec_unchained : c_chained C = false -> forall r p p' s, vrec r p s = vrec r p' s.

  Notation step := (step C idx_of vpart recov vrec own_psig).
  Notation run := (run C idx_of vpart recov vrec own_psig).
  Notation agg_partial := (agg_partial C idx_of recov vrec).
  Notation process_partial := (process_partial C idx_of vpart recov vrec).
  Notation emit_on := (emit_on C idx_of recov vrec own_psig).
  Notation try_node := (try_node C vrec).
  Notation do_sync := (do_sync C vrec).
  Notation fire_timers := (fire_timers C idx_of recov vrec own_psig).
  Notation fire_due := (fire_due C idx_of recov vrec own_psig).

  Definition verified (b : beacon) : Prop := vrec (b_round b) (b_prev b) (b_sig b) = true.

  (* b is an acceptable successor of hd: verifies, next round, linked when chained *)
  Definition good_put (hd b : beacon) : Prop :=
    verified b /\ b_round b = b_round hd + 1 /\ (c_chained C = true -> b_prev b = b_sig hd) /\
    (c_chained C = false -> b_prev b = empty_id).

  Fixpoint puts_ok (hd : beacon) (bs : list beacon) : Prop :=
    match bs with
    | [] => True
    | b :: bs' => good_put hd b /\ puts_ok b bs'
    end.

  Lemma puts_ok_app hd a b : puts_ok hd (a ++ b) <-> puts_ok hd a /\ puts_ok (last a hd) b.
  Proof.
    revert hd; induction a as [|x a IH]; intros hd.
    - simpl. tauto.
    - rewrite last_cons_def. cbn [app puts_ok]. rewrite IH. tauto.
  Qed.

  (* the chain grows exactly by the puts of the step, newest first, each a good successor *)
  Definition wf_step (s s' : nstate) (o : list out) : Prop :=
    s_chain s' = rev (proj_puts o) ++ s_chain s /\ puts_ok (head s) (proj_puts o).

  Lemma head_after s s' o : wf_step s s' o -> head s' = last (proj_puts o) (head s).
  Proof.
    intros [Hc _]. unfold head. rewrite Hc.
    destruct (proj_puts o) as [|b bs] eqn:E using rev_ind; simpl; [reflexivity|].
    rewrite rev_app_distr. simpl. rewrite last_last. reflexivity.
  Qed.

  Lemma wf_refl s s' : s_chain s' = s_chain s -> wf_step s s' [].
  Proof. intros H; split; simpl; auto. Qed.

  Lemma wf_nop s s' o : s_chain s' = s_chain s -> proj_puts o = [] -> wf_step s s' o.
  Proof. intros H E; split; rewrite E; simpl; auto. Qed.

  Lemma wf_trans s s1 s2 o1 o2 : wf_step s s1 o1 -> wf_step s1 s2 o2 -> wf_step s s2 (o1 ++ o2).
  Proof.
    intros H1 H2. pose proof (head_after _ _ _ H1) as Hh.
    destruct H1 as [C1 P1], H2 as [C2 P2]. split.
    - rewrite C2, C1, proj_puts_app, rev_app_distr, app_assoc. reflexivity.
    - rewrite proj_puts_app. apply puts_ok_app. split; [exact P1|]. rewrite <- Hh. exact P2.
  Qed.

  (* a state with the same chain has the same head *)
  Lemma head_chain s s' : s_chain s' = s_chain s -> head s' = head s.
  Proof. unfold head; intros ->; reflexivity. Qed.

  Lemma wf_chain_eq s s0 s' o : s_chain s0 = s_chain s -> wf_step s0 s' o -> wf_step s s' o.
  Proof. intros E [Hc Hp]. split; [rewrite Hc, E; reflexivity|]. rewrite <- (head_chain _ _ E). exact Hp. Qed.

  Lemma after_put_chain s b : s_chain (after_put s b) = b :: s_chain s.
  Proof. unfold after_put. destruct (s_pending s) as [[t g]|]; [destruct (t <=? b_round b)|]; reflexivity. Qed.

  Lemma verified_stored b : verified b -> verified (stored_form C b).
  Proof.
    unfold verified, stored_form. destruct (c_chained C) eqn:E; [auto|]. simpl.
    intros H. rewrite (vrec_unchained eq_refl _ _ (b_prev b)). exact H.
  Qed.

  Lemma stack_accepts_good hd b : stack_accepts C hd b = true -> verified b -> good_put hd (stored_form C b).
  Proof.
    unfold stack_accepts. intros H Hv. apply andb_prop in H as [Hr Hp].
    apply Z.eqb_eq in Hr. split; [apply verified_stored; exact Hv|]. split.
    - unfold stored_form. destruct (c_chained C); simpl; exact Hr.
    - split.
      + intros Hc. rewrite Hc in Hp. apply Z.eqb_eq in Hp. unfold stored_form. rewrite Hc. exact Hp.
      + intros Hc. unfold stored_form. rewrite Hc. reflexivity.
  Qed.

  (* ---------- the aggregator ---------- *)
  Lemma agg_partial_wf s r p sg s' o : agg_partial s r p sg = (s', o) -> wf_step s s' o.
  Proof.
    unfold Node.agg_partial. intros H.
    destruct (negb ((b_round (head s) <? r) && (r <=? b_round (head s) + c_limit C + 1))).
    { inversion H; subst. apply wf_refl; reflexivity. }
    destruct (cache_find _ _ _) as [e|].
    2:{ inversion H; subst. apply wf_refl; reflexivity. }
    destruct (Z.of_nat (length (ce_sigs e)) <? g_thr (s_grp s)).
    { inversion H; subst. apply wf_refl; reflexivity. }
    destruct (recov _ _ _ _ _) as [fs|].
    2:{ inversion H; subst. apply wf_refl; reflexivity. }
    destruct (vrec r p fs) eqn:Hv; simpl in H.
    2:{ inversion H; subst. apply wf_refl; reflexivity. }
    destruct (b_round (head s) + 1 =? r) eqn:Hr; simpl in H.
    2:{ inversion H; subst. apply wf_nop; [reflexivity|]. destruct (b_round (head s) + 1 <? r); reflexivity. }
    destruct (stack_accepts C (head s) (mkB r p fs)) eqn:Ha; simpl in H.
    2:{ inversion H; subst. apply wf_refl; reflexivity. }
    assert (Hg : good_put (head s) (stored_form C (mkB r p fs))).
    { apply stack_accepts_good; [exact Ha|exact Hv]. }
    destruct (r <? s_cur s); inversion H; subst; (split; simpl;
      [rewrite ?after_put_chain; reflexivity | split; [exact Hg | exact I]]).
  Qed.

  Lemma process_partial_wf s r p sg s' o : process_partial s r p sg = (s', o) -> wf_step s s' o.
  Proof.
    unfold Node.process_partial. intros H.
    repeat match type of H with
    | (if ?c then _ else _) = _ => destruct c; [inversion H; subst; apply wf_nop; reflexivity|]
    end.
    eapply agg_partial_wf; exact H.
  Qed.

  (* broadcastNextPartial either declines (the round's time has not come on the node's clock) or
     signs, hands its own partial to the aggregator and broadcasts it *)
  Lemma emit_on_shape s cur upon s' o : emit_on s cur upon = (s', o) ->
    (s' = s /\ o = [] /\ may_sign C s (fst (sign_target cur upon)) = false) \/
    (exists r p o1, sign_target cur upon = (r, p) /\ may_sign C s r = true /\
       agg_partial s r p (own_psig (g_poly (s_grp s)) r p) = (s', o1) /\
       o = OEmit r p (own_psig (g_poly (s_grp s)) r p) (s_now s) :: o1).
  Proof.
    unfold Node.emit_on. intros H. destruct (sign_target cur upon) as [r p] eqn:Et.
    destruct (may_sign C s r) eqn:Em; cbn [negb] in H.
    - destruct (Node.agg_partial _ _ _ _ _ _ _ _) as [s1 o1] eqn:E. inversion H; subst.
      right. exists r, p, o1. auto.
    - inversion H; subst. left. auto.
  Qed.

  Lemma emit_on_wf s cur upon s' o : emit_on s cur upon = (s', o) -> wf_step s s' o.
  Proof.
    intros H. destruct (emit_on_shape _ _ _ _ _ H) as [[-> [-> _]]|[r [p [o1 [_ [_ [E ->]]]]]]].
    - apply wf_refl; reflexivity.
    - apply agg_partial_wf in E. destruct E as [E1 E2]. split; simpl; assumption.
  Qed.

  Lemma try_node_wf bs : forall s upto s' o, try_node s upto bs = (s', o) -> wf_step s s' o.
  Proof.
    induction bs as [|b bs IH]; intros s upto s' o H; simpl in H.
    { inversion H; subst. apply wf_refl; reflexivity. }
    destruct (vrec (b_round b) (b_prev b) (b_sig b)) eqn:Hv; simpl in H.
    2:{ inversion H; subst. apply wf_refl; reflexivity. }
    destruct (stack_accepts C (head s) b) eqn:Ha; simpl in H.
    2:{ inversion H; subst. apply wf_refl; reflexivity. }
    assert (Hg : good_put (head s) (stored_form C b)) by (apply stack_accepts_good; assumption).
    assert (W1 : wf_step s (after_put s (stored_form C b)) [OPut (stored_form C b)]).
    { split; simpl; [apply after_put_chain | split; [exact Hg|exact I]]. }
    destruct (b_round b =? upto).
    { inversion H; subst. exact W1. }
    destruct (Node.try_node _ _ _ _ _) as [s2 o2] eqn:E. inversion H; subst.
    apply IH in E. exact (wf_trans _ _ _ _ _ W1 E).
  Qed.

  Lemma do_sync_wf s upto sync s' o : do_sync s upto sync = (s', o) -> wf_step s s' o.
  Proof.
    unfold Node.do_sync. intros H. destruct sync as [bs|].
    - destruct (Node.try_node _ _ _ _ _) as [s1 o1] eqn:E. inversion H; subst.
      apply try_node_wf in E. destruct E as [E1 E2]. split; simpl; assumption.
    - inversion H; subst. apply wf_nop; reflexivity.
  Qed.

  Lemma fire_timers_wf ts : forall s s' o, fire_timers s ts = (s', o) -> wf_step s s' o.
  Proof.
    induction ts as [|t ts IH]; intros s s' o H; simpl in H.
    { inversion H; subst. apply wf_refl; reflexivity. }
    destruct (Node.emit_on _ _ _ _ _ _ _ _) as [s1 o1] eqn:E1.
    destruct (Node.fire_timers _ _ _ _ _ _ _) as [s2 o2] eqn:E2.
    inversion H; subst. apply emit_on_wf in E1. apply IH in E2. exact (wf_trans _ _ _ _ _ E1 E2).
  Qed.

  Lemma fire_due_wf s s' o : fire_due s = (s', o) -> wf_step s s' o.
  Proof.
    unfold Node.fire_due. intros H. destruct (s_running s).
    - apply fire_timers_wf in H. eapply wf_chain_eq; [|exact H]. reflexivity.
    - inversion H; subst. apply wf_refl; reflexivity.
  Qed.

  Theorem step_wf s e s' o : step s e = (s', o) -> wf_step s s' o.
  Proof.
    destruct e as [d|d| |rho sync|rho sync|r p sg| |sync|target g|upto bs]; simpl; intros H.
    - apply fire_due_wf in H. eapply wf_chain_eq; [|exact H]. reflexivity.
    - inversion H; subst. apply wf_refl; reflexivity.
    - apply fire_due_wf; exact H.
    - destruct (s_running s); simpl in H; [|inversion H; subst; apply wf_refl; reflexivity].
      destruct (Node.emit_on _ _ _ _ _ _ _ _) as [s1 o1] eqn:E1.
      apply emit_on_wf in E1.
      assert (W1 : wf_step s s1 o1) by (eapply wf_chain_eq; [|exact E1]; reflexivity).
      destruct (b_round (head s) + 1 <? rho).
      + destruct (Node.do_sync _ _ _ _ _) as [s2 o2] eqn:E2. inversion H; subst.
        apply do_sync_wf in E2. exact (wf_trans _ _ _ _ _ W1 E2).
      + inversion H; subst. exact W1.
    - destruct (s_running s); simpl in H; [|inversion H; subst; apply wf_refl; reflexivity].
      destruct (sign_target rho (head s)) as [r p].
      set (s0 := mkS (s_now s) (s_chain s) (s_cache s) rho (s_timers s) (s_grp s) (s_pending s) (s_running s)) in *.
      destruct (if b_round (head s) + 1 <? rho then _ else _) as [s1 o1] eqn:E1.
      assert (W1 : wf_step s s1 o1).
      { destruct (b_round (head s) + 1 <? rho).
        - apply do_sync_wf in E1. eapply wf_chain_eq; [|exact E1]. reflexivity.
        - inversion E1; subst. apply wf_refl; reflexivity. }
      match type of H with context[may_sign C ?x r] => destruct (may_sign C x r) eqn:Em end; cbn [negb] in H.
      2:{ inversion H; subst. exact W1. }
      destruct (Node.agg_partial _ _ _ _ _ _ _ _) as [s2 o2] eqn:E2.
      inversion H; subst.
      apply agg_partial_wf in E2.
      pose proof (wf_trans _ _ _ _ _ W1 E2) as [W3 W4]. split; simpl; assumption.
    - destruct (s_running s); simpl in H; [|inversion H; subst; apply wf_refl; reflexivity].
      apply process_partial_wf in H. exact H.
    - inversion H; subst. apply wf_refl; reflexivity.
    - apply do_sync_wf in H. eapply wf_chain_eq; [|exact H]. reflexivity.
    - inversion H; subst. apply wf_refl; reflexivity.
    - destruct (s_running s); simpl in H; [|inversion H; subst; apply wf_refl; reflexivity].
      apply try_node_wf in H. exact H.
  Qed.

  (* ---------- lifted to every event list ---------- *)
  Definition all_outs (os : list (list out)) : list out := concat os.

  Theorem run_wf es : forall s s' os, run s es = (s', os) -> wf_step s s' (all_outs os).
  Proof.
    induction es as [|e es IH]; intros s s' os H; simpl in H.
    { inversion H; subst. apply wf_refl; reflexivity. }
    destruct (step s e) as [s1 o] eqn:E1. destruct (run s1 es) as [s2 os'] eqn:E2.
    inversion H; subst. apply step_wf in E1. apply IH in E2.
    unfold all_outs; simpl. exact (wf_trans _ _ _ _ _ E1 E2).
  Qed.

  Lemma puts_ok_verified hd bs : puts_ok hd bs -> Forall verified bs.
  Proof. revert hd; induction bs as [|b bs IH]; intros hd H; constructor; destruct H as [[Hv _] H]; eauto. Qed.

  (* C01 (node-local): whatever events occur, every beacon the node writes verifies under the
     group key for exactly its round (and its previous signature when chained). *)
  Theorem all_puts_verified s es s' os :
    run s es = (s', os) -> Forall verified (proj_puts (all_outs os)).
  Proof. intros H. apply run_wf in H. destruct H as [_ H]. eapply puts_ok_verified; exact H. Qed.

  (* chain invariant: consecutive rounds, linked when chained, every non-genesis beacon verifies *)
  Fixpoint chain_ok (ch : list beacon) : Prop :=
    match ch with
    | [] => True
    | b :: ch' => match ch' with
                  | [] => True
                  | b' :: _ => good_put b' b
                  end /\ chain_ok ch'
    end.

  Lemma chain_ok_extend bs : forall ch, ch <> [] -> chain_ok ch ->
    puts_ok (hd (mkB 0 empty_id empty_id) ch) bs -> chain_ok (rev bs ++ ch).
  Proof.
    induction bs as [|b bs IH]; intros ch Hne Hc Hp; simpl; [exact Hc|].
    destruct Hp as [Hg Hp]. rewrite <- app_assoc. simpl.
    apply IH; [discriminate| |exact Hp].
    simpl. split; [|exact Hc]. destruct ch as [|b' ch']; [contradiction|exact Hg].
  Qed.

  (* C02 (node-local): the node's chain is only ever extended, by one verified, linked round at
     a time -- for every event list. *)
  Theorem chain_gapfree_appendonly s es s' os :
    s_chain s <> [] -> chain_ok (s_chain s) -> run s es = (s', os) ->
    chain_ok (s_chain s') /\ exists added, s_chain s' = added ++ s_chain s.
  Proof.
    intros Hne Hc H. apply run_wf in H. destruct H as [Hch Hp]. split.
    - rewrite Hch. apply chain_ok_extend; [exact Hne|exact Hc|]. exact Hp.
    - eexists; exact Hch.
  Qed.

  (* ---------- C03: a beacon is created only from a threshold of distinct valid partials ---------- *)
  Hypothesis recov_sound : forall P r p sigs t s, recov P r p sigs t = Some s ->
    exists I, incl I sigs /\ NoDup (map idx_of I) /\ t <= Z.of_nat (length I) /\
              forall x, In x I -> vpart P r p x = true.

  (* the cache after appending the incoming partial (what runAggregator hands to Recover) *)
  Definition agg_cache (s : nstate) (r p sg : Z) := cache_add (s_cache s) r p (idx_of sg) sg.

  Theorem agg_put_has_threshold s r p sg s' b o1 o2 :
    agg_partial s r p sg = (s', o1 ++ OPut b :: o2) ->
    exists e I, cache_find (agg_cache s r p sg) r p = Some e /\
      incl I (map snd (ce_sigs e)) /\ NoDup (map idx_of I) /\
      g_thr (s_grp s) <= Z.of_nat (length I) /\
      (forall x, In x I -> vpart (g_poly (s_grp s)) r p x = true) /\
      b_round b = r /\ b_round b = b_round (head s) + 1.
  Proof.
    unfold Node.agg_partial, agg_cache. intros H.
    assert (Hnil : forall (x : list out), [] = o1 ++ OPut b :: o2 -> False)
      by (intros _ Ho; destruct o1; discriminate).
    assert (Hsync : forall q, [OSyncReq q] = o1 ++ OPut b :: o2 -> False).
    { intros q Ho. destruct o1 as [|x o1]; [discriminate|]. injection Ho as _ Ho. destruct o1; discriminate. }
    destruct (negb ((b_round (head s) <? r) && (r <=? b_round (head s) + c_limit C + 1))).
    { injection H as _ Ho. exfalso; eauto. }
    destruct (cache_find _ r p) as [e|] eqn:Hf.
    2:{ injection H as _ Ho. exfalso; eauto. }
    destruct (Z.of_nat (length (ce_sigs e)) <? g_thr (s_grp s)).
    { injection H as _ Ho. exfalso; eauto. }
    destruct (recov _ _ _ _ _) as [fs|] eqn:Hr.
    2:{ injection H as _ Ho. exfalso; eauto. }
    destruct (vrec r p fs); simpl in H.
    2:{ injection H as _ Ho. exfalso; eauto. }
    destruct (b_round (head s) + 1 =? r) eqn:Hrr; simpl in H.
    2:{ injection H as _ Ho. exfalso. destruct (b_round (head s) + 1 <? r); eauto. }
    destruct (stack_accepts C (head s) (mkB r p fs)); simpl in H.
    2:{ injection H as _ Ho. exfalso; eauto. }
    apply Z.eqb_eq in Hrr.
    destruct (recov_sound _ _ _ _ _ _ Hr) as [I [Hi [Hn [Ht Hv]]]].
    assert (Hb : b = stored_form C (mkB r p fs)).
    { assert (Ho : [OPut (stored_form C (mkB r p fs))] = o1 ++ OPut b :: o2)
        by (destruct (r <? s_cur s); injection H as _ Ho; exact Ho).
      destruct o1 as [|x o1]; [injection Ho as Ho; congruence|].
      injection Ho as _ Ho. destruct o1; discriminate. }
    exists e, I. repeat split; try assumption.
    - subst b. unfold stored_form. destruct (c_chained C); reflexivity.
    - subst b. unfold stored_form. destruct (c_chained C); simpl; lia.
  Qed.

  (* Only partials that pass ProcessPartialBeacon (or the node's own) enter the cache:
     what ProcessPartialBeacon lets through is from a member of the live group, not the node's
     own index, not more than one round ahead of the clock, and verifies against the live
     polynomial for exactly (round, previous signature). *)
  Theorem process_partial_filter s r p sg s' o :
    process_partial s r p sg = (s', o) -> ~ In OReject o -> b_round (head s) < r ->
    r <= fst (next_round (s_now s) (c_period C) (c_genesis C)) /\
    0 <= idx_of sg /\ memb (idx_of sg) (g_members (s_grp s)) = true /\
    idx_of sg <> g_me (s_grp s) /\ vpart (g_poly (s_grp s)) r p sg = true.
  Proof.
    unfold Node.process_partial. intros H Hn Hr.
    destruct (fst (next_round _ _ _) <? r) eqn:E1. { inversion H; subst. exfalso; apply Hn; left; reflexivity. }
    destruct (r <=? b_round (head s)) eqn:E2. { apply Z.leb_le in E2. lia. }
    destruct (idx_of sg <? 0) eqn:E3. { inversion H; subst. exfalso; apply Hn; left; reflexivity. }
    destruct (memb (idx_of sg) (g_members (s_grp s))) eqn:E4; simpl in H.
    2:{ inversion H; subst. exfalso; apply Hn; left; reflexivity. }
    destruct (idx_of sg =? g_me (s_grp s)) eqn:E5. { inversion H; subst. exfalso; apply Hn; left; reflexivity. }
    destruct (vpart _ r p sg) eqn:E6; simpl in H.
    2:{ inversion H; subst. exfalso; apply Hn; left; reflexivity. }
    apply Z.ltb_ge in E1, E3. apply Z.eqb_neq in E5. repeat split; auto; lia.
  Qed.

  (* ---------- C04 ---------- *)
  (* a partial for a round beyond clock+1 is refused, in every state *)
  Theorem future_partial_rejected s r p sg :
    fst (next_round (s_now s) (c_period C) (c_genesis C)) < r ->
    process_partial s r p sg = (s, [OReject]).
  Proof.
    intros H. unfold Node.process_partial. apply Z.ltb_lt in H. rewrite H. reflexivity.
  Qed.


End NodeProofs.

Section NodeTime.
  Variable C : cfg.
  Variable idx_of : Z -> Z.
  Variable vpart : Z -> Z -> Z -> Z -> bool.
  Variable recov : Z -> Z -> Z -> list Z -> Z -> option Z.
  Variable vrec : Z -> Z -> Z -> bool.
  Variable own_psig : Z -> Z -> Z -> Z.

  Notation step := (step C idx_of vpart recov vrec own_psig).
  Notation run := (run C idx_of vpart recov vrec own_psig).
  Notation agg_partial := (agg_partial C idx_of recov vrec).
  Notation process_partial := (process_partial C idx_of vpart recov vrec).
  Notation emit_on := (emit_on C idx_of recov vrec own_psig).
  Notation try_node := (try_node C vrec).
  Notation do_sync := (do_sync C vrec).
  Notation fire_timers := (fire_timers C idx_of recov vrec own_psig).
  Notation fire_due := (fire_due C idx_of recov vrec own_psig).

  (* ---------- C04: what is emitted, and when ---------- *)
  Definition is_emit (x : out) : bool := match x with OEmit _ _ _ _ => true | _ => false end.

  Lemma agg_no_emit s r p sg s' o : agg_partial s r p sg = (s', o) -> forallb (fun x => negb (is_emit x)) o = true.
  Proof.
    unfold Node.agg_partial. intros H.
    repeat match type of H with
    | (if ?c then _ else _) = _ => destruct c
    | (match ?c with Some _ => _ | None => _ end) = _ => destruct c
    end; inversion H; subst; try reflexivity.
    destruct (b_round (head s) + 1 <? r); reflexivity.
  Qed.

  Lemma agg_now s r p sg s' o : agg_partial s r p sg = (s', o) -> s_now s' = s_now s.
  Proof.
    unfold Node.agg_partial, after_put. intros H.
    repeat match type of H with
    | (if ?c then _ else _) = _ => destruct c
    | (match ?c with Some _ => _ | None => _ end) = _ => destruct c
    end; inversion H; subst; try reflexivity;
    cbn [s_now]; repeat (match goal with |- context[match ?x with _ => _ end] => destruct x end); reflexivity.
  Qed.

  (* the round a tick / woken sleeper signs *)
  Definition emit_round (cur : Z) (upon : beacon) : Z :=
    if cur =? b_round upon then cur else b_round upon + 1.

  Definition cr (now : Z) := current_round now (c_period C) (c_genesis C).
  Definition now_ok (now : Z) := now_dom (c_genesis C) now.

  (* broadcastNextPartial: nothing at all, or one partial for the target round -- which is then not
     ahead of the node's own clock -- followed by what the aggregator does with it *)
  Lemma emit_on_spec s cur upon s' o : emit_on s cur upon = (s', o) ->
    (o = [] /\ s' = s) \/
    (exists p sg o', o = OEmit (emit_round cur upon) p sg (s_now s) :: o' /\
                     forallb (fun x => negb (is_emit x)) o' = true /\ s_now s' = s_now s /\
                     emit_round cur upon <= cr (s_now s)).
  Proof.
    intros H. pose proof H as Hs. apply emit_on_shape in Hs.
    destruct Hs as [[-> [-> _]]|[r [p [o1 [Et [Em [E ->]]]]]]]; [left; auto|right].
    assert (Er : r = emit_round cur upon).
    { unfold sign_target in Et. unfold emit_round. destruct (cur =? b_round upon); inversion Et; reflexivity. }
    subst r. do 3 eexists. split; [reflexivity|]. split; [eapply agg_no_emit; exact E|].
    split; [eapply agg_now; exact E|]. unfold may_sign in Em. apply Z.leb_le in Em. exact Em.
  Qed.

  (* ---- C04, node-local and unconditional: whatever the state and whatever the event -- a tick of
          any round (also a stale one, handled late), a woken sleeper, a chain ahead of the clock
          -- every partial the node releases is for a round that is not ahead of its own clock ---- *)
  Definition emits_timely (o : list out) : Prop :=
    forall r p sg n, In (OEmit r p sg n) o -> r <= cr n.

  Lemma no_emit_timely o : forallb (fun x => negb (is_emit x)) o = true -> emits_timely o.
  Proof.
    intros H r p sg n Hin. rewrite forallb_forall in H. specialize (H _ Hin). discriminate.
  Qed.

  Lemma emits_timely_app a b : emits_timely a -> emits_timely b -> emits_timely (a ++ b).
  Proof. intros Ha Hb r p sg n Hin. apply in_app_or in Hin as [H|H]; eauto. Qed.

  Lemma emit_on_timely s cur upon s' o : emit_on s cur upon = (s', o) -> emits_timely o.
  Proof.
    intros H. destruct (emit_on_spec _ _ _ _ _ H) as [[-> _]|[p [sg [o' [-> [Ne [_ Hr]]]]]]].
    - intros ? ? ? ? [].
    - intros r' p' sg' n' [Hin|Hin]; [inversion Hin; subst; exact Hr|].
      eapply (no_emit_timely _ Ne); exact Hin.
  Qed.

  Lemma after_put_fields s b :
    s_now (after_put s b) = s_now s /\ s_cur (after_put s b) = s_cur s /\
    s_timers (after_put s b) = s_timers s /\ s_running (after_put s b) = s_running s.
  Proof. unfold after_put. destruct (s_pending s) as [[t g]|]; [destruct (t <=? b_round b)|]; auto. Qed.

  Lemma try_node_fields bs : forall s upto s' o, try_node s upto bs = (s', o) ->
    s_now s' = s_now s /\ s_cur s' = s_cur s /\ s_timers s' = s_timers s /\
    forallb (fun x => negb (is_emit x)) o = true.
  Proof.
    induction bs as [|b bs IH]; intros s upto s' o H; simpl in H.
    { inversion H; subst. auto. }
    destruct (negb (vrec _ _ _)). { inversion H; subst. auto. }
    destruct (negb (stack_accepts _ _ _)). { inversion H; subst. auto. }
    assert (F : s_now (after_put s (stored_form C b)) = s_now s /\ s_cur (after_put s (stored_form C b)) = s_cur s /\
                s_timers (after_put s (stored_form C b)) = s_timers s).
    { unfold after_put. destruct (s_pending s) as [[t g]|]; [destruct (t <=? b_round (stored_form C b))|]; auto. }
    destruct F as [F1 [F2 F3]].
    destruct (b_round b =? upto). { inversion H; subst. auto. }
    destruct (Node.try_node _ _ _ _ _) as [s2 o2] eqn:E. inversion H; subst.
    apply IH in E as [G1 [G2 [G3 G4]]]. rewrite G1, G2, G3. auto.
  Qed.

  Lemma do_sync_fields s upto sync s' o : do_sync s upto sync = (s', o) ->
    s_now s' = s_now s /\ s_cur s' = s_cur s /\ s_timers s' = s_timers s /\
    forallb (fun x => negb (is_emit x)) o = true.
  Proof.
    unfold Node.do_sync. intros H. destruct sync as [bs|].
    - destruct (Node.try_node _ _ _ _ _) as [s1 o1] eqn:E. inversion H; subst.
      apply try_node_fields in E as [G1 [G2 [G3 G4]]]. auto.
    - inversion H; subst. auto.
  Qed.

  Lemma fire_timers_timely ts : forall s s' o, fire_timers s ts = (s', o) -> emits_timely o.
  Proof.
    induction ts as [|t ts IH]; intros s s' o H; simpl in H.
    { inversion H; subst. intros ? ? ? ? []. }
    destruct (Node.emit_on _ _ _ _ _ _ _ _) as [s1 o1] eqn:E1.
    destruct (Node.fire_timers _ _ _ _ _ _ _) as [s2 o2] eqn:E2. inversion H; subst.
    apply emits_timely_app; [eapply emit_on_timely; exact E1|eapply IH; exact E2].
  Qed.

  Lemma fire_due_timely s s' o : fire_due s = (s', o) -> emits_timely o.
  Proof.
    unfold Node.fire_due. intros H. destruct (s_running s).
    - eapply fire_timers_timely; exact H.
    - inversion H; subst. intros ? ? ? ? [].
  Qed.

  Theorem step_emits_timely s e s' o : step s e = (s', o) -> emits_timely o.
  Proof.
    intros H.
    destruct e as [d|d| |rho sync|rho sync|r p sg| |sync|target g|upto bs]; simpl in H.
    - eapply fire_due_timely; exact H.
    - inversion H; subst. intros ? ? ? ? [].
    - eapply fire_due_timely; exact H.
    - destruct (s_running s); cbn [negb] in H; [|inversion H; subst; intros ? ? ? ? []].
      destruct (Node.emit_on _ _ _ _ _ _ _ _) as [s1 o1] eqn:E1.
      pose proof (emit_on_timely _ _ _ _ _ E1) as Et1.
      destruct (b_round (head s) + 1 <? rho).
      + destruct (Node.do_sync _ _ _ _ _) as [s2 o2] eqn:E2. inversion H; subst.
        apply do_sync_fields in E2 as [_ [_ [_ G4]]].
        apply emits_timely_app; [exact Et1|apply no_emit_timely; exact G4].
      + inversion H; subst. exact Et1.
    - destruct (s_running s); cbn [negb] in H; [|inversion H; subst; intros ? ? ? ? []].
      destruct (sign_target rho (head s)) as [r p] eqn:Et.
      destruct (if b_round (head s) + 1 <? rho then _ else _) as [s1 o1] eqn:E1.
      assert (Ne1 : forallb (fun x => negb (is_emit x)) o1 = true).
      { destruct (b_round (head s) + 1 <? rho).
        - apply do_sync_fields in E1 as [_ [_ [_ G4]]]. exact G4.
        - inversion E1; subst. reflexivity. }
      match type of H with context[may_sign C ?x r] => destruct (may_sign C x r) eqn:Em end; cbn [negb] in H.
      2:{ inversion H; subst. apply no_emit_timely; exact Ne1. }
      destruct (Node.agg_partial _ _ _ _ _ _ _ _) as [s2 o2] eqn:E2. inversion H; subst.
      intros r' p' sg' n' [Hin|Hin].
      + inversion Hin; subst. unfold may_sign in Em. cbn [s_now] in Em. apply Z.leb_le in Em. exact Em.
      + apply in_app_or in Hin as [Hin|Hin].
        * eapply (no_emit_timely _ Ne1); exact Hin.
        * eapply (no_emit_timely _ (agg_no_emit _ _ _ _ _ _ E2)); exact Hin.
    - destruct (s_running s); cbn [negb] in H; [|inversion H; subst; intros ? ? ? ? []].
      unfold Node.process_partial in H.
      assert (Rej : emits_timely [OReject]) by (intros ? ? ? ? [Hx|[]]; discriminate).
      destruct (_ <? r). { inversion H; subst. exact Rej. }
      destruct (r <=? _). { inversion H; subst. intros ? ? ? ? []. }
      destruct (idx_of sg <? 0). { inversion H; subst. exact Rej. }
      destruct (negb (memb _ _)). { inversion H; subst. exact Rej. }
      destruct (idx_of sg =? _). { inversion H; subst. exact Rej. }
      destruct (negb (vpart _ _ _ _)). { inversion H; subst. exact Rej. }
      apply no_emit_timely; eapply agg_no_emit; eauto.
    - inversion H; subst. intros ? ? ? ? [].
    - apply do_sync_fields in H as [_ [_ [_ G4]]]. apply no_emit_timely; exact G4.
    - inversion H; subst. intros ? ? ? ? [].
    - destruct (s_running s); cbn [negb] in H; [|inversion H; subst; intros ? ? ? ? []].
      apply try_node_fields in H as [_ [_ [_ G4]]]. apply no_emit_timely; exact G4.
  Qed.

  Theorem run_emits_timely es : forall s s' os,
    run s es = (s', os) -> emits_timely (all_outs os).
  Proof.
    induction es as [|e es IH]; intros s s' os H; simpl in H.
    { inversion H; subst. intros ? ? ? ? []. }
    destruct (step s e) as [s1 o] eqn:E1. destruct (run s1 es) as [s2 os'] eqn:E2.
    inversion H; subst. unfold all_outs; simpl.
    apply emits_timely_app; [eapply step_emits_timely; exact E1|eapply IH; exact E2].
  Qed.
End NodeTime.

(* ---------- C02: any two honest nodes agree on every round both hold ---------- *)
Lemma beacon_eq_dec (a b : beacon) : {a = b} + {a <> b}.
Proof. decide equality; apply Z.eq_dec. Qed.

Section NodeAgree.
  Variable C : cfg.
  Variable vrec : Z -> Z -> Z -> bool.
  (* threshold BLS signatures are unique per (key, message) *)
  Hypothesis vrec_unique : forall r p s1 s2, vrec r p s1 = true -> vrec r p s2 = true -> s1 = s2.

  Notation chain_ok := (chain_ok C vrec).

  Definition genesis_of (ch : list beacon) : beacon := last ch (mkB 0 empty_id empty_id).

  (* a chain in stored form: on unchained schemes the previous signature is stripped *)
  Definition stored_chain (ch : list beacon) : Prop :=
    c_chained C = false -> forall b, In b ch -> b <> genesis_of ch -> b_prev b = empty_id.

  Lemma chain_ok_rounds ch : chain_ok ch -> forall b, In b ch -> b_round (genesis_of ch) <= b_round b.
  Proof.
    induction ch as [|x ch IH]; intros Hc b Hin; [destruct Hin|].
    destruct ch as [|y ch'].
    - destruct Hin as [->|[]]. unfold genesis_of; simpl. lia.
    - destruct Hc as [[_ [Hr _]] Hc]. unfold genesis_of in *. change (last (x :: y :: ch') _) with (last (y :: ch') (mkB 0 empty_id empty_id)).
      destruct Hin as [->|Hin]; [|apply IH; assumption].
      specialize (IH Hc y (or_introl eq_refl)). lia.
  Qed.

  (* the beacon of round r in a valid chain, if present, is unique and its predecessor is the
     beacon of round r-1 *)
  Lemma chain_ok_pred ch : chain_ok ch -> forall b, In b ch -> b <> genesis_of ch ->
    exists b', In b' ch /\ b_round b' = b_round b - 1 /\ good_put C vrec b' b.
  Proof.
    induction ch as [|x ch IH]; intros Hc b Hin Hg; [destruct Hin|].
    destruct ch as [|y ch'].
    - destruct Hin as [->|[]]. exfalso; apply Hg; reflexivity.
    - destruct Hc as [Hgp Hc]. unfold genesis_of in *.
      change (last (x :: y :: ch') _) with (last (y :: ch') (mkB 0 empty_id empty_id)) in *.
      destruct Hin as [->|Hin].
      + exists y. split; [right; left; reflexivity|]. destruct Hgp as [Hv [Hr Hp]]. split; [lia|]. split; auto.
      + destruct (IH Hc b Hin Hg) as [b' [Hin' [Hr' Hgp']]]. exists b'. split; [right; exact Hin'|auto].
  Qed.

  Theorem chains_agree ch1 ch2 :
    chain_ok ch1 -> chain_ok ch2 -> ch1 <> [] -> ch2 <> [] ->
    genesis_of ch1 = genesis_of ch2 ->
    forall n b1 b2, In b1 ch1 -> In b2 ch2 ->
      b_round b1 = b_round (genesis_of ch1) + Z.of_nat n -> b_round b2 = b_round b1 -> b1 = b2.
  Proof.
    intros Hc1 Hc2 Hn1 Hn2 Hgen.
    assert (Hlast1 : In (genesis_of ch1) ch1).
    { unfold genesis_of. destruct ch1; [contradiction|]. apply exists_last in Hn1 as [l [a ->]].
      rewrite last_last. apply in_or_app; right; left; reflexivity. }
    assert (Hlast2 : In (genesis_of ch2) ch2).
    { unfold genesis_of. destruct ch2; [contradiction|]. apply exists_last in Hn2 as [l [a ->]].
      rewrite last_last. apply in_or_app; right; left; reflexivity. }
    (* a beacon of a valid chain with the genesis round is the genesis *)
    assert (Hgu : forall ch, chain_ok ch -> forall b, In b ch -> b_round b = b_round (genesis_of ch) -> b = genesis_of ch).
    { intros ch Hc b Hin Hr. destruct (beacon_eq_dec b (genesis_of ch)) as [|Hne]; [assumption|].
      destruct (chain_ok_pred ch Hc b Hin Hne) as [b' [Hin' [Hr' _]]].
      pose proof (chain_ok_rounds ch Hc b' Hin'). lia. }
    induction n as [|n IH]; intros b1 b2 Hi1 Hi2 Hr1 Hr2.
    - rewrite Z.add_0_r in Hr1.
      rewrite (Hgu ch1 Hc1 b1 Hi1 Hr1). rewrite (Hgu ch2 Hc2 b2 Hi2) by (rewrite <- Hgen; lia). exact Hgen.
    - assert (Hne1 : b1 <> genesis_of ch1) by (intros ->; lia).
      assert (Hne2 : b2 <> genesis_of ch2) by (intros ->; rewrite <- Hgen in Hr2; lia).
      destruct (chain_ok_pred ch1 Hc1 b1 Hi1 Hne1) as [p1 [Hp1 [Hpr1 [Hv1 [_ [Hl1 He1]]]]]].
      destruct (chain_ok_pred ch2 Hc2 b2 Hi2 Hne2) as [p2 [Hp2 [Hpr2 [Hv2 [_ [Hl2 He2]]]]]].
      assert (Hpp : p1 = p2) by (apply IH; try assumption; lia).
      assert (Hprev : b_prev b1 = b_prev b2).
      { destruct (c_chained C) eqn:Ech.
        - rewrite (Hl1 eq_refl), (Hl2 eq_refl), Hpp. reflexivity.
        - rewrite (He1 eq_refl), (He2 eq_refl). reflexivity. }
      unfold verified in Hv1, Hv2. rewrite Hr2, <- Hprev in Hv2.
      pose proof (vrec_unique _ _ _ _ Hv1 Hv2) as Hsig.
      destruct b1, b2; simpl in *; congruence.
  Qed.
End NodeAgree.

(* ---------- C07 (node-local): when the vault switches, and what counts afterwards ---------- *)
Section NodeSwitch.
  Variable C : cfg.
  Variable idx_of : Z -> Z.
  Variable vpart : Z -> Z -> Z -> Z -> bool.
  Variable recov : Z -> Z -> Z -> list Z -> Z -> option Z.
  Variable vrec : Z -> Z -> Z -> bool.
  Variable own_psig : Z -> Z -> Z -> Z.
  Notation step := (step C idx_of vpart recov vrec own_psig).

  (* storing a beacon switches to the pending group exactly when its round has reached the
     target (the round before the transition round), and never otherwise *)
  Lemma after_put_switch s b :
    (forall t g, s_pending s = Some (t, g) -> t <= b_round b ->
       s_grp (after_put s b) = g /\ s_pending (after_put s b) = None) /\
    (forall t g, s_pending s = Some (t, g) -> b_round b < t ->
       s_grp (after_put s b) = s_grp s /\ s_pending (after_put s b) = Some (t, g)) /\
    (s_pending s = None -> s_grp (after_put s b) = s_grp s /\ s_pending (after_put s b) = None).
  Proof.
    unfold after_put. repeat split; intros.
    - rewrite H. destruct (Z.leb_spec t (b_round b)); [reflexivity|lia].
    - rewrite H. destruct (Z.leb_spec t (b_round b)); [reflexivity|lia].
    - rewrite H. destruct (Z.leb_spec t (b_round b)); [lia|reflexivity].
    - rewrite H. destruct (Z.leb_spec t (b_round b)); [lia|reflexivity].
    - rewrite H; reflexivity.
    - rewrite H; reflexivity.
  Qed.

  (* group and pending transition as a function of the beacons stored since:
     [settle g pend puts] is the live group after the puts *)
  Fixpoint settle (g : grp) (pend : option (Z * grp)) (puts : list beacon) : grp * option (Z * grp) :=
    match puts with
    | [] => (g, pend)
    | b :: puts' =>
        match pend with
        | Some (t, g') => if t <=? b_round b then settle g' None puts' else settle g pend puts'
        | None => settle g None puts'
        end
    end.

  Lemma after_put_settle s b : (s_grp (after_put s b), s_pending (after_put s b)) = settle (s_grp s) (s_pending s) [b].
  Proof. unfold after_put; simpl. destruct (s_pending s) as [[t g]|]; [destruct (t <=? b_round b)|]; reflexivity. Qed.

  Lemma settle_app g pend a b : settle g pend (a ++ b) = let '(g1, p1) := settle g pend a in settle g1 p1 b.
  Proof.
    revert g pend; induction a as [|x a IH]; intros g pend; simpl; [reflexivity|].
    destruct pend as [[t g']|]; [destruct (t <=? b_round x)|]; apply IH.
  Qed.

  Definition gp (s : nstate) := (s_grp s, s_pending s).
  Definition tracks (s s' : nstate) (o : list out) := gp s' = settle (s_grp s) (s_pending s) (proj_puts o).

  Lemma tracks_nop s s' o : gp s' = gp s -> proj_puts o = [] -> tracks s s' o.
  Proof. unfold tracks. intros -> ->. reflexivity. Qed.

  Lemma tracks_trans s s1 s2 o1 o2 : tracks s s1 o1 -> tracks s1 s2 o2 -> tracks s s2 (o1 ++ o2).
  Proof.
    unfold tracks, gp. intros H1 H2. rewrite proj_puts_app, settle_app. rewrite <- H1. exact H2.
  Qed.

  Lemma tracks_gp_eq s s0 s' o : gp s0 = gp s -> tracks s0 s' o -> tracks s s' o.
  Proof. unfold tracks, gp. intros E H. injection E as E1 E2. rewrite <- E1, <- E2. exact H. Qed.

  Lemma tracks_cons_nonput s s' x o : tracks s s' o -> (forall b, x <> OPut b) -> tracks s s' (x :: o).
  Proof. unfold tracks. intros H Hx. destruct x; simpl; try exact H. exfalso; eapply Hx; reflexivity. Qed.

  Lemma agg_tracks s r p sg s' o : agg_partial C idx_of recov vrec s r p sg = (s', o) -> tracks s s' o.
  Proof.
    unfold Node.agg_partial. intros H.
    destruct (negb ((b_round (head s) <? r) && (r <=? b_round (head s) + c_limit C + 1))).
    { inversion H; subst. apply tracks_nop; reflexivity. }
    destruct (cache_find _ _ _) as [e|].
    2:{ inversion H; subst. apply tracks_nop; reflexivity. }
    destruct (Z.of_nat (length (ce_sigs e)) <? g_thr (s_grp s)).
    { inversion H; subst. apply tracks_nop; reflexivity. }
    destruct (recov _ _ _ _ _) as [fs|].
    2:{ inversion H; subst. apply tracks_nop; reflexivity. }
    destruct (vrec r p fs); cbn [negb] in H.
    2:{ inversion H; subst. apply tracks_nop; reflexivity. }
    destruct (b_round (head s) + 1 =? r); cbn [negb] in H.
    2:{ inversion H; subst. apply tracks_nop; [reflexivity|]. destruct (b_round (head s) + 1 <? r); reflexivity. }
    destruct (stack_accepts C (head s) (mkB r p fs)); cbn [negb] in H.
    2:{ inversion H; subst. apply tracks_nop; reflexivity. }
    match type of H with context[after_put ?x ?b] => pose proof (after_put_settle x b) as Hs end.
    destruct (r <? s_cur s); inversion H; subst; unfold tracks, gp; cbn [s_grp s_pending proj_puts] in *; exact Hs.
  Qed.

  Lemma process_tracks s r p sg s' o : process_partial C idx_of vpart recov vrec s r p sg = (s', o) -> tracks s s' o.
  Proof.
    unfold Node.process_partial. intros H.
    repeat match type of H with
    | (if ?c then _ else _) = _ => destruct c; [inversion H; subst; apply tracks_nop; reflexivity|]
    end.
    eapply agg_tracks; exact H.
  Qed.

  Lemma emit_tracks s cur upon s' o : emit_on C idx_of recov vrec own_psig s cur upon = (s', o) -> tracks s s' o.
  Proof.
    intros H. apply emit_on_shape in H.
    destruct H as [[-> [-> _]]|[r [p [o1 [_ [_ [E ->]]]]]]]; [apply tracks_nop; reflexivity|].
    apply agg_tracks in E. apply tracks_cons_nonput; [exact E|discriminate].
  Qed.

  Lemma try_node_tracks bs : forall s upto s' o, try_node C vrec s upto bs = (s', o) -> tracks s s' o.
  Proof.
    induction bs as [|b bs IH]; intros s upto s' o H; simpl in H.
    { inversion H; subst. apply tracks_nop; reflexivity. }
    destruct (negb (vrec _ _ _)). { inversion H; subst. apply tracks_nop; reflexivity. }
    destruct (negb (stack_accepts _ _ _)). { inversion H; subst. apply tracks_nop; reflexivity. }
    assert (T1 : tracks s (after_put s (stored_form C b)) [OPut (stored_form C b)]).
    { unfold tracks, gp. cbn [proj_puts]. apply after_put_settle. }
    destruct (b_round b =? upto). { inversion H; subst. exact T1. }
    destruct (Node.try_node _ _ _ _ _) as [s2 o2] eqn:E. inversion H; subst.
    apply IH in E. exact (tracks_trans _ _ _ _ _ T1 E).
  Qed.

  Lemma do_sync_tracks s upto sync s' o : do_sync C vrec s upto sync = (s', o) -> tracks s s' o.
  Proof.
    unfold Node.do_sync. intros H. destruct sync as [bs|].
    - destruct (Node.try_node _ _ _ _ _) as [s1 o1] eqn:E. inversion H; subst.
      apply try_node_tracks in E. apply tracks_cons_nonput; [exact E|discriminate].
    - inversion H; subst. apply tracks_nop; reflexivity.
  Qed.

  Lemma fire_timers_tracks ts : forall s s' o, fire_timers C idx_of recov vrec own_psig s ts = (s', o) -> tracks s s' o.
  Proof.
    induction ts as [|t ts IH]; intros s s' o H; simpl in H.
    { inversion H; subst. apply tracks_nop; reflexivity. }
    destruct (Node.emit_on _ _ _ _ _ _ _ _) as [s1 o1] eqn:E1.
    destruct (Node.fire_timers _ _ _ _ _ _ _) as [s2 o2] eqn:E2. inversion H; subst.
    apply emit_tracks in E1. apply IH in E2. exact (tracks_trans _ _ _ _ _ E1 E2).
  Qed.

  Lemma fire_due_tracks s s' o : fire_due C idx_of recov vrec own_psig s = (s', o) -> tracks s s' o.
  Proof.
    unfold Node.fire_due. intros H. destruct (s_running s).
    - apply fire_timers_tracks in H. eapply tracks_gp_eq; [|exact H]. reflexivity.
    - inversion H; subst. apply tracks_nop; reflexivity.
  Qed.

  (* Except through an explicit TransitionNewGroup or a restart (which reloads the latest group
     from disk), the live group of a node changes in exactly one way: a beacon whose round has
     reached the pending transition's target is stored. *)
  Theorem step_tracks s e s' o :
    (forall t g, e <> ETransition t g) -> (forall sy, e <> ERestart sy) ->
    step s e = (s', o) -> tracks s s' o.
  Proof.
    intros Ht Hr H.
    destruct e as [d|d| |rho sync|rho sync|r p sg| |sync|target g|upto bs]; simpl in H.
    - apply fire_due_tracks in H. eapply tracks_gp_eq; [|exact H]. reflexivity.
    - inversion H; subst. apply tracks_nop; reflexivity.
    - apply fire_due_tracks; exact H.
    - destruct (s_running s); cbn [negb] in H; [|inversion H; subst; apply tracks_nop; reflexivity].
      destruct (Node.emit_on _ _ _ _ _ _ _ _) as [s1 o1] eqn:E1. apply emit_tracks in E1.
      assert (T1 : tracks s s1 o1) by (eapply tracks_gp_eq; [|exact E1]; reflexivity).
      destruct (b_round (head s) + 1 <? rho).
      + destruct (Node.do_sync _ _ _ _ _) as [s2 o2] eqn:E2. inversion H; subst.
        apply do_sync_tracks in E2. exact (tracks_trans _ _ _ _ _ T1 E2).
      + inversion H; subst. exact T1.
    - destruct (s_running s); cbn [negb] in H; [|inversion H; subst; apply tracks_nop; reflexivity].
      destruct (sign_target rho (head s)) as [r p].
      destruct (if b_round (head s) + 1 <? rho then _ else _) as [s1 o1] eqn:E1.
      assert (T1 : tracks s s1 o1).
      { destruct (b_round (head s) + 1 <? rho).
        - apply do_sync_tracks in E1. eapply tracks_gp_eq; [|exact E1]. reflexivity.
        - inversion E1; subst. apply tracks_nop; reflexivity. }
      match type of H with context[may_sign C ?x r] => destruct (may_sign C x r) end; cbn [negb] in H.
      2:{ inversion H; subst. exact T1. }
      destruct (Node.agg_partial _ _ _ _ _ _ _ _) as [s2 o2] eqn:E2. inversion H; subst.
      apply agg_tracks in E2. apply tracks_cons_nonput; [|discriminate].
      exact (tracks_trans _ _ _ _ _ T1 E2).
    - destruct (s_running s); cbn [negb] in H; [|inversion H; subst; apply tracks_nop; reflexivity].
      eapply process_tracks; exact H.
    - inversion H; subst. apply tracks_nop; reflexivity.
    - exfalso; eapply Hr; reflexivity.
    - exfalso; eapply Ht; reflexivity.
    - destruct (s_running s); cbn [negb] in H; [|inversion H; subst; apply tracks_nop; reflexivity].
      apply try_node_tracks in H. exact H.
  Qed.
End NodeSwitch.
