(* Progress of the node-local protocol (C05): with a threshold of honest members exchanging
   their partials, the round after the stored head is produced -- by every one of them, one
   round after the other.  Model: Model/Node.v. *)
From Coq Require Import ZArith List Bool Lia.
From DV Require Import Model.Time Model.Node Proofs.NodeProofs.
Import ListNotations.
Open Scope Z_scope.

Lemma NoDup_app_single {A} (l : list A) (x : A) : NoDup l -> ~ In x l -> NoDup (l ++ [x]).
Proof.
  induction l as [|y l IH]; intros Hn Hx; simpl; [constructor; [intros []|constructor]|].
  inversion Hn; subst. constructor.
  - intros Hin. apply in_app_or in Hin as [Hin|[Hin|[]]]; [contradiction|]. subst. apply Hx; left; reflexivity.
  - apply IH; [assumption|]. intros Hin; apply Hx; right; exact Hin.
Qed.

Section NodeLive.
  Variable C : cfg.
  Variable idx_of : Z -> Z.
  Variable vpart : Z -> Z -> Z -> Z -> bool.
  Variable recov : Z -> Z -> Z -> list Z -> Z -> option Z.
  Variable vrec : Z -> Z -> Z -> bool.
  Variable own_psig : Z -> Z -> Z -> Z.

  (* recover-validity: from at least t valid partials with pairwise distinct indices Recover
     yields a signature that verifies under the group key (Lagrange interpolation on a
     polynomial of degree t-1) *)
  Hypothesis recov_complete : forall P r p sigs t,
    NoDup (map idx_of sigs) -> t <= Z.of_nat (length sigs) ->
    (forall x, In x sigs -> vpart P r p x = true) ->
    exists s, recov P r p sigs t = Some s /\ vrec r p s = true.

  Notation step := (step C idx_of vpart recov vrec own_psig).
  Notation run := (run C idx_of vpart recov vrec own_psig).
  Notation agg_partial := (agg_partial C idx_of recov vrec).
  Notation process_partial := (process_partial C idx_of vpart recov vrec).

  (* ---- cache lemmas ---- *)
  Lemma cache_find_add_absent c r p i sg :
    cache_find c r p = None -> cache_find (cache_add c r p i sg) r p = Some (mkCE r p [(i, sg)]).
  Proof.
    induction c as [|e c IH]; simpl; intros H.
    - rewrite !Z.eqb_refl. reflexivity.
    - destruct ((ce_round e =? r) && (ce_prev e =? p)) eqn:E; [discriminate|]. simpl. rewrite E. auto.
  Qed.

  Lemma cache_find_add_present c r p i sg e :
    cache_find c r p = Some e -> ce_round e = r /\ ce_prev e = p ->
    cache_find (cache_add c r p i sg) r p =
      Some (if memb i (map fst (ce_sigs e)) then e else mkCE r p (ce_sigs e ++ [(i, sg)])).
  Proof.
    induction c as [|x c IH]; simpl; intros H Hrp; [discriminate|].
    destruct ((ce_round x =? r) && (ce_prev x =? p)) eqn:E.
    - inversion H; subst x. simpl.
      destruct (memb i (map fst (ce_sigs e))); simpl.
      + rewrite E. reflexivity.
      + rewrite !Z.eqb_refl. reflexivity.
    - simpl. rewrite E. auto.
  Qed.

  Lemma cache_find_key c r p e : cache_find c r p = Some e -> ce_round e = r /\ ce_prev e = p.
  Proof.
    induction c as [|x c IH]; simpl; intros H; [discriminate|].
    destruct ((ce_round x =? r) && (ce_prev x =? p)) eqn:E; [|auto].
    inversion H; subst. apply andb_prop in E as [E1 E2]. apply Z.eqb_eq in E1, E2. auto.
  Qed.

  Lemma memb_false_notin i l : memb i l = false -> ~ In i l.
  Proof.
    unfold memb. intros H Hin. assert (existsb (Z.eqb i) l = true).
    { apply existsb_exists. exists i. split; [exact Hin|apply Z.eqb_refl]. }
    congruence.
  Qed.

  Lemma memb_true_in i l : memb i l = true -> In i l.
  Proof. unfold memb. intros H. apply existsb_exists in H as [x [Hin E]]. apply Z.eqb_eq in E. subst; exact Hin. Qed.

  Lemma notin_memb_false i l : ~ In i l -> memb i l = false.
  Proof. intros H. destruct (memb i l) eqn:E; [|reflexivity]. apply memb_true_in in E. contradiction. Qed.

  (* ---- the round being collected ---- *)
  (* node state that holds, for the round after its head [hb] and the previous signature an
     honest node sends, exactly the partials [sigs] (index-consistent, distinct, all valid) *)
  Record collecting (s : nstate) (hb : beacon) (sigs : list (Z * Z)) : Prop := {
    col_run : s_running s = true;
    col_head : head s = hb;
    col_find : cache_find (s_cache s) (b_round hb + 1) (b_sig hb) = Some (mkCE (b_round hb + 1) (b_sig hb) sigs);
    col_idx : forall i sg, In (i, sg) sigs -> idx_of sg = i;
    col_nodup : NoDup (map fst sigs);
    col_valid : forall i sg, In (i, sg) sigs -> vpart (g_poly (s_grp s)) (b_round hb + 1) (b_sig hb) sg = true;
    col_few : Z.of_nat (length sigs) < g_thr (s_grp s)
  }.

  Lemma map_idx_sigs sigs : (forall i sg, In (i, sg) sigs -> idx_of sg = i) -> map idx_of (map snd sigs) = map fst sigs.
  Proof.
    induction sigs as [|[i sg] l IH]; intros H; simpl; [reflexivity|].
    rewrite (H i sg (or_introl eq_refl)). f_equal. apply IH. intros; apply H; right; assumption.
  Qed.

  Hypothesis limit_nonneg : 0 <= c_limit C.

  (* the round after hb has been produced and stored *)
  Definition produced (s : nstate) (hb : beacon) : Prop :=
    b_round (head s) = b_round hb + 1 /\
    vrec (b_round (head s)) (b_prev (head s)) (b_sig (head s)) = true /\
    s_running s = true.

  Hypothesis vrec_unchained : c_chained C = false -> forall r p p' s, vrec r p s = vrec r p' s.

  (* one more valid partial from a new index: either still collecting, or the round is produced *)
  Lemma collect_step s hb sigs i sg :
    collecting s hb sigs -> idx_of sg = i -> ~ In i (map fst sigs) ->
    vpart (g_poly (s_grp s)) (b_round hb + 1) (b_sig hb) sg = true ->
    forall s' o, agg_partial s (b_round hb + 1) (b_sig hb) sg = (s', o) ->
      (collecting s' hb (sigs ++ [(i, sg)]) /\ s_grp s' = s_grp s /\ s_now s' = s_now s) \/ produced s' hb.
  Proof.
    intros Hc Hi Hn Hv s' o H. destruct Hc as [Hrun Hhead Hfind Hidx Hnd Hval Hfew].
    unfold Node.agg_partial in H. rewrite Hhead in H.
    assert (W : negb ((b_round hb <? b_round hb + 1) && (b_round hb + 1 <=? b_round hb + c_limit C + 1)) = false).
    { destruct (Z.ltb_spec (b_round hb) (b_round hb + 1)); [|lia].
      destruct (Z.leb_spec (b_round hb + 1) (b_round hb + c_limit C + 1)); [reflexivity|lia]. }
    rewrite W in H. rewrite Hi in H.
    rewrite (cache_find_add_present _ _ _ i sg _ Hfind (conj eq_refl eq_refl)) in H.
    cbn [ce_sigs] in H. rewrite (notin_memb_false _ _ Hn) in H. cbn [ce_sigs] in H.
    set (sigs' := sigs ++ [(i, sg)]) in *.
    assert (Hidx' : forall j x, In (j, x) sigs' -> idx_of x = j).
    { intros j x Hin. apply in_app_or in Hin as [Hin|[Hin|[]]]; [eauto|]. inversion Hin; subst; reflexivity. }
    assert (Hnd' : NoDup (map fst sigs')).
    { unfold sigs'. rewrite map_app. simpl. apply NoDup_app_single; assumption. }
    assert (Hval' : forall j x, In (j, x) sigs' -> vpart (g_poly (s_grp s)) (b_round hb + 1) (b_sig hb) x = true).
    { intros j x Hin. apply in_app_or in Hin as [Hin|[Hin|[]]]; [eauto|]. inversion Hin; subst; exact Hv. }
    destruct (Z.of_nat (length sigs') <? g_thr (s_grp s)) eqn:Elt.
    - (* still below the threshold *)
      injection H as <- <-. left. split; [|split; reflexivity].
      apply Z.ltb_lt in Elt.
      constructor; cbn [s_running s_cache s_grp].
      + exact Hrun.
      + unfold head; cbn [s_chain]. exact Hhead.
      + rewrite (cache_find_add_present _ _ _ i sg _ Hfind (conj eq_refl eq_refl)).
        cbn [ce_sigs]. rewrite (notin_memb_false _ _ Hn). reflexivity.
      + exact Hidx'.
      + exact Hnd'.
      + exact Hval'.
      + exact Elt.
    - (* threshold reached: Recover succeeds and the beacon is stored *)
      apply Z.ltb_ge in Elt.
      destruct (recov_complete (g_poly (s_grp s)) (b_round hb + 1) (b_sig hb) (map snd sigs') (g_thr (s_grp s)))
        as [fs [Hr Hvr]].
      { rewrite (map_idx_sigs _ Hidx'). exact Hnd'. }
      { rewrite map_length. exact Elt. }
      { intros x Hin. apply in_map_iff in Hin as [[j y] [E Hin]]. simpl in E; subst y. eauto. }
      rewrite Hr in H. rewrite Hvr in H. cbn [negb] in H.
      rewrite Z.eqb_refl in H. cbn [negb] in H.
      assert (Hacc : stack_accepts C hb (mkB (b_round hb + 1) (b_sig hb) fs) = true).
      { unfold stack_accepts. cbn [b_round b_prev]. rewrite !Z.eqb_refl. destruct (c_chained C); reflexivity. }
      rewrite Hacc in H. cbn [negb] in H.
      right. unfold produced.
      set (sb := stored_form C (mkB (b_round hb + 1) (b_sig hb) fs)) in *.
      assert (Hsb : b_round sb = b_round hb + 1 /\ vrec (b_round sb) (b_prev sb) (b_sig sb) = true).
      { unfold sb, stored_form. destruct (c_chained C) eqn:Ech; cbn [b_round b_prev b_sig]; split; auto.
        rewrite (vrec_unchained eq_refl _ _ (b_sig hb)). exact Hvr. }
      assert (Hh : forall x, head (after_put x sb) = sb) by (intros x; unfold head; rewrite after_put_chain; reflexivity).
      assert (Hrn : forall x, s_running (after_put x sb) = s_running x).
      { intros x. unfold after_put. destruct (s_pending x) as [[t g]|]; [destruct (t <=? b_round sb)|]; reflexivity. }
      destruct (b_round hb + 1 <? s_cur s); injection H as <- <-.
      + unfold head in *; cbn [s_chain s_running]. destruct Hsb; auto.
      + rewrite Hh, Hrn. cbn [s_running]. destruct Hsb; auto.
  Qed.
End NodeLive.
