(* Progress of the node-local protocol (C05): with a threshold of honest members exchanging
   their partials, the round after the stored head is produced -- by every one of them, and
   then the next one, one round after the other with none skipped.  Model: Model/Node.v. *)
From Coq Require Import ZArith List Bool Lia.
From DV Require Import Model.Time Model.Node Proofs.NodeProofs.
Import ListNotations.
Open Scope Z_scope.

Lemma NoDup_app_single {A} (l : list A) (x : A) : NoDup l -> ~ In x l -> NoDup (l ++ [x]).
Proof.
  induction l as [|y l IH]; intros Hn Hx; simpl; [constructor; [intros []|constructor]|].
  inversion Hn; subst. constructor.
  - intros Hin. apply in_app_or in Hin as [Hin|[Hin|[]]]; [contradiction|]. subst. apply Hx; left; reflexivity.
  - apply IH; [assumption|]. intros Hin; apply Hx; right; exact Hin.
Qed.

Section NodeLive.
  Variable C : cfg.
  Variable idx_of : Z -> Z.
  Variable vpart : Z -> Z -> Z -> Z -> bool.
  Variable recov : Z -> Z -> Z -> list Z -> Z -> option Z.
  Variable vrec : Z -> Z -> Z -> bool.
  Variable own_psig : Z -> Z -> Z -> Z.

  (* recover-validity: from at least t valid partials with pairwise distinct indices Recover
     yields a signature that verifies under the group key (Lagrange interpolation on a
     polynomial of degree t-1) *)
  Hypothesis recov_complete : forall P r p sigs t,
    NoDup (map idx_of sigs) -> t <= Z.of_nat (length sigs) ->
    (forall x, In x sigs -> vpart P r p x = true) ->
    exists s, recov P r p sigs t = Some s /\ vrec r p s = true.
  Hypothesis limit_nonneg : 0 <= c_limit C.
  Hypothesis vrec_unchained : c_chained C = false -> forall r p p' s, vrec r p s = vrec r p' s.

  Notation step := (step C idx_of vpart recov vrec own_psig).
  Notation agg_partial := (agg_partial C idx_of recov vrec).
  Notation process_partial := (process_partial C idx_of vpart recov vrec).

  Lemma memb_true_in i l : memb i l = true -> In i l.
  Proof. unfold memb. intros H. apply existsb_exists in H as [x [Hin E]]. apply Z.eqb_eq in E. subst; exact Hin. Qed.

  Lemma notin_memb_false i l : ~ In i l -> memb i l = false.
  Proof. intros H. destruct (memb i l) eqn:E; [|reflexivity]. apply memb_true_in in E. contradiction. Qed.

  Lemma map_idx_sigs sigs : (forall i sg, In (i, sg) sigs -> idx_of sg = i) -> map idx_of (map snd sigs) = map fst sigs.
  Proof.
    induction sigs as [|[i sg] l IH]; intros H; simpl; [reflexivity|].
    rewrite (H i sg (or_introl eq_refl)). f_equal. apply IH. intros; apply H; right; assumption.
  Qed.

  (* the beacon of the round after hb, as stored *)
  Definition next_beacon (hb : beacon) (fs : Z) : beacon := stored_form C (mkB (b_round hb + 1) (b_sig hb) fs).

  Lemma next_beacon_ok hb fs : vrec (b_round hb + 1) (b_sig hb) fs = true ->
    b_round (next_beacon hb fs) = b_round hb + 1 /\
    vrec (b_round (next_beacon hb fs)) (b_prev (next_beacon hb fs)) (b_sig (next_beacon hb fs)) = true /\
    b_sig (next_beacon hb fs) = fs.
  Proof.
    intros Hv. unfold next_beacon, stored_form. destruct (c_chained C) eqn:Ech; cbn [b_round b_prev b_sig]; repeat split; auto.
    rewrite (vrec_unchained eq_refl _ _ (b_sig hb)). exact Hv.
  Qed.

  (* what stays fixed while a round is being collected, relative to the state s0 at its start *)
  Definition same_base (s0 s : nstate) : Prop :=
    s_grp s = s_grp s0 /\ s_now s = s_now s0 /\ s_pending s = None /\ s_running s = true.

  (* collecting the round after hb: the cache is exactly one entry, for (hb.round+1, hb.sig),
     holding index-consistent, pairwise distinct, valid partials, fewer than the threshold *)
  Record collecting (s0 s : nstate) (hb : beacon) (sigs : list (Z * Z)) : Prop := {
    col_base : same_base s0 s;
    col_chain : s_chain s = s_chain s0;
    col_cache : s_cache s = [mkCE (b_round hb + 1) (b_sig hb) sigs];
    col_idx : forall i sg, In (i, sg) sigs -> idx_of sg = i;
    col_nodup : NoDup (map fst sigs);
    col_valid : forall i sg, In (i, sg) sigs -> vpart (g_poly (s_grp s0)) (b_round hb + 1) (b_sig hb) sg = true;
    col_few : Z.of_nat (length sigs) < g_thr (s_grp s0)
  }.

  (* the round after hb has been produced: the chain grew by exactly its verified beacon, the
     cache is empty again *)
  Definition produced (s0 s : nstate) (hb : beacon) : Prop :=
    same_base s0 s /\ s_cache s = [] /\
    exists fs, vrec (b_round hb + 1) (b_sig hb) fs = true /\ s_chain s = next_beacon hb fs :: s_chain s0.

  (* the aggregator's reaction to a partial for (hb.round+1, hb.sig) when the cache is [c] *)
  Lemma agg_on_round s0 s hb c sg sigs' :
    same_base s0 s -> s_chain s = s_chain s0 -> head s0 = hb -> s_cache s = c ->
    cache_find (cache_add c (b_round hb + 1) (b_sig hb) (idx_of sg) sg) (b_round hb + 1) (b_sig hb)
      = Some (mkCE (b_round hb + 1) (b_sig hb) sigs') ->
    cache_add c (b_round hb + 1) (b_sig hb) (idx_of sg) sg = [mkCE (b_round hb + 1) (b_sig hb) sigs'] ->
    (forall i x, In (i, x) sigs' -> idx_of x = i) -> NoDup (map fst sigs') ->
    (forall i x, In (i, x) sigs' -> vpart (g_poly (s_grp s0)) (b_round hb + 1) (b_sig hb) x = true) ->
    forall s' o, agg_partial s (b_round hb + 1) (b_sig hb) sg = (s', o) ->
      collecting s0 s' hb sigs' \/ produced s0 s' hb.
  Proof.
    intros [Bg [Bn [Bp Br]]] Hch Hhead Hc Hfind Hadd Hidx' Hnd' Hval' s' o H.
    assert (Hhd : head s = hb) by (unfold head in *; rewrite Hch; exact Hhead).
    unfold Node.agg_partial in H. rewrite Hhd, Hc in H.
    assert (W : negb ((b_round hb <? b_round hb + 1) && (b_round hb + 1 <=? b_round hb + c_limit C + 1)) = false).
    { destruct (Z.ltb_spec (b_round hb) (b_round hb + 1)); [|lia].
      destruct (Z.leb_spec (b_round hb + 1) (b_round hb + c_limit C + 1)); [reflexivity|lia]. }
    rewrite W, Hfind in H. cbn [ce_sigs] in H. rewrite Bg in H.
    destruct (Z.of_nat (length sigs') <? g_thr (s_grp s0)) eqn:Elt.
    - injection H as <- <-. left. apply Z.ltb_lt in Elt.
      constructor; cbn [s_chain s_cache]; try assumption.
      unfold same_base; cbn [s_grp s_now s_pending s_running]. auto.
    - apply Z.ltb_ge in Elt.
      destruct (recov_complete (g_poly (s_grp s0)) (b_round hb + 1) (b_sig hb) (map snd sigs') (g_thr (s_grp s0)))
        as [fs [Hr Hvr]].
      { rewrite (map_idx_sigs _ Hidx'). exact Hnd'. }
      { rewrite map_length. exact Elt. }
      { intros x Hin. apply in_map_iff in Hin as [[j y] [E Hin]]. simpl in E; subst y. eauto. }
      rewrite Hr, Hvr in H. cbn [negb] in H. rewrite Z.eqb_refl in H. cbn [negb] in H.
      assert (Hacc : stack_accepts C hb (mkB (b_round hb + 1) (b_sig hb) fs) = true).
      { unfold stack_accepts. cbn [b_round b_prev]. rewrite !Z.eqb_refl. destruct (c_chained C); reflexivity. }
      rewrite Hacc in H. cbn [negb] in H. fold (next_beacon hb fs) in H.
      destruct (next_beacon_ok hb fs Hvr) as [Nr _].
      right. unfold produced.
      assert (Hflush : cache_flush (cache_flush (cache_add c (b_round hb + 1) (b_sig hb) (idx_of sg) sg) (b_round hb + 1))
                                   (b_round (next_beacon hb fs)) = []).
      { rewrite Hadd. simpl. destruct (Z.ltb_spec (b_round hb + 1) (b_round hb + 1)); [lia|reflexivity]. }
      unfold after_put in H. rewrite Bp in H. cbn [fst snd s_now s_chain s_cache s_cur s_timers s_grp s_pending s_running] in H.
      rewrite Hflush in H.
      destruct (b_round hb + 1 <? s_cur s); injection H as <- <-;
        (split; [unfold same_base; cbn [s_grp s_now s_pending s_running]; auto|]);
        (split; [reflexivity|]); exists fs; (split; [exact Hvr|]); cbn [s_chain]; rewrite Hch; reflexivity.
  Qed.

  (* one more valid partial from a new index *)
  Lemma collect_step s0 s hb sigs sg :
    head s0 = hb -> collecting s0 s hb sigs -> ~ In (idx_of sg) (map fst sigs) ->
    vpart (g_poly (s_grp s0)) (b_round hb + 1) (b_sig hb) sg = true ->
    forall s' o, agg_partial s (b_round hb + 1) (b_sig hb) sg = (s', o) ->
      collecting s0 s' hb (sigs ++ [(idx_of sg, sg)]) \/ produced s0 s' hb.
  Proof.
    intros Hhead Hc Hn Hv s' o H. destruct Hc as [Hb Hch Hca Hidx Hnd Hval Hfew].
    assert (Hadd : cache_add (s_cache s) (b_round hb + 1) (b_sig hb) (idx_of sg) sg
                   = [mkCE (b_round hb + 1) (b_sig hb) (sigs ++ [(idx_of sg, sg)])]).
    { rewrite Hca. simpl. rewrite !Z.eqb_refl. cbn [andb ce_sigs]. rewrite (notin_memb_false _ _ Hn). reflexivity. }
    eapply (agg_on_round s0 s hb (s_cache s) sg (sigs ++ [(idx_of sg, sg)])); try eassumption; try reflexivity.
    - rewrite Hadd. simpl. rewrite !Z.eqb_refl. reflexivity.
    - intros j x Hin. apply in_app_or in Hin as [Hin|[Hin|[]]]; [eauto|]. inversion Hin; subst; reflexivity.
    - rewrite map_app. simpl. apply NoDup_app_single; assumption.
    - intros j x Hin. apply in_app_or in Hin as [Hin|[Hin|[]]]; [eauto|]. inversion Hin; subst; exact Hv.
  Qed.

  (* the node's own partial opens the round *)
  Lemma own_opens_round s0 s hb sg :
    head s0 = hb -> same_base s0 s -> s_chain s = s_chain s0 -> s_cache s = [] ->
    vpart (g_poly (s_grp s0)) (b_round hb + 1) (b_sig hb) sg = true ->
    forall s' o, agg_partial s (b_round hb + 1) (b_sig hb) sg = (s', o) ->
      collecting s0 s' hb [(idx_of sg, sg)] \/ produced s0 s' hb.
  Proof.
    intros Hhead Hb Hch Hca Hv s' o H.
    eapply (agg_on_round s0 s hb [] sg [(idx_of sg, sg)]); try eassumption; try reflexivity.
    - simpl. rewrite !Z.eqb_refl. reflexivity.
    - intros i x [Hin|[]]. inversion Hin; subst; reflexivity.
    - simpl. constructor; [intros []|constructor].
    - intros i x [Hin|[]]. inversion Hin; subst; exact Hv.
  Qed.

  (* a valid partial of another live member, within the clock tolerance *)
  Definition good_partial (s0 : nstate) (hb : beacon) (sg : Z) : Prop :=
    0 <= idx_of sg /\ memb (idx_of sg) (g_members (s_grp s0)) = true /\ idx_of sg <> g_me (s_grp s0) /\
    vpart (g_poly (s_grp s0)) (b_round hb + 1) (b_sig hb) sg = true /\
    b_round hb + 1 <= fst (next_round (s_now s0) (c_period C) (c_genesis C)).

  Lemma process_good s0 s hb sigs sg :
    head s0 = hb -> collecting s0 s hb sigs -> good_partial s0 hb sg ->
    process_partial s (b_round hb + 1) (b_sig hb) sg = agg_partial s (b_round hb + 1) (b_sig hb) sg.
  Proof.
    intros Hhead Hc [G1 [G2 [G3 [G4 G5]]]]. destruct (col_base _ _ _ _ Hc) as [Bg [Bn [Bp Br]]].
    assert (Hhd : head s = hb) by (unfold head in *; rewrite (col_chain _ _ _ _ Hc); exact Hhead).
    unfold Node.process_partial. rewrite Hhd, Bn, Bg.
    destruct (Z.ltb_spec (fst (next_round (s_now s0) (c_period C) (c_genesis C))) (b_round hb + 1)); [lia|].
    destruct (Z.leb_spec (b_round hb + 1) (b_round hb)); [lia|].
    destruct (Z.ltb_spec (idx_of sg) 0); [lia|].
    rewrite G2. cbn [negb]. destruct (Z.eqb_spec (idx_of sg) (g_me (s_grp s0))); [contradiction|].
    rewrite G4. reflexivity.
  Qed.

  Lemma process_after_produced s0 s hb r p sg :
    head s0 = hb -> produced s0 s hb -> r <= b_round hb + 1 -> exists o, process_partial s r p sg = (s, o).
  Proof.
    intros Hhead [_ [_ [fs [Hv Hch]]]] Hle. unfold Node.process_partial.
    destruct (_ <? r); [eexists; reflexivity|].
    assert (b_round (head s) = b_round hb + 1).
    { unfold head. rewrite Hch. cbn [hd]. apply next_beacon_ok; exact Hv. }
    destruct (Z.leb_spec r (b_round (head s))); [eexists; reflexivity|lia].
  Qed.

  (* deliveries of partials for the round after hb *)
  Fixpoint deliver (s : nstate) (hb : beacon) (ps : list Z) : nstate :=
    match ps with
    | [] => s
    | sg :: ps' => deliver (fst (step s (EPart (b_round hb + 1) (b_sig hb) sg))) hb ps'
    end.

  Lemma deliver_produced ps : forall s0 s hb, head s0 = hb -> produced s0 s hb -> produced s0 (deliver s hb ps) hb.
  Proof.
    induction ps as [|sg ps IH]; intros s0 s hb Hhead Hp; simpl; [exact Hp|]. apply IH; [exact Hhead|].
    destruct Hp as [[Bg [Bn [Bp Br]]] Rest]. rewrite Br. cbn [negb].
    destruct (process_after_produced s0 s hb (b_round hb + 1) (b_sig hb) sg Hhead
                (conj (conj Bg (conj Bn (conj Bp Br))) Rest) ltac:(lia)) as [o Ho].
    rewrite Ho. cbn [fst]. split; [unfold same_base; auto|exact Rest].
  Qed.

  Lemma deliver_collecting ps : forall s0 s hb sigs,
    head s0 = hb -> collecting s0 s hb sigs ->
    (forall sg, In sg ps -> good_partial s0 hb sg) ->
    NoDup (map idx_of ps) -> (forall sg, In sg ps -> ~ In (idx_of sg) (map fst sigs)) ->
    g_thr (s_grp s0) <= Z.of_nat (length sigs) + Z.of_nat (length ps) ->
    produced s0 (deliver s hb ps) hb.
  Proof.
    induction ps as [|sg ps IH]; intros s0 s hb sigs Hhead Hc Hg Hnd Hni Hthr.
    - exfalso. pose proof (col_few _ _ _ _ Hc). simpl in Hthr. lia.
    - simpl. destruct (col_base _ _ _ _ Hc) as [_ [_ [_ Br]]]. rewrite Br. cbn [negb].
      rewrite (process_good s0 s hb sigs sg Hhead Hc (Hg sg (or_introl eq_refl))).
      destruct (Node.agg_partial C idx_of recov vrec s (b_round hb + 1) (b_sig hb) sg) as [s1 o1] eqn:E. cbn [fst].
      destruct (Hg sg (or_introl eq_refl)) as [G1 [G2 [G3 [G4 G5]]]].
      destruct (collect_step s0 s hb sigs sg Hhead Hc (Hni sg (or_introl eq_refl)) G4 s1 o1 E) as [Hc1|Hp].
      + inversion Hnd; subst.
        apply (IH s0 s1 (head s0) (sigs ++ [(idx_of sg, sg)]) eq_refl Hc1).
        * intros x Hx. apply Hg. right; exact Hx.
        * assumption.
        * intros x Hx Hin. rewrite map_app in Hin. apply in_app_or in Hin as [Hin|[Hin|[]]].
          -- exact (Hni x (or_intror Hx) Hin).
          -- cbn [fst] in Hin. match goal with H : ~ In (idx_of sg) (map idx_of ps) |- _ => apply H end.
             rewrite Hin. apply in_map. exact Hx.
        * rewrite app_length. simpl in *. lia.
      + apply deliver_produced; [exact Hhead|exact Hp].
  Qed.

  (* a node ready for the next round: running, nothing cached, no transition pending *)
  Definition ready (s : nstate) : Prop := s_running s = true /\ s_cache s = [] /\ s_pending s = None.

  (* C05, one node: a tick on top of head hb followed by the partials of enough other members
     (in any order among themselves) leaves the node with exactly round hb+1 appended. *)
  Theorem node_round_completes s hb rho ps :
    ready s -> head s = hb -> rho <> b_round hb ->
    b_round hb + 1 <= current_round (s_now s) (c_period C) (c_genesis C) ->   (* the round's time has come *)
    let own := own_psig (g_poly (s_grp s)) (b_round hb + 1) (b_sig hb) in
    vpart (g_poly (s_grp s)) (b_round hb + 1) (b_sig hb) own = true ->
    (forall sg, In sg ps -> good_partial s hb sg) -> NoDup (map idx_of ps) ->
    (forall sg, In sg ps -> idx_of sg <> idx_of own) ->
    g_thr (s_grp s) <= 1 + Z.of_nat (length ps) ->
    produced s (deliver (fst (step s (ETick rho None))) hb ps) hb.
  Proof.
    intros [Hrun [Hca Hpe]] Hhead Hrho Hclock own Hvown Hgood Hnd Hdiff Hthr.
    cbn [Node.step]. rewrite Hrun. cbn [negb].
    unfold Node.emit_on, sign_target, may_sign. cbn [s_grp s_now]. rewrite Hhead.
    destruct (Z.eqb_spec rho (b_round hb)) as [|_]; [contradiction|].
    replace (b_round hb + 1 <=? current_round (s_now s) (c_period C) (c_genesis C)) with true
      by (symmetry; apply Z.leb_le; exact Hclock).
    cbn [negb]. fold own.
    set (s0 := mkS (s_now s) (s_chain s) (s_cache s) rho (s_timers s) (s_grp s) (s_pending s) true).
    destruct (Node.agg_partial C idx_of recov vrec s0 (b_round hb + 1) (b_sig hb) own) as [s1 o1] eqn:E.
    assert (Hstep : collecting s s1 hb [(idx_of own, own)] \/ produced s s1 hb).
    { eapply (own_opens_round s s0 hb own); try eassumption; try reflexivity.
      unfold same_base, s0; cbn [s_grp s_now s_pending s_running]. auto. }
    match goal with |- produced s (deliver (fst ?x) hb ps) hb => destruct x as [s2 o2] eqn:E2 end.
    cbn [fst]. assert (s2 = s1).
    { destruct (b_round hb + 1 <? rho); simpl in E2; inversion E2; reflexivity. }
    subst s2. clear E2.
    destruct Hstep as [Hc|Hp]; [|apply deliver_produced; assumption].
    eapply deliver_collecting; [exact Hhead|exact Hc|exact Hgood|exact Hnd| |].
    - intros sg Hin [Hi|[]]. cbn [fst] in Hi. apply (Hdiff sg Hin). congruence.
    - cbn [length]. change (Z.of_nat 1) with 1. lia.
  Qed.
End NodeLive.

(* ---------- re-broadcast on every tick, sync on a gap, rejoin by syncing ---------- *)
Section NodeRejoin.
  Variable C : cfg.
  Variable idx_of : Z -> Z.
  Variable vpart : Z -> Z -> Z -> Z -> bool.
  Variable recov : Z -> Z -> Z -> list Z -> Z -> option Z.
  Variable vrec : Z -> Z -> Z -> bool.
  Variable own_psig : Z -> Z -> Z -> Z.
  Notation step := (step C idx_of vpart recov vrec own_psig).

  (* every tick handled by a running node re-broadcasts a partial on top of the stored head -- as
     soon as that round's time has come on the node's clock -- and a gap between the head and the
     ticked round triggers a sync with the group in any case *)
  Theorem tick_rebroadcasts s rho sync :
    s_running s = true ->
    (emit_round rho (head s) <= current_round (s_now s) (c_period C) (c_genesis C) ->
     exists p sg o', snd (step s (ETick rho sync)) = OEmit (emit_round rho (head s)) p sg (s_now s) :: o') /\
    (b_round (head s) + 1 < rho -> In (OSyncReq rho) (snd (step s (ETick rho sync)))).
  Proof.
    intros Hrun. cbn [Node.step]. rewrite Hrun. cbn [negb].
    destruct (Node.emit_on _ _ _ _ _ _ _ _) as [s1 o1] eqn:E1.
    assert (Hsync : b_round (head s) + 1 < rho ->
                    forall s2 o2, Node.do_sync C vrec s1 rho sync = (s2, o2) -> In (OSyncReq rho) o2).
    { intros _ s2 o2 E2. unfold Node.do_sync in E2. destruct sync as [bs|].
      - destruct (Node.try_node _ _ _ _ _) as [s3 o3]. inversion E2; subst. left; reflexivity.
      - inversion E2; subst. left; reflexivity. }
    split.
    - intros Hr. pose proof E1 as Hsh. apply emit_on_shape in Hsh.
      destruct Hsh as [[_ [_ Hno]]|[r [p [o1' [Et [_ [_ ->]]]]]]].
      + exfalso. unfold may_sign in Hno. cbn [s_now] in Hno.
        assert (fst (sign_target rho (head s)) = emit_round rho (head s))
          by (unfold sign_target, emit_round; destruct (rho =? b_round (head s)); reflexivity).
        unfold head in H at 1. cbn [s_chain] in H. fold (head s) in H.
        unfold head in Hno at 1. cbn [s_chain] in Hno. fold (head s) in Hno.
        rewrite H in Hno. apply Z.leb_gt in Hno. lia.
      + assert (r = emit_round rho (head s)).
        { unfold head in Et at 1. cbn [s_chain] in Et. fold (head s) in Et.
          unfold sign_target in Et. unfold emit_round. destruct (rho =? b_round (head s)); inversion Et; reflexivity. }
        subst r. cbn [s_now].
        destruct (b_round (head s) + 1 <? rho).
        * destruct (Node.do_sync _ _ _ _ _) as [s2 o2]. cbn [snd]. do 3 eexists. reflexivity.
        * cbn [snd]. do 3 eexists. reflexivity.
    - intros Hgap. destruct (Z.ltb_spec (b_round (head s) + 1) rho); [|lia].
      destruct (Node.do_sync _ _ _ _ _) as [s2 o2] eqn:E2. cbn [snd].
      apply in_or_app. right. eapply Hsync; eauto.
  Qed.

  (* a stream of beacons each of which verifies and is the stack-acceptable successor of the
     previous one (an honest peer's chain from head+1) *)
  Fixpoint honest_stream (hd : beacon) (bs : list beacon) : Prop :=
    match bs with
    | [] => True
    | b :: bs' => vrec (b_round b) (b_prev b) (b_sig b) = true /\ stack_accepts C hd b = true /\
                  honest_stream (stored_form C b) bs'
    end.

  (* tryNode on such a stream stores every beacon up to the requested round (all of them if the
     stream ends before it): a node that was down rejoins by syncing *)
  Theorem try_node_stores_honest bs : forall s upto,
    honest_stream (head s) bs ->
    exists stored, s_chain (fst (try_node C vrec s upto bs)) = rev (map (stored_form C) stored) ++ s_chain s /\
      (exists rest, bs = stored ++ rest) /\
      ((forall b, In b bs -> b_round b <> upto) -> stored = bs).
  Proof.
    induction bs as [|b bs IH]; intros s upto Hs.
    - exists []. simpl. split; [reflexivity|]. split; [exists []; reflexivity|auto].
    - destruct Hs as [Hv [Ha Hs]]. simpl. rewrite Hv, Ha. cbn [negb].
      assert (Hh : head (after_put s (stored_form C b)) = stored_form C b)
        by (unfold head; rewrite after_put_chain; reflexivity).
      destruct (Z.eqb_spec (b_round b) upto) as [Eu|Nu].
      + exists [b]. cbn [fst]. rewrite after_put_chain. simpl. split; [reflexivity|]. split; [exists bs; reflexivity|].
        intros Hn. exfalso. apply (Hn b (or_introl eq_refl)). exact Eu.
      + rewrite <- Hh in Hs.
        destruct (IH (after_put s (stored_form C b)) upto Hs) as [st [Hc [[rest Hr] Hall]]].
        destruct (Node.try_node C vrec (after_put s (stored_form C b)) upto bs) as [s2 o2] eqn:E. cbn [fst] in *.
        exists (b :: st). rewrite Hc, after_put_chain. simpl. rewrite <- app_assoc. split; [reflexivity|].
        split; [exists rest; rewrite Hr; reflexivity|].
        intros Hn. f_equal. apply Hall. intros x Hx. apply Hn. right; exact Hx.
  Qed.
End NodeRejoin.
