(* Lemmas for Model/Robust.v (C14). *)
From Coq Require Import ZArith List Bool Lia.
From DV Require Import Model.Routing Model.Robust Gen.DKGTable.
Import ListNotations.
Open Scope Z_scope.

Lemma decide_echo_panic : forall b deep s, decide_echo b deep = EPanic s ->
  bundle_wire b = false /\ (s = PS_bundle_nil_inner \/ s = PS_bundle_nil_element).
Proof.
  intros b deep s. destruct b as [|i c e|i e|i e sh]; simpl.
  - discriminate.
  - destruct i; [intro E; inversion E; auto|]. destruct c; simpl; [|discriminate].
    destruct e; [intro E; inversion E; auto|]. destruct deep; discriminate.
  - destruct i; [intro E; inversion E; auto|]. destruct e; [intro E; inversion E; auto|]. destruct deep; discriminate.
  - destruct i; [intro E; inversion E; auto|]. destruct e; [intro E; inversion E; auto|].
    destruct sh; simpl; [|discriminate]. destruct deep; discriminate.
Qed.

(* through the daemon's BroadcastDKG a request that can be put on the wire never panics *)
Lemma bcast_daemon_panic : forall d ex exec deep s,
  decide_bcast_daemon d ex exec deep = EPanic s -> dkg_wire d = false.
Proof.
  intros d ex exec deep s. destruct d as [| |b|id b]; simpl; try discriminate.
  destruct (ex id); [|discriminate]. destruct (exec id); [|discriminate].
  intro E. apply decide_echo_panic in E. tauto.
Qed.

(* the enumerated panic cases of the gossip endpoint *)
Definition packet_panic_case (g : gossip) (ns : nstate) (s : psite) : Prop :=
  match s with
  | PS_bcast_nil_inner => g_var g = VDkg DInnerNil \/ exists b, g_var g = VDkg (DMetaNil b)
  | PS_bundle_nil_inner | PS_bundle_nil_element | PS_variant_nil_inner | PS_proposal_nil_terms =>
      gossip_wire g = false
  | PS_abort_nil_leader =>
      g_var g = VAbort /\ n_leader_set ns = false /\ valid_change (n_status ns) Aborted = true
  | PS_execute_nil_leader =>
      g_var g = VExecute /\ n_leader_set ns = false /\ n_timed_out ns = false /\
      (valid_change (n_status ns) Left = true \/ valid_change (n_status ns) Executing = true)
  end.

Lemma decide_apply_panic : forall v ns deep s, decide_apply v ns deep = EPanic s ->
  match s with
  | PS_variant_nil_inner => v = VAccept true \/ v = VReject true
  | PS_proposal_nil_terms => v = VProposal TNil
  | PS_abort_nil_leader =>
      v = VAbort /\ n_leader_set ns = false /\ valid_change (n_status ns) Aborted = true
  | PS_execute_nil_leader =>
      v = VExecute /\ n_leader_set ns = false /\ n_timed_out ns = false /\
      (valid_change (n_status ns) Left = true \/ valid_change (n_status ns) Executing = true)
  | _ => False
  end.
Proof.
  intros v ns deep s. unfold decide_apply.
  destruct v as [|t|i|i| | |d].
  - discriminate.
  - destruct (valid_change (n_status ns) Proposed) eqn:VC; simpl; [|discriminate].
    destruct t; try discriminate.
    + intro E; inversion E; auto.
    + destruct (is_fresh (n_status ns)) eqn:F; [destruct deep; discriminate|].
      destruct (n_fg_set ns) eqn:G; simpl; [destruct deep; discriminate|discriminate].
  - destruct i; [intro E; inversion E; auto | destruct deep; discriminate].
  - destruct i; [intro E; inversion E; auto | destruct deep; discriminate].
  - destruct (valid_change (n_status ns) Aborted) eqn:VC; simpl; [|discriminate].
    destruct (n_leader_set ns) eqn:L; simpl; [destruct deep; discriminate|].
    intro E; inversion E; auto.
  - destruct (n_timed_out ns) eqn:TO; [discriminate|].
    destruct (n_me_leaving ns && valid_change (n_status ns) Left) eqn:LV.
    + apply andb_true_iff in LV as [_ LV].
      destruct (n_leader_set ns) eqn:L; simpl; [destruct deep; discriminate|].
      intro E; inversion E; auto.
    + destruct (valid_change (n_status ns) Executing) eqn:VE; simpl; [|discriminate].
      destruct (n_me_member ns); simpl; [|discriminate].
      destruct (n_leader_set ns) eqn:L; simpl; [destruct deep; discriminate|].
      intro E; inversion E; auto.
  - discriminate.
Qed.

Lemma packet_daemon_panic : forall g ns exec s,
  decide_packet_daemon g ns exec = EPanic s -> packet_panic_case g ns s.
Proof.
  intros g ns exec s. unfold decide_packet_daemon, decide_packet_process.
  destruct (g_meta g) as [m|] eqn:GM; [|discriminate].
  destruct (n_exists ns) eqn:X; [|discriminate].
  destruct (g_nil g) eqn:GN; [discriminate|].
  destruct (2 * gm_sig_len m <? 8); [discriminate|].
  destruct (g_seen g); [discriminate|].
  assert (AP : forall v, g_var g = v -> decide_apply v ns (g_deep_ok g) = EPanic s -> packet_panic_case g ns s).
  { intros v EV E. apply decide_apply_panic in E. unfold packet_panic_case, gossip_wire.
    destruct s; try contradiction; rewrite ?GN; try (rewrite EV; exact E).
    - destruct E as [E|E]; rewrite E in EV; rewrite EV; reflexivity.
    - rewrite E in EV; rewrite EV; reflexivity. }
  destruct (g_var g) as [|t|i|i| | |d] eqn:GV; try (apply AP; reflexivity).
  destruct d as [| |b|id b]; simpl.
  - discriminate.
  - intro E; inversion E; subst. simpl. auto.
  - intro E; inversion E; subst. simpl. eauto.
  - destruct (exec id); [|discriminate]. intro E. apply decide_echo_panic in E as [W S].
    unfold packet_panic_case, gossip_wire. rewrite GV, GN. simpl. rewrite W.
    destruct S; subst s; reflexivity.
Qed.

(* for packets that can be put on the wire three sites remain, and two of them need a DKG record
   without leader *)
Lemma packet_daemon_panic_wire : forall g ns exec s,
  gossip_wire g = true -> decide_packet_daemon g ns exec = EPanic s ->
  s = PS_bcast_nil_inner \/ s = PS_abort_nil_leader \/ s = PS_execute_nil_leader.
Proof.
  intros g ns exec s Wr E. apply packet_daemon_panic in E. destruct s; simpl in E; auto; congruence.
Qed.

(* on a node whose DKG record names a leader (every record written by the state machine does:
   Proposed refuses proposals without leader, Proposing sets the proposer) the only panic a remote
   packet can cause is the Dkg variant without inner packet / metadata *)
Lemma packet_daemon_panic_wire_led : forall g ns exec s,
  gossip_wire g = true -> n_leader_set ns = true -> decide_packet_daemon g ns exec = EPanic s ->
  s = PS_bcast_nil_inner.
Proof.
  intros g ns exec s Wr L E. apply packet_daemon_panic in E. destruct s; simpl in E; auto; try congruence.
  - destruct E as (_ & E & _). congruence.
  - destruct E as (_ & E & _). congruence.
Qed.

(* regression: the two repaired sites are refusals now *)
Lemma proposal_nil_leader_refused : forall ns deep, decide_apply (VProposal TNilLeader) ns deep = Reject.
Proof. intros ns deep. unfold decide_apply. destruct (valid_change (n_status ns) Proposed); reflexivity. Qed.
Lemma proposal_without_group_refused : forall ns deep, is_fresh (n_status ns) = false -> n_fg_set ns = false ->
  decide_apply (VProposal TReachesFinalGroup) ns deep = Reject.
Proof.
  intros ns deep F G. unfold decide_apply. destruct (valid_change (n_status ns) Proposed); simpl; auto.
  rewrite F, G. reflexivity.
Qed.

Lemma partial_total : forall p b, decide_partial p b = Answer \/ decide_partial p b = Reject.
Proof.
  intros p b. unfold decide_partial.
  repeat match goal with |- context [if ?c then _ else _] => destruct c end; auto.
Qed.

Lemma routed_total : forall d m serves, decide_routed d m serves = Answer \/ decide_routed d m serves = Reject.
Proof.
  intros d m serves. unfold decide_routed. destruct (get_process d m) as [[i g]|e]; auto.
  destruct (serves i); auto.
Qed.

Lemma effect_only_on_answer : forall g ns exec,
  packet_effect g ns exec = true -> decide_packet_daemon g ns exec = Answer.
Proof.
  intros g ns exec. unfold packet_effect. destruct (decide_packet_daemon g ns exec); try discriminate. auto.
Qed.

Local Opaque Z.mul Z.pow.
Lemma digits_value_bound : forall s acc v, 0 <= acc -> digits_value s acc = Some v -> 0 <= v.
Proof.
  induction s as [|c r IH]; simpl; intros acc v A E.
  - inversion E; subst; auto.
  - destruct ((48 <=? c) && (c <=? 57)) eqn:D; [|discriminate].
    apply andb_true_iff in D as [D1 D2]. apply Z.leb_le in D1.
    assert (B : 0 <= 10 * acc + (c - 48)) by lia.
    exact (IH _ _ B E).
Qed.
Lemma parse_uint64_range : forall s v, parse_uint64 s = Some v -> 0 <= v < 2 ^ 64.
Proof.
  intros s v. unfold parse_uint64. destruct s as [|c r]; [discriminate|].
  destruct (digits_value (c :: r) 0) as [w|] eqn:D; [|discriminate].
  destruct (w <? 2 ^ 64) eqn:L; [|discriminate]. intro E; inversion E; subst.
  split; [eapply digits_value_bound; [|exact D]; lia | apply Z.ltb_lt; exact L].
Qed.
