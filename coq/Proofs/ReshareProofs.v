From Coq Require Import ZArith List Bool Lia.
From DV Require Import Model.Reshare.
Import ListNotations.
Open Scope Z_scope.

Lemma validate_ok_fields o n now : validate_transition (Some o) (Some n) now = VtOk ->
  gi_genesis o = gi_genesis n /\ gi_period o = gi_period n /\
  canon_id (gi_id o) = canon_id (gi_id n) /\ gi_seed o = gi_seed n /\ now <= gi_transition n.
Proof.
  unfold validate_transition. intros H.
  destruct (Z.eqb_spec (gi_genesis o) (gi_genesis n)); [|discriminate].
  destruct (Z.eqb_spec (gi_period o) (gi_period n)); [|discriminate].
  destruct (Z.eqb_spec (canon_id (gi_id o)) (canon_id (gi_id n))); [|discriminate].
  destruct (Z.eqb_spec (gi_seed o) (gi_seed n)); [|discriminate]. simpl in H.
  destruct (Z.ltb_spec (gi_transition n) now); [discriminate|]. repeat split; auto.
Qed.

(* the outputs of the resharing ceremonies keep the key and the scheme: the key by kyber's
   resharing (old share and old public coefficients are fed to it, constant term preserved),
   the scheme because the leader's proposal copies it from the current group *)
Definition keeps_key_and_scheme (cur : ginfo) (e : reshare_ev) : Prop :=
  match e with
  | ROutput g _ => gi_pk g = gi_pk cur /\ gi_scheme g = gi_scheme cur
  | RFailed => True
  end.

Fixpoint history_ok (cur : ginfo) (es : list reshare_ev) : Prop :=
  match es with
  | [] => True
  | e :: es' => keeps_key_and_scheme cur e /\ history_ok (reshare_step cur e) es'
  end.

Theorem identity_preserved es : forall cur, history_ok cur es ->
  chain_info (fold_left reshare_step es cur) = chain_info cur.
Proof.
  induction es as [|e es IH]; intros cur H; simpl; [reflexivity|].
  destruct H as [Hk Hh]. rewrite (IH _ Hh). destruct e as [g now|]; [|reflexivity]. unfold reshare_step.
  destruct (validate_transition (Some cur) (Some g) now) eqn:E; try reflexivity.
  apply validate_ok_fields in E as [E1 [E2 [E3 [E4 _]]]]. destruct Hk as [K1 K2].
  unfold chain_info. rewrite <- E1, <- E2, <- E3, <- E4, K1, K2. reflexivity.
Qed.

(* a group whose genesis time, period, id or seed differs, or whose transition time is past,
   never replaces the current group *)
Theorem bad_output_ignored cur g now :
  (gi_genesis g <> gi_genesis cur \/ gi_period g <> gi_period cur \/
   canon_id (gi_id g) <> canon_id (gi_id cur) \/ gi_seed g <> gi_seed cur \/ gi_transition g < now) ->
  reshare_step cur (ROutput g now) = cur.
Proof.
  intros H. unfold reshare_step. destruct (validate_transition (Some cur) (Some g) now) eqn:E; try reflexivity.
  apply validate_ok_fields in E as [E1 [E2 [E3 [E4 E5]]]]. lia.
Qed.
