(* Proofs about Model/Time.v (property C16). *)
From Coq Require Import ZArith Bool Lia.
From DV Require Import Model.Time.
Open Scope Z_scope.

Definition dom_p (p : Z) := 1 <= p <= 2 ^ 32 - 1.
Definition dom_g (g : Z) := 0 <= g <= 2 ^ 32.
Definition guard (p r : Z) : bool := r >=? Z.shiftr max_uint64 (Z.log2 (p + 1) + 2).

(* the mathematically intended time of round r >= 1 *)
Definition ideal (p g r : Z) : Z := g + (r - 1) * p.

Lemma pbits_range p : dom_p p -> 1 <= Z.log2 (p + 1) <= 32.
Proof.
  intros [H1 H2]. split.
  - apply (Z.le_trans _ (Z.log2 2)); [vm_compute; discriminate|]. apply Z.log2_le_mono. lia.
  - apply (Z.le_trans _ (Z.log2 (2 ^ 32))); [|vm_compute; discriminate]. apply Z.log2_le_mono. lia.
Qed.

Lemma pbits_bounds p : dom_p p ->
  2 ^ Z.log2 (p + 1) <= p + 1 < 2 ^ (Z.log2 (p + 1) + 1).
Proof.
  intros [H1 H2]. replace (Z.log2 (p+1) + 1) with (Z.succ (Z.log2 (p+1))) by lia.
  apply Z.log2_spec. lia.
Qed.

Ltac enum_k k :=
  let H := fresh "Hk" in
  assert (H : k = 1 \/ k = 2 \/ k = 3 \/ k = 4 \/ k = 5 \/ k = 6 \/ k = 7 \/ k = 8 \/
              k = 9 \/ k = 10 \/ k = 11 \/ k = 12 \/ k = 13 \/ k = 14 \/ k = 15 \/ k = 16 \/
              k = 17 \/ k = 18 \/ k = 19 \/ k = 20 \/ k = 21 \/ k = 22 \/ k = 23 \/ k = 24 \/
              k = 25 \/ k = 26 \/ k = 27 \/ k = 28 \/ k = 29 \/ k = 30 \/ k = 31 \/ k = 32) by lia;
  repeat (destruct H as [H | H]; [subst k | ]); [ .. | subst k].

(* Key arithmetic fact, by enumeration of the 32 possible bit-lengths of the period:
   below the guard the product cannot reach 2^63 - 2^32 *)
Lemma guard_margin k : 1 <= k <= 32 ->
  (Z.shiftr max_uint64 (k + 2) - 2) * (2 ^ (k + 1) - 2) + 2 ^ 32 < two63.
Proof. intros Hk. enum_k k; vm_compute; reflexivity. Qed.

Lemma guard_pos k : 1 <= k <= 32 -> 2 <= Z.shiftr max_uint64 (k + 2).
Proof. intros Hk. enum_k k; vm_compute; discriminate. Qed.

Lemma below_guard_product p r : dom_p p -> 1 <= r -> guard p r = false ->
  0 <= (r - 1) * p /\ (r - 1) * p + 2 ^ 32 < two63.
Proof.
  intros Hp Hr Hg. unfold guard in Hg. rewrite Z.geb_leb in Hg. apply Z.leb_gt in Hg.
  pose proof (pbits_range p Hp) as Hk. pose proof (pbits_bounds p Hp) as [Hlo Hhi].
  set (k := Z.log2 (p + 1)) in *.
  pose proof (guard_margin k Hk) as Hm. pose proof (guard_pos k Hk) as Hgp.
  destruct Hp as [Hp1 Hp2]. split; [apply Z.mul_nonneg_nonneg; lia|].
  assert ((r - 1) * p <= (Z.shiftr max_uint64 (k + 2) - 2) * (2 ^ (k + 1) - 2)).
  { apply Z.mul_le_mono_nonneg; lia. }
  lia.
Qed.

Lemma to_int64_small x : 0 <= x < two63 -> to_int64 x = x.
Proof. intros H. unfold to_int64. destruct (Z.ltb_spec x two63); lia. Qed.

Lemma wrap_int64_small x : 0 <= x < two63 -> wrap_int64 x = x.
Proof.
  intros H. unfold wrap_int64. rewrite Z.mod_small.
  - apply to_int64_small; exact H.
  - unfold two64, two63 in *. lia.
Qed.

(* Closed form of time_of_round on the property's domain: the modular arithmetic of the
   implementation never wraps when the guard passes. *)
Theorem time_of_round_spec bits p g r : dom_p p -> dom_g g -> 0 <= r ->
  time_of_round bits p g r =
    if r =? 0 then g else
    if guard p r then err_val bits else
    if ideal p g r >? err_val bits then err_val bits else ideal p g r.
Proof.
  intros Hp Hg Hr. unfold time_of_round.
  destruct (Z.eqb_spec r 0) as [|Hr0]; [reflexivity|].
  destruct (Z.ltb_spec p 0) as [Hneg|_]; [destruct Hp; lia|].
  fold (guard p r). destruct (guard p r) eqn:Hgd; [reflexivity|].
  destruct (below_guard_product p r Hp ltac:(lia) Hgd) as [Hnn Hlt].
  assert (Hd : ((r - 1) * p) mod two64 = (r - 1) * p).
  { apply Z.mod_small. unfold two64, two63 in *. lia. }
  rewrite Hd. rewrite to_int64_small by (unfold two63 in *; destruct Hg; lia).
  rewrite wrap_int64_small by (unfold two63 in *; destruct Hg; lia).
  reflexivity.
Qed.

Definition is_err bits (v : Z) := v = err_val bits.

(* No wrap: for every 64-bit round the result is the genesis (round 0), the documented
   error value, or exactly g + (r-1)p, and lies in [0, err_val]. *)
Theorem time_of_round_no_wrap bits p g r : 0 <= bits <= 62 ->
  dom_p p -> dom_g g -> 0 <= r < two64 ->
  (r = 0 /\ time_of_round bits p g r = g) \/
  (1 <= r /\ (time_of_round bits p g r = err_val bits \/
    (time_of_round bits p g r = ideal p g r /\ 0 <= ideal p g r <= err_val bits))).
Proof.
  intros Hb Hp Hg [Hr _]. rewrite time_of_round_spec by assumption.
  destruct (Z.eqb_spec r 0) as [->|Hr0]; [left; auto|]. right. split; [lia|].
  destruct (guard p r) eqn:Hgd; [left; reflexivity|].
  destruct (Z.gtb_spec (ideal p g r) (err_val bits)); [left; reflexivity|].
  right. split; [reflexivity|]. split; [|lia].
  destruct (below_guard_product p r Hp ltac:(lia) Hgd) as [Hnn _].
  unfold ideal. destruct Hg. lia.
Qed.

Lemma guard_mono p r r' : r <= r' -> guard p r = true -> guard p r' = true.
Proof.
  unfold guard. intros Hle H. rewrite Z.geb_leb in *. apply Z.leb_le in H.
  apply Z.leb_le. lia.
Qed.

(* strictly increasing on non-error values *)
Theorem time_of_round_strict_mono bits p g r r' : dom_p p -> dom_g g ->
  1 <= r < r' ->
  time_of_round bits p g r <> err_val bits ->
  time_of_round bits p g r' <> err_val bits ->
  time_of_round bits p g r < time_of_round bits p g r'.
Proof.
  intros Hp Hg Hr. rewrite !time_of_round_spec by (assumption || lia).
  destruct (Z.eqb_spec r 0); [lia|]. destruct (Z.eqb_spec r' 0); [lia|].
  destruct (guard p r); [congruence|]. destruct (guard p r'); [congruence|].
  destruct (Z.gtb_spec (ideal p g r) (err_val bits)); [congruence|].
  destruct (Z.gtb_spec (ideal p g r') (err_val bits)); [congruence|].
  intros _ _. unfold ideal. destruct Hp. nia.
Qed.

(* the error value is upward closed in the round *)
Theorem time_of_round_err_upward bits p g r r' : dom_p p -> dom_g g ->
  1 <= r <= r' ->
  time_of_round bits p g r = err_val bits ->
  time_of_round bits p g r' = err_val bits.
Proof.
  intros Hp Hg Hr. rewrite !time_of_round_spec by (assumption || lia).
  destruct (Z.eqb_spec r 0); [lia|]. destruct (Z.eqb_spec r' 0); [lia|].
  destruct (guard p r) eqn:Hgd.
  { rewrite (guard_mono p r r') by (lia || assumption). reflexivity. }
  destruct (guard p r'); [reflexivity|].
  assert (ideal p g r <= ideal p g r') by (unfold ideal; destruct Hp; nia).
  destruct (Z.gtb_spec (ideal p g r) (err_val bits));
  destruct (Z.gtb_spec (ideal p g r') (err_val bits)); intros; lia.
Qed.

(* ---- exactness for rounds that can be the current round within 2^50 s of genesis ---- *)

Lemma small_round_no_guard k : 1 <= k <= 32 ->
  (2 ^ 50 + 2 ^ 33) / (2 ^ k - 1) + 3 < Z.shiftr max_uint64 (k + 2).
Proof. intros Hk. enum_k k; vm_compute; reflexivity. Qed.

Theorem time_of_round_exact_small bits p g r : bits = 36 ->
  dom_p p -> dom_g g -> 1 <= r -> (r - 1) * p <= 2 ^ 50 + 2 ^ 33 ->
  time_of_round bits p g r = ideal p g r.
Proof.
  intros -> Hp Hg Hr Hsm. rewrite time_of_round_spec by (assumption || lia).
  destruct (Z.eqb_spec r 0); [lia|].
  pose proof (pbits_range p Hp) as Hk. pose proof (pbits_bounds p Hp) as [Hlo Hhi].
  assert (Hgd : guard p r = false).
  { unfold guard. rewrite Z.geb_leb. apply Z.leb_gt.
    set (k := Z.log2 (p + 1)) in *.
    pose proof (small_round_no_guard k Hk) as Hs.
    assert (2 ^ k - 1 <= p) by lia.
    assert (0 < 2 ^ k - 1). { assert (2 ^ 1 <= 2 ^ k) by (apply Z.pow_le_mono_r; lia). lia. }
    assert (r - 1 <= (2 ^ 50 + 2 ^ 33) / (2 ^ k - 1)).
    { apply Z.div_le_lower_bound; [lia|]. destruct Hp. nia. }
    lia. }
  rewrite Hgd.
  destruct (Z.gtb_spec (ideal p g r) (err_val 36)) as [Hgt|]; [|reflexivity].
  unfold ideal in Hgt. destruct Hg.
  assert (err_val 36 = 2 ^ 63 - 1 - 2 ^ 36) by reflexivity. lia.
Qed.

(* ---- NextRound / CurrentRound ---- *)

Definition dom_t (g t : Z) := g <= t /\ t - g <= 2 ^ 50.

Lemma next_round_spec now p g : dom_p p -> dom_g g -> dom_t g now ->
  next_round now p g =
    ((now - g) / p + 2, g + ((now - g) / p + 1) * p).
Proof.
  intros Hp Hg [Ht1 Ht2]. unfold next_round.
  destruct (Z.ltb_spec now g); [lia|].
  set (q := (now - g) / p).
  assert (Hq : 0 <= q <= 2 ^ 50).
  { unfold q. destruct Hp. split; [apply Z.div_pos; lia|].
    apply Z.div_le_upper_bound; nia. }
  assert (Hqp : q * p <= now - g).
  { unfold q. destruct Hp. rewrite Z.mul_comm. apply Z.mul_div_le. lia. }
  destruct Hp as [Hp1 Hp2]. destruct Hg as [Hg1 Hg2].
  assert (E1 : (q + 1) mod two64 = q + 1) by (apply Z.mod_small; unfold two64; lia).
  rewrite E1.
  assert (E2 : ((q + 1) * p) mod two64 = (q + 1) * p) by (apply Z.mod_small; unfold two64; nia).
  rewrite E2.
  rewrite to_int64_small by (unfold two63; nia).
  rewrite wrap_int64_small by (unfold two63; nia).
  rewrite Z.mod_small by (unfold two64; lia).
  f_equal. lia.
Qed.

Lemma current_round_spec now p g : dom_p p -> dom_g g -> dom_t g now ->
  current_round now p g = (now - g) / p + 1.
Proof.
  intros Hp Hg Ht. unfold current_round. rewrite next_round_spec by assumption.
  cbn [fst]. destruct Ht as [Ht1 Ht2]. destruct Hp as [Hp1 Hp2].
  assert (0 <= (now - g) / p) by (apply Z.div_pos; lia).
  destruct (Z.leb_spec ((now - g) / p + 2) 1); lia.
Qed.

(* The current round c is at or before t, the next one after t ... *)
Theorem current_round_brackets bits now p g : bits = 36 ->
  dom_p p -> dom_g g -> dom_t g now ->
  let c := current_round now p g in
  1 <= c /\ time_of_round bits p g c <= now < time_of_round bits p g (c + 1).
Proof.
  intros Hb Hp Hg Ht c. unfold c. rewrite current_round_spec by assumption.
  destruct Ht as [Ht1 Ht2]. pose proof Hp as [Hp1 Hp2].
  set (q := (now - g) / p).
  assert (Hq : 0 <= q) by (apply Z.div_pos; lia).
  assert (Hdm : now - g = p * q + (now - g) mod p) by (apply Z.div_mod; lia).
  assert (Hm : 0 <= (now - g) mod p < p) by (apply Z.mod_pos_bound; lia).
  split; [lia|].
  rewrite !(time_of_round_exact_small bits) by (assumption || lia || nia).
  unfold ideal. split; nia.
Qed.

(* ... and c is the only round >= 1 with that property (all 64-bit rounds considered). *)
Theorem current_round_unique bits now p g r : bits = 36 ->
  dom_p p -> dom_g g -> dom_t g now -> 1 <= r -> r + 1 < two64 ->
  time_of_round bits p g r <= now < time_of_round bits p g (r + 1) ->
  r = current_round now p g.
Proof.
  intros Hb Hp Hg Ht Hr1 Hr2 [Hlo Hhi]. rewrite current_round_spec by assumption.
  destruct Ht as [Ht1 Ht2]. pose proof Hp as [Hp1 Hp2]. pose proof Hg as [Hg1 Hg2].
  assert (Herr : now < err_val bits).
  { subst bits. assert (err_val 36 = 2 ^ 63 - 1 - 2 ^ 36) by reflexivity. lia. }
  (* tor r is not the error value, so it is the ideal time *)
  assert (Hlo' : ideal p g r <= now).
  { rewrite time_of_round_spec in Hlo by (assumption || lia).
    destruct (Z.eqb_spec r 0); [lia|].
    destruct (guard p r); [lia|].
    destruct (Z.gtb_spec (ideal p g r) (err_val bits)); lia. }
  assert (Hsm : (r - 1) * p <= 2 ^ 50) by (unfold ideal in Hlo'; lia).
  rewrite (time_of_round_exact_small bits p g (r + 1)) in Hhi by (assumption || lia || nia).
  unfold ideal in *.
  set (q := (now - g) / p).
  assert (Hdm : now - g = p * q + (now - g) mod p) by (apply Z.div_mod; lia).
  assert (Hm : 0 <= (now - g) mod p < p) by (apply Z.mod_pos_bound; lia).
  nia.
Qed.

Theorem next_round_is_current_plus_one bits now p g : bits = 36 ->
  dom_p p -> dom_g g -> dom_t g now ->
  next_round now p g =
    (current_round now p g + 1, time_of_round bits p g (current_round now p g + 1)).
Proof.
  intros Hb Hp Hg Ht. rewrite current_round_spec, next_round_spec by assumption.
  destruct Ht as [Ht1 Ht2]. pose proof Hp as [Hp1 Hp2].
  set (q := (now - g) / p).
  assert (Hq : 0 <= q) by (apply Z.div_pos; lia).
  assert (Hqp : p * q <= now - g) by (apply Z.mul_div_le; lia).
  rewrite (time_of_round_exact_small bits) by (assumption || lia || nia).
  unfold ideal. f_equal; lia.
Qed.

(* before genesis (as the code behaves) *)
Theorem before_genesis now p g : now < g ->
  next_round now p g = (1, g) /\ current_round now p g = 1.
Proof.
  intros H. unfold current_round, next_round.
  destruct (Z.ltb_spec now g); [|lia]. split; reflexivity.
Qed.

(* the current round never decreases when the clock advances (before genesis or within 2^50 s) *)
Definition now_dom (g now : Z) := now < g \/ dom_t g now.

Lemma current_round_ge_1 now p g : dom_p p -> dom_g g -> now_dom g now -> 1 <= current_round now p g.
Proof.
  intros Hp Hg [H|H].
  - destruct (before_genesis now p g H) as [_ ->]. lia.
  - rewrite current_round_spec by assumption. destruct H, Hp.
    assert (0 <= (now - g) / p) by (apply Z.div_pos; lia). lia.
Qed.

Theorem current_round_mono a b p g : dom_p p -> dom_g g -> now_dom g a -> now_dom g b -> a <= b ->
  current_round a p g <= current_round b p g.
Proof.
  intros Hp Hg [Ha|Ha] Hb Hab.
  - destruct (before_genesis a p g Ha) as [_ ->]. apply current_round_ge_1; assumption.
  - destruct Hb as [Hb|Hb]; [destruct Ha; lia|].
    rewrite !current_round_spec by assumption. destruct Hp.
    assert ((a - g) / p <= (b - g) / p) by (apply Z.div_le_mono; lia). lia.
Qed.

(* a round at or below the current one is not in the future *)
Theorem round_le_current_timely bits now p g r : bits = 36 -> dom_p p -> dom_g g -> dom_t g now ->
  1 <= r <= current_round now p g -> time_of_round bits p g r <= now.
Proof.
  intros Hb Hp Hg Ht [Hr1 Hr2].
  rewrite current_round_spec in Hr2 by assumption.
  destruct Ht as [Ht1 Ht2]. pose proof Hp as [Hp1 Hp2].
  set (q := (now - g) / p) in *.
  assert (Hq : 0 <= q) by (apply Z.div_pos; lia).
  assert (Hqp : p * q <= now - g) by (apply Z.mul_div_le; lia).
  rewrite (time_of_round_exact_small bits) by (assumption || lia || nia).
  unfold ideal. nia.
Qed.

(* round -> time -> round: every instant of a schedulable round's slot converts back to it *)
Theorem round_of_its_time bits p g r d : bits = 36 ->
  dom_p p -> dom_g g -> 1 <= r -> r + 1 < two64 ->
  time_of_round bits p g r <> err_val bits ->
  time_of_round bits p g (r + 1) <> err_val bits ->
  0 <= d < p -> dom_t g (time_of_round bits p g r + d) ->
  current_round (time_of_round bits p g r + d) p g = r.
Proof.
  intros Hb Hp Hg Hr Hr2 He He' Hd Ht. symmetry.
  apply (current_round_unique bits _ p g r Hb Hp Hg Ht Hr Hr2).
  assert (Hbits : 0 <= bits <= 62) by lia.
  destruct (time_of_round_no_wrap bits p g r Hbits Hp Hg ltac:(unfold two64 in *; lia)) as [[H0 _]|[_ [E|[E _]]]]; [lia|congruence|].
  destruct (time_of_round_no_wrap bits p g (r+1) Hbits Hp Hg ltac:(unfold two64 in *; lia)) as [[H0 _]|[_ [E'|[E' _]]]]; [lia|congruence|].
  rewrite E, E'. unfold ideal. lia.
Qed.

(* time -> round -> time: the slot of the current round contains the instant and is one period long *)
Theorem time_of_current_round bits now p g : bits = 36 ->
  dom_p p -> dom_g g -> dom_t g now ->
  let c := current_round now p g in
  time_of_round bits p g c = g + (c - 1) * p /\
  time_of_round bits p g c <= now < time_of_round bits p g c + p.
Proof.
  intros Hb Hp Hg Ht c.
  destruct (current_round_brackets bits now p g Hb Hp Hg Ht) as [Hc [Hlo Hhi]]. fold c in Hc, Hlo, Hhi.
  pose proof (current_round_spec now p g Hp Hg Ht) as Hs. fold c in Hs.
  destruct Ht as [Ht1 Ht2]. pose proof Hp as [Hp1 Hp2].
  assert (Hq : 0 <= (now - g) / p) by (apply Z.div_pos; lia).
  assert (Hdm : now - g = p * ((now - g) / p) + (now - g) mod p) by (apply Z.div_mod; lia).
  assert (Hm : 0 <= (now - g) mod p < p) by (apply Z.mod_pos_bound; lia).
  assert (Ec : time_of_round bits p g c = ideal p g c)
    by (apply time_of_round_exact_small; assumption || lia || nia).
  assert (Ec1 : time_of_round bits p g (c + 1) = ideal p g (c + 1))
    by (apply time_of_round_exact_small; assumption || lia || nia).
  rewrite Ec in *. rewrite Ec1 in Hhi.
  unfold ideal in *. split; [reflexivity|]. split; nia.
Qed.

(* the current round never goes back as time advances, and advances by at most one per period *)
Theorem current_round_monotone now now' p g :
  dom_p p -> dom_g g -> dom_t g now -> dom_t g now' -> now <= now' ->
  current_round now p g <= current_round now' p g /\
  (now' - now < p -> current_round now' p g <= current_round now p g + 1).
Proof.
  intros Hp Hg Ht Ht' Hle. rewrite !current_round_spec by assumption.
  pose proof Hp as [Hp1 Hp2]. destruct Ht as [Ht1 _]. destruct Ht' as [Ht1' _].
  split.
  - assert ((now - g) / p <= (now' - g) / p) by (apply Z.div_le_mono; lia). lia.
  - intros Hd.
    assert (Hq : (now' - g) / p <= (now - g + p) / p) by (apply Z.div_le_mono; lia).
    replace (now - g + p) with ((now - g) + 1 * p) in Hq by lia.
    rewrite Z.div_add in Hq by lia. lia.
Qed.
