(* Lemmas for C13: chain store under crashes, atomicity of the DKG database records, and the
   consistency of (database, group file, share file) at event boundaries. *)
From Coq Require Import ZArith List Bool Lia.
From DV Require Import Model.Crash.
Import ListNotations.
Open Scope Z_scope.

Lemma apply_ops_app : forall a b s, apply_ops s (a ++ b) = apply_ops (apply_ops s a) b.
Proof. intros; unfold apply_ops; apply fold_left_app. Qed.

(* ---------------- chain ---------------- *)

Lemma gapfree_from_app : forall a b r,
  gapfree_from r (a ++ b) = gapfree_from r a && gapfree_from (r + Z.of_nat (length a)) b.
Proof.
  induction a as [|x a IH]; intros b r.
  - simpl. rewrite Z.add_0_r. reflexivity.
  - simpl app. simpl gapfree_from. rewrite IH, <- andb_assoc. f_equal. f_equal.
    replace (r + 1 + Z.of_nat (length a)) with (r + Z.of_nat (length (x :: a))); [reflexivity|].
    simpl length. lia.
Qed.

Lemma chain_put_snoc : forall c b r,
  gapfree_from r c = true -> b_round b = r + Z.of_nat (length c) -> chain_put b c = c ++ [b].
Proof.
  induction c as [|x c IH]; intros b r G E; simpl in *; [reflexivity|].
  apply andb_true_iff in G as [Gx Gc]. apply Z.eqb_eq in Gx.
  destruct (b_round b <? b_round x) eqn:L; [apply Z.ltb_lt in L; lia|].
  destruct (b_round b =? b_round x) eqn:Q; [apply Z.eqb_eq in Q; lia|].
  f_equal. apply IH with (r := r + 1); [assumption | lia].
Qed.

Lemma chain_last_snoc : forall c b, chain_last (c ++ [b]) = Some b.
Proof. intros; unfold chain_last. rewrite rev_app_distr. reflexivity. Qed.

Lemma chain_last_round : forall c last r,
  gapfree_from r c = true -> chain_last c = Some last ->
  b_round last = r + Z.of_nat (length c) - 1.
Proof.
  intros c; destruct c as [|x c] using rev_ind; intros last r G L; [discriminate|].
  rewrite chain_last_snoc in L; inversion L; subst.
  rewrite gapfree_from_app in G. apply andb_true_iff in G as [_ G]. simpl in G.
  rewrite andb_true_r in G. apply Z.eqb_eq in G. rewrite app_length; simpl. lia.
Qed.

Definition beacons_of (ops : list pop) : list beacon :=
  flat_map (fun o => match o with PBeaconTx b => [b] | _ => [] end) ops.

Lemma attempt_ops_chain : forall chained bs c last k r cu fi g sh,
  gapfree_from r c = true -> chain_last c = Some last ->
  let s' := apply_ops (mkS c cu fi g sh) (firstn k (attempt_ops chained last bs)) in
  chain s' = c ++ beacons_of (firstn k (attempt_ops chained last bs)) /\
  gapfree_from r (chain s') = true /\
  cur s' = cu /\ fin s' = fi /\ gfile s' = g /\ sfile s' = sh.
Proof.
  intros chained bs; induction bs as [|b bs IH]; intros c last k r cu fi g sh G L; simpl.
  - rewrite firstn_nil; simpl. rewrite app_nil_r. repeat split; auto.
  - destruct (accepts chained last b) eqn:A.
    + destruct k as [|k]; simpl; [rewrite app_nil_r; repeat split; auto|].
      unfold accepts in A. apply andb_true_iff in A as [A _]. apply Z.eqb_eq in A.
      assert (R := chain_last_round c last r G L).
      assert (P : chain_put b c = c ++ [b]) by (apply chain_put_snoc with (r := r); [assumption | lia]).
      rewrite P.
      assert (G' : gapfree_from r (c ++ [b]) = true).
      { rewrite gapfree_from_app, G; simpl. rewrite andb_true_r. apply Z.eqb_eq. lia. }
      specialize (IH (c ++ [b]) b k r cu fi g sh G' (chain_last_snoc c b)). simpl in IH.
      destruct IH as [E rest]. split; [|exact rest].
      rewrite E, <- app_assoc. reflexivity.
    + apply IH; assumption.
Qed.

Lemma gapfree_nonempty : forall c, gapfree c = true -> exists last, chain_last c = Some last.
Proof.
  intros c G. destruct c as [|x c] using rev_ind; [discriminate|].
  exists x. apply chain_last_snoc.
Qed.

Lemma gapfree_is_from0 : forall c, gapfree c = true -> gapfree_from 0 c = true.
Proof. intros c; destruct c; [discriminate | auto]. Qed.

Lemma gapfree_app_from0 : forall c d, c <> [] -> gapfree_from 0 (c ++ d) = true -> gapfree (c ++ d) = true.
Proof. intros c d N G. destruct c; [contradiction | exact G]. Qed.

(* one lifetime cut by a crash after any number of operations *)
Theorem chain_crash_safe : forall chained s bs k,
  gapfree (chain s) = true ->
  let run := lifetime_ops chained (chain s) bs in
  let s' := crash (CAfter k) run s in
  gapfree (chain s') = true /\
  chain s' = chain s ++ beacons_of (firstn k run) /\
  cur s' = cur s /\ fin s' = fin s /\ gfile s' = gfile s /\ sfile s' = sfile s.
Proof.
  intros chained s bs k G. destruct (gapfree_nonempty _ G) as [last L].
  unfold lifetime_ops; rewrite L; simpl. destruct s as [c cu fi g sh]; simpl in *.
  destruct (attempt_ops_chain chained bs c last k 0 cu fi g sh (gapfree_is_from0 _ G) L) as [E [G' rest]].
  split; [|split; [exact E | exact rest]].
  rewrite E in *. apply gapfree_app_from0; [destruct c; [discriminate | discriminate] | exact G'].
Qed.

(* any number of lifetimes, each cut anywhere *)
Theorem chain_lifetimes_safe : forall chained ls s,
  gapfree (chain s) = true ->
  gapfree (chain (lifetimes chained s ls)) = true /\
  exists suffix, chain (lifetimes chained s ls) = chain s ++ suffix.
Proof.
  intros chained ls; induction ls as [|[bs k] ls IH]; intros s G.
  - simpl. split; [assumption | exists []; rewrite app_nil_r; reflexivity].
  - cbn [lifetimes]. destruct (chain_crash_safe chained s bs k G) as [G' [E _]].
    destruct (IH _ G') as [G'' [suf E']]. split; [assumption|].
    rewrite E' , E, <- app_assoc. eexists; reflexivity.
Qed.

(* with the previous-signature check, the links are kept too *)
Lemma linked_snoc : forall c last b, chain_last c = Some last -> linked c = true ->
  b_prev b = b_sig last -> linked (c ++ [b]) = true.
Proof.
  induction c as [|x c IH]; intros last b L K P; [discriminate|].
  destruct c as [|y c].
  - simpl in *. unfold chain_last in L; simpl in L; inversion L; subst. rewrite P, Z.eqb_refl. reflexivity.
  - simpl in K. apply andb_true_iff in K as [K1 K2].
    change ((x :: y :: c) ++ [b]) with (x :: (y :: c) ++ [b]).
    simpl. rewrite K1; simpl. apply (IH last b); try assumption.
    unfold chain_last in *. simpl in *. destruct (rev c ++ [y]) eqn:R.
    + destruct (rev c); discriminate.
    + simpl in L. rewrite <- L. destruct l; reflexivity.
Qed.

Lemma attempt_ops_linked : forall bs c last k cu fi g sh,
  linked c = true -> chain_last c = Some last ->
  forall r, gapfree_from r c = true ->
  linked (chain (apply_ops (mkS c cu fi g sh) (firstn k (attempt_ops true last bs)))) = true.
Proof.
  induction bs as [|b bs IH]; intros c last k cu fi g sh K L r G; simpl.
  - rewrite firstn_nil; exact K.
  - destruct (accepts true last b) eqn:A.
    + destruct k as [|k]; simpl; [exact K|].
      unfold accepts in A. apply andb_true_iff in A as [A1 A2]. apply Z.eqb_eq in A1.
      simpl in A2. apply Z.eqb_eq in A2.
      assert (R := chain_last_round c last r G L).
      assert (P : chain_put b c = c ++ [b]) by (apply chain_put_snoc with (r := r); [assumption | lia]).
      rewrite P. apply IH with (r := r).
      * apply (linked_snoc c last b); assumption.
      * apply chain_last_snoc.
      * rewrite gapfree_from_app, G; simpl. rewrite andb_true_r. apply Z.eqb_eq. lia.
    + apply IH with (r := r); assumption.
Qed.

Theorem chain_crash_linked : forall s bs k,
  gapfree (chain s) = true -> linked (chain s) = true ->
  linked (chain (crash (CAfter k) (lifetime_ops true (chain s) bs) s)) = true.
Proof.
  intros s bs k G K. destruct (gapfree_nonempty _ G) as [last L].
  unfold lifetime_ops; rewrite L; simpl. destruct s as [c cu fi g sh]; simpl in *.
  apply attempt_ops_linked with (r := 0); [assumption | assumption | apply gapfree_is_from0, G].
Qed.

(* ---------------- DKG database ---------------- *)

Definition dk (s : dstate) : option drec * option drec := (cur s, fin s).

(* the specification: what the database holds after a sequence of completed events *)
Definition dkg_event (d : option drec * option drec) (ev : event) : option drec * option drec :=
  match ev with
  | EvStage r => (Some r, snd d)
  | EvComplete r => (Some r, Some r)
  | EvLeave => d
  end.
Definition dkg_after (d : option drec * option drec) (evs : list event) := fold_left dkg_event evs d.

Lemma dk_set_file : forall f c s, dk (set_file f c s) = dk s.
Proof. destruct f; reflexivity. Qed.

Lemma dk_file_ops : forall ops s,
  Forall (fun o => match o with PDkgTx _ | PBeaconTx _ => False | _ => True end) ops ->
  dk (apply_ops s ops) = dk s.
Proof.
  induction ops as [|o ops IH]; intros s F; [reflexivity|].
  inversion F as [|x l Ho Hops]; subst. simpl. rewrite IH by assumption.
  destruct o; simpl in *; try contradiction; try reflexivity; apply dk_set_file.
Qed.

Lemma dk_crash_torn : forall k run s, dk (crash (CTorn k) run s) = dk (crash (CAfter k) run s).
Proof.
  intros; simpl. destruct (nth_error run k) as [[| | | | | | |]|]; try reflexivity. apply dk_set_file.
Qed.

Lemma firstn_app_le : forall {A} (a b : list A) k, (k <= length a)%nat -> firstn k (a ++ b) = firstn k a.
Proof.
  intros A a b k H. rewrite firstn_app. replace (k - length a)%nat with 0%nat by lia.
  simpl. apply app_nil_r.
Qed.
Lemma firstn_app_ge : forall {A} (a b : list A) k, (length a <= k)%nat ->
  firstn k (a ++ b) = a ++ firstn (k - length a) b.
Proof.
  intros A a b k H. rewrite firstn_app, firstn_all2 by assumption. reflexivity.
Qed.

(* effect of one whole event on the database part, and of every proper prefix of its operations *)
Lemma dk_event_prefix : forall ev s k,
  let ops := expand expected_shape ev in
  dk (apply_ops s (firstn k ops)) = dk s \/ dk (apply_ops s (firstn k ops)) = dkg_event (dk s) ev.
Proof.
  intros ev s k; destruct ev as [r|r|]; simpl.
  - destruct k; simpl; [left|right]; try rewrite firstn_nil; reflexivity.
  - destruct k as [|[|[|[|[|[|[|k]]]]]]]; simpl; try rewrite firstn_nil; [left; reflexivity | right ..];
      simpl; repeat rewrite dk_set_file; reflexivity.
  - left. destruct k as [|[|k]]; simpl; try rewrite firstn_nil; simpl; repeat rewrite dk_set_file; reflexivity.
Qed.

Lemma dk_event_full : forall ev s,
  dk (apply_ops s (expand expected_shape ev)) = dkg_event (dk s) ev.
Proof. intros ev s; destruct ev; simpl; repeat rewrite dk_set_file; reflexivity. Qed.

Theorem dkgdb_event_atomic : forall evs s k,
  exists j, (j <= length evs)%nat /\
    dk (crash (CAfter k) (expand_all expected_shape evs) s) = dkg_after (dk s) (firstn j evs).
Proof.
  induction evs as [|ev evs IH]; intros s k.
  - exists 0%nat. simpl. rewrite firstn_nil. split; [lia | reflexivity].
  - simpl expand_all. set (ops := expand expected_shape ev).
    destruct (Nat.le_gt_cases (length ops) k) as [Hge|Hlt].
    + simpl crash. rewrite firstn_app_ge by assumption. rewrite apply_ops_app.
      destruct (IH (apply_ops s ops) (k - length ops)%nat) as [j [Hj E]].
      exists (S j). split; [simpl; lia|]. simpl crash in E. rewrite E. simpl.
      unfold ops. rewrite dk_event_full. reflexivity.
    + simpl crash. rewrite firstn_app_le by lia.
      destruct (dk_event_prefix ev s k) as [E|E]; fold ops in E.
      * exists 0%nat. split; [lia|]. simpl. exact E.
      * exists 1%nat. split; [simpl; lia|]. simpl. exact E.
Qed.

(* invariant of a well-formed history on the specification level *)
Definition staged_on (e : Z) (r : drec) : Prop :=
  d_epoch r = e + 1 /\ d_status r <> st_complete /\ d_group r = e /\ d_share r = e.

Definition db_inv (e : Z) (lf : bool) (d : option drec * option drec) : Prop :=
  ((e = 0 /\ snd d = None) \/ (exists r, snd d = Some r /\ complete_rec r = true /\ d_epoch r = e)) /\
  ((fst d = snd d /\ lf = false) \/
   (exists r, fst d = Some r /\ staged_on e r /\ lf = (d_status r =? st_left))).

Lemma db_inv_step : forall ev evs e lf d,
  wf_hist e lf (ev :: evs) = true -> db_inv e lf d ->
  exists e' lf', wf_hist e' lf' evs = true /\ db_inv e' lf' (dkg_event d ev) /\ e <= e'.
Proof.
  intros ev evs e lf d W [I1 I2]. destruct ev as [r|r|]; simpl in W.
  - repeat (apply andb_true_iff in W as [W ?]).
    exists e, (d_status r =? st_left). split; [assumption|]. split; [|lia].
    split; [exact I1|]. right. exists r. split; [reflexivity|]. split; [|reflexivity].
    unfold staged_on. apply Z.eqb_eq in W. apply Z.eqb_eq in H1. apply Z.eqb_eq in H0.
    apply negb_true_iff in H2. apply Z.eqb_neq in H2. auto.
  - repeat (apply andb_true_iff in W as [W ?]).
    exists (e + 1), false. split; [assumption|]. split; [|lia]. apply Z.eqb_eq in H0.
    split.
    + right. exists r. simpl. auto.
    + left. simpl. auto.
  - repeat (apply andb_true_iff in W as [W ?]).
    exists e, lf. split; [destruct evs; [reflexivity | discriminate]|]. split; [|lia].
    split; assumption.
Qed.

Lemma wf_hist_firstn : forall evs e lf j, wf_hist e lf evs = true -> wf_hist e lf (firstn j evs) = true.
Proof.
  induction evs as [|ev evs IH]; intros e lf j W; [rewrite firstn_nil; reflexivity|].
  destruct j as [|j]; [reflexivity|]. simpl firstn. destruct ev as [r|r|]; simpl in *.
  - repeat (apply andb_true_iff in W as [W ?]). rewrite W, H0, H1, H2; simpl. apply IH; assumption.
  - repeat (apply andb_true_iff in W as [W ?]). rewrite W, H0, H1; simpl. apply IH; assumption.
  - repeat (apply andb_true_iff in W as [W ?]). rewrite W, H0; simpl.
    destruct evs; [rewrite firstn_nil; reflexivity | discriminate].
Qed.

Lemma db_inv_after : forall evs e lf d,
  wf_hist e lf evs = true -> db_inv e lf d -> exists e' lf', db_inv e' lf' (dkg_after d evs) /\ e <= e'.
Proof.
  induction evs as [|ev evs IH]; intros e lf d W I.
  - exists e, lf. split; [exact I | lia].
  - destruct (db_inv_step ev evs e lf d W I) as [e' [lf' [W' [I' Le]]]].
    destruct (IH e' lf' _ W' I') as [e'' [lf'' [I'' Le']]].
    exists e'', lf''. split; [exact I'' | lia].
Qed.

(* what a restart finds in dkg.db after a crash anywhere in a well-formed history *)
Theorem dkgdb_whole : forall evs cp,
  wf_hist 0 false evs = true ->
  let s := crash cp (expand_all expected_shape evs) empty_state in
  (* the completed record is absent, or one whole epoch *)
  (fin s = None \/ exists r, fin s = Some r /\ complete_rec r = true) /\
  (* and the staged record is that same record, or a state staged on top of it *)
  (cur s = fin s \/
   exists r, cur s = Some r /\ d_status r <> st_complete /\
     match fin s with
     | None => d_epoch r = 1 /\ d_group r = 0 /\ d_share r = 0
     | Some f => d_epoch r = d_epoch f + 1 /\ d_group r = d_epoch f /\ d_share r = d_epoch f
     end).
Proof.
  intros evs cp W s.
  assert (E : exists j, dk s = dkg_after (None, None) (firstn j evs)).
  { destruct cp as [k|k]; unfold s.
    - destruct (dkgdb_event_atomic evs empty_state k) as [j [_ E]]. exists j. exact E.
    - rewrite dk_crash_torn. destruct (dkgdb_event_atomic evs empty_state k) as [j [_ E]]. exists j. exact E. }
  destruct E as [j E].
  assert (I0 : db_inv 0 false (None, None)).
  { split; [left; auto | left; auto]. }
  destruct (db_inv_after (firstn j evs) 0 false (None, None) (wf_hist_firstn evs 0 false j W) I0) as [e [lf [[I1 I2] _]]].
  rewrite <- E in I1, I2. unfold dk in I1, I2; simpl in I1, I2.
  split.
  - destruct I1 as [[_ N]|[r [F [C _]]]]; [left; exact N | right; exists r; auto].
  - destruct I2 as [[Q _]|[r [Cu [[S1 [S2 [S3 S4]]] _]]]]; [left; exact Q|].
    right. exists r. split; [exact Cu|]. split; [exact S2|].
    destruct I1 as [[E0 N]|[f [F [_ Ef]]]].
    + rewrite N. subst e. lia.
    + rewrite F. lia.
Qed.

(* ---------------- files ---------------- *)

Definition files_inv (e : Z) (lf : bool) (gone : bool) (s : dstate) : Prop :=
  is_left s = lf /\
  ((e = 0 /\ fin s = None /\ gfile s = FAbsent /\ sfile s = FAbsent /\ gone = false) \/
   (1 <= e /\ (exists r, fin s = Some r /\ d_epoch r = e) /\
    ((gone = false /\ gfile s = FFull e /\ sfile s = FFull e) \/
     (gone = true /\ lf = true /\ gfile s = FAbsent /\ sfile s = FAbsent)))).

Lemma files_inv_consistent : forall e lf gone s, files_inv e lf gone s -> files_consistent s = true.
Proof.
  intros e lf gone s [L [[E [F [G [S _]]]]|[E [[r [F Er]] [[_ [G S]]|[_ [Lf [G S]]]]]]]];
    unfold files_consistent, node_restart; rewrite F, G, ?S; simpl.
  - reflexivity.
  - rewrite Er, Z.eqb_refl. reflexivity.
  - rewrite L. exact Lf.
Qed.

Lemma files_inv_step : forall ev evs e lf s,
  wf_hist e lf (ev :: evs) = true -> files_inv e lf false s ->
  exists e' lf' gone', wf_hist e' lf' evs = true /\
    files_inv e' lf' gone' (apply_ops s (expand expected_shape ev)) /\ (gone' = true -> evs = []).
Proof.
  intros ev evs e lf s W [L I]. destruct s as [c cu fi g sh]; simpl in *.
  destruct ev as [r|r|]; simpl in W.
  - repeat (apply andb_true_iff in W as [W ?]).
    exists e, (d_status r =? st_left), false. split; [assumption|]. split; [|discriminate].
    split; [reflexivity|]. simpl.
    destruct I as [I|[E [F [[_ [G S]]|[X _]]]]]; [left; exact I | | discriminate X].
    right. split; [exact E|]. split; [exact F|]. left. auto.
  - repeat (apply andb_true_iff in W as [W ?]). apply Z.eqb_eq in H0.
    exists (e + 1), false, false. split; [assumption|]. split; [|discriminate].
    unfold complete_rec in H1. repeat (apply andb_true_iff in H1 as [H1 ?]). apply Z.eqb_eq in H1.
    split.
    + unfold is_left; simpl. rewrite H1. reflexivity.
    + right. simpl. split.
      * destruct I as [[E _]|[E _]]; lia.
      * split; [exists r; auto|]. left. rewrite H0. auto.
  - repeat (apply andb_true_iff in W as [W ?]). apply Z.leb_le in W.
    assert (N : evs = []) by (destruct evs; [reflexivity | discriminate]).
    exists e, lf, true. split; [subst evs; reflexivity|]. split; [|intros _; exact N].
    split; [exact L|]. right. destruct I as [[E _]|[E [F _]]]; [lia|].
    split; [assumption|]. split; [exact F|]. right. simpl. auto.
Qed.

Theorem files_consistent_at_boundaries : forall evs e lf s,
  wf_hist e lf evs = true -> files_inv e lf false s ->
  files_consistent (apply_ops s (expand_all expected_shape evs)) = true.
Proof.
  induction evs as [|ev evs IH]; intros e lf s W I.
  - simpl. apply (files_inv_consistent e lf false s I).
  - simpl expand_all. rewrite apply_ops_app.
    destruct (files_inv_step ev evs e lf s W I) as [e' [lf' [gone' [W' [I' G]]]]].
    destruct gone'.
    + rewrite (G eq_refl). simpl. apply (files_inv_consistent e' lf' true _ I').
    + apply (IH e' lf'); assumption.
Qed.

Lemma files_inv_empty : files_inv 0 false false empty_state.
Proof. split; [reflexivity|]. left. simpl. auto. Qed.

Lemma expand_all_app : forall sh a b, expand_all sh (a ++ b) = expand_all sh a ++ expand_all sh b.
Proof. intros; unfold expand_all; apply flat_map_app. Qed.

(* ---------------- every crash point is consistent or in one of the named classes ---------------- *)

Definition cp_index (cp : crashpt) : nat := match cp with CAfter k | CTorn k => k end.
Definition cp_shift (cp : crashpt) (n : nat) : crashpt :=
  match cp with CAfter k => CAfter (k - n) | CTorn k => CTorn (k - n) end.

Lemma crash_app_ge : forall cp a b s, (length a <= cp_index cp)%nat ->
  crash cp (a ++ b) s = crash (cp_shift cp (length a)) b (apply_ops s a).
Proof.
  intros [k|k] a b s H; simpl in *.
  - rewrite firstn_app_ge, apply_ops_app by assumption. reflexivity.
  - rewrite firstn_app_ge, apply_ops_app by assumption.
    rewrite nth_error_app2 by assumption. reflexivity.
Qed.

Lemma crash_app_lt : forall cp a b s, (cp_index cp < length a)%nat ->
  crash cp (a ++ b) s = crash cp a s.
Proof.
  intros [k|k] a b s H; simpl in *.
  - rewrite firstn_app_le by lia. reflexivity.
  - rewrite firstn_app_le by lia. rewrite nth_error_app1 by assumption. reflexivity.
Qed.

Lemma crash_nil : forall cp s, crash cp [] s = s.
Proof. intros [k|k] s; simpl; rewrite firstn_nil; [reflexivity|]. destruct k; reflexivity. Qed.

(* since key.Save replaces the file atomically and Reset removes the group first, only the two
   ordering classes are left *)
Definition classified (s : dstate) : bool :=
  files_consistent s || class_db_ahead s || class_epoch_mismatch s.

Ltac zdecide :=
  repeat match goal with
  | |- context [?a =? ?b] =>
      first [ replace (a =? b) with true by (symmetry; apply Z.eqb_eq; lia)
            | replace (a =? b) with false by (symmetry; apply Z.eqb_neq; lia) ]
  | |- context [?a <? ?b] =>
      first [ replace (a <? b) with true by (symmetry; apply Z.ltb_lt; lia)
            | replace (a <? b) with false by (symmetry; apply Z.ltb_ge; lia) ]
  end.

Lemma classified_inside_event : forall ev evs e lf s cp,
  wf_hist e lf (ev :: evs) = true -> files_inv e lf false s ->
  (cp_index cp < length (expand expected_shape ev))%nat ->
  classified (crash cp (expand expected_shape ev) s) = true.
Proof.
  intros ev evs e lf s cp W [L I] K. destruct s as [c cu fi g sh]; simpl in L, I.
  destruct ev as [r|r|]; simpl in W, K.
  - (* one transaction: the only crash point inside is "before" *)
    assert (cp_index cp = 0%nat) by lia.
    assert (E : crash cp (expand expected_shape (EvStage r)) (mkS c cu fi g sh) = mkS c cu fi g sh).
    { destruct cp as [k|k]; simpl in *; subst k; reflexivity. }
    rewrite E. unfold classified.
    rewrite (files_inv_consistent e lf false (mkS c cu fi g sh)); [reflexivity | split; assumption].
  - repeat (apply andb_true_iff in W as [W ?]). apply Z.eqb_eq in H0.
    unfold complete_rec in H1. repeat (apply andb_true_iff in H1 as [H1 ?]).
    apply Z.eqb_eq in H1. apply Z.eqb_eq in H4. apply Z.eqb_eq in H3.
    destruct I as [[E [F [G [S _]]]]|[E [[r0 [F Er0]] [[_ [G S]]|[X _]]]]]; [| |discriminate X]; subst fi g sh.
    + (* first DKG *)
      destruct cp as [k|k]; destruct k as [|[|[|[|[|[|[|k]]]]]]]; simpl in K; try lia;
        unfold classified, files_consistent, class_db_ahead, class_epoch_mismatch,
          node_restart, is_left; simpl; rewrite ?H1; simpl; zdecide; reflexivity.
    + (* resharing on top of epoch e *)
      destruct cp as [k|k]; destruct k as [|[|[|[|[|[|[|k]]]]]]]; simpl in K; try lia;
        unfold classified, files_consistent, class_db_ahead, class_epoch_mismatch,
          node_restart, is_left; simpl; rewrite ?H1, ?Er0; simpl; zdecide;
        try reflexivity;
        (* crash before the transaction: the state is the consistent one we started from *)
        rewrite <- L; unfold is_left; simpl; destruct cu as [rc|]; simpl; zdecide; reflexivity.
  - repeat (apply andb_true_iff in W as [W ?]). apply Z.leb_le in W. subst lf.
    destruct I as [[E _]|[E [[r0 [F Er0]] [[_ [G S]]|[X _]]]]]; [lia | | discriminate X]; subst fi g sh.
    destruct cp as [k|k]; destruct k as [|[|k]]; simpl in K; try lia;
      unfold classified, files_consistent, class_db_ahead, class_epoch_mismatch,
        node_restart; simpl; rewrite ?Er0; simpl; zdecide; try reflexivity;
      unfold is_left in L; simpl in L; unfold is_left; simpl; rewrite L; reflexivity.
Qed.

Theorem files_classified : forall evs e lf s cp,
  wf_hist e lf evs = true -> files_inv e lf false s ->
  classified (crash cp (expand_all expected_shape evs) s) = true.
Proof.
  induction evs as [|ev evs IH]; intros e lf s cp W I.
  - simpl. rewrite crash_nil. unfold classified. rewrite (files_inv_consistent e lf false s I). reflexivity.
  - simpl expand_all.
    destruct (Nat.le_gt_cases (length (expand expected_shape ev)) (cp_index cp)) as [Hge|Hlt].
    + rewrite crash_app_ge by assumption.
      destruct (files_inv_step ev evs e lf s W I) as [e' [lf' [gone' [W' [I' G]]]]].
      destruct gone'.
      * rewrite (G eq_refl). simpl. rewrite crash_nil. unfold classified.
        rewrite (files_inv_consistent e' lf' true _ I'). reflexivity.
      * apply (IH e' lf'); assumption.
    + rewrite crash_app_lt by assumption.
      apply (classified_inside_event ev evs e lf s cp W I Hlt).
Qed.

(* ---------------- serving: what was handed to callbacks is in the restarted store ---------------- *)

Lemma written_app : forall a b, written (a ++ b) = written a ++ written b.
Proof. intros; unfold written; apply flat_map_app. Qed.
Lemma served_app : forall a b, served (a ++ b) = served a ++ served b.
Proof. intros; unfold served; apply flat_map_app. Qed.

(* with the write first, every prefix of the events of one lifetime has served ⊆ written *)
Lemma cb_prefix_served_written : forall chained bs last k b,
  In b (served (firstn k (cb_attempts true chained last bs))) ->
  In b (written (firstn k (cb_attempts true chained last bs))).
Proof.
  intros chained bs; induction bs as [|x bs IH]; intros last k b H; simpl in *.
  - rewrite firstn_nil in H. contradiction.
  - destruct (accepts chained last x).
    + unfold cb_put_events in *; simpl in *.
      destruct (b_round x =? 0).
      * destruct k as [|k]; simpl in *; [contradiction|]. right. apply (IH x k b H).
      * destruct k as [|[|k]]; simpl in *; [contradiction | contradiction |].
        destruct H as [E|H]; [left; exact E | right; apply (IH x k b H)].
    + unfold cb_put_events in *; simpl in *. apply (IH last k b H).
Qed.

Lemma beacon_eqb_refl : forall b, beacon_eqb b b = true.
Proof. intros; unfold beacon_eqb; rewrite !Z.eqb_refl; reflexivity. Qed.

Theorem served_persisted_write_first : forall chained c0 last bs k,
  served_persisted c0 (firstn k (cb_attempts true chained last bs)) = true.
Proof.
  intros. unfold served_persisted. apply forallb_forall. intros b H.
  apply existsb_exists. exists b. split; [|apply beacon_eqb_refl].
  apply in_or_app. right. apply cb_prefix_served_written, H.
Qed.

(* the database writes of the callback store's lifetime are exactly the append store's transactions *)
Lemma cb_written_is_attempt_ops : forall chained bs last,
  written (cb_attempts true chained last bs) = beacons_of (attempt_ops chained last bs).
Proof.
  intros chained bs; induction bs as [|x bs IH]; intros last; simpl; [reflexivity|].
  destruct (accepts chained last x); simpl.
  - unfold cb_put_events; simpl. destruct (b_round x =? 0); simpl; rewrite IH; reflexivity.
  - apply IH.
Qed.

(* ---------------- the previous epoch's files are never removed before the new ones exist ---------------- *)

Lemma prev_kept_inside_event : forall ev evs e lf s cp,
  wf_hist e lf (ev :: evs) = true -> files_inv e lf false s ->
  (cp_index cp < length (expand expected_shape ev))%nat ->
  class_prev_destroyed (crash cp (expand expected_shape ev) s) = false.
Proof.
  intros ev evs e lf s cp W [L I] K. destruct s as [c cu fi g sh]; simpl in L, I.
  destruct ev as [r|r|]; simpl in W, K.
  - assert (cp_index cp = 0%nat) by lia.
    assert (E : crash cp (expand expected_shape (EvStage r)) (mkS c cu fi g sh) = mkS c cu fi g sh).
    { destruct cp as [k|k]; simpl in *; subst k; reflexivity. }
    rewrite E. unfold class_prev_destroyed; simpl.
    destruct I as [[E0 [F [G [S _]]]]|[E1 [[r0 [F Er0]] [[_ [G S]]|[X _]]]]]; [| |discriminate X]; subst fi g sh.
    + reflexivity.
    + simpl. rewrite !andb_false_r. reflexivity.
  - repeat (apply andb_true_iff in W as [W ?]). apply Z.eqb_eq in H0.
    unfold complete_rec in H1. repeat (apply andb_true_iff in H1 as [H1 ?]).
    apply Z.eqb_eq in H1. apply Z.eqb_eq in H4. apply Z.eqb_eq in H3.
    destruct I as [[E [F [G [S _]]]]|[E [[r0 [F Er0]] [[_ [G S]]|[X _]]]]]; [| |discriminate X]; subst fi g sh.
    + (* first DKG: the record is epoch 1, there is no previous pair *)
      destruct cp as [k|k]; destruct k as [|[|[|[|[|[|[|k]]]]]]]; simpl in K; try lia;
        unfold class_prev_destroyed, is_left; simpl; rewrite ?H1, ?H0, ?E; simpl; reflexivity.
    + destruct cp as [k|k]; destruct k as [|[|[|[|[|[|[|k]]]]]]]; simpl in K; try lia;
        unfold class_prev_destroyed, is_left; simpl; rewrite ?H1, ?Er0; simpl;
        rewrite ?andb_false_r; reflexivity.
  - repeat (apply andb_true_iff in W as [W ?]). apply Z.leb_le in W. subst lf.
    destruct I as [[E _]|[E [[r0 [F Er0]] [[_ [G S]]|[X _]]]]]; [lia | | discriminate X]; subst fi g sh.
    unfold is_left in L; simpl in L.
    destruct cp as [k|k]; destruct k as [|[|k]]; simpl in K; try lia;
      unfold class_prev_destroyed, is_left; simpl; rewrite L; simpl; rewrite ?andb_false_r; reflexivity.
Qed.

Lemma prev_kept_inv : forall e lf gone s, files_inv e lf gone s -> class_prev_destroyed s = false.
Proof.
  intros e lf gone s [L [[E [F _]]|[E [[r [F Er]] [[_ [G S]]|[_ [Lf [G S]]]]]]]];
    unfold class_prev_destroyed; rewrite F; try reflexivity.
  - rewrite G, S. simpl. rewrite !andb_false_r. reflexivity.
  - rewrite L, Lf. simpl. rewrite andb_false_r. reflexivity.
Qed.

Theorem prev_pair_never_destroyed : forall evs e lf s cp,
  wf_hist e lf evs = true -> files_inv e lf false s ->
  class_prev_destroyed (crash cp (expand_all expected_shape evs) s) = false.
Proof.
  induction evs as [|ev evs IH]; intros e lf s cp W I.
  - simpl. rewrite crash_nil. apply (prev_kept_inv e lf false s I).
  - simpl expand_all.
    destruct (Nat.le_gt_cases (length (expand expected_shape ev)) (cp_index cp)) as [Hge|Hlt].
    + rewrite crash_app_ge by assumption.
      destruct (files_inv_step ev evs e lf s W I) as [e' [lf' [gone' [W' [I' G]]]]].
      destruct gone'.
      * rewrite (G eq_refl). simpl. rewrite crash_nil. apply (prev_kept_inv e' lf' true _ I').
      * apply (IH e' lf'); assumption.
    + rewrite crash_app_lt by assumption.
      apply (prev_kept_inside_event ev evs e lf s cp W I Hlt).
Qed.

(* ---------------- atomic replace: no crash point shows an empty or torn key file ---------------- *)

Definition inplace_op (o : pop) : bool :=
  match o with PFileCreate _ | PFileWrite _ _ => true | _ => false end.
Definition clean (c : fcontent) : bool :=
  match c with FEmpty | FTorn _ => false | _ => true end.
Definition clean_state (s : dstate) : bool := clean (gfile s) && clean (sfile s).

Lemma expand_no_inplace : forall evs,
  forallb (fun o => negb (inplace_op o)) (expand_all expected_shape evs) = true.
Proof.
  induction evs as [|ev evs IH]; [reflexivity|].
  simpl expand_all. rewrite forallb_app, IH, andb_true_r. destruct ev; reflexivity.
Qed.

Lemma dkg_put_files : forall puts s,
  gfile (fold_left dkg_put puts s) = gfile s /\ sfile (fold_left dkg_put puts s) = sfile s.
Proof.
  induction puts as [|[b r] puts IH]; intros s; [split; reflexivity|].
  simpl. destruct (IH (dkg_put s (b, r))) as [G S]. rewrite G, S. destruct b; split; reflexivity.
Qed.

Lemma apply_op_clean : forall o s, inplace_op o = false -> clean_state s = true ->
  clean_state (apply_op s o) = true.
Proof.
  intros o s N C. unfold clean_state in *. apply andb_true_iff in C as [Cg Cs].
  destruct o as [b|puts|f|f e|f|f|f e|f e]; simpl in *; try discriminate;
    try (rewrite Cg, Cs; reflexivity); try (destruct f; simpl; rewrite ?Cg, ?Cs; reflexivity).
  destruct (dkg_put_files puts s) as [G S]. rewrite G, S, Cg, Cs. reflexivity.
Qed.

Lemma apply_ops_clean : forall ops s,
  forallb (fun o => negb (inplace_op o)) ops = true -> clean_state s = true ->
  clean_state (apply_ops s ops) = true.
Proof.
  induction ops as [|o ops IH]; intros s F C; [exact C|].
  simpl in F. apply andb_true_iff in F as [Fo Fs]. simpl. apply IH; [exact Fs|].
  apply apply_op_clean; [apply negb_true_iff, Fo | exact C].
Qed.

Lemma forallb_firstn : forall {A} (p : A -> bool) l k, forallb p l = true -> forallb p (firstn k l) = true.
Proof.
  intros A p l; induction l as [|x l IH]; intros k F; [rewrite firstn_nil; reflexivity|].
  destruct k; [reflexivity|]. simpl in *. apply andb_true_iff in F as [Fx Fl]. rewrite Fx. apply IH, Fl.
Qed.

Theorem no_torn_key_file : forall evs cp,
  class_torn (crash cp (expand_all expected_shape evs) empty_state) = false /\
  clean_state (crash cp (expand_all expected_shape evs) empty_state) = true.
Proof.
  intros evs cp.
  assert (C : clean_state (crash cp (expand_all expected_shape evs) empty_state) = true).
  { assert (F := expand_no_inplace evs).
    destruct cp as [k|k]; simpl.
    - apply apply_ops_clean; [apply forallb_firstn, F | reflexivity].
    - destruct (nth_error (expand_all expected_shape evs) k) as [o|] eqn:N.
      + assert (I : inplace_op o = false).
        { apply nth_error_In in N. rewrite forallb_forall in F. apply negb_true_iff, F, N. }
        destruct o; simpl in I; try discriminate;
          apply apply_ops_clean; try (apply forallb_firstn, F); reflexivity.
      + apply apply_ops_clean; [apply forallb_firstn, F | reflexivity]. }
  split; [|exact C].
  unfold clean_state in C. apply andb_true_iff in C as [Cg Cs]. unfold class_torn.
  destruct (gfile _), (sfile _); simpl in *; try discriminate; reflexivity.
Qed.
