(* Lemmas about Model/DKGSign.v (C09): which terms messageForSigning commits to (injectivity under
   the framing assumptions, and the fields it does not write), and what an accepted packet implies
   about its signature and its sender. *)
From Coq Require Import ZArith List Bool Lia.
From DV Require Import Gen.DKGTable Model.DKGState Model.DKGSign Proofs.DKGStateProofs.
Import ListNotations.
Open Scope Z_scope.

(* ---------- generic list facts ---------- *)
Lemma app_eq_len : forall (A : Type) (a b x y : list A),
  length a = length b -> a ++ x = b ++ y -> a = b /\ x = y.
Proof.
  induction a as [|h a IH]; destruct b as [|k b]; simpl; intros x y L H; try discriminate; auto.
  inversion H; subst. destruct (IH b x y) as [-> ->]; auto.
Qed.

Definition no_nl (b : bytes) : Prop := ~ In nl b.

Lemma split_at_nl : forall a b x y, no_nl a -> no_nl b -> a ++ [nl] ++ x = b ++ [nl] ++ y -> a = b /\ x = y.
Proof.
  unfold no_nl. induction a as [|h a IH]; destruct b as [|k b]; simpl; intros x y Na Nb H.
  - inversion H; auto.
  - inversion H; subst. exfalso; apply Nb; left; reflexivity.
  - inversion H; subst. exfalso; apply Na; left; reflexivity.
  - inversion H; subst. destruct (IH b x y) as [-> ->]; auto.
Qed.

(* ---------- fixed-width integers ---------- *)
Lemma le_bytes_length : forall n x, length (le_bytes n x) = n.
Proof. induction n; simpl; intros; auto. Qed.

Lemma le_bytes_inj : forall n x y, 0 <= x < 256 ^ Z.of_nat n -> 0 <= y < 256 ^ Z.of_nat n ->
  le_bytes n x = le_bytes n y -> x = y.
Proof.
  induction n as [|n IH]; intros x y Hx Hy H.
  - simpl in Hx, Hy. lia.
  - simpl in H. inversion H as [[H1 H2]].
    rewrite Nat2Z.inj_succ, Z.pow_succ_r in Hx, Hy by lia.
    assert (x / 256 = y / 256).
    { apply IH; auto; split; try (apply Z.div_pos; lia); apply Z.div_lt_upper_bound; lia. }
    rewrite (Z.div_mod x 256), (Z.div_mod y 256) by lia. congruence.
Qed.

Definition u32 (x : Z) : Prop := 0 <= x < 4294967296.

Lemma le32_inj : forall x y, u32 x -> u32 y -> le32 x = le32 y -> x = y.
Proof. unfold u32, le32; intros x y Hx Hy H. apply (le_bytes_inj 4); auto. Qed.

Lemma le32_length : forall x, length (le32 x) = 4%nat.
Proof. intros; apply le_bytes_length. Qed.

Lemma be_bytes_inj : forall n x y, 0 <= x < 256 ^ Z.of_nat n -> 0 <= y < 256 ^ Z.of_nat n ->
  be_bytes n x = be_bytes n y -> x = y.
Proof.
  unfold be_bytes; intros n x y Hx Hy H. apply (le_bytes_inj n); auto.
  rewrite <- (rev_involutive (le_bytes n x)), <- (rev_involutive (le_bytes n y)). congruence.
Qed.

Lemma be_bytes_length : forall n x, length (be_bytes n x) = n.
Proof. unfold be_bytes; intros; rewrite rev_length; apply le_bytes_length. Qed.

(* instants whose seconds-since-year-1 fit an unsigned 64-bit word (years 1 .. 5*10^11) *)
Definition time_ok (t : Z) : Prop := 0 <= unix t + unix_to_internal < 2 ^ 64.

Lemma enc_time_length : forall t, length (enc_time t) = 15%nat.
Proof. intros; unfold enc_time; cbn [length]. rewrite !app_length, !be_bytes_length. reflexivity. Qed.

Lemma enc_time_inj : forall a b, time_ok a -> time_ok b -> enc_time a = enc_time b -> a = b.
Proof.
  unfold enc_time, time_ok; intros a b Ha Hb H. apply (f_equal (@tl Z)) in H. cbn [tl] in H. rename H into H1.
  apply app_eq_len in H1; [|rewrite !be_bytes_length; reflexivity]. destruct H1 as [H1 H2].
  apply app_eq_len in H2; [|rewrite !be_bytes_length; reflexivity]. destruct H2 as [H2 _].
  apply (be_bytes_inj 8) in H1; auto.
  apply (be_bytes_inj 4) in H2; try (split; [apply Z.mod_pos_bound; lia|]; eapply Z.lt_trans; [apply Z.mod_pos_bound; lia|reflexivity]).
  unfold unix in H1.
  rewrite (Z.div_mod a 1000000000), (Z.div_mod b 1000000000) by lia.
  assert (a / 1000000000 = b / 1000000000) by lia. congruence.
Qed.

(* ---------- the participant entries ---------- *)
Inductive tag := TJ | TR | TL.
Definition tag_bytes (t : tag) : bytes := match t with TJ => s_joiner | TR => s_remainer | TL => s_leaver end.
Definition entry := (tag * (bytes * bytes))%type.   (* tag, address, signature *)
Definition enc_tagged (l : list entry) : bytes :=
  List.concat (map (fun e : entry => nl :: tag_bytes (fst e) ++ fst (snd e) ++ nl :: s_sig ++ snd (snd e)) l).
Definition addr_sig (p : participant) : bytes * bytes := (p_addr p, p_sig p).
Definition tagged (t : tag) (l : list participant) : list entry := map (fun p => (t, addr_sig p)) l.

Lemma enc_entries_tagged : forall t l, enc_entries (tag_bytes t) l = enc_tagged (tagged t l).
Proof.
  intros t l; unfold enc_entries, enc_tagged, tagged. rewrite map_map. reflexivity.
Qed.

Lemma enc_tagged_app : forall a b, enc_tagged (a ++ b) = enc_tagged a ++ enc_tagged b.
Proof. intros; unfold enc_tagged. rewrite map_app, concat_app. reflexivity. Qed.

Definition wf_entry (L : nat) (e : entry) : Prop := no_nl (fst (snd e)) /\ length (snd (snd e)) = L.

Lemma tag_bytes_prefix : forall t1 t2 x y, tag_bytes t1 ++ x = tag_bytes t2 ++ y -> t1 = t2.
Proof. intros t1 t2 x y H; destruct t1, t2; auto; vm_compute in H; discriminate. Qed.

Lemma enc_tagged_inj : forall L l1 l2, Forall (wf_entry L) l1 -> Forall (wf_entry L) l2 ->
  enc_tagged l1 = enc_tagged l2 -> l1 = l2.
Proof.
  intros L. induction l1 as [|[t1 [a1 s1]] l1 IH]; destruct l2 as [|[t2 [a2 s2]] l2]; intros W1 W2 H; auto.
  - unfold enc_tagged in H; simpl in H; discriminate.
  - unfold enc_tagged in H; simpl in H; discriminate.
  - inversion W1 as [|? ? [N1 L1] W1']; inversion W2 as [|? ? [N2 L2] W2']; subst. simpl in *.
    change (enc_tagged ((t1, (a1, s1)) :: l1)) with ((nl :: tag_bytes t1 ++ a1 ++ nl :: s_sig ++ s1) ++ enc_tagged l1) in H.
    change (enc_tagged ((t2, (a2, s2)) :: l2)) with ((nl :: tag_bytes t2 ++ a2 ++ nl :: s_sig ++ s2) ++ enc_tagged l2) in H.
    simpl in H. inversion H as [H1]. clear H. rewrite <- !app_assoc in H1.
    assert (t1 = t2) by (eapply tag_bytes_prefix; eassumption). subst t2.
    apply app_inv_head in H1.
    change (a1 ++ nl :: (s_sig ++ s1) ++ enc_tagged l1) with (a1 ++ [nl] ++ (s_sig ++ s1) ++ enc_tagged l1) in H1.
    change (a2 ++ nl :: (s_sig ++ s2) ++ enc_tagged l2) with (a2 ++ [nl] ++ (s_sig ++ s2) ++ enc_tagged l2) in H1.
    apply split_at_nl in H1; auto. destruct H1 as [-> H1].
    inversion H1 as [H2]; clear H1. change (s1 ++ enc_tagged l1 = s2 ++ enc_tagged l2) in H2.
    apply app_eq_len in H2; [|congruence]. destruct H2 as [-> H2].
    f_equal. apply IH; auto.
Qed.

Lemma tagged3_inj : forall j1 j2 r1 r2 l1 l2 : list (bytes * bytes),
  map (pair TJ) j1 ++ map (pair TR) r1 ++ map (pair TL) l1 = map (pair TJ) j2 ++ map (pair TR) r2 ++ map (pair TL) l2 ->
  j1 = j2 /\ r1 = r2 /\ l1 = l2.
Proof.
  assert (R : forall r1 r2 l1 l2 : list (bytes * bytes),
             map (pair TR) r1 ++ map (pair TL) l1 = map (pair TR) r2 ++ map (pair TL) l2 -> r1 = r2 /\ l1 = l2).
  { induction r1 as [|x r1 IH]; destruct r2 as [|y r2]; simpl; intros l1 l2 H.
    - split; auto. revert l2 H. induction l1 as [|a l1 IHl]; destruct l2 as [|b l2]; simpl; intros H; try discriminate; auto.
      inversion H; subst. f_equal; auto.
    - destruct l1; simpl in H; discriminate.
    - destruct l2; simpl in H; discriminate.
    - inversion H; subst. destruct (IH r2 l1 l2) as [-> ->]; auto. }
  induction j1 as [|x j1 IH]; destruct j2 as [|y j2]; simpl; intros r1 r2 l1 l2 H.
  - destruct (R r1 r2 l1 l2 H) as [-> ->]; auto.
  - destruct r1; [destruct l1|]; simpl in H; discriminate.
  - destruct r2; [destruct l2|]; simpl in H; discriminate.
  - inversion H; subst. destruct (IH j2 r1 r2 l1 l2) as [-> [-> ->]]; auto.
Qed.

(* ---------- the terms written by messageForSigning ---------- *)
(* everything the message commits to: all proposal terms EXCEPT the participants' keys and the
   genesis seed *)
Definition written (t : terms) :=
  (t_beacon t, t_epoch t, addr_sig (getp (t_leader t)), t_threshold t, t_timeout t, t_catchup t, t_period t,
   t_scheme t, t_genesis_time t, map addr_sig (t_joining t), map addr_sig (t_remaining t), map addr_sig (t_leaving t)).

Definition wf_part (L : nat) (p : participant) : Prop := no_nl (p_addr p) /\ length (p_sig p) = L.

(* the framing assumptions: strings contain no newline, all participant signatures have the
   scheme's fixed length L, integers are uint32, instants are representable *)
Definition wf_terms (L : nat) (t : terms) : Prop :=
  no_nl (t_beacon t) /\ no_nl (t_scheme t) /\ wf_part L (getp (t_leader t))
  /\ Forall (wf_part L) (t_joining t) /\ Forall (wf_part L) (t_remaining t) /\ Forall (wf_part L) (t_leaving t)
  /\ u32 (t_epoch t) /\ u32 (t_threshold t) /\ u32 (t_catchup t) /\ u32 (t_period t)
  /\ time_ok (t_timeout t) /\ time_ok (t_genesis_time t).

Lemma wf_tagged : forall L t l, Forall (wf_part L) l -> Forall (wf_entry L) (tagged t l).
Proof.
  intros L t l H. unfold tagged. rewrite Forall_map. eapply Forall_impl; [|exact H].
  intros p [N S]; split; auto.
Qed.

Lemma entries_eq : forall t,
  enc_entries s_joiner (t_joining t) ++ enc_entries s_remainer (t_remaining t) ++ enc_entries s_leaver (t_leaving t)
  = enc_tagged (tagged TJ (t_joining t) ++ tagged TR (t_remaining t) ++ tagged TL (t_leaving t)).
Proof.
  intros t. rewrite !enc_tagged_app.
  rewrite <- (enc_entries_tagged TJ), <- (enc_entries_tagged TR), <- (enc_entries_tagged TL). reflexivity.
Qed.

Lemma tagged_as_map : forall t l, tagged t l = map (pair t) (map addr_sig l).
Proof. intros; unfold tagged; rewrite map_map; reflexivity. Qed.

Theorem msg_terms_injective : forall L t1 t2, wf_terms L t1 -> wf_terms L t2 ->
  msg_terms t1 = msg_terms t2 -> written t1 = written t2.
Proof.
  intros L t1 t2 (B1 & S1 & [LA1 LS1] & J1 & R1 & V1 & E1 & T1 & C1 & P1 & TO1 & G1)
                 (B2 & S2 & [LA2 LS2] & J2 & R2 & V2 & E2 & T2 & C2 & P2 & TO2 & G2) H.
  unfold msg_terms in H.
  apply app_inv_head in H. apply app_inv_head in H.
  apply split_at_nl in H; auto. destruct H as [HB H].
  apply app_eq_len in H; [|rewrite !le32_length; reflexivity]. destruct H as [HE H].
  apply app_inv_head in H. apply app_inv_head in H.
  apply split_at_nl in H; auto. destruct H as [HLA H].
  apply app_eq_len in H; [|congruence]. destruct H as [HLS H].
  apply app_eq_len in H; [|rewrite !le32_length; reflexivity]. destruct H as [HT H].
  apply app_eq_len in H; [|rewrite !enc_time_length; reflexivity]. destruct H as [HTO H].
  apply app_eq_len in H; [|rewrite !le32_length; reflexivity]. destruct H as [HC H].
  apply app_eq_len in H; [|rewrite !le32_length; reflexivity]. destruct H as [HP H].
  apply app_inv_head in H. apply app_inv_head in H.
  apply split_at_nl in H; auto. destruct H as [HS H].
  apply app_eq_len in H; [|rewrite !enc_time_length; reflexivity]. destruct H as [HG H].
  rewrite !entries_eq in H.
  apply (enc_tagged_inj L) in H;
    try (repeat (apply Forall_app; split); apply wf_tagged; assumption).
  rewrite !tagged_as_map in H. apply tagged3_inj in H. destruct H as [HJ [HR HL]].
  apply le32_inj in HE; auto. apply le32_inj in HT; auto. apply le32_inj in HC; auto. apply le32_inj in HP; auto.
  apply enc_time_inj in HTO; auto. apply enc_time_inj in HG; auto.
  unfold written. rewrite HB, HE, HT, HTO, HC, HP, HS, HG, HJ, HR, HL. unfold addr_sig. rewrite HLA, HLS. reflexivity.
Qed.

(* conversely the message is a function of [written] and nothing else: keys and the genesis seed
   are not signed *)
Lemma enc_entries_addr_sig : forall tg l l', map addr_sig l = map addr_sig l' -> enc_entries tg l = enc_entries tg l'.
Proof.
  intros tg. induction l as [|p l IH]; destruct l' as [|q l']; simpl; intros H; try discriminate; auto.
  unfold addr_sig in H at 1 3. injection H as Ha Hs Hm. specialize (IH _ Hm).
  change (enc_entry tg p ++ enc_entries tg l = enc_entry tg q ++ enc_entries tg l'). rewrite IH. unfold enc_entry. rewrite Ha, Hs. reflexivity.
Qed.

Theorem msg_terms_only_written : forall t1 t2, written t1 = written t2 -> msg_terms t1 = msg_terms t2.
Proof.
  intros t1 t2 H. unfold written, addr_sig in H. inversion H as [[HB HE HLA HLS HT HTO HC HP HS HG HJ HR HL]].
  unfold msg_terms. rewrite HB, HE, HLA, HLS, HT, HTO, HC, HP, HS, HG.
  rewrite (enc_entries_addr_sig _ _ _ HJ), (enc_entries_addr_sig _ _ _ HR), (enc_entries_addr_sig _ _ _ HL). reflexivity.
Qed.

(* ---------- what an accepted packet implies ---------- *)
Section Accept.
  Variable verify : bytes -> bytes -> bytes -> bool.
  Variable joiner_ok : bytes -> participant -> bool.
  Variable key_ok : bytes -> bool.
  Variable me : participant.
  Variable B : bytes.
  Notation vm := (verify_message verify key_ok).

  Lemma verify_message_ok : forall p md t, gp_md p = Some md -> vm p t = None ->
    exists signer, find_by_addr (t_remaining t ++ t_joining t) (md_addr md) = Some signer
      /\ key_ok (p_key signer) = true
      /\ verify (p_key signer) (message_for_signing (md_beacon md) (gp_body p) t) (md_sig md) = true.
  Proof.
    unfold verify_message; intros p md t Hmd H. rewrite Hmd in H.
    destruct (find_by_addr _ _) as [signer|]; [|discriminate]. exists signer.
    destruct (key_ok (p_key signer)); [|discriminate]. simpl in H.
    destruct (verify _ _ _); [auto|discriminate].
  Qed.

  Lemma find_by_addr_in : forall l a p, find_by_addr l a = Some p -> In p l /\ p_addr p = a.
  Proof.
    unfold find_by_addr; intros l a p H. apply find_some in H. destruct H as [H1 H2].
    split; auto. apply bytes_eqb_eq; assumption.
  Qed.

  (* a packet that changes the store went through Apply and verifyMessage *)
  Lemma packet_accept_inv : forall now s p s' o,
    packet_step joiner_ok key_ok vm me B now s p = (s', o) -> s' <> s ->
    exists md next, gp_md p = Some md /\ md_beacon md = B
      /\ apply_packet joiner_ok now me (effective B s) (gp_body p) md = Ok next
      /\ vm p (terms_from_state next) = None
      /\ current s' = Some next /\ finished s' = finished s.
  Proof.
    unfold packet_step; intros now s p s' o H N.
    destruct (gp_md p) as [md|] eqn:Hmd; [|inversion H; congruence].
    destruct (len (md_sig md) <? 4); [inversion H; congruence|].
    destruct (mem_bytes _ _); [inversion H; congruence|].
    assert (PA : packet_apply joiner_ok key_ok vm me B now s p md = (s', o) ->
                 exists md0 next, Some md = Some md0 /\ md_beacon md0 = B
                   /\ apply_packet joiner_ok now me (effective B s) (gp_body p) md0 = Ok next
                   /\ vm p (terms_from_state next) = None /\ current s' = Some next /\ finished s' = finished s).
    { unfold packet_apply. intros H'.
      destruct (bytes_eqb (md_beacon md) B) eqn:EB; simpl in H'; [|inversion H'; congruence].
      apply bytes_eqb_eq in EB.
      destruct (apply_packet _ _ _ _ _ _) as [next|e] eqn:A; [|inversion H'; congruence].
      destruct (vm p (terms_from_state next)) eqn:V; [inversion H'; congruence|].
      exists md, next. repeat split; auto;
        destruct (gp_body p); try destruct (exec_setup _ _ _); inversion H'; subst;
        match goal with |- context [if ?c then _ else _] => destruct c end; reflexivity. }
    destruct (gp_body p) eqn:Eb; try (apply PA; assumption). inversion H; congruence.
  Qed.

  (* the role rule the state machine enforces for each packet type *)
  Definition role_ok (base : dbstate) (body : pkt) (md : metadata) (next : dbstate) : Prop :=
    match body with
    | PProposal t => exists l, t_leader t = Some l /\ p_addr l = md_addr md
    | PAccept a => exists q, a = Some q /\ md_addr md = p_addr q /\ contains (st_remaining base) q = true
    | PReject r => exists q, r = Some q /\ md_addr md = p_addr q /\ contains (st_remaining base) q = true
    | PExecute _ => exists l, st_leader base = Some l /\ md_addr md = p_addr l
    | PAbort _ => exists l, st_leader base = Some l /\ p_addr l = md_addr md
    | PDkg | PNone => False
    end.

  Lemma negb_false' : forall b, negb b = false -> b = true.
  Proof. destruct b; auto. Qed.

  Lemma apply_role : forall now base body md next,
    apply_packet joiner_ok now me base body md = Ok next -> role_ok base body md next.
  Proof.
    intros now base body md next H. destruct body; simpl in H; try discriminate; simpl.
    - unfold do_proposed in H. brk H. exists p. split; auto. apply negb_false' in E1. apply bytes_eqb_eq; assumption.
    - unfold do_received_acceptance in H. brk H. exists p. apply negb_false' in E0, E3. apply bytes_eqb_eq in E3. auto.
    - unfold do_received_rejection in H. brk H. exists p. apply negb_false' in E0, E3. apply bytes_eqb_eq in E3. auto.
    - unfold do_executing in H. destruct (has_timed_out now base); [discriminate|].
      destruct (contains (st_leaving base) me && valid_change (st_state base) Left) eqn:EL.
      + destruct (st_leader base) as [l|]; [|discriminate].
        destruct (negb (bytes_eqb (md_addr md) (p_addr l))) eqn:EA; [discriminate|].
        exists l. apply negb_false' in EA. apply bytes_eqb_eq in EA. auto.
      + brk H. exists p. apply negb_false' in E2. apply bytes_eqb_eq in E2. auto.
    - unfold do_aborted in H. brk H. exists p. apply negb_false' in E1. apply bytes_eqb_eq in E1. auto.
  Qed.

  (* C09_signed_by_named *)
  Theorem signed_by_named : forall now s p s' o,
    packet_step joiner_ok key_ok vm me B now s p = (s', o) -> s' <> s ->
    exists md next signer,
      gp_md p = Some md /\ current s' = Some next
      /\ find_by_addr (st_remaining next ++ st_joining next) (md_addr md) = Some signer
      /\ key_ok (p_key signer) = true
      /\ verify (p_key signer) (message_for_signing (md_beacon md) (gp_body p) (terms_from_state next)) (md_sig md) = true
      /\ role_ok (effective B s) (gp_body p) md next.
  Proof.
    intros now s p s' o H N.
    destruct (packet_accept_inv _ _ _ _ _ H N) as (md & next & Hmd & HB & A & V & C & F).
    destruct (verify_message_ok _ _ _ Hmd V) as (signer & Fd & K & Vf).
    exists md, next, signer. repeat split; auto. eapply apply_role; eassumption.
  Qed.

  (* proposals: what ValidateProposal guarantees about the packet-supplied identities *)
  Lemma validate_proposal_joiners : forall now d t,
    validate_proposal joiner_ok now d (Some t) = None -> forallb (joiner_ok (t_scheme t)) (t_joining t) = true.
  Proof.
    unfold validate_proposal, validate_for_all_dkgs; intros now d t H.
    destruct (negb (bytes_eqb _ _)); [discriminate|]. destruct (negb (scheme_known _)); [discriminate|].
    destruct (forallb _ _); [reflexivity|discriminate].
  Qed.

  Lemma proposed_inv : forall now d t md next,
    do_proposed joiner_ok now me d t md = Ok next ->
    validate_proposal joiner_ok now d (Some t) = None
    /\ next = new_state_from d t Proposed (t_genesis_seed t).
  Proof. unfold do_proposed; intros now d t md next H. brk H. inversion H; auto. Qed.

  (* for a base state that is not Fresh (a node with a group) the remainer rule ties the
     ADDRESSES AND KEYS of remaining+leaving to the group's *)
  Lemma validate_proposal_addresses : forall now d t g,
    validate_proposal joiner_ok now d (Some t) = None -> st_state d <> Fresh -> t_epoch t <> 1 ->
    st_final_group d = Some g ->
    contains_all_ak (g_nodes g) (t_remaining t ++ t_leaving t) = true
    /\ contains_all_ak (t_remaining t ++ t_leaving t) (g_nodes g) = true.
  Proof.
    unfold validate_proposal; intros now d t g H F E G.
    destruct (validate_for_all_dkgs _ _ _ _); [discriminate|].
    apply Z.eqb_neq in E; rewrite E in H. destruct (validate_reshare_terms d t); [discriminate|].
    apply status_eqb_neq in F; rewrite F in H; simpl in H.
    unfold validate_reshare_for_remainers in H. rewrite G in H.
    destruct (negb (_ =? _)); [discriminate|]. destruct (negb (bytes_eqb _ _)); [discriminate|].
    destruct (contains_all_ak (g_nodes g) _); [|discriminate].
    destruct (contains_all_ak _ (g_nodes g)); [auto|discriminate].
  Qed.

  (* packets other than proposals keep the participant lists of the node's own state, so the key
     used is the one recorded when the proposal was accepted *)
  Lemma non_proposal_keeps_lists : forall now base body md next,
    apply_packet joiner_ok now me base body md = Ok next ->
    (forall t, body <> PProposal t) ->
    st_remaining next = st_remaining base /\ st_joining next = st_joining base.
  Proof.
    intros now base body md next H NP. destruct body; simpl in H; try discriminate.
    - exfalso; eapply NP; reflexivity.
    - unfold do_received_acceptance in H. brk H. inversion H; auto.
    - unfold do_received_rejection in H. brk H. inversion H; auto.
    - unfold do_executing in H. destruct (has_timed_out now base); [discriminate|].
      destruct (contains _ _ && _); [destruct (st_leader base); [|discriminate]; destruct (negb (bytes_eqb _ _)); [discriminate|]; unfold do_left in H|]; brk H; inversion H; auto.
    - unfold do_aborted in H. brk H. inversion H; auto.
  Qed.

  (* ---- members authenticate proposals against the keys recorded in their group (after the F7 fix) ---- *)
  Lemma find_app_first : forall (A : Type) (f : A -> bool) (a b : list A) x,
    find f (a ++ b) = Some x -> existsb f a = true -> In x a.
  Proof.
    induction a as [|h a IH]; simpl; intros b x H E; [discriminate|].
    destruct (f h) eqn:Fh; [inversion H; auto|]. simpl in E. right. eapply IH; eassumption.
  Qed.

  Lemma has_addr_key_in : forall hay n, has_addr_key hay n = true ->
    exists w, In w hay /\ p_addr w = p_addr n /\ p_key w = p_key n.
  Proof.
    unfold has_addr_key; intros hay n H. apply existsb_exists in H. destruct H as [w [Hin H]].
    apply andb_prop in H. destruct H as [H1 H2]. apply bytes_eqb_eq in H1, H2. eauto.
  Qed.

  Lemma contains_in : forall hay n, contains hay n = true -> exists v, In v hay /\ p_addr v = p_addr n.
  Proof.
    unfold contains, equal_participant; intros hay n H. apply existsb_exists in H. destruct H as [v [Hin H]].
    apply andb_prop in H. destruct H as [H _]. apply andb_prop in H. destruct H as [H _].
    apply bytes_eqb_eq in H. eauto.
  Qed.

  Lemma validate_proposal_leader_remaining : forall now d t,
    validate_proposal joiner_ok now d (Some t) = None -> t_epoch t <> 1 ->
    contains (t_remaining t) (getp (t_leader t)) = true.
  Proof.
    unfold validate_proposal; intros now d t H E.
    destruct (validate_for_all_dkgs _ _ _ _); [discriminate|].
    apply Z.eqb_neq in E; rewrite E in H.
    unfold validate_reshare_terms in H.
    destruct (is_empty (t_remaining t)); [discriminate|].
    destruct (contains (t_joining t) _); [discriminate|].
    destruct (contains (t_leaving t) _); simpl in H; [discriminate|].
    destruct (contains (t_remaining t) _); [reflexivity|simpl in H; discriminate].
  Qed.

  Definition unique_keys (g : group) : Prop :=
    forall a b, In a (g_nodes g) -> In b (g_nodes g) -> p_addr a = p_addr b -> p_key a = p_key b.

  Theorem member_proposal_keys : forall now s p s' o t g md n,
    packet_step joiner_ok key_ok vm me B now s p = (s', o) -> s' <> s ->
    gp_md p = Some md -> gp_body p = PProposal t ->
    st_state (effective B s) <> Fresh -> t_epoch t <> 1 -> st_final_group (effective B s) = Some g ->
    unique_keys g -> In n (g_nodes g) -> p_addr n = md_addr md ->
    exists next, current s' = Some next
      /\ verify (p_key n) (message_for_signing (md_beacon md) (gp_body p) (terms_from_state next)) (md_sig md) = true.
  Proof.
    intros now s p s' o t g md n H N Hmd Hb NF E G U Hn Ha.
    destruct (packet_accept_inv _ _ _ _ _ H N) as (md' & next & Hmd' & HB & A & V & C & F).
    rewrite Hmd in Hmd'; inversion Hmd'; subst md'.
    destruct (verify_message_ok _ _ _ Hmd V) as (signer & Fd & K & Vf).
    exists next. split; auto.
    pose proof (apply_role _ _ _ _ _ A) as R. rewrite Hb in R, A. simpl in R, A. destruct R as [l [L1 L2]].
    destruct (proposed_inv _ _ _ _ _ A) as [VP Hnext].
    destruct (validate_proposal_addresses _ _ _ _ VP NF E G) as [CA _].
    pose proof (validate_proposal_leader_remaining _ _ _ VP E) as LR. rewrite L1 in LR. simpl in LR.
    destruct (contains_in _ _ LR) as [v [Hv Av]].
    (* the signer is found in the stored remaining list *)
    assert (SR : In signer (filter non_empty (t_remaining t))).
    { subst next. simpl in Fd. unfold find_by_addr in Fd. eapply find_app_first; [exact Fd|].
      destruct (find_by_addr_in _ _ _ Fd) as [Sin Sa].
      apply existsb_exists. exists v. split.
      - apply filter_In. split; auto. unfold non_empty. rewrite Av, L2.
        destruct (bytes_eqb (md_addr md) []) eqn:Q; auto. apply bytes_eqb_eq in Q.
        exfalso. apply in_app_or in Sin. rewrite <- Sa in Q.
        destruct Sin as [Sin|Sin]; apply filter_In in Sin; destruct Sin as [_ Sin]; unfold non_empty in Sin; rewrite Q in Sin; discriminate.
      - rewrite Av, L2. apply bytes_eqb_eq; reflexivity. }
    apply filter_In in SR. destruct SR as [SR _].
    unfold contains_all_ak in CA. rewrite forallb_forall in CA.
    assert (HK : has_addr_key (g_nodes g) signer = true) by (apply CA; apply in_or_app; left; exact SR).
    destruct (has_addr_key_in _ _ HK) as [w [Hw [Aw Kw]]].
    destruct (find_by_addr_in _ _ _ Fd) as [_ Sa].
    assert (p_key n = p_key w) by (apply U; auto; congruence).
    rewrite H0, Kw. exact Vf.
  Qed.

  (* a "shadow" entry in the joining list that re-uses the address of a remaining member never takes
     precedence: the sender is looked up first-match over Remaining ++ Joining *)
  Lemma remaining_entry_takes_precedence : forall p md t,
    gp_md p = Some md -> has_addr (t_remaining t) (md_addr md) = true -> vm p t = None ->
    exists signer, In signer (t_remaining t) /\ p_addr signer = md_addr md
      /\ verify (p_key signer) (message_for_signing (md_beacon md) (gp_body p) t) (md_sig md) = true.
  Proof.
    intros p md t Hmd HA V. destruct (verify_message_ok _ _ _ Hmd V) as (signer & Fd & K & Vf).
    exists signer. destruct (find_by_addr_in _ _ _ Fd) as [_ Sa]. repeat split; auto.
    unfold find_by_addr in Fd. eapply find_app_first; [exact Fd|exact HA].
  Qed.

  (* every joining entry a node stores when it accepts a proposal packet is validly self-signed for
     the stored scheme (validate_joiner_signatures is a forall over the whole list) *)
  Lemma accepted_joiners_self_signed : forall now s p s' o t,
    packet_step joiner_ok key_ok vm me B now s p = (s', o) -> s' <> s -> gp_body p = PProposal t ->
    exists next, current s' = Some next
      /\ (forall j, In j (st_joining next) -> joiner_ok (st_scheme next) j = true)
      /\ (forall j, In j (t_joining t) -> joiner_ok (t_scheme t) j = true).
  Proof.
    intros now s p s' o t H N Hb.
    destruct (packet_accept_inv _ _ _ _ _ H N) as (md & next & Hmd & HB & A & V & C & F).
    rewrite Hb in A. simpl in A. destruct (proposed_inv _ _ _ _ _ A) as [VP ->].
    pose proof (validate_proposal_joiners _ _ _ VP) as J. rewrite forallb_forall in J.
    eexists; split; [eassumption|]. split; auto.
    simpl. intros j Hj. apply filter_In in Hj. destruct Hj as [Hj _]. auto.
  Qed.
End Accept.
