(* Proofs about Model/Stream.v (property C11): an invariant over all schedules that characterises
   exactly what every stream sends: a prefix of what it is committed to (scan + callback), which is
   the requested part of the store minus the beacons appended in its hand-over window. *)
From Coq Require Import ZArith List Bool Lia.
From DV Require Import Model.Stream.
Import ListNotations.
Open Scope Z_scope.


(* ---- interleavings ---- *)
Inductive merge {A} : list A -> list A -> list A -> Prop :=
| merge_nil : merge [] [] []
| merge_l x a b c : merge a b c -> merge (x :: a) b (x :: c)
| merge_r x a b c : merge a b c -> merge a (x :: b) (x :: c).

Lemma merge_left_only {A} (a : list A) : merge a [] a.
Proof. induction a; constructor; auto. Qed.
Lemma merge_nil_r {A} (a c : list A) : merge a [] c -> a = c.
Proof.
  intro H. remember [] as b eqn:E. induction H; auto; try discriminate. f_equal; auto.
Qed.
Lemma merge_snoc_l {A} (a b c : list A) x : merge a b c -> merge (a ++ [x]) b (c ++ [x]).
Proof. induction 1; simpl; [apply merge_l; apply merge_nil | apply merge_l; auto | apply merge_r; auto]. Qed.
Lemma merge_snoc_r {A} (a b c : list A) x : merge a b c -> merge a (b ++ [x]) (c ++ [x]).
Proof. induction 1; simpl; [apply merge_r; apply merge_nil | apply merge_l; auto | apply merge_r; auto]. Qed.

(* ---- prefixes ---- *)
Definition lprefix {A} (a b : list A) : Prop := exists t, b = a ++ t.
Lemma lprefix_refl {A} (a : list A) : lprefix a a.
Proof. exists []. rewrite app_nil_r; auto. Qed.
Lemma lprefix_nil {A} (b : list A) : lprefix [] b.
Proof. exists b; auto. Qed.
Lemma lprefix_app_l {A} (a b c : list A) : lprefix (a ++ b) c -> lprefix a c.
Proof. intros [t E]. exists (b ++ t). rewrite E, app_assoc; auto. Qed.
Lemma lprefix_snoc_r {A} (a b : list A) x : lprefix a b -> lprefix a (b ++ [x]).
Proof. intros [t E]. exists (t ++ [x]). rewrite E, app_assoc; auto. Qed.
Lemma lprefix_trans {A} (a b c : list A) : lprefix a b -> lprefix b c -> lprefix a c.
Proof. intros [t E] [u F]. exists (t ++ u). rewrite F, E, app_assoc; auto. Qed.
Lemma removelast_snoc {A} (l : list A) x : removelast (l ++ [x]) = l.
Proof. apply removelast_last. Qed.
Lemma lprefix_removelast {A} (a b : list A) : lprefix a b -> lprefix (removelast a) b.
Proof.
  intro H. destruct a as [|h t] using rev_ind; [simpl; apply lprefix_nil|].
  rewrite removelast_last. eapply lprefix_app_l; eauto.
Qed.
Lemma lprefix_skipn {A} n (a b : list A) : lprefix a b -> lprefix (skipn n a) (skipn n b).
Proof.
  intros [t E]. subst. revert n. induction a as [|x a IH]; intro n; simpl.
  - rewrite skipn_nil. apply lprefix_nil.
  - destruct n; simpl; [exists t; auto | apply IH].
Qed.

(* ---- skipn / nth_error ---- *)
Lemma skipn_nth {A} (l : list A) i x : nth_error l i = Some x -> skipn i l = x :: skipn (S i) l.
Proof. revert i; induction l as [|h t IH]; destruct i; simpl; intro H; try discriminate; [inversion H; auto | apply IH; auto]. Qed.
Lemma skipn_none {A} (l : list A) i : nth_error l i = None -> skipn i l = [].
Proof. intro H. apply skipn_all2. apply nth_error_None; auto. Qed.
Lemma skipn_snoc {A} (l : list A) n x : (n <= length l)%nat -> skipn n (l ++ [x]) = skipn n l ++ [x].
Proof. intro H. rewrite skipn_app. replace (n - length l)%nat with 0%nat by lia. reflexivity. Qed.

(* ---- indexed lists ---- *)
Lemma length_supd n x l : length (supd n x l) = length l.
Proof. revert n; induction l as [|h t IH]; destruct n; simpl; auto. Qed.
Lemma nth_supd_same n x l : (n < length l)%nat -> nth_error (supd n x l) n = Some x.
Proof. revert n; induction l as [|h t IH]; destruct n; simpl; intros; try lia; auto. apply IH; lia. Qed.
Lemma nth_supd_other n m x l : n <> m -> nth_error (supd n x l) m = nth_error l m.
Proof. revert n m; induction l as [|h t IH]; destruct n, m; simpl; intros; auto; try congruence. Qed.
Lemma nth_lt {A} (l : list A) n x : nth_error l n = Some x -> (n < length l)%nat.
Proof. intro H. apply nth_error_Some. congruence. Qed.
Lemma nth_map_idx {A B} (f : nat -> A -> B) (l : list A) : forall n k,
  nth_error (map_idx f n l) k = option_map (f (n + k)%nat) (nth_error l k).
Proof.
  induction l as [|x t IH]; intros n k; simpl; [destruct k; auto|].
  destruct k; simpl; [rewrite Nat.add_0_r; auto|]. rewrite IH. f_equal. f_equal. lia.
Qed.
Lemma length_map_idx {A B} (f : nat -> A -> B) (l : list A) n : length (map_idx f n l) = length l.
Proof. revert n; induction l; simpl; auto. Qed.

(* ---- the registration map ---- *)
Lemma rget_In c k l : rget c l = Some k -> In (c, k) l.
Proof.
  induction l as [|[i k'] t IH]; simpl; [discriminate|].
  destruct (c =? i) eqn:E; [apply Z.eqb_eq in E; subst; intro H; inversion H; auto | auto].
Qed.
Lemma In_rget c k l : NoDup (map fst l) -> In (c, k) l -> rget c l = Some k.
Proof.
  induction l as [|[i k'] t IH]; simpl; [tauto|]. intros ND [H|H].
  - inversion H; subst. rewrite Z.eqb_refl; auto.
  - inversion ND; subst. destruct (c =? i) eqn:E; auto.
    apply Z.eqb_eq in E; subst. exfalso. apply H2. change i with (fst (i, k)). apply in_map; auto.
Qed.
Lemma In_rdel c l e : In e (rdel c l) <-> In e l /\ fst e <> c.
Proof.
  induction l as [|[i k] t IH]; simpl; [tauto|].
  destruct (c =? i) eqn:E.
  - apply Z.eqb_eq in E; subst. rewrite IH. split; [tauto|]. intros [[H|H] N]; auto. subst; simpl in N; congruence.
  - apply Z.eqb_neq in E. simpl. rewrite IH. split; [intros [H|H]; [subst; simpl; auto | tauto] | tauto].
Qed.
Lemma nodup_rdel c l : NoDup (map fst l) -> NoDup (map fst (rdel c l)).
Proof.
  induction l as [|[i k] t IH]; simpl; intro ND; [constructor|]. inversion ND; subst.
  destruct (c =? i); auto. simpl. constructor; auto. intro H. apply H1.
  apply in_map_iff in H as [e [E H]]. apply In_rdel in H as [H _]. subst. apply in_map; auto.
Qed.
Lemma registered_In r k : registered r k = true <-> exists c, In (c, k) r.
Proof.
  unfold registered. rewrite existsb_exists. split.
  - intros [[c k'] [H E]]. simpl in E. apply Nat.eqb_eq in E. subst. exists c; auto.
  - intros [c H]. exists (c, k). split; auto. simpl. apply Nat.eqb_refl.
Qed.

Definition jobs_beacons (q : list sjob) : list beacon :=
  flat_map (fun j => match j with SJ b => [b] | SJClose => [] end) q.
Definition has_close (q : list sjob) : bool :=
  existsb (fun j => match j with SJClose => true | _ => false end) q.
Lemma jobs_app q1 q2 : jobs_beacons (q1 ++ q2) = jobs_beacons q1 ++ jobs_beacons q2.
Proof. unfold jobs_beacons. apply flat_map_app. Qed.
Lemma has_close_app q1 q2 : has_close (q1 ++ q2) = has_close q1 || has_close q2.
Proof. unfold has_close. apply existsb_app. Qed.


Definition active (r : list (Z * nat)) (k : nat) (s : stream) : bool :=
  match s_phase s with
  | PScan _ _ | PWaitReg => true
  | PLive _ _ => registered r k
  | PDone _ => false
  end.

(* the part of the store the stream is concerned with is an interleaving of what it is committed
   to deliver and what it missed (followed, once the stream is over, by what came later) *)
Definition covers (exp missed l : list beacon) (act : bool) : Prop :=
  exists rest, l = exp ++ missed ++ rest /\ (act = true -> rest = []).

Definition phase_inv (bk : backend) (sto : list beacon) (r : list (Z * nat)) (k : nat) (s : stream) : Prop :=
  match s_phase s with
  | PScan snap pos =>
      match bk with
      | Bolt => s_sent s ++ skipn (S pos) snap = s_exp s
      | Mem => s_sent s ++ skipn (S pos) sto = s_exp s /\ (pos < length sto)%nat
      end
  | PWaitReg => s_sent s = s_exp s
  | PLive q busy =>
      (busy = false -> q = []) /\
      lprefix (s_sent s ++ jobs_beacons q) (s_exp s) /\
      (registered r k = true -> has_close q = false /\ s_sent s ++ jobs_beacons q = s_exp s)
  | PDone _ => lprefix (s_sent s) (s_exp s)
  end.

Definition reg_inv (sto : list beacon) (r : list (Z * nat)) (k : nat) (s : stream) : Prop :=
  match s_reg s with
  | None => True
  | Some (p, n0) =>
      (p <= length sto)%nat /\ (n0 <= length (s_exp s))%nat /\
      lprefix (skipn n0 (s_exp s)) (skipn p sto) /\
      (registered r k = true -> skipn n0 (s_exp s) = skipn p sto)
  end.

Definition noreg_inv (bk : backend) (s : stream) : Prop :=
  match s_phase s with
  | PScan _ _ => s_reg s = None /\ (bk = Mem -> s_missed s = [])
  | PWaitReg => s_reg s = None
  | PLive _ _ => s_missed s = []
  | PDone _ => True
  end.

Record sinv (bk : backend) (sto : list beacon) (r : list (Z * nat)) (k : nat) (s : stream) : Prop := {
  si_base : (s_base s <= length sto)%nat;
  si_phase : phase_inv bk sto r k s;
  si_cov : covers (s_exp s) (s_missed s) (skipn (s_base s) sto) (active r k s);
  si_reg : reg_inv sto r k s;
  si_noreg : noreg_inv bk s
}.

Definition rinv (st : sst) : Prop :=
  NoDup (map fst (reg st)) /\
  forall c k, In (c, k) (reg st) ->
    exists s q busy, nth_error (streams st) k = Some s /\ s_cid s = c /\ s_phase s = PLive q busy.

Definition ginv (bk : backend) (st : sst) : Prop :=
  rinv st /\ forall k s, nth_error (streams st) k = Some s -> sinv bk (store st) (reg st) k s.

Lemma ginv_init bk g : ginv bk (ss_init g).
Proof.
  split.
  - split; simpl; [constructor | intros c k []].
  - intros k s H. destruct k; discriminate.
Qed.

Lemma sinv_weaken bk sto r r' k s :
  (registered r' k = true -> registered r k = true) -> sinv bk sto r k s -> sinv bk sto r' k s.
Proof.
  intros W [B P C R N]. split; auto.
  - unfold phase_inv in *. destruct (s_phase s); auto. destruct P as [P1 [P2 P3]]. repeat split; auto; apply P3; auto.
  - unfold covers, active in *. destruct C as [rest [E A]]. exists rest. split; auto.
    destruct (s_phase s); auto.
  - unfold reg_inv in *. destruct (s_reg s) as [[p n0]|]; auto. destruct R as [R1 [R2 [R3 R4]]]. repeat split; auto.
Qed.

(* the ghost registration record survives an append to the store when the stream is not handed it *)
Lemma reg_inv_put_unseen sto r k s s' b :
  reg_inv sto r k s -> s_reg s' = s_reg s -> s_exp s' = s_exp s ->
  (s_reg s = None \/ registered r k = false) -> reg_inv (sto ++ [b]) r k s'.
Proof.
  unfold reg_inv. intros R E1 E2 H. rewrite E1, E2. destruct (s_reg s) as [[p n0]|]; auto.
  destruct H as [H|H]; [discriminate|]. destruct R as [R1 [R2 [R3 R4]]].
  rewrite app_length. simpl. repeat split; auto; try lia.
  - rewrite skipn_snoc; auto. apply lprefix_snoc_r; auto.
  - rewrite H. discriminate.
Qed.
Lemma reg_inv_put_seen sto r k s s' b :
  reg_inv sto r k s -> s_reg s' = s_reg s -> s_exp s' = s_exp s ++ [b] ->
  (s_reg s = None \/ registered r k = true) -> reg_inv (sto ++ [b]) r k s'.
Proof.
  unfold reg_inv. intros R E1 E2 H. rewrite E1, E2. destruct (s_reg s) as [[p n0]|]; auto.
  destruct H as [H|H]; [discriminate|]. destruct R as [R1 [R2 [R3 R4]]].
  rewrite !app_length. simpl. specialize (R4 H).
  assert (Q : skipn n0 (s_exp s ++ [b]) = skipn p (sto ++ [b])).
  { rewrite (skipn_snoc (s_exp s) n0 b R2), (skipn_snoc sto p b R1), R4; auto. }
  repeat split; auto; try lia. rewrite Q. apply lprefix_refl.
Qed.

Lemma covers_put_missed exp missed l b act :
  covers exp missed l true -> covers exp (missed ++ [b]) (l ++ [b]) act.
Proof.
  intros [rest [E A]]. specialize (A eq_refl). subst rest. subst l. exists []. split; auto.
  rewrite !app_nil_r, <- !app_assoc. reflexivity.
Qed.
Lemma covers_put_seen exp l b act :
  covers exp [] l true -> covers (exp ++ [b]) [] (l ++ [b]) act.
Proof.
  intros [rest [E A]]. specialize (A eq_refl). subst rest. subst l. exists []. split; auto.
  simpl. rewrite !app_nil_r. reflexivity.
Qed.
Lemma covers_put_over exp missed l b :
  covers exp missed l false -> covers exp missed (l ++ [b]) false.
Proof.
  intros [rest [E A]]. exists (rest ++ [b]). subst l. rewrite <- !app_assoc. split; auto. discriminate.
Qed.

Ltac rsimpl := cbn [s_phase s_sent s_exp s_base s_missed s_reg s_cid s_from].

(* ---- Put ---- *)
Lemma sinv_put bk sto r k s b :
  (registered r k = true -> exists q busy, s_phase s = PLive q busy) ->
  sinv bk sto r k s -> sinv bk (sto ++ [b]) r k (on_put bk r b k s).
Proof.
  intros HR [B P C R N].
  assert (SK : skipn (s_base s) (sto ++ [b]) = skipn (s_base s) sto ++ [b]) by (apply skipn_snoc; auto).
  assert (LB : (s_base s <= length (sto ++ [b]))%nat) by (rewrite app_length; simpl; lia).
  unfold on_put. unfold phase_inv, active, noreg_inv in *.
  destruct (s_phase s) as [snap pos| |q busy|e] eqn:Ph.
  - destruct N as [N1 N2]. destruct bk.
    + constructor; rsimpl; unfold phase_inv, active, noreg_inv; rsimpl; rewrite ?Ph;
        [exact LB | exact P | rewrite SK; apply covers_put_missed; auto | eapply reg_inv_put_unseen; eauto | split; [auto | discriminate]].
    + destruct P as [P1 P2]. specialize (N2 eq_refl). rewrite N2 in C.
      constructor; rsimpl; unfold phase_inv, active, noreg_inv; rsimpl; rewrite ?Ph;
        [exact LB | | rewrite N2, SK; apply covers_put_seen; auto | eapply reg_inv_put_seen; eauto | split; auto].
      split; [|rewrite app_length; simpl; lia]. rewrite skipn_snoc by lia. rewrite app_assoc, P1; auto.
  - constructor; rsimpl; unfold phase_inv, active, noreg_inv; rsimpl;
      [exact LB | exact P | rewrite SK; apply covers_put_missed; auto | eapply reg_inv_put_unseen; eauto | exact N].
  - destruct P as [P1 [P2 P3]]. rewrite N in C. destruct (registered r k) eqn:Rg.
    + destruct (P3 eq_refl) as [Hc He]. destruct busy.
      * constructor; rsimpl; unfold phase_inv, active, noreg_inv; rsimpl; rewrite ?Rg;
          [exact LB | | rewrite N, SK; apply covers_put_seen; auto | eapply reg_inv_put_seen; eauto | exact N].
        rewrite jobs_app, has_close_app, Hc. simpl. rewrite app_assoc, He. repeat split; auto; try discriminate. apply lprefix_refl.
      * specialize (P1 eq_refl). subst q. simpl in *. rewrite app_nil_r in *.
        constructor; rsimpl; unfold phase_inv, active, noreg_inv; rsimpl; rewrite ?Rg;
          [exact LB | | rewrite N, SK; apply covers_put_seen; auto | eapply reg_inv_put_seen; eauto | exact N].
        simpl. rewrite app_nil_r, He. repeat split; auto; try discriminate. apply lprefix_refl.
    + constructor; rsimpl; unfold phase_inv, active, noreg_inv; rewrite ?Ph, ?Rg;
        [exact LB | split; [exact P1 | split; [exact P2 | intro Q; discriminate Q]] | rewrite N, SK; apply covers_put_over; auto | eapply reg_inv_put_unseen; eauto | exact N].
  - constructor; rsimpl; unfold phase_inv, active, noreg_inv; rewrite ?Ph;
      [exact LB | exact P | rewrite SK; apply covers_put_over; auto | | exact I].
    eapply reg_inv_put_unseen; eauto. right. destruct (registered r k) eqn:Rg; auto.
    destruct (HR eq_refl) as [q [busy E]]. congruence.
Qed.


Lemma covers_weaken exp missed l a : covers exp missed l a -> covers exp missed l false.
Proof. intros [rest [E A]]. exists rest. split; auto. discriminate. Qed.

Lemma rinv_live st k : rinv st -> registered (reg st) k = true ->
  exists s q busy, nth_error (streams st) k = Some s /\ s_phase s = PLive q busy.
Proof.
  intros [_ R] H. apply registered_In in H as [c H]. destruct (R _ _ H) as [s [q [busy [A [B C]]]]].
  exists s, q, busy. auto.
Qed.

(* ---- Put ---- *)
Lemma ginv_put bk st d : ginv bk st -> ginv bk (ss_step bk st (SPut d)).
Proof.
  intros [RI SI]. simpl. set (b := (Z.of_nat (length (store st)), d)). split.
  - destruct RI as [ND R]. split; simpl; auto. intros c k H. destruct (R _ _ H) as [s [q [busy [A [B C]]]]].
    rewrite nth_map_idx, A. simpl.
    assert (E : exists q' busy', s_phase (on_put bk (reg st) b k s) = PLive q' busy' /\ s_cid (on_put bk (reg st) b k s) = s_cid s).
    { unfold on_put. rewrite C. destruct (registered (reg st) k); [destruct busy|]; simpl; eauto. }
    destruct E as [q' [busy' [E1 E2]]]. exists (on_put bk (reg st) b k s), q', busy'. rewrite E2. auto.
  - simpl. intros k s' H. rewrite nth_map_idx in H. destruct (nth_error (streams st) k) as [s|] eqn:A; [|discriminate].
    simpl in H. inversion H; subst s'. apply sinv_put; auto.
    intro Rg. destruct (rinv_live st k RI Rg) as [s0 [q [busy [A0 C]]]]. rewrite A in A0. inversion A0; subst. eauto.
Qed.

(* ---- a new stream ---- *)
Lemma ginv_start bk st cid from : ginv bk st -> ginv bk (ss_step bk st (SStart cid from)).
Proof.
  intros [RI SI]. simpl. split.
  - destruct RI as [ND R]. split; simpl; auto. intros c k H. destruct (R _ _ H) as [s [q [busy [A [B C]]]]].
    exists s, q, busy. rewrite nth_error_app1; auto. apply (nth_lt _ _ _ A).
  - simpl. intros k s H. destruct (Nat.lt_ge_cases k (length (streams st))) as [Lt|Ge].
    + rewrite nth_error_app1 in H; auto.
    + rewrite nth_error_app2 in H; auto. destruct (k - length (streams st))%nat as [|m] eqn:Ek; simpl in H; [|destruct m; discriminate].
      inversion H; subst s. clear H.
      assert (NR : registered (reg st) k = false).
      { destruct (registered (reg st) k) eqn:Rg; auto. destruct (rinv_live st k RI Rg) as [s0 [q [busy [A0 _]]]].
        apply nth_lt in A0. lia. }
      destruct (Z.of_nat (length (store st)) - 1 <? from).
      { split; unfold phase_inv, covers, active, reg_inv, noreg_inv; simpl; auto.
        - apply lprefix_nil.
        - exists []. rewrite skipn_all. split; auto. }
      destruct (from =? 0).
      { split; unfold phase_inv, covers, active, reg_inv, noreg_inv; simpl; auto.
        exists []. rewrite skipn_all. split; auto. }
      destruct (nth_error (store st) (Z.to_nat from)) as [b|] eqn:Nb.
      * pose proof (nth_lt _ _ _ Nb) as Lt. pose proof (skipn_nth _ _ _ Nb) as Sk.
        split; unfold phase_inv, covers, active, reg_inv, noreg_inv; cbn [s_phase s_sent s_exp s_base s_missed s_reg]; auto; try lia.
        -- destruct bk; [|split; auto]; rewrite Sk; reflexivity.
        -- exists []. rewrite !app_nil_r. split; auto.
      * split; unfold phase_inv, covers, active, reg_inv, noreg_inv; simpl; auto.
        exists []. rewrite skipn_all. split; auto.
Qed.

(* ---- replacing one stream, the registrations only shrink ---- *)
Lemma ginv_upd bk st k s s' r' :
  ginv bk st -> nth_error (streams st) k = Some s ->
  NoDup (map fst r') -> (forall c j, In (c, j) r' -> In (c, j) (reg st)) ->
  (forall c, In (c, k) r' -> s_cid s' = c /\ exists q busy, s_phase s' = PLive q busy) ->
  sinv bk (store st) r' k s' ->
  ginv bk (mkSS (store st) (supd k s' (streams st)) r').
Proof.
  intros [[ND R] SI] Hk ND' Sub Hk' Sk. pose proof (nth_lt _ _ _ Hk) as Lt. split.
  - split; simpl; auto. intros c j H. destruct (Nat.eq_dec k j) as [->|N].
    + destruct (Hk' c H) as [E [q [busy P]]]. exists s', q, busy. rewrite nth_supd_same; auto.
    + destruct (R _ _ (Sub _ _ H)) as [s0 [q [busy [A [B C]]]]]. exists s0, q, busy. rewrite nth_supd_other; auto.
  - simpl. intros j sj H. destruct (Nat.eq_dec k j) as [->|N].
    + rewrite nth_supd_same in H; auto. inversion H; subst; auto.
    + rewrite nth_supd_other in H; auto. apply (sinv_weaken bk _ (reg st)); auto.
      intro Rg. apply registered_In in Rg as [c Rg]. apply registered_In. exists c. apply Sub; auto.
Qed.

Lemma not_registered_after_rdel st k s : rinv st -> nth_error (streams st) k = Some s ->
  registered (rdel (s_cid s) (reg st)) k = false.
Proof.
  intros [ND R] Hk. destruct (registered (rdel (s_cid s) (reg st)) k) eqn:Rg; auto.
  apply registered_In in Rg as [c Rg]. apply In_rdel in Rg as [Rg N]. simpl in N.
  destruct (R _ _ Rg) as [s0 [q [busy [A [B C]]]]]. rewrite Hk in A. inversion A; subst. congruence.
Qed.

(* ---- a Send returns ---- *)
Ltac rs := cbn [s_phase s_sent s_exp s_base s_missed s_reg s_cid s_from].

Lemma ginv_ack bk st kz ok : ginv bk st -> ginv bk (ss_step bk st (SAck kz ok)).
Proof.
  intro G. pose proof G as [RI SI]. unfold ss_step. set (k := Z.to_nat kz).
  destruct (nth_error (streams st) k) as [s|] eqn:Hk; auto.
  pose proof (SI _ _ Hk) as [B P C R N]. unfold phase_inv, active, noreg_inv in *.
  destruct (s_phase s) as [snap pos| |q busy|e] eqn:Ph; auto.
  - (* scan *)
    assert (NRk : forall c, In (c, k) (reg st) -> False).
    { intros c H. destruct RI as [_ R0]. destruct (R0 _ _ H) as [s0 [q [busy [A [_ C0]]]]]. rewrite Hk in A. inversion A; subst. congruence. }
    assert (Rn : forall s', s_reg s' = None -> reg_inv (store st) (reg st) k s') by (intros s' E; unfold reg_inv; rewrite E; auto).
    destruct N as [N N2].
    destruct ok.
    + remember (match bk with Bolt => snap | Mem => store st end) as src eqn:Esrc.
      assert (Psrc : s_sent s ++ skipn (S pos) src = s_exp s) by (subst src; destruct bk; [auto | destruct P; auto]).
      destruct (nth_error src (S pos)) as [b|] eqn:Nb.
      * apply (ginv_upd bk st k s); auto; [apply RI | intros c H; destruct (NRk c H) |].
        pose proof (skipn_nth _ _ _ Nb) as Sk.
        constructor; unfold phase_inv, active, noreg_inv, push_sent; rs; [exact B | | exact C | apply Rn; exact N | split; [exact N | exact N2]].
        destruct bk; subst src.
        -- rewrite <- app_assoc. cbn [app]. rewrite <- Sk. auto.
        -- split; [|apply (nth_lt _ _ _ Nb)]. rewrite <- app_assoc. cbn [app]. rewrite <- Sk. auto.
      * apply (ginv_upd bk st k s); auto; [apply RI | intros c H; destruct (NRk c H) |].
        pose proof (skipn_none _ _ Nb) as Sk. rewrite Sk, app_nil_r in Psrc.
        constructor; unfold phase_inv, active, noreg_inv, set_phase; rs; [exact B | exact Psrc | exact C | apply Rn; exact N | exact N].
    + apply (ginv_upd bk st k s); auto; [apply RI | intros c H; destruct (NRk c H) |].
      constructor; unfold phase_inv, active, noreg_inv; rs; [exact B | | eapply covers_weaken; eauto | apply Rn; exact N | exact I].
      apply lprefix_removelast. destruct bk; [exists (skipn (S pos) snap); auto | destruct P as [P _]; exists (skipn (S pos) (store st)); auto].
  - (* live *)
    destruct busy; auto. destruct P as [P1 [P2 P3]].
    assert (Cid : forall c, In (c, k) (reg st) -> s_cid s = c).
    { intros c H. destruct RI as [_ R0]. destruct (R0 _ _ H) as [s0 [q0 [b0 [A [Bc _]]]]]. rewrite Hk in A. inversion A; subst. auto. }
    destruct ok.
    + destruct q as [|[b|] q'].
      * apply (ginv_upd bk st k s); auto; [apply RI | intros c H; split; [apply Cid; auto | simpl; eauto] |].
        constructor; unfold phase_inv, active, noreg_inv, set_phase; rs; [exact B | | exact C | exact R | exact N].
        split; auto.
      * apply (ginv_upd bk st k s); auto; [apply RI | intros c H; split; [apply Cid; auto | simpl; eauto] |].
        simpl in P2, P3.
        constructor; unfold phase_inv, active, noreg_inv, push_sent; rs; [exact B | | exact C | exact R | exact N].
        split; [discriminate|]. split.
        -- rewrite <- app_assoc. cbn [app]. auto.
        -- intro Rg. destruct (P3 Rg) as [Hc He]. split; auto. rewrite <- app_assoc. cbn [app]. auto.
      * (* the close job: the stream was replaced, so it is not registered *)
        assert (NR : registered (reg st) k = false).
        { destruct (registered (reg st) k) eqn:Rg; auto. destruct (P3 eq_refl) as [Hc _]. simpl in Hc. discriminate. }
        apply (ginv_upd bk st k s); auto; [apply RI | |].
        -- intros c H. exfalso. assert (registered (reg st) k = true) by (apply registered_In; eauto). congruence.
        -- constructor; unfold phase_inv, active, noreg_inv, set_phase; rs; [exact B | | eapply covers_weaken; eauto | exact R | exact I].
           simpl in P2. eapply lprefix_app_l; eauto.
    + (* the send failed: RemoveCallback(id) *)
      pose proof (not_registered_after_rdel st k s RI Hk) as NR.
      apply (ginv_upd bk st k s); auto.
      * apply nodup_rdel. apply RI.
      * intros c j H. apply In_rdel in H. tauto.
      * intros c H. exfalso. assert (registered (rdel (s_cid s) (reg st)) k = true) by (apply registered_In; eauto). congruence.
      * constructor; unfold phase_inv, active, noreg_inv; rs; [exact B | | eapply covers_weaken; eauto | | exact I].
        -- apply lprefix_removelast. eapply lprefix_app_l; eauto.
        -- unfold reg_inv in *. destruct (s_reg s) as [[p n0]|]; auto. destruct R as [R1 [R2 [R3 R4]]]. repeat split; auto.
           rewrite NR. discriminate.
Qed.


Lemma nodup_snoc_fst (l : list (Z * nat)) c k : NoDup (map fst l) -> ~ In c (map fst l) -> NoDup (map fst (l ++ [(c, k)])).
Proof.
  intros ND N. rewrite map_app. simpl. induction (map fst l) as [|x t IH]; simpl.
  - constructor; [intros []|constructor].
  - inversion ND; subst. constructor.
    + intro H. apply in_app_or in H as [H|[H|[]]]; auto. subst. apply N. left; auto.
    + apply IH; auto. intro H. apply N. right; auto.
Qed.

Lemma sinv_on_close bk sto r k o q busy :
  s_phase o = PLive q busy -> registered r k = false -> sinv bk sto r k o -> sinv bk sto r k (on_close o).
Proof.
  intros Ph NR [B P C R N]. unfold on_close. rewrite Ph. unfold phase_inv, active, noreg_inv in *. rewrite Ph in *.
  destruct P as [P1 [P2 P3]]. rewrite NR in *. destruct busy.
  - constructor; unfold phase_inv, active, noreg_inv, set_phase; rs; [exact B | | rewrite NR; exact C | exact R | exact N].
    split; [discriminate|]. split.
    + rewrite jobs_app. simpl. rewrite app_nil_r. auto.
    + rewrite NR. discriminate.
  - constructor; unfold phase_inv, active, noreg_inv, set_phase; rs; [exact B | | eapply covers_weaken; eauto | exact R | exact I].
    eapply lprefix_app_l; eauto.
Qed.

Lemma skipn_skipn' {A} a b (l : list A) : skipn a (skipn b l) = skipn (a + b) l.
Proof.
  revert l; induction b as [|b IH]; intro l; simpl; [rewrite Nat.add_0_r; auto|].
  destruct l; [rewrite !skipn_nil; auto|]. rewrite Nat.add_succ_r. simpl. apply IH.
Qed.
Lemma jobs_map_SJ l : jobs_beacons (map SJ l) = l.
Proof. induction l; simpl; auto. f_equal; auto. Qed.
Lemma has_close_map_SJ l : has_close (map SJ l) = false.
Proof. induction l; simpl; auto. Qed.

Lemma ginv_register bk st kz : ginv bk st -> ginv bk (ss_step bk st (SRegister kz)).
Proof.
  intro G. pose proof G as [RI SI]. unfold ss_step. set (k := Z.to_nat kz).
  destruct (nth_error (streams st) k) as [s|] eqn:Hk; auto.
  pose proof (SI _ _ Hk) as [B P C R N]. unfold phase_inv, active, noreg_inv in *.
  destruct (s_phase s) eqn:Ph; auto.
  destruct RI as [ND RR].
  set (cid := s_cid s).
  set (r' := rdel cid (reg st) ++ [(cid, k)]).
  set (strs := match rget cid (reg st) with
               | Some j => match nth_error (streams st) j with
                           | Some o => supd j (on_close o) (streams st)
                           | None => streams st end
               | None => streams st end).
  set (rg := Some ((length (store st) - length (s_missed s))%nat, length (s_sent s))).
  set (s' := match s_missed s with
             | [] => mkS (s_cid s) (s_from s) (PLive [] false) (s_sent s) (s_base s) (s_exp s) [] rg
             | m :: ms => mkS (s_cid s) (s_from s) (PLive (map SJ ms) true) (s_sent s ++ [m]) (s_base s)
                              (s_exp s ++ m :: ms) [] rg
             end).
  assert (S'live : s_cid s' = s_cid s /\ exists q busy, s_phase s' = PLive q busy).
  { unfold s'. destruct (s_missed s); simpl; eauto. }
  assert (Lk : (k < length (streams st))%nat) by apply (nth_lt _ _ _ Hk).
  assert (Lstrs : length strs = length (streams st)).
  { unfold strs. destruct (rget cid (reg st)); auto. destruct (nth_error (streams st) n); auto. apply length_supd. }
  assert (NRk : forall c, In (c, k) (reg st) -> False).
  { intros c H. destruct (RR _ _ H) as [s0 [q [busy [A [_ C0]]]]]. rewrite Hk in A. inversion A; subst. congruence. }
  (* which streams are registered afterwards *)
  assert (Rg' : forall j, registered r' j = true -> j = k \/ (j <> k /\ exists c, c <> cid /\ In (c, j) (reg st))).
  { intros j H. apply registered_In in H as [c H]. unfold r' in H. apply in_app_or in H as [H|[H|[]]].
    - apply In_rdel in H as [H Nc]. simpl in Nc. right. split; [intro; subst; apply (NRk _ H) | exists c; auto].
    - inversion H; auto. }
  assert (Rk' : registered r' k = true).
  { apply registered_In. exists cid. unfold r'. apply in_or_app; right; left; auto. }
  (* the stream that was registered under this id, if any *)
  assert (Old : forall j, rget cid (reg st) = Some j ->
            j <> k /\ exists o q busy, nth_error (streams st) j = Some o /\ s_cid o = cid /\ s_phase o = PLive q busy).
  { intros j H. apply rget_In in H. split; [intro; subst; apply (NRk _ H)|].
    destruct (RR _ _ H) as [o [q [busy [A [Bc Cc]]]]]. exists o, q, busy. auto. }
  assert (Other : forall j c, c <> cid -> In (c, j) (reg st) -> nth_error strs j = nth_error (streams st) j).
  { intros j c Nc H. unfold strs. case_eq (rget cid (reg st)); [intros jo Go | intros Go]; auto.
    destruct (Old _ Go) as [_ [o [q [busy [A [Bc _]]]]]]. rewrite A.
    apply nth_supd_other. intro; subst jo. destruct (RR _ _ H) as [o2 [q2 [b2 [A2 [Bc2 _]]]]].
    rewrite A in A2. inversion A2; subst. congruence. }
  split.
  - (* rinv *)
    split; simpl.
    + apply nodup_snoc_fst; [apply nodup_rdel; auto|]. intro H. apply in_map_iff in H as [e [E H]].
      apply In_rdel in H as [_ H]. congruence.
    + intros c j H. apply in_app_or in H as [H|[H|[]]].
      * apply In_rdel in H as [H Nc]. simpl in Nc. destruct (RR _ _ H) as [o [q [busy [A [Bc Cc]]]]].
        exists o, q, busy. split; auto. rewrite nth_supd_other; [|intro; subst; apply (NRk _ H)].
        rewrite (Other j c); auto.
      * inversion H; subst c j. destruct S'live as [Ec [q0 [b0 Ep]]]. exists s', q0, b0. split; auto. apply nth_supd_same. lia.
  - (* every stream *)
    simpl. intros j sj H. destruct (Nat.eq_dec k j) as [<-|Nj].
    + rewrite nth_supd_same in H by lia. inversion H; subst sj.
      destruct C as [rest [EC AC]]. specialize (AC eq_refl). subst rest. rewrite app_nil_r in EC.
      assert (Lst : length (store st) = (s_base s + length (s_exp s) + length (s_missed s))%nat).
      { assert (Q : length (skipn (s_base s) (store st)) = (length (s_exp s) + length (s_missed s))%nat) by (rewrite EC, app_length; auto).
        rewrite skipn_length in Q. lia. }
      assert (Sp : skipn (length (store st) - length (s_missed s)) (store st) = s_missed s).
      { replace (length (store st) - length (s_missed s))%nat with (length (s_exp s) + s_base s)%nat by lia.
        rewrite <- skipn_skipn', EC. rewrite skipn_app, skipn_all, Nat.sub_diag. reflexivity. }
      assert (Rgi : forall e', e' = s_exp s ++ s_missed s ->
                reg_inv (store st) r' k (mkS (s_cid s) (s_from s) (s_phase s') (s_sent s') (s_base s) e' [] rg)).
      { intros e' Ee. unfold reg_inv, rg; rs. subst e'. rewrite P. split; [lia|]. split; [rewrite app_length; lia|].
        rewrite skipn_app, skipn_all, Nat.sub_diag. simpl. rewrite Sp. split; [apply lprefix_refl | auto]. }
      unfold s' in *. fold r'. destruct (s_missed s) as [|m ms] eqn:Em.
      * constructor; unfold phase_inv, active, noreg_inv; rs; rewrite ?Rk';
          [exact B | | exists []; rewrite EC, ?app_nil_r; split; auto | | reflexivity].
        -- rewrite app_nil_r. split; auto. split; [rewrite P; apply lprefix_refl|]. intros _. split; auto.
        -- specialize (Rgi (s_exp s) (eq_sym (app_nil_r _))). exact Rgi.
      * constructor; unfold phase_inv, active, noreg_inv; rs; rewrite ?Rk';
          [exact B | | exists []; rewrite EC, ?app_nil_r; split; auto | | reflexivity].
        -- rewrite jobs_map_SJ, has_close_map_SJ, P, <- app_assoc. cbn [app].
           split; [discriminate|]. split; [apply lprefix_refl | intros _; split; auto].
        -- specialize (Rgi _ eq_refl). exact Rgi.
    + rewrite nth_supd_other in H; auto.
      assert (W : registered r' j = true -> registered (reg st) j = true).
      { intro Hr. destruct (Rg' _ Hr) as [->|[_ [c [_ Hin]]]]; [congruence|]. apply registered_In. eauto. }
      unfold strs in H. revert H. case_eq (rget cid (reg st)); [intros jo Go H | intros Go H].
      2:{ apply (sinv_weaken bk _ (reg st)); auto. }
      destruct (Old _ Go) as [Njo [o [q [busy [A [Bc Cc]]]]]]. rewrite A in H.
      destruct (Nat.eq_dec jo j) as [->|Nn].
      * rewrite nth_supd_same in H by apply (nth_lt _ _ _ A). inversion H; subst sj.
        assert (NR : registered r' j = false).
        { destruct (registered r' j) eqn:Hr; auto. destruct (Rg' _ Hr) as [->|[_ [c [Nc Hin]]]]; [congruence|].
          destruct (RR _ _ Hin) as [o2 [q2 [b2 [A2 [Bc2 _]]]]]. rewrite A in A2. inversion A2; subst. congruence. }
        apply (sinv_on_close bk _ _ _ _ q busy); auto.
        apply (sinv_weaken bk _ (reg st)); auto.
      * rewrite nth_supd_other in H; auto. apply (sinv_weaken bk _ (reg st)); auto.
Qed.

(* AddCallback followed by the cancellation of the stream context: the stream ends unregistered *)
Lemma ginv_register_cancel bk st kz : ginv bk st -> ginv bk (ss_step bk st (SRegisterCancel kz)).
Proof.
  intro G. pose proof G as [RI SI]. unfold ss_step. set (k := Z.to_nat kz).
  destruct (nth_error (streams st) k) as [s|] eqn:Hk; auto.
  pose proof (SI _ _ Hk) as [B P C R N]. unfold phase_inv, active, noreg_inv in *.
  destruct (s_phase s) eqn:Ph; auto.
  destruct RI as [ND RR].
  set (cid := s_cid s).
  set (r' := rdel cid (reg st)).
  set (strs := match rget cid (reg st) with
               | Some j => match nth_error (streams st) j with
                           | Some o => supd j (on_close o) (streams st)
                           | None => streams st end
               | None => streams st end).
  assert (Lk : (k < length (streams st))%nat) by apply (nth_lt _ _ _ Hk).
  assert (Lstrs : length strs = length (streams st)).
  { unfold strs. destruct (rget cid (reg st)); auto. destruct (nth_error (streams st) n); auto. apply length_supd. }
  assert (NRk : forall c, In (c, k) (reg st) -> False).
  { intros c H. destruct (RR _ _ H) as [s0 [q [busy [A [_ C0]]]]]. rewrite Hk in A. inversion A; subst. congruence. }
  assert (Rg' : forall j, registered r' j = true -> j <> k /\ exists c, c <> cid /\ In (c, j) (reg st)).
  { intros j H. apply registered_In in H as [c H]. unfold r' in H.
    apply In_rdel in H as [H Nc]. simpl in Nc. split; [intro; subst; apply (NRk _ H) | exists c; auto]. }
  assert (Old : forall j, rget cid (reg st) = Some j ->
            j <> k /\ exists o q busy, nth_error (streams st) j = Some o /\ s_cid o = cid /\ s_phase o = PLive q busy).
  { intros j H. apply rget_In in H. split; [intro; subst; apply (NRk _ H)|].
    destruct (RR _ _ H) as [o [q [busy [A [Bc Cc]]]]]. exists o, q, busy. auto. }
  assert (Other : forall j c, c <> cid -> In (c, j) (reg st) -> nth_error strs j = nth_error (streams st) j).
  { intros j c Nc H. unfold strs. case_eq (rget cid (reg st)); [intros jo Go | intros Go]; auto.
    destruct (Old _ Go) as [_ [o [q [busy [A [Bc _]]]]]]. rewrite A.
    apply nth_supd_other. intro; subst jo. destruct (RR _ _ H) as [o2 [q2 [b2 [A2 [Bc2 _]]]]].
    rewrite A in A2. inversion A2; subst. congruence. }
  split.
  - split; simpl.
    + apply nodup_rdel; auto.
    + intros c j H. apply In_rdel in H as [H Nc]. simpl in Nc. destruct (RR _ _ H) as [o [q [busy [A [Bc Cc]]]]].
      exists o, q, busy. split; auto. rewrite nth_supd_other; [|intro; subst; apply (NRk _ H)].
      rewrite (Other j c); auto.
  - simpl. intros j sj H. destruct (Nat.eq_dec k j) as [<-|Nj].
    + rewrite nth_supd_same in H by lia. inversion H; subst sj.
      constructor; unfold phase_inv, active, noreg_inv, set_phase; rs;
        [exact B | rewrite P; apply lprefix_refl | eapply covers_weaken; eauto | | exact I].
      unfold reg_inv; rs. rewrite N. exact I.
    + rewrite nth_supd_other in H; auto.
      assert (W : registered r' j = true -> registered (reg st) j = true).
      { intro Hr. destruct (Rg' _ Hr) as [_ [c [_ Hin]]]. apply registered_In. eauto. }
      unfold strs in H. revert H. case_eq (rget cid (reg st)); [intros jo Go H | intros Go H].
      2:{ apply (sinv_weaken bk _ (reg st)); auto. }
      destruct (Old _ Go) as [Njo [o [q [busy [A [Bc Cc]]]]]]. rewrite A in H.
      destruct (Nat.eq_dec jo j) as [->|Nn].
      * rewrite nth_supd_same in H by apply (nth_lt _ _ _ A). inversion H; subst sj.
        assert (NR : registered r' j = false).
        { destruct (registered r' j) eqn:Hr; auto. destruct (Rg' _ Hr) as [_ [c [Nc Hin]]].
          destruct (RR _ _ Hin) as [o2 [q2 [b2 [A2 [Bc2 _]]]]]. rewrite A in A2. inversion A2; subst. congruence. }
        apply (sinv_on_close bk _ _ _ _ q busy); auto.
        apply (sinv_weaken bk _ (reg st)); auto.
      * rewrite nth_supd_other in H; auto. apply (sinv_weaken bk _ (reg st)); auto.
Qed.

Theorem ginv_step bk st e : ginv bk st -> ginv bk (ss_step bk st e).
Proof.
  destruct e as [d|d pre|c f|kz ok|kz|kz]; [apply ginv_put | | apply ginv_start | apply ginv_ack | apply ginv_register | apply ginv_register_cancel].
  intro G. simpl. destruct (pre && is_bolt bk); [exact G | apply (ginv_put bk st d G)].
Qed.
Theorem ginv_run bk es : forall st, ginv bk st -> ginv bk (ss_run bk st es).
Proof. induction es as [|e t IH]; simpl; auto. intros st G. apply IH. apply ginv_step; auto. Qed.


Lemma sinv_sent_exp bk sto r k s : sinv bk sto r k s -> lprefix (s_sent s) (s_exp s).
Proof.
  intros [B P C R N]. unfold phase_inv in P. destruct (s_phase s) as [snap pos| |q busy|e].
  - destruct bk; [exists (skipn (S pos) snap); auto | destruct P as [P _]; exists (skipn (S pos) sto); auto].
  - rewrite P. apply lprefix_refl.
  - destruct P as [_ [P _]]. eapply lprefix_app_l; eauto.
  - auto.
Qed.

Lemma covers_prefix exp missed l a : covers exp missed l a -> lprefix exp l.
Proof. intros [rest [E _]]. exists (missed ++ rest). auto. Qed.

Lemma reachable_ginv bk g es : ginv bk (ss_run bk (ss_init g) es).
Proof. apply ginv_run. apply ginv_init. Qed.

(* what a stream has sent is a prefix of the stored beacons from its start position:
   for every schedule, on both back-ends *)
Theorem stream_full bk g es k s :
  nth_error (streams (ss_run bk (ss_init g) es)) k = Some s ->
  lprefix (s_sent s) (skipn (s_base s) (store (ss_run bk (ss_init g) es))).
Proof.
  intro H. destruct (reachable_ginv bk g es) as [_ SI]. specialize (SI _ _ H).
  eapply lprefix_trans; [eapply sinv_sent_exp; eauto|].
  eapply covers_prefix. apply (si_cov _ _ _ _ _ SI).
Qed.

Theorem stream_order_live bk g es k s p n0 :
  nth_error (streams (ss_run bk (ss_init g) es)) k = Some s -> s_reg s = Some (p, n0) ->
  lprefix (skipn n0 (s_sent s)) (skipn p (store (ss_run bk (ss_init g) es))).
Proof.
  intros H E. destruct (reachable_ginv bk g es) as [_ SI]. specialize (SI _ _ H).
  pose proof (si_reg _ _ _ _ _ SI) as R. unfold reg_inv in R. rewrite E in R. destruct R as [_ [_ [R _]]].
  eapply lprefix_trans; [|exact R]. apply lprefix_skipn. eapply sinv_sent_exp; eauto.
Qed.

(* positions: the beacon at index i of the store has round i *)
Definition store_rounds (sto : list beacon) : Prop :=
  forall i b, nth_error sto i = Some b -> fst b = Z.of_nat i.
Lemma store_rounds_put bk st d : store_rounds (store st) -> store_rounds (store (put_step bk st d)).
Proof.
  intro H. simpl. intros i b Hn. destruct (Nat.lt_ge_cases i (length (store st))) as [Lt|Ge].
  - rewrite nth_error_app1 in Hn; auto.
  - rewrite nth_error_app2 in Hn; auto. destruct (i - length (store st))%nat as [|m] eqn:Ei; simpl in Hn; [|destruct m; discriminate].
    inversion Hn; subst. simpl. f_equal. lia.
Qed.
Lemma store_rounds_step bk st e : store_rounds (store st) -> store_rounds (store (ss_step bk st e)).
Proof.
  intro H. destruct e as [d|d pre|c f|kz ok|kz|kz]; [apply store_rounds_put; auto | | simpl; auto ..].
  - simpl. destruct (pre && is_bolt bk); [auto | apply store_rounds_put; auto].
  - repeat match goal with |- store_rounds (store (match ?x with _ => _ end)) => destruct x end; auto.
  - repeat match goal with |- store_rounds (store (match ?x with _ => _ end)) => destruct x end; auto.
  - repeat match goal with |- store_rounds (store (match ?x with _ => _ end)) => destruct x end; auto.
Qed.
Lemma store_rounds_run bk es : forall st, store_rounds (store st) -> store_rounds (store (ss_run bk st es)).
Proof. induction es as [|e t IH]; simpl; auto. intros st H. apply IH. apply store_rounds_step; auto. Qed.
Lemma store_rounds_init g : store_rounds (store (ss_init g)).
Proof. intros i b H. destruct i as [|[|i]]; simpl in H; try discriminate. inversion H; auto. Qed.

Lemma nth_error_skipn {A} (l : list A) n i : nth_error (skipn n l) i = nth_error l (n + i).
Proof. revert l; induction n as [|n IH]; intro l; simpl; auto. destruct l; simpl; auto. destruct i; auto. Qed.
Lemma lprefix_nth {A} (a b : list A) i x : lprefix a b -> nth_error a i = Some x -> nth_error b i = Some x.
Proof. intros [t E] H. subst. rewrite nth_error_app1; auto. apply (nth_lt _ _ _ H). Qed.

(* the statement of the property in terms of rounds and contents *)
Theorem stream_full_rounds bk g es k s :
  nth_error (streams (ss_run bk (ss_init g) es)) k = Some s ->
  forall i b, nth_error (s_sent s) i = Some b ->
    fst b = Z.of_nat (s_base s + i) /\
    nth_error (store (ss_run bk (ss_init g) es)) (s_base s + i) = Some b.
Proof.
  intros H i b Hi. pose proof (stream_full bk g es k s H) as P.
  pose proof (lprefix_nth _ _ _ _ P Hi) as Q. rewrite nth_error_skipn in Q. split; auto.
  apply (store_rounds_run bk es (ss_init g) (store_rounds_init g)); auto.
Qed.

Lemma lprefix_is_prefix a b : lprefix a b -> is_prefix a b = true.
Proof.
  intros [t E]. subst. induction a as [|x a IH]; simpl; auto. rewrite !Z.eqb_refl. simpl. auto.
Qed.


(* where a stream starts: the requested round (as a store index) unless the request was for
   round 0 ("follow from now") or was refused *)
Definition base_ok (s : stream) : Prop :=
  s_from s = 0 \/ s_phase s = PDone SErrNoBeacon \/ s_base s = Z.to_nat (s_from s).

Definition same_origin (s s' : stream) : Prop :=
  s_from s' = s_from s /\ s_base s' = s_base s /\ (forall e, s_phase s = PDone e -> s' = s).

Lemma base_ok_same s s' : same_origin s s' -> base_ok s -> base_ok s'.
Proof.
  intros [A [B C]] [H|[H|H]]; unfold base_ok.
  - left; congruence.
  - rewrite (C _ H). auto.
  - right; right; congruence.
Qed.
Lemma same_origin_refl s : same_origin s s.
Proof. repeat split; auto. Qed.
Lemma same_origin_trans a b c : same_origin a b -> same_origin b c -> same_origin a c.
Proof.
  intros [A1 [B1 C1]] [A2 [B2 C2]]. repeat split; try congruence.
  intros e H. pose proof (C1 _ H) as E. subst b. apply (C2 _ H).
Qed.

Lemma on_put_origin bk r b k s : same_origin s (on_put bk r b k s).
Proof.
  unfold on_put, same_origin. destruct (s_phase s) as [snap pos| |q busy|e] eqn:Ph; simpl.
  - destruct bk; simpl; repeat split; auto; intros e H; discriminate.
  - repeat split; auto; intros e H; discriminate.
  - destruct (registered r k); [destruct busy|]; simpl; repeat split; auto; intros e H; discriminate.
  - repeat split; auto.
Qed.
Lemma on_close_origin s : same_origin s (on_close s).
Proof.
  unfold on_close, same_origin. destruct (s_phase s) as [snap pos| |q [|]|e] eqn:Ph; simpl; repeat split; auto;
  intros e0 H; discriminate.
Qed.

Lemma supd_cases n x l k y : nth_error (supd n x l) k = Some y ->
  (k = n /\ y = x /\ (n < length l)%nat) \/ (k <> n /\ nth_error l k = Some y).
Proof.
  intro H. destruct (Nat.eq_dec n k) as [->|N].
  - pose proof (nth_lt _ _ _ H) as Lt. rewrite length_supd in Lt. rewrite nth_supd_same in H; auto. inversion H; auto.
  - rewrite nth_supd_other in H; auto.
Qed.

Lemma origin_fields s s' : s_from s' = s_from s -> s_base s' = s_base s ->
  (forall e, s_phase s <> PDone e) -> same_origin s s'.
Proof. intros A B C. repeat split; auto. intros e H. destruct (C _ H). Qed.

Lemma base_ok_put bk st d :
  (forall k s, nth_error (streams st) k = Some s -> base_ok s) ->
  forall k s, nth_error (streams (put_step bk st d)) k = Some s -> base_ok s.
Proof.
  intros I k s'. simpl.
  rewrite nth_map_idx. destruct (nth_error (streams st) k) as [s|] eqn:A; [|discriminate]. simpl. intro H. inversion H; subst.
  eapply base_ok_same; [apply on_put_origin | eauto].
Qed.

Lemma base_ok_step bk st e :
  (forall k s, nth_error (streams st) k = Some s -> base_ok s) ->
  forall k s, nth_error (streams (ss_step bk st e)) k = Some s -> base_ok s.
Proof.
  intros I k s'. destruct e as [d|d pre|c f|kz ok|kz|kz]; [apply base_ok_put; auto | | simpl ..].
  - simpl. destruct (pre && is_bolt bk); [apply I | apply base_ok_put; auto].
  - intro H. destruct (Nat.lt_ge_cases k (length (streams st))) as [Lt|Ge].
    + rewrite nth_error_app1 in H; eauto.
    + rewrite nth_error_app2 in H; auto. destruct (k - length (streams st))%nat as [|m]; simpl in H; [|destruct m; discriminate].
      inversion H; subst s'. clear H. unfold base_ok.
      destruct (Z.of_nat (length (store st)) - 1 <? f) eqn:Q1; simpl; auto.
      destruct (f =? 0) eqn:F0; simpl; [left; apply Z.eqb_eq; auto|].
      destruct (nth_error (store st) (Z.to_nat f)) eqn:Nb; simpl; auto.
      right; right. apply nth_error_None in Nb. apply Z.ltb_ge in Q1. lia.
  - destruct (nth_error (streams st) (Z.to_nat kz)) as [s|] eqn:Hk; [|apply I].
    assert (U : forall x, same_origin s x -> nth_error (supd (Z.to_nat kz) x (streams st)) k = Some s' -> base_ok s').
    { intros x O H. apply supd_cases in H as [[-> [-> _]]|[_ H]]; [eapply base_ok_same; eauto | eauto]. }
    destruct (s_phase s) as [snap pos| |q [|]|e0] eqn:Ph; try apply I.
    + destruct ok.
      * match goal with |- context [match ?x with Some _ => _ | None => _ end] => destruct x end; simpl; apply U; apply origin_fields; simpl; auto; intros e H; congruence.
      * simpl; apply U; apply origin_fields; simpl; auto; intros e H; congruence.
    + destruct ok.
      * destruct q as [|[b|] q']; simpl; apply U; apply origin_fields; simpl; auto; intros e H; congruence.
      * simpl; apply U; apply origin_fields; simpl; auto; intros e H; congruence.
  - destruct (nth_error (streams st) (Z.to_nat kz)) as [s|] eqn:Hk; [|apply I].
    destruct (s_phase s) eqn:Ph; try apply I. simpl. intro H.
    apply supd_cases in H as [[-> [-> _]]|[_ H]].
    + eapply base_ok_same; [|apply (I _ _ Hk)]. apply origin_fields; [destruct (s_missed s); reflexivity | destruct (s_missed s); reflexivity | intros e0 H0; congruence].
    + destruct (rget (s_cid s) (reg st)) as [j|]; [|eauto].
      destruct (nth_error (streams st) j) as [o|] eqn:Hj; [|eauto].
      apply supd_cases in H as [[-> [-> _]]|[_ H]]; [|eauto].
      eapply base_ok_same; [apply on_close_origin | eauto].
  - destruct (nth_error (streams st) (Z.to_nat kz)) as [s|] eqn:Hk; [|apply I].
    destruct (s_phase s) eqn:Ph; try apply I. simpl. intro H.
    apply supd_cases in H as [[-> [-> _]]|[_ H]].
    + eapply base_ok_same; [|apply (I _ _ Hk)]. apply origin_fields; simpl; auto. intros e0 H0; congruence.
    + destruct (rget (s_cid s) (reg st)) as [j|]; [|eauto].
      destruct (nth_error (streams st) j) as [o|] eqn:Hj; [|eauto].
      apply supd_cases in H as [[-> [-> _]]|[_ H]]; [|eauto].
      eapply base_ok_same; [apply on_close_origin | eauto].
Qed.

Lemma base_ok_run bk es : forall st,
  (forall k s, nth_error (streams st) k = Some s -> base_ok s) ->
  forall k s, nth_error (streams (ss_run bk st es)) k = Some s -> base_ok s.
Proof.
  induction es as [|e t IH]; simpl; auto. intros st I. apply IH. apply base_ok_step; auto.
Qed.

Theorem stream_base bk g es k s :
  nth_error (streams (ss_run bk (ss_init g) es)) k = Some s -> base_ok s.
Proof. apply base_ok_run. intros k0 s0 H. destruct k0; discriminate. Qed.

(* ---- registered callbacks and live streams ---- *)
Definition is_live (s : stream) : bool := match s_phase s with PLive _ _ => true | _ => false end.
Definition live_indices (st : sst) : list nat :=
  filter (fun k => match nth_error (streams st) k with Some s => is_live s | None => false end)
         (seq 0 (length (streams st))).

Lemma rinv_snd_nodup st : rinv st -> NoDup (map snd (reg st)).
Proof.
  intros [ND R].
  assert (Hc : forall c k, In (c, k) (reg st) -> exists s, nth_error (streams st) k = Some s /\ s_cid s = c).
  { intros c k H. destruct (R _ _ H) as [s [q [b [A [B _]]]]]. eauto. }
  clear R. revert ND Hc. generalize (reg st) as l. induction l as [|[c k] t IH]; simpl; intros ND Hc; [constructor|].
  inversion ND; subst. constructor.
  - intro H. apply in_map_iff in H as [[c' k'] [E H]]. simpl in E; subst k'.
    destruct (Hc c k (or_introl eq_refl)) as [s [A B]]. destruct (Hc c' k (or_intror H)) as [s' [A' B']].
    rewrite A in A'. inversion A'; subst. apply H1. change (s_cid s') with (fst (s_cid s', k)). apply in_map; auto.
  - apply IH; auto; intros c' k' H; apply Hc; right; auto.
Qed.

(* a stream that has ended is not registered; the callbacks registered in the store belong to
   pairwise distinct streams that are in their live phase *)
Theorem stream_ended_unregistered bk g es k s e :
  nth_error (streams (ss_run bk (ss_init g) es)) k = Some s -> s_phase s = PDone e ->
  registered (reg (ss_run bk (ss_init g) es)) k = false.
Proof.
  intros H Ph. destruct (reachable_ginv bk g es) as [RI _].
  destruct (registered (reg (ss_run bk (ss_init g) es)) k) eqn:Rg; auto.
  destruct (rinv_live _ k RI Rg) as [s0 [q [b [A C]]]]. rewrite H in A. inversion A; subst. congruence.
Qed.

Theorem registered_le_live bk g es :
  let st := ss_run bk (ss_init g) es in (length (reg st) <= length (live_indices st))%nat.
Proof.
  intro st. destruct (reachable_ginv bk g es) as [RI _]. fold st in RI.
  rewrite <- (map_length snd). apply NoDup_incl_length; [apply rinv_snd_nodup; auto|].
  intros k H. apply in_map_iff in H as [[c k'] [E H]]. simpl in E; subst k'.
  destruct RI as [_ R]. destruct (R _ _ H) as [s [q [b [A [_ Ph]]]]].
  unfold live_indices. apply filter_In. split.
  - apply in_seq. pose proof (nth_lt _ _ _ A). lia.
  - rewrite A. unfold is_live. rewrite Ph. auto.
Qed.
