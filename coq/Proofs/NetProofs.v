(* Proofs over the system model Model/Net.v: the node-local protocol of Model/Node.v composed
   with a wire, an adversary that owns the network, and symbolic unforgeability of threshold BLS
   as the admissibility of adversary events.  Invariant of every reachable system state:
   - every partial in a node's cache is on the wire;
   - every beacon that exists anywhere (honest store, adversary) had, for exactly its round, valid
     partials of at least t distinct indices on the wire (C03, system level);
   - no valid partial of an index outside F (F = indices the adversary can sign with, fewer than
     t) is for a round ahead of real time, hence no beacon of a future round exists anywhere, not
     even in the adversary's hands (C04, system level, without the "head not ahead" premise of the
     node-local theorem: it is derived);
   - all honest chains are valid chains with one genesis, so they agree (C02, system level). *)
From Coq Require Import ZArith List Bool Lia.
From DV Require Import Model.Time Model.Node Model.Net Proofs.TimeProofs Proofs.NodeProofs Proofs.NetTime.
Import ListNotations.
Open Scope Z_scope.

Lemma puts_of_eq o : puts_of o = proj_puts o.
Proof. induction o as [|x o IH]; [reflexivity|]. destruct x; simpl; congruence. Qed.

Lemma emits_of_app a b : emits_of (a ++ b) = emits_of a ++ emits_of b.
Proof. induction a as [|x a IH]; [reflexivity|]. destruct x; simpl; rewrite ?IH; reflexivity. Qed.

Lemma emits_of_in o r p sg : In (r, p, sg) (emits_of o) -> exists n, In (OEmit r p sg n) o.
Proof.
  induction o as [|x o IH]; simpl; [intros []|].
  destruct x as [|b|r' p' sg' n'|u]; simpl; try (intros H; destruct (IH H) as [n Hn]; exists n; right; exact Hn).
  intros [E|H]; [inversion E; subst; exists n'; left; reflexivity|].
  destruct (IH H) as [n Hn]; exists n; right; exact Hn.
Qed.

Lemma emits_of_noemit o : forallb (fun x => negb (is_emit x)) o = true -> emits_of o = [].
Proof.
  induction o as [|x o IH]; [reflexivity|]. simpl. intros H. apply andb_true_iff in H as [H1 H2].
  destruct x; simpl in *; try discriminate; auto.
Qed.

Lemma in_put_proj b o : In (OPut b) o <-> In b (proj_puts o).
Proof.
  induction o as [|x o IH]; simpl; [tauto|].
  destruct x; simpl; rewrite <- IH; split; try (intros [H|H]; [discriminate|auto]); auto.
  - intros [H|H]; [inversion H; auto|auto].
  - intros [H|H]; [left; congruence|auto].
Qed.

Lemma settle_none g puts : settle g None puts = (g, None).
Proof. induction puts as [|b puts IH]; simpl; auto. Qed.

(* a property of the live and the pending group survives the switches *)
Lemma settle_keeps (R : grp -> Prop) puts : forall g pend,
  R g -> (forall tg g', pend = Some (tg, g') -> R g') ->
  R (fst (settle g pend puts)) /\ forall tg g', snd (settle g pend puts) = Some (tg, g') -> R g'.
Proof.
  induction puts as [|b puts IH]; intros g pend Hg Hp; simpl; [split; assumption|].
  destruct pend as [[t0 g0]|].
  - destruct (t0 <=? b_round b).
    + apply IH; [exact (Hp t0 g0 eq_refl)|intros ? ? E; discriminate].
    + apply IH; assumption.
  - apply IH; assumption.
Qed.

(* ---------- what one node step does to the cache, the group, and why it stores ---------- *)
Section NetEff.
  Variable C : cfg.
  Variable idx_of : Z -> Z.
  Variable vpart : Z -> Z -> Z -> Z -> bool.
  Variable recov : Z -> Z -> Z -> list Z -> Z -> option Z.
  Variable vrec : Z -> Z -> Z -> bool.
  Variable own_psig : Z -> Z -> Z -> Z.
  Hypothesis vrec_unchained : c_chained C = false -> forall r p p' s, vrec r p s = vrec r p' s.
  Hypothesis recov_sound : forall P r p sigs t s, recov P r p sigs t = Some s ->
    exists I, incl I sigs /\ NoDup (map idx_of I) /\ t <= Z.of_nat (length I) /\
              forall x, In x I -> vpart P r p x = true.

  Notation step := (step C idx_of vpart recov vrec own_psig).
  Notation agg_partial := (agg_partial C idx_of recov vrec).
  Notation process_partial := (process_partial C idx_of vpart recov vrec).
  Notation emit_on := (emit_on C idx_of recov vrec own_psig).
  Notation try_node := (try_node C vrec).
  Notation do_sync := (do_sync C vrec).
  Notation fire_timers := (fire_timers C idx_of recov vrec own_psig).
  Notation fire_due := (fire_due C idx_of recov vrec own_psig).

  Variable Q : wire -> Prop.          (* "is on the wire" *)
  Variable thr_of : Z -> Z.           (* the threshold of the sharing a public polynomial identifies *)
  Variable stream : list beacon.      (* what the peers serve if the step syncs *)

  Definition cache_in (c : list centry) : Prop :=
    forall e, In e c -> forall isg, In isg (ce_sigs e) -> Q (ce_round e, ce_prev e, snd isg).

  Lemma cache_add_in c r p i sg : cache_in c -> Q (r, p, sg) -> cache_in (cache_add c r p i sg).
  Proof.
    intros Hc Hq. induction c as [|e c IH]; simpl.
    - intros e' [<-|[]] isg [<-|[]]. exact Hq.
    - assert (Hc' : cache_in c) by (intros x Hx; apply Hc; right; exact Hx).
      destruct ((ce_round e =? r) && (ce_prev e =? p)) eqn:E.
      + apply andb_true_iff in E as [E1 E2]. apply Z.eqb_eq in E1, E2.
        intros e' [<-|Hin] isg Hi.
        * destruct (memb i (map fst (ce_sigs e))).
          -- apply (Hc e (or_introl eq_refl)); exact Hi.
          -- cbn [ce_sigs ce_round ce_prev] in *. apply in_app_or in Hi as [Hi|[<-|[]]].
             ++ rewrite <- E1, <- E2. apply (Hc e (or_introl eq_refl)); exact Hi.
             ++ exact Hq.
        * apply (Hc e' (or_intror Hin)); exact Hi.
      + intros e' [<-|Hin] isg Hi.
        * apply (Hc e (or_introl eq_refl)); exact Hi.
        * exact (IH Hc' e' Hin isg Hi).
  Qed.

  Lemma cache_flush_in c r : cache_in c -> cache_in (cache_flush c r).
  Proof. intros Hc e He. apply filter_In in He as [He _]. exact (Hc e He). Qed.

  Lemma cache_find_in c r p e : cache_find c r p = Some e -> In e c /\ ce_round e = r /\ ce_prev e = p.
  Proof.
    induction c as [|x c IH]; simpl; [discriminate|].
    destruct ((ce_round x =? r) && (ce_prev x =? p)) eqn:E.
    - intros H; inversion H; subst. apply andb_true_iff in E as [E1 E2]. apply Z.eqb_eq in E1, E2. auto.
    - intros H. destruct (IH H) as [A B]. auto.
  Qed.

  Lemma after_put_cache s b : s_cache (after_put s b) = cache_flush (s_cache s) (b_round b).
  Proof. unfold after_put. destruct (s_pending s) as [[t' g']|]; [destruct (t' <=? b_round b)|]; reflexivity. Qed.

  (* the live group, and a pending one, carry the threshold of their sharing *)
  Definition okgrp (g : grp) : Prop := g_thr g = thr_of (g_poly g).
  Definition grp_ok (s : nstate) : Prop :=
    okgrp (s_grp s) /\ forall tg g', s_pending s = Some (tg, g') -> okgrp g'.

  Lemma tracks_grp_ok s s' o : tracks s s' o -> grp_ok s -> grp_ok s'.
  Proof.
    unfold tracks, gp. intros T [G1 G2].
    destruct (settle_keeps okgrp (proj_puts o) (s_grp s) (s_pending s) G1 G2) as [A B].
    rewrite <- T in A, B. split; [exact A|exact B].
  Qed.

  (* the justification of a stored beacon: a threshold of valid partials of ONE sharing *)
  Definition contributed_by (b : beacon) : Prop :=
    exists P p I, NoDup (map idx_of I) /\ thr_of P <= Z.of_nat (length I) /\
      forall x, In x I -> Q (b_round b, p, x) /\ vpart P (b_round b) p x = true.
  Definition served (b : beacon) : Prop :=
    exists b0, In b0 stream /\ vrec (b_round b0) (b_prev b0) (b_sig b0) = true /\ b_round b0 = b_round b.
  Definition just (b : beacon) : Prop := contributed_by b \/ served b.

  Definition pre (s : nstate) : Prop := cache_in (s_cache s) /\ grp_ok s.
  Definition post (s s' : nstate) (o : list out) : Prop :=
    cache_in (s_cache s') /\ grp_ok s' /\ s_now s' = s_now s /\
    (forall b, In (OPut b) o -> just b) /\
    (forall r p sg n, In (OEmit r p sg n) o -> n = s_now s).

  Lemma post_nop s s' : cache_in (s_cache s') -> grp_ok s' -> s_now s' = s_now s -> post s s' [].
  Proof. intros A B D. split; [exact A|]. split; [exact B|]. split; [exact D|]. split; intros; contradiction. Qed.

  Lemma post_trans s s1 s2 o1 o2 : post s s1 o1 -> post s1 s2 o2 -> post s s2 (o1 ++ o2).
  Proof.
    intros [A1 [B1 [N1 [P1 E1]]]] [A2 [B2 [N2 [P2 E2]]]].
    split; [exact A2|]. split; [exact B2|]. split; [|split].
    - congruence.
    - intros b Hb. apply in_app_or in Hb as [Hb|Hb]; auto.
    - intros r p sg n Hn. apply in_app_or in Hn as [Hn|Hn]; [eauto|]. rewrite <- N1. eauto.
  Qed.

  Lemma post_cons s s' x o : post s s' o -> (forall b, x <> OPut b) -> (forall r p sg n, x = OEmit r p sg n -> n = s_now s) ->
    post s s' (x :: o).
  Proof.
    intros [A [B [N [Pp E]]]] Hx He. split; [exact A|]. split; [exact B|]. split; [exact N|]. split.
    - intros b [Hb|Hb]; [exfalso; eapply Hx; exact Hb|auto].
    - intros r p sg n [Hn|Hn]; [eapply He; exact Hn|eauto].
  Qed.

  Lemma agg_eff s r p sg s' o : agg_partial s r p sg = (s', o) -> pre s -> Q (r, p, sg) -> post s s' o.
  Proof.
    intros H [Hc Hg] Hq.
    assert (Hgp : grp_ok s').
    { eapply tracks_grp_ok; [|exact Hg]. exact (agg_tracks C idx_of recov vrec _ _ _ _ _ _ H). }
    assert (Hnow : s_now s' = s_now s) by (eapply agg_now; exact H).
    assert (Hem : forall r0 p0 sg0 n, In (OEmit r0 p0 sg0 n) o -> n = s_now s).
    { intros r0 p0 sg0 n Hin. pose proof H as Hn. apply agg_no_emit in Hn.
      rewrite forallb_forall in Hn. specialize (Hn _ Hin). discriminate. }
    assert (Hput : forall b, In (OPut b) o -> just b).
    { intros b Hb. apply in_split in Hb as [o1 [o2 ->]].
      destruct (agg_put_has_threshold C idx_of vpart recov vrec vrec_unchained recov_sound _ _ _ _ _ _ _ _ H)
        as [e [I [Hf [Hi [Hn [Ht [Hv [Hr _]]]]]]]].
      left. exists (g_poly (s_grp s)), p, I. destruct Hg as [G1 _]. unfold okgrp in G1. rewrite <- G1.
      split; [exact Hn|]. split; [exact Ht|]. intros x Hx. rewrite Hr. split; [|apply Hv; exact Hx].
      apply cache_find_in in Hf as [He [Er Ep]].
      apply Hi in Hx. apply in_map_iff in Hx as [isg [Es Hisg]].
      assert (Hca : cache_in (agg_cache idx_of s r p sg)) by (apply cache_add_in; assumption).
      specialize (Hca e He isg Hisg). rewrite Er, Ep, Es in Hca. exact Hca. }
    assert (Hcache : cache_in (s_cache s')).
    { clear Hput Hem. unfold Node.agg_partial in H.
      pose proof (cache_add_in (s_cache s) r p (idx_of sg) sg Hc Hq) as Hc1.
      destruct (negb ((b_round (head s) <? r) && (r <=? b_round (head s) + c_limit C + 1))).
      { inversion H; subst. exact Hc. }
      destruct (cache_find _ _ _) as [e|].
      2:{ inversion H; subst. exact Hc1. }
      destruct (Z.of_nat (length (ce_sigs e)) <? g_thr (s_grp s)).
      { inversion H; subst. exact Hc1. }
      destruct (recov _ _ _ _ _) as [fs|].
      2:{ inversion H; subst. exact Hc1. }
      destruct (vrec r p fs); cbn [negb] in H.
      2:{ inversion H; subst. exact Hc1. }
      destruct (b_round (head s) + 1 =? r); cbn [negb] in H.
      2:{ inversion H; subst. cbn [s_cache]. apply cache_flush_in; exact Hc1. }
      destruct (stack_accepts C (head s) (mkB r p fs)); cbn [negb] in H.
      2:{ inversion H; subst. cbn [s_cache]. apply cache_flush_in; exact Hc1. }
      destruct (r <? s_cur s); inversion H; subst; cbn [s_cache]; rewrite ?after_put_cache; cbn [s_cache];
        repeat apply cache_flush_in; exact Hc1. }
    split; [exact Hcache|]. split; [exact Hgp|]. split; [exact Hnow|]. split; [exact Hput|exact Hem].
  Qed.

  Lemma emit_eff s cur upon s' o : emit_on s cur upon = (s', o) -> pre s ->
    (forall w, In w (emits_of o) -> Q w) -> post s s' o.
  Proof.
    intros H Hpre Hq. apply emit_on_shape in H.
    destruct H as [[-> [-> _]]|[r [p [o1 [_ [_ [E ->]]]]]]].
    { destruct Hpre. apply post_nop; auto. }
    apply post_cons; [|discriminate|intros ? ? ? ? Hx; inversion Hx; reflexivity].
    eapply agg_eff; [exact E|exact Hpre|]. apply Hq. simpl. left; reflexivity.
  Qed.

  Lemma try_node_eff bs : forall s upto s' o, incl bs stream -> try_node s upto bs = (s', o) -> pre s -> post s s' o.
  Proof.
    induction bs as [|b bs IH]; intros s upto s' o Hin H [Hc Hg]; simpl in H.
    { inversion H; subst. apply post_nop; auto. }
    destruct (vrec (b_round b) (b_prev b) (b_sig b)) eqn:Hv; cbn [negb] in H.
    2:{ inversion H; subst. apply post_nop; auto. }
    destruct (negb (stack_accepts _ _ _)). { inversion H; subst. apply post_nop; auto. }
    assert (P1 : post s (after_put s (stored_form C b)) [OPut (stored_form C b)]).
    { split; [|split; [|split; [|split]]].
      - rewrite after_put_cache. apply cache_flush_in; exact Hc.
      - apply (tracks_grp_ok s _ [OPut (stored_form C b)]); [|exact Hg]. unfold tracks, gp. cbn [proj_puts]. apply after_put_settle.
      - destruct (after_put_fields s (stored_form C b)) as [F1 _]. exact F1.
      - intros b' [Hb|[]]. inversion Hb; subst. right. exists b. split; [apply Hin; left; reflexivity|].
        split; [exact Hv|]. unfold stored_form. destruct (c_chained C); reflexivity.
      - intros ? ? ? ? [Hx|[]]; discriminate. }
    destruct (b_round b =? upto). { inversion H; subst. exact P1. }
    destruct (Node.try_node _ _ _ _ _) as [s2 o2] eqn:E. inversion H; subst.
    assert (Hpre1 : pre (after_put s (stored_form C b))) by (destruct P1 as [A [B _]]; split; assumption).
    apply (IH _ _ _ _ (fun x Hx => Hin x (or_intror Hx)) E) in Hpre1.
    exact (post_trans _ _ _ _ _ P1 Hpre1).
  Qed.

  Lemma do_sync_eff s upto sync s' o : do_sync s upto sync = (s', o) ->
    (forall bs, sync = Some bs -> incl bs stream) -> pre s -> post s s' o.
  Proof.
    unfold Node.do_sync. intros H Hs Hpre. destruct sync as [bs|].
    - destruct (Node.try_node _ _ _ _ _) as [s1 o1] eqn:E. inversion H; subst.
      apply post_cons; [|discriminate|discriminate].
      eapply try_node_eff; [|exact E|exact Hpre].
      intros x Hx. apply filter_In in Hx as [Hx _]. exact (Hs bs eq_refl x Hx).
    - inversion H; subst. destruct Hpre as [A B].
      apply post_cons; [apply post_nop; auto|discriminate|discriminate].
  Qed.

  Lemma fire_timers_eff ts : forall s s' o, fire_timers s ts = (s', o) -> pre s ->
    (forall w, In w (emits_of o) -> Q w) -> post s s' o.
  Proof.
    induction ts as [|t ts IH]; intros s s' o H Hpre Hq; simpl in H.
    { inversion H; subst. destruct Hpre. apply post_nop; auto. }
    destruct (Node.emit_on _ _ _ _ _ _ _ _) as [s1 o1] eqn:E1.
    destruct (Node.fire_timers _ _ _ _ _ _ _) as [s2 o2] eqn:E2. inversion H; subst.
    rewrite emits_of_app in Hq.
    assert (P1 : post s s1 o1) by (eapply emit_eff; [exact E1|exact Hpre|intros w Hw; apply Hq; apply in_or_app; left; exact Hw]).
    assert (Hpre1 : pre s1) by (destruct P1 as [A [B _]]; split; assumption).
    assert (P2 : post s1 s' o2) by (eapply IH; [exact E2|exact Hpre1|intros w Hw; apply Hq; apply in_or_app; right; exact Hw]).
    exact (post_trans _ _ _ _ _ P1 P2).
  Qed.

  Lemma post_from s0 s s' o : s_now s0 = s_now s -> post s0 s' o -> post s s' o.
  Proof.
    intros E [A [B [N [Pp Ee]]]]. split; [exact A|]. split; [exact B|]. split; [congruence|]. split; [exact Pp|].
    intros; rewrite <- E; eauto.
  Qed.

  Lemma fire_due_eff s s' o : fire_due s = (s', o) -> pre s -> (forall w, In w (emits_of o) -> Q w) -> post s s' o.
  Proof.
    unfold Node.fire_due. intros H [Hc Hg] Hq. destruct (s_running s).
    - eapply post_from; [|eapply fire_timers_eff; [exact H| |exact Hq]]; [reflexivity|]. split; [exact Hc|exact Hg].
    - inversion H; subst. apply post_nop; auto.
  Qed.

  (* what the step's input must satisfy *)
  Definition input_ok (e : event) : Prop :=
    match e with
    | EFire | EStop => True
    | ETick _ sy | ETickSF _ sy | ERestart sy => forall bs, sy = Some bs -> incl bs stream
    | EPart r p sg => Q (r, p, sg)
    | ETransition _ g' => okgrp g'
    | ESynced _ bs => incl bs stream
    | _ => False
    end.

  Theorem step_eff s e s' o : step s e = (s', o) -> pre s -> input_ok e ->
    (forall w, In w (emits_of o) -> Q w) -> post s s' o.
  Proof.
    intros H Hpre Hin Hq. pose proof Hpre as [Hc Hg].
    destruct e as [d|d| |rho sync|rho sync|r p sg| |sync|target g'|upto bs]; simpl in H, Hin; try contradiction.
    - apply fire_due_eff; assumption.
    - destruct (s_running s); cbn [negb] in H; [|inversion H; subst; apply post_nop; auto].
      destruct (Node.emit_on _ _ _ _ _ _ _ _) as [s1 o1] eqn:E1.
      assert (Hq1 : forall w, In w (emits_of o1) -> Q w).
      { intros w Hw. apply Hq. destruct (b_round (head s) + 1 <? rho).
        - destruct (Node.do_sync _ _ _ _ _) as [s2 o2]. inversion H; subst. rewrite emits_of_app. apply in_or_app; left; exact Hw.
        - inversion H; subst. exact Hw. }
      assert (P1 : post s s1 o1).
      { eapply post_from; [|eapply emit_eff; [exact E1| |exact Hq1]]; [reflexivity|]. split; [exact Hc|exact Hg]. }
      destruct (b_round (head s) + 1 <? rho).
      + destruct (Node.do_sync _ _ _ _ _) as [s2 o2] eqn:E2. inversion H; subst.
        assert (Hpre1 : pre s1) by (destruct P1 as [A [B _]]; split; assumption).
        exact (post_trans _ _ _ _ _ P1 (do_sync_eff _ _ _ _ _ E2 Hin Hpre1)).
      + inversion H; subst. exact P1.
    - destruct (s_running s); cbn [negb] in H; [|inversion H; subst; apply post_nop; auto].
      destruct (sign_target rho (head s)) as [r p].
      destruct (if b_round (head s) + 1 <? rho then _ else _) as [s1 o1] eqn:E1.
      set (s0 := mkS (s_now s) (s_chain s) (s_cache s) rho (s_timers s) (s_grp s) (s_pending s) true) in *.
      assert (Hpre0 : pre s0) by (split; [exact Hc|exact Hg]).
      assert (P1 : post s0 s1 o1).
      { destruct (b_round (head s) + 1 <? rho).
        - eapply do_sync_eff; [exact E1|exact Hin|exact Hpre0].
        - inversion E1; subst. destruct Hpre0. apply post_nop; auto. }
      assert (Hpre1 : pre s1) by (destruct P1 as [A [B _]]; split; assumption).
      destruct (negb (may_sign C s0 r)).
      { inversion H; subst. eapply post_from; [|exact P1]. reflexivity. }
      destruct (Node.agg_partial _ _ _ _ _ _ _ _) as [s2 o2] eqn:E2. inversion H; subst.
      assert (P2 : post s1 s' o2).
      { eapply agg_eff; [exact E2|exact Hpre1|]. apply Hq. simpl. left; reflexivity. }
      eapply post_from; [|apply post_cons; [exact (post_trans _ _ _ _ _ P1 P2)|discriminate|]]; [reflexivity|].
      intros ? ? ? ? Hx; inversion Hx; reflexivity.
    - destruct (s_running s); cbn [negb] in H; [|inversion H; subst; apply post_nop; auto].
      unfold Node.process_partial in H.
      assert (Rej : post s s [OReject]) by (apply post_cons; [apply post_nop; auto|discriminate|discriminate]).
      destruct (_ <? r). { inversion H; subst. exact Rej. }
      destruct (r <=? _). { inversion H; subst. apply post_nop; auto. }
      destruct (idx_of sg <? 0). { inversion H; subst. exact Rej. }
      destruct (negb (memb _ _)). { inversion H; subst. exact Rej. }
      destruct (idx_of sg =? _). { inversion H; subst. exact Rej. }
      destruct (negb (vpart _ _ _ _)). { inversion H; subst. exact Rej. }
      eapply agg_eff; eauto.
    - inversion H; subst. apply post_nop; [intros e []|exact Hg|reflexivity].
    - eapply post_from; [|eapply do_sync_eff; [exact H|exact Hin|]]; [reflexivity|].
      split; [intros e []|]. destruct Hg as [G1 G2]. split; cbn [s_grp s_pending]; [|intros ? ? E; discriminate].
      destruct (s_pending s) as [[t0 g0]|]; [exact (G2 t0 g0 eq_refl)|exact G1].
    - inversion H; subst. apply post_nop; [exact Hc| |reflexivity].
      destruct Hg as [G1 _]. split; cbn [s_grp s_pending]; [exact G1|].
      intros tg0 g0 E. inversion E; subst. exact Hin.
    - destruct (s_running s); cbn [negb] in H; [|inversion H; subst; apply post_nop; auto].
      eapply try_node_eff; [|exact H|exact Hpre].
      intros x Hx. apply filter_In in Hx as [Hx _]. exact (Hin x Hx).
  Qed.
End NetEff.

(* ---------- list helpers ---------- *)
Lemma Forall_upd {A} (R : A -> Prop) l j x : Forall R l -> R x -> Forall R (upd l j x).
Proof.
  revert j; induction l as [|a l IH]; intros j Hl Hx; destruct j; simpl; auto;
    inversion Hl; subst; constructor; auto.
Qed.

Lemma nth_error_Forall {A} (R : A -> Prop) l j x : Forall R l -> nth_error l j = Some x -> R x.
Proof. intros Hl Hn. apply nth_error_In in Hn. rewrite Forall_forall in Hl. auto. Qed.

Lemma last_app_ne {A} (l ch : list A) d : ch <> [] -> last (l ++ ch) d = last ch d.
Proof.
  intros H. induction l as [|a l IH]; [reflexivity|].
  change ((a :: l) ++ ch) with (a :: (l ++ ch)).
  destruct (l ++ ch) eqn:E; [apply app_eq_nil in E as [_ E]; contradiction|].
  rewrite <- IH. reflexivity.
Qed.

Lemma NoDup_map_filter {A B} (f : A -> B) (h : A -> bool) l : NoDup (map f l) -> NoDup (map f (filter h l)).
Proof.
  induction l as [|a l IH]; simpl; intros H; [constructor|]. inversion H as [|? ? Hn Hd]; subst.
  destruct (h a); simpl; [constructor; [|auto]|auto].
  intros Hin. apply Hn. apply in_map_iff in Hin as [x [E Hx]]. apply filter_In in Hx as [Hx _].
  apply in_map_iff. exists x; auto.
Qed.

Lemma filter_split_length {A} (h : A -> bool) l :
  length l = (length (filter h l) + length (filter (fun x => negb (h x)) l))%nat.
Proof. induction l as [|a l IH]; simpl; [reflexivity|]. destruct (h a); simpl; lia. Qed.

(* ---------- the system invariant ---------- *)
Section NetSys.
  Variable C : cfg.
  Variable idx_of : Z -> Z.
  Variable vpart : Z -> Z -> Z -> Z -> bool.
  Variable recov : Z -> Z -> Z -> list Z -> Z -> option Z.
  Variable vrec : Z -> Z -> Z -> bool.
  Variable own_of : Z -> Z -> Z -> Z -> Z.
  Hypothesis vrec_unchained : c_chained C = false -> forall r p p' s, vrec r p s = vrec r p' s.
  Hypothesis recov_sound : forall P r p sigs t s, recov P r p sigs t = Some s ->
    exists I, incl I sigs /\ NoDup (map idx_of I) /\ t <= Z.of_nat (length I) /\
              forall x, In x I -> vpart P r p x = true.
  Hypothesis Hp : dom_p (c_period C).
  Hypothesis Hg : dom_g (c_genesis C).

  (* sharings of the group secret are identified by their public polynomial (one per epoch) *)
  Variable thr_of : Z -> Z.       (* the threshold of a sharing *)
  Variable F_of : Z -> list Z.    (* the share indices of that sharing the adversary can sign with *)
  Hypothesis F_small : forall P, Z.of_nat (length (F_of P)) < thr_of P.
  Variable gen : beacon.          (* the genesis beacon *)
  Hypothesis gen_round : b_round gen = 0.

  Notation nreact := (nreact C idx_of vpart recov vrec own_of).
  Notation gstep := (gstep C idx_of vpart recov vrec own_of).
  Notation grun := (grun C idx_of vpart recov vrec own_of).
  Notation node_step := (node_step C idx_of vpart recov vrec own_of).

  Definition on_wire (y : sys) (w : wire) : Prop := In w (y_pool y).

  (* valid partials of ONE sharing, of at least its threshold of distinct indices, for exactly
     round r (and one previous signature) are on the wire *)
  Definition contributed (y : sys) (r : Z) : Prop :=
    exists P p I, NoDup (map idx_of I) /\ thr_of P <= Z.of_nat (length I) /\
      forall x, In x I -> In (r, p, x) (y_pool y) /\ vpart P r p x = true.

  (* symbolic unforgeability of the group signature: a beacon that verifies can be served only
     if a beacon of that round exists *)
  Definition stream_ok (y : sys) (sy : option (list beacon)) : Prop :=
    forall bs, sy = Some bs -> forall b, In b bs -> vrec (b_round b) (b_prev b) (b_sig b) = true ->
      exists b', In b' (y_known y) /\ b_round b' = b_round b.

  Definition ev_ok (y : sys) (e : event) : Prop :=
    match e with
    | EFire | EStop => True
    | ETick rho sy | ETickSF rho sy => stream_ok y sy   (* a tick of ANY round: also a stale one, handled late *)
    | ERestart sy => stream_ok y sy
    | EPart r p sg => In (r, p, sg) (y_pool y)
    | ETransition _ g' => okgrp thr_of g'       (* a completed resharing hands the node its new group *)
    | ESynced _ bs => stream_ok y (Some bs)     (* a sync the aggregator asked for is answered *)
    | _ => False
    end.

  (* what the adversary and the environment can do *)
  Definition gadm (y : sys) (g : gevent) : Prop :=
    match g with
    | GClock d => 0 <= d /\ now_dom (c_genesis C) (y_time y + d)
    | GNode j e => match e with EPart _ _ _ => False | _ => ev_ok y e end
    | GDeliver j w => In w (y_pool y)
    (* symbolic unforgeability of partial signatures: a valid partial of an index outside F
       can only be replayed *)
    | GAdvPartial (r, p, sg) =>
        forall P, vpart P r p sg = true -> ~ In (idx_of sg) (F_of P) -> In (r, p, sg) (y_pool y)
    (* ... and of the group signature: a new beacon needs a threshold of partials *)
    | GAdvBeacon b => contributed y (b_round b) \/ exists b', In b' (y_known y) /\ b_round b' = b_round b
    end.

  Fixpoint gadm_run (y : sys) (gs : list gevent) : Prop :=
    match gs with
    | [] => True
    | g :: gs' => gadm y g /\ gadm_run (gstep y g) gs'
    end.

  Definition node_ok (y : sys) (s : nstate) : Prop :=
    s_now s = y_time y /\ grp_ok thr_of s /\
    cache_in (on_wire y) (s_cache s) /\
    (forall b, In b (s_chain s) -> b = gen \/ exists b', In b' (y_known y) /\ b_round b' = b_round b) /\
    chain_ok C vrec (s_chain s) /\ s_chain s <> [] /\ genesis_of (s_chain s) = gen.

  Definition sys_inv (y : sys) : Prop :=
    now_dom (c_genesis C) (y_time y) /\
    Forall (node_ok y) (y_nodes y) /\
    (forall b, In b (y_known y) -> contributed y (b_round b)) /\
    (forall r p sg P, In (r, p, sg) (y_pool y) -> vpart P r p sg = true -> ~ In (idx_of sg) (F_of P) ->
       r <= cr C (y_time y)).

  (* among the contributors of a round one is outside F, and its partial is not early *)
  Lemma contributed_timely y r : sys_inv y -> contributed y r -> r <= cr C (y_time y).
  Proof.
    intros [_ [_ [_ Hpool]]] [P [p [I [Hn [Ht Hx]]]]].
    destruct (honest_signer (F_of P) (thr_of P) (F_small P) (map idx_of I) Hn) as [i [Hi Hf]]; [rewrite map_length; exact Ht|].
    apply in_map_iff in Hi as [x [E Hxi]]. subst i. destruct (Hx x Hxi) as [Hw Hv].
    exact (Hpool r p x P Hw Hv Hf).
  Qed.

  Lemma known_timely y : sys_inv y -> forall b, In b (y_known y) -> b_round b <= cr C (y_time y).
  Proof. intros Hi b Hb. apply contributed_timely; [exact Hi|]. destruct Hi as [_ [_ [Hk _]]]. exact (Hk b Hb). Qed.

  Lemma chain_timely y s : sys_inv y -> node_ok y s -> forall b, In b (s_chain s) -> b_round b <= cr C (y_time y).
  Proof.
    intros Hi [_ [_ [_ [Hc _]]]] b Hb. destruct (Hc b Hb) as [->|[b' [Hk E]]].
    - rewrite gen_round. destruct Hi as [HT _]. pose proof (current_round_ge_1 _ _ _ Hp Hg HT). unfold cr. lia.
    - rewrite <- E. apply known_timely; assumption.
  Qed.

  Lemma head_timely y s : sys_inv y -> node_ok y s -> b_round (head s) <= cr C (y_time y).
  Proof.
    intros Hi Hs. pose proof Hs as [_ [_ [_ [_ [_ [Hne _]]]]]].
    apply (chain_timely y s Hi Hs). unfold head. destruct (s_chain s); [contradiction|left; reflexivity].
  Qed.

  (* the wire and the set of existing beacons only grow *)
  Definition ext (y y' : sys) : Prop :=
    y_time y' = y_time y /\ incl (y_pool y) (y_pool y') /\ incl (y_known y) (y_known y').

  Lemma contributed_ext y y' r : incl (y_pool y) (y_pool y') -> contributed y r -> contributed y' r.
  Proof.
    intros Hp' [P [p [I [Hn [Ht Hx]]]]]. exists P, p, I. split; [exact Hn|]. split; [exact Ht|].
    intros x Hxi. destruct (Hx x Hxi). split; auto.
  Qed.

  Lemma node_ok_ext y y' s : ext y y' -> node_ok y s -> node_ok y' s.
  Proof.
    intros [Et [Ep Ek]] [N1 [N3 [N6 [N7 [N8 [N9 N10]]]]]].
    split; [congruence|]. split; [exact N3|]. split; [|split; [|split; [exact N8|split; [exact N9|exact N10]]]].
    - intros e He isg Hi. apply Ep. exact (N6 e He isg Hi).
    - intros b Hb. destruct (N7 b Hb) as [->|[b' [Hk E]]]; [left; reflexivity|right; exists b'; auto].
  Qed.

  Definition ev_stream (e : event) : list beacon :=
    match e with
    | ETick _ (Some bs) | ETickSF _ (Some bs) | ERestart (Some bs) | ESynced _ bs => bs
    | _ => []
    end.

  Lemma ev_stream_known y e : ev_ok y e -> forall b, In b (ev_stream e) ->
    vrec (b_round b) (b_prev b) (b_sig b) = true -> exists b', In b' (y_known y) /\ b_round b' = b_round b.
  Proof.
    destruct e as [d|d| |rho [bs|]|rho [bs|]|r p sg| |[bs|]|tg g'|upto bs]; simpl; try (intros _ b []).
    - intros H b Hb Hv. exact (H bs eq_refl b Hb Hv).
    - intros H b Hb Hv. exact (H bs eq_refl b Hb Hv).
    - intros H b Hb Hv. exact (H bs eq_refl b Hb Hv).
    - intros H b Hb Hv. exact (H bs eq_refl b Hb Hv).
  Qed.

  Lemma ev_input_ok y (Q : wire -> Prop) e : ev_ok y e -> (forall w, In w (y_pool y) -> Q w) ->
    input_ok Q thr_of (ev_stream e) e.
  Proof.
    destruct e as [d|d| |rho [bs|]|rho [bs|]|r p sg| |[bs|]|tg g'|upto bs]; simpl; try tauto;
      try (intros _ _ bs' E; inversion E; subst; apply incl_refl); try (intros _ _ bs' E; discriminate);
      try (intros _ _; apply incl_refl).
    intros H Hq. apply Hq; exact H.
  Qed.

  Lemma node_step_inv y j e s : sys_inv y -> nth_error (y_nodes y) j = Some s -> ev_ok y e ->
    sys_inv (node_step y j e).
  Proof.
    intros Hi Hnth He. unfold Net.node_step. rewrite Hnth.
    destruct (nreact s e) as [s' o] eqn:E. unfold Net.nreact in E.
    set (own_psig := own_of (g_me (s_grp s))) in *.
    set (y' := mkSys (y_time y) (upd (y_nodes y) j s') (y_pool y ++ emits_of o) (y_known y ++ puts_of o)).
    pose proof Hi as [HT [Hn [Hk Hpool]]].
    pose proof (nth_error_Forall _ _ _ _ Hn Hnth) as Hs.
    pose proof Hs as [N1 [N3 [N6 [N7 [N8 [N9 N10]]]]]].
    assert (Hext : ext y y').
    { split; [reflexivity|]. split; intros x Hx; apply in_or_app; left; exact Hx. }
    pose proof (step_emits_timely C idx_of vpart recov vrec own_psig _ _ _ _ E) as Het.
    assert (Hpost : post idx_of vpart vrec (on_wire y') thr_of (ev_stream e) s s' o).
    { eapply (step_eff C idx_of vpart recov vrec own_psig vrec_unchained recov_sound); [exact E| | |].
      - split; [|exact N3]. intros e0 He0 isg Hisg. apply in_or_app; left. exact (N6 e0 He0 isg Hisg).
      - apply (ev_input_ok y); [exact He|]. intros w Hw. apply in_or_app; left; exact Hw.
      - intros w Hw. apply in_or_app; right; exact Hw. }
    destruct Hpost as [Pc [Pg [Pn [Pp Pe]]]].
    pose proof (step_wf C idx_of vpart recov vrec own_psig vrec_unchained _ _ _ _ E) as [Wc Wp].
    split; [exact HT|]. split; [|split].
    - apply Forall_upd.
      + rewrite Forall_forall in *. intros x Hx. apply (node_ok_ext y y'); [exact Hext|auto].
      + unfold node_ok.
        split; [cbn [y_time y']; congruence|]. split; [exact Pg|]. split; [exact Pc|].
        split; [|split; [|split]].
        * intros b Hb. rewrite Wc in Hb. apply in_app_or in Hb as [Hb|Hb].
          -- right. exists b. split; [|reflexivity]. apply in_or_app; right. rewrite puts_of_eq. apply in_rev; exact Hb.
          -- destruct (N7 b Hb) as [->|[b' [Hkb Eb]]]; [left; reflexivity|].
             right. exists b'. split; [apply in_or_app; left; exact Hkb|exact Eb].
        * rewrite Wc. apply chain_ok_extend; [exact N9|exact N8|].
          replace (hd (mkB 0 empty_id empty_id) (s_chain s)) with (head s)
            by (unfold head; destruct (s_chain s); reflexivity). exact Wp.
        * rewrite Wc. intros Hnil. apply app_eq_nil in Hnil as [_ Hnil]. contradiction.
        * rewrite Wc. unfold genesis_of. rewrite last_app_ne; [exact N10|exact N9].
    - intros b Hb. apply in_app_or in Hb as [Hb|Hb].
      + apply (contributed_ext y y'); [apply Hext|exact (Hk b Hb)].
      + rewrite puts_of_eq in Hb. apply in_put_proj in Hb. destruct (Pp b Hb) as [[P [p [I [Hnd [Ht Hx]]]]]|[b0 [Hb0 [Hv Er]]]].
        * exists P, p, I. split; [exact Hnd|]. split; [exact Ht|]. exact Hx.
        * destruct (ev_stream_known y e He b0 Hb0 Hv) as [b' [Hkb Eb]].
          apply (contributed_ext y y'); [apply Hext|]. rewrite <- Er, <- Eb. exact (Hk b' Hkb).
    - intros r p sg P Hw Hv Hf. cbn [y_pool y_time y'] in *. apply in_app_or in Hw as [Hw|Hw].
      + exact (Hpool r p sg P Hw Hv Hf).
      + apply emits_of_in in Hw as [n Hn']. specialize (Het _ _ _ _ Hn'). rewrite (Pe _ _ _ _ Hn'), N1 in Het. exact Het.
  Qed.

  Lemma gstep_inv y g : sys_inv y -> gadm y g -> sys_inv (gstep y g).
  Proof.
    intros Hi Ha. destruct g as [d|j e|j [[r p] sg]|[[r p] sg]|b]; simpl in *.
    - (* real time passes *)
      destruct Ha as [Hd Hnd]. destruct Hi as [HT [Hn [Hk Hpool]]].
      assert (Hcr : cr C (y_time y) <= cr C (y_time y + d)).
      { unfold cr. apply current_round_mono; try assumption. lia. }
      split; [exact Hnd|]. split; [|split].
      + rewrite Forall_forall in *. intros s' Hs'. apply in_map_iff in Hs' as [s [<- Hs]].
        destruct (Hn s Hs) as [N1 [N3 [N6 [N7 [N8 [N9 N10]]]]]].
        unfold node_ok. cbn [y_time y_pool y_known advance_clock s_now s_grp s_cache s_chain].
        split; [congruence|].
        split; [exact N3|]. split; [exact N6|].
        split; [exact N7|]. split; [exact N8|]. split; [exact N9|exact N10].
      + intros b Hb. exact (Hk b Hb).
      + intros r p sg P Hw Hv Hf. cbn [y_pool y_time] in *. specialize (Hpool r p sg P Hw Hv Hf). lia.
    - destruct (nth_error (y_nodes y) j) as [s|] eqn:Hnth.
      + eapply node_step_inv; [exact Hi|exact Hnth|]. destruct e; try exact Ha; contradiction.
      + unfold Net.node_step. rewrite Hnth. exact Hi.
    - destruct (nth_error (y_nodes y) j) as [s|] eqn:Hnth.
      + eapply node_step_inv; [exact Hi|exact Hnth|exact Ha].
      + unfold Net.node_step. rewrite Hnth. exact Hi.
    - destruct Hi as [HT [Hn [Hk Hpool]]].
      set (y' := mkSys (y_time y) (y_nodes y) (y_pool y ++ [(r, p, sg)]) (y_known y)).
      assert (Hext : ext y y') by (split; [reflexivity|]; split; [intros x Hx; apply in_or_app; left; exact Hx|apply incl_refl]).
      split; [exact HT|]. split; [|split].
      + rewrite Forall_forall in *. intros s Hs. apply (node_ok_ext y y'); [exact Hext|auto].
      + intros b Hb. apply (contributed_ext y y'); [apply Hext|exact (Hk b Hb)].
      + intros r0 p0 sg0 P Hw Hv Hf. cbn [y_pool y_time y'] in *. apply in_app_or in Hw as [Hw|[Hw|[]]].
        * exact (Hpool _ _ _ P Hw Hv Hf).
        * inversion Hw; subst. exact (Hpool _ _ _ P (Ha P Hv Hf) Hv Hf).
    - destruct Hi as [HT [Hn [Hk Hpool]]].
      set (y' := mkSys (y_time y) (y_nodes y) (y_pool y) (y_known y ++ [b])).
      assert (Hext : ext y y') by (split; [reflexivity|]; split; [apply incl_refl|intros x Hx; apply in_or_app; left; exact Hx]).
      split; [exact HT|]. split; [|split].
      + rewrite Forall_forall in *. intros s Hs. apply (node_ok_ext y y'); [exact Hext|auto].
      + intros b0 Hb. cbn [y_known y'] in Hb. apply in_app_or in Hb as [Hb|[<-|[]]].
        * exact (Hk b0 Hb).
        * destruct Ha as [Hc|[b' [Hb' E]]]; [exact Hc|]. rewrite <- E. exact (Hk b' Hb').
      + exact Hpool.
  Qed.

  (* the executable admissibility check of the correspondence driver is sound *)
  Lemma wire_eqb_eq a b : wire_eqb a b = true -> a = b.
  Proof.
    destruct a as [[a1 a2] a3], b as [[b1 b2] b3]. unfold wire_eqb. intros H.
    apply andb_true_iff in H as [H H3]. apply andb_true_iff in H as [H1 H2].
    apply Z.eqb_eq in H1, H2, H3. subst. reflexivity.
  Qed.

  Variable polys : list Z.        (* the sharings that exist: no partial verifies under anything else *)
  Hypothesis vpart_polys : forall P r p sg, vpart P r p sg = true -> In P polys.

  Lemma gadm_b_sound y g : gadm_b C idx_of vpart vrec thr_of F_of polys y g = true -> gadm y g.
  Proof.
    destruct g as [d|j e|j w|[[r p] sg]|b]; simpl; intros H.
    - apply andb_true_iff in H as [H1 H2]. split; [apply Z.leb_le; exact H1|].
      unfold now_dom_b in H2. unfold now_dom, dom_t. apply orb_true_iff in H2 as [H2|H2].
      + left. apply Z.ltb_lt; exact H2.
      + right. apply andb_true_iff in H2 as [A B]. apply Z.leb_le in A, B. split; assumption.
    - assert (Hserved : forall sy,
                match sy with
                | None => true
                | Some bs => forallb (fun b => negb (vrec (b_round b) (b_prev b) (b_sig b))
                                               || existsb (fun b' => b_round b' =? b_round b) (y_known y)) bs
                end = true -> stream_ok y sy).
      { intros sy Hs bs E b Hb Hv. subst sy. rewrite forallb_forall in Hs. specialize (Hs b Hb).
        rewrite Hv in Hs. simpl in Hs. apply existsb_exists in Hs as [b' [Hb' Er]]. apply Z.eqb_eq in Er.
        exists b'. split; assumption. }
      destruct e as [d|d| |rho sy|rho sy|r p sg| |sy|tg g'|upto bs]; simpl; try discriminate; try exact I.
      + apply Hserved; exact H.
      + apply Hserved; exact H.
      + apply Hserved; exact H.
      + unfold okgrp. apply Z.eqb_eq; exact H.
      + apply (Hserved (Some bs)); exact H.
    - apply existsb_exists in H as [x [Hx E]]. apply wire_eqb_eq in E. subst; exact Hx.
    - intros P Hv Hf. apply orb_true_iff in H as [H|H].
      + rewrite forallb_forall in H. specialize (H P (vpart_polys _ _ _ _ Hv)).
        rewrite Hv in H. simpl in H. apply negb_true_iff in H. apply negb_false_iff in H.
        apply existsb_exists in H as [x [Hx E]]. apply Z.eqb_eq in E. subst. contradiction.
      + apply existsb_exists in H as [x [Hx E]]. apply wire_eqb_eq in E. subst; exact Hx.
    - discriminate.
  Qed.

  Fixpoint gadm_b_run (y : sys) (gs : list gevent) : bool :=
    match gs with
    | [] => true
    | g :: gs' => gadm_b C idx_of vpart vrec thr_of F_of polys y g && gadm_b_run (gstep y g) gs'
    end.

  Lemma gadm_b_run_sound gs : forall y, gadm_b_run y gs = true -> gadm_run y gs.
  Proof.
    induction gs as [|g gs IH]; intros y H; simpl in *; [exact I|].
    apply andb_true_iff in H as [H1 H2]. split; [apply gadm_b_sound; exact H1|apply IH; exact H2].
  Qed.

  (* every reachable state of the system satisfies the invariant *)
  Theorem sys_safe gs : forall y, sys_inv y -> gadm_run y gs -> sys_inv (grun y gs).
  Proof.
    induction gs as [|g gs IH]; intros y Hi Ha; [exact Hi|].
    destruct Ha as [Ha1 Ha2]. unfold Net.grun. simpl. apply IH; [apply gstep_inv; assumption|exact Ha2].
  Qed.

  (* the initial state satisfies the invariant *)
  Lemma init_inv now gs : now_dom (c_genesis C) now ->
    (forall g, In g gs -> okgrp thr_of g) -> sys_inv (init_sys gen now gs).
  Proof.
    intros Hn Hgs. split; [exact Hn|]. split; [|split].
    - apply Forall_forall. intros s Hs. apply in_map_iff in Hs as [g [<- Hgin]].
      pose proof (Hgs g Hgin) as G1. unfold node_ok.
      cbn [s_now s_grp s_cache s_chain s_pending y_time y_known y_pool init_sys gp].
      split; [reflexivity|].
      split; [split; cbn [s_grp s_pending]; [exact G1|intros ? ? E; discriminate]|].
      split; [intros e []|]. split; [intros b [<-|[]]; left; reflexivity|].
      split; [simpl; auto|]. split; [discriminate|reflexivity].
    - intros b [].
    - intros r p sg P [].
  Qed.

  (* ---------- the properties, in every reachable state ---------- *)

  (* C04: no beacon of a future round exists anywhere -- not in an honest store, not in the
     adversary's hands -- and no valid partial of an index outside F is for a future round *)
  Theorem net_no_future y : sys_inv y ->
    (forall b, In b (y_known y) -> b_round b <= cr C (y_time y)) /\
    (forall s, In s (y_nodes y) -> forall b, In b (s_chain s) -> b_round b <= cr C (y_time y)) /\
    (forall r p sg P, In (r, p, sg) (y_pool y) -> vpart P r p sg = true -> ~ In (idx_of sg) (F_of P) ->
       r <= cr C (y_time y)).
  Proof.
    intros Hi. split; [apply known_timely; exact Hi|]. split.
    - intros s Hs. apply chain_timely; [exact Hi|]. destruct Hi as [_ [Hn _]]. rewrite Forall_forall in Hn. auto.
    - destruct Hi as [_ [_ [_ Hpool]]]. exact Hpool.
  Qed.

  (* C03: every beacon in an honest chain (beyond genesis) had valid partials of at least t
     distinct indices for exactly its round on the wire, at least t - |F| of them outside F *)
  Definition honest_sig (P : Z) (x : Z) : bool := negb (existsb (Z.eqb (idx_of x)) (F_of P)).

  Lemma honest_count P I : NoDup (map idx_of I) ->
    Z.of_nat (length I) - Z.of_nat (length (F_of P)) <= Z.of_nat (length (filter (honest_sig P) I)).
  Proof.
    intros Hn. rewrite (filter_split_length (honest_sig P) I) at 1.
    assert (Hb : (length (filter (fun x => negb (honest_sig P x)) I) <= length (F_of P))%nat).
    { rewrite <- (map_length idx_of). apply NoDup_incl_length; [apply NoDup_map_filter; exact Hn|].
      intros i Hi. apply in_map_iff in Hi as [x [<- Hx]]. apply filter_In in Hx as [_ Hx].
      unfold honest_sig in Hx. rewrite negb_involutive in Hx. apply existsb_exists in Hx as [f [Hf E]].
      apply Z.eqb_eq in E. subst; exact Hf. }
    lia.
  Qed.

  Theorem net_threshold y : sys_inv y ->
    forall s, In s (y_nodes y) -> forall b, In b (s_chain s) -> b <> gen ->
    exists P p I, NoDup (map idx_of I) /\ thr_of P <= Z.of_nat (length I) /\
      (forall x, In x I -> In (b_round b, p, x) (y_pool y) /\ vpart P (b_round b) p x = true) /\
      thr_of P - Z.of_nat (length (F_of P)) <= Z.of_nat (length (filter (honest_sig P) I)).
  Proof.
    intros [_ [Hn [Hk _]]] s Hs b Hb Hne. rewrite Forall_forall in Hn.
    destruct (Hn s Hs) as [_ [_ [_ [N7 _]]]].
    destruct (N7 b Hb) as [->|[b' [Hkb E]]]; [contradiction|].
    destruct (Hk b' Hkb) as [P [p [I [Hnd [Ht Hx]]]]]. rewrite E in Hx. exists P, p, I.
    split; [exact Hnd|]. split; [exact Ht|]. split; [exact Hx|].
    pose proof (honest_count P I Hnd). lia.
  Qed.

  (* ... stated over runs *)
  Theorem run_no_future y0 gs : sys_inv y0 -> gadm_run y0 gs ->
    let y := grun y0 gs in
    (forall b, In b (y_known y) -> b_round b <= cr C (y_time y)) /\
    (forall s, In s (y_nodes y) -> forall b, In b (s_chain s) -> b_round b <= cr C (y_time y)) /\
    (forall r p sg P, In (r, p, sg) (y_pool y) -> vpart P r p sg = true -> ~ In (idx_of sg) (F_of P) ->
       r <= cr C (y_time y)).
  Proof. intros Hi Ha. apply net_no_future. apply sys_safe; assumption. Qed.

  Theorem run_threshold y0 gs : sys_inv y0 -> gadm_run y0 gs ->
    let y := grun y0 gs in
    forall s, In s (y_nodes y) -> forall b, In b (s_chain s) -> b <> gen ->
    exists P p I, NoDup (map idx_of I) /\ thr_of P <= Z.of_nat (length I) /\
      (forall x, In x I -> In (b_round b, p, x) (y_pool y) /\ vpart P (b_round b) p x = true) /\
      thr_of P - Z.of_nat (length (F_of P)) <= Z.of_nat (length (filter (honest_sig P) I)).
  Proof. intros Hi Ha. apply net_threshold. apply sys_safe; assumption. Qed.

  (* C07: across any number of resharings every honest chain stays one valid chain from the one
     genesis (no fork, no restart, no gap), and every node's live and pending groups carry the
     threshold of their own sharing *)
  Theorem run_continuity y0 gs : sys_inv y0 -> gadm_run y0 gs ->
    let y := grun y0 gs in
    forall s, In s (y_nodes y) ->
      chain_ok C vrec (s_chain s) /\ genesis_of (s_chain s) = gen /\ grp_ok thr_of s.
  Proof.
    intros Hi Ha y s Hs. destruct (sys_safe gs y0 Hi Ha) as [_ [Hn _]]. rewrite Forall_forall in Hn.
    destruct (Hn s Hs) as [_ [G [_ [_ [Cc [_ Ge]]]]]]. auto.
  Qed.

  (* C02: any two honest nodes hold the same beacon for every round both hold *)
  Hypothesis vrec_unique : forall r p s1 s2, vrec r p s1 = true -> vrec r p s2 = true -> s1 = s2.

  Theorem net_agree y : sys_inv y -> forall s1 s2, In s1 (y_nodes y) -> In s2 (y_nodes y) ->
    forall b1 b2, In b1 (s_chain s1) -> In b2 (s_chain s2) -> b_round b1 = b_round b2 -> b1 = b2.
  Proof.
    intros [_ [Hn _]] s1 s2 H1 H2 b1 b2 Hb1 Hb2 Er. rewrite Forall_forall in Hn.
    destruct (Hn s1 H1) as [_ [_ [_ [_ [C1 [Ne1 G1]]]]]].
    destruct (Hn s2 H2) as [_ [_ [_ [_ [C2 [Ne2 G2]]]]]].
    pose proof (chain_ok_rounds C vrec _ C1 b1 Hb1) as Hr. rewrite G1, gen_round in Hr.
    apply (chains_agree C vrec vrec_unique (s_chain s1) (s_chain s2) C1 C2 Ne1 Ne2 (eq_trans G1 (eq_sym G2))
             (Z.to_nat (b_round b1)) b1 b2 Hb1 Hb2); [|auto].
    rewrite G1, gen_round. lia.
  Qed.
  Theorem run_agree y0 gs : sys_inv y0 -> gadm_run y0 gs ->
    let y := grun y0 gs in
    forall s1 s2, In s1 (y_nodes y) -> In s2 (y_nodes y) ->
    forall b1 b2, In b1 (s_chain s1) -> In b2 (s_chain s2) -> b_round b1 = b_round b2 -> b1 = b2.
  Proof. intros Hi Ha. apply net_agree. apply sys_safe; assumption. Qed.
End NetSys.
