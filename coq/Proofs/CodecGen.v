(* Lemmas about the GENERATED mirror table (Gen/Mirrors.v): the chain of verified pairs used by
   Props/C20.v and Props/C17.v, the typed views (chain info, group) of generic records, and the
   fact that the hashed projection of a value survives the normalisations of a round trip.
   Everything here depends on the table as regenerated from the Go sources on every run. *)
From Coq Require Import String ZArith List Bool Lia.
From DV Require Import Model.ByteEnc Gen.HashOrder Model.Hashes Model.CodecVocab Model.Codec
  Proofs.HashesProofs Proofs.CodecProofs Gen.Mirrors.
Import ListNotations.
Open Scope string_scope.
Open Scope Z_scope.
Open Scope list_scope.

(* a verified pair of the generated table, with its well-formedness predicate and normaliser *)
Definition mk_vp (verified : list vpair) (a b : string) : vpair :=
  match lookup mirrors a, lookup mirrors b with
  | Some enc, Some dec => (a, b, wf_rec verified enc dec, norm_rec verified enc dec)
  | _, _ => (a, b, fun _ => False, fun r => r)
  end.

Definition V0 : list vpair := [].
Definition vDistPublic := mk_vp V0 "DistPublic.TOML" "DistPublic.FromTOML".
Definition vIdentityTOML := mk_vp V0 "Identity.TOML" "Identity.FromTOML".
Definition vIdentityProto := mk_vp V0 "Identity.ToProto" "IdentityFromProto".
Definition vIdentityProtoInl := mk_vp V0 "Group.ToProto#ids#Public" "IdentityFromProto".
Definition vPair := mk_vp V0 "Pair.TOML" "Pair.FromTOML".
Definition vShare := mk_vp V0 "Share.TOML" "Share.FromTOML".
Definition V1 : list vpair := [vIdentityTOML; vIdentityProtoInl].
Definition vNodeTOML := mk_vp V1 "Node.TOML" "Node.FromTOML".
Definition vNodeProto := mk_vp V1 "Group.ToProto#ids" "NodeFromProto".
Definition V2 : list vpair := [vNodeTOML; vNodeProto; vDistPublic].
Definition vGroupTOML := mk_vp V2 "Group.TOML" "Group.FromTOML".
Definition vGroupProto := mk_vp V2 "Group.ToProto" "GroupFromProto".
Definition V3 : list vpair := [vGroupTOML; vShare].
Definition vDBState := mk_vp V3 "DBState.TOML" "DBStateTOML.FromTOML".
Definition vInfoProto := mk_vp V0 "Info.ToProto" "InfoFromProto".
Definition vInfoJSON := mk_vp V0 "Info.MarshalJSON" "Info.UnmarshalJSON".
Definition vBeaconProto := mk_vp V0 "beaconToProto" "protoToBeacon".
Definition vBeaconJSON := mk_vp V0 "Beacon.MarshalJSON" "Beacon.UnmarshalJSON".

Definition all_pairs : list vpair :=
  [vDistPublic; vIdentityTOML; vIdentityProto; vIdentityProtoInl; vPair; vShare; vNodeTOML; vNodeProto;
   vGroupTOML; vGroupProto; vDBState; vInfoProto; vInfoJSON; vBeaconProto; vBeaconJSON].

(* the per-run obligation of a pair *)
Definition ok (verified : list vpair) (p : vpair) : bool :=
  roundtrip_ok mirrors (vnames verified) (vp_a p) (vp_b p).

Definition dur_laws (dur_str : Z -> bytes) (parse_dur : bytes -> option Z) : Prop :=
  (forall d, parse_dur (dur_str d) = Some d) /\ (forall d, dur_str d <> []).

Definition sound (ds : Z -> bytes) (pd : bytes -> option Z) (p : vpair) : Prop :=
  pair_sound ds pd mirrors (vp_a p) (vp_b p) (vp_P p) (vp_R p).

Section Chain.
  Variables (ds : Z -> bytes) (pd : bytes -> option Z).
  Hypothesis laws : dur_laws ds pd.
  (* the obligations, discharged by vm_compute in Props/C20.v *)
  Hypothesis o_DistPublic : ok V0 vDistPublic = true.
  Hypothesis o_Identity_TOML : ok V0 vIdentityTOML = true.
  Hypothesis o_Identity_proto : ok V0 vIdentityProto = true.
  Hypothesis o_Identity_proto_inline : ok V0 vIdentityProtoInl = true.
  Hypothesis o_Pair : ok V0 vPair = true.
  Hypothesis o_Share : ok V0 vShare = true.
  Hypothesis o_Node_TOML : ok V1 vNodeTOML = true.
  Hypothesis o_Node_proto : ok V1 vNodeProto = true.
  Hypothesis o_Group_TOML : ok V2 vGroupTOML = true.
  Hypothesis o_Group_proto : ok V2 vGroupProto = true.
  Hypothesis o_DBState : ok V3 vDBState = true.
  Hypothesis o_Info_proto : ok V0 vInfoProto = true.
  Hypothesis o_Info_JSON : ok V0 vInfoJSON = true.
  Hypothesis o_Beacon_proto : ok V0 vBeaconProto = true.
  Hypothesis o_Beacon_JSON : ok V0 vBeaconJSON = true.

  Lemma mk_vp_sound : forall verified a b,
    (forall p, In p verified -> sound ds pd p) ->
    roundtrip_ok mirrors (vnames verified) a b = true -> sound ds pd (mk_vp verified a b).
  Proof.
    intros verified a b HV OK. unfold sound, mk_vp.
    destruct (lookup mirrors a) as [enc|] eqn:La; [|unfold roundtrip_ok in OK; rewrite La in OK; discriminate].
    destruct (lookup mirrors b) as [dec|] eqn:Lb; [|unfold roundtrip_ok in OK; rewrite La, Lb in OK; discriminate].
    destruct laws as [L1 L2]. simpl. apply (roundtrip_sound ds pd L1 L2 mirrors verified HV a b enc dec La Lb OK).
  Qed.

  Lemma all_sound : forall l : list vpair, Forall (sound ds pd) l -> forall p, In p l -> sound ds pd p.
  Proof. intros l F p I. rewrite Forall_forall in F. auto. Qed.

  Lemma sound_V0 : forall p, In p V0 -> sound ds pd p. Proof. intros p []. Qed.
  Lemma s_DistPublic : sound ds pd vDistPublic. Proof. apply mk_vp_sound; [exact sound_V0 | exact o_DistPublic]. Qed.
  Lemma s_Identity_TOML : sound ds pd vIdentityTOML. Proof. apply mk_vp_sound; [exact sound_V0 | exact o_Identity_TOML]. Qed.
  Lemma s_Identity_proto : sound ds pd vIdentityProto. Proof. apply mk_vp_sound; [exact sound_V0 | exact o_Identity_proto]. Qed.
  Lemma s_Identity_proto_inl : sound ds pd vIdentityProtoInl. Proof. apply mk_vp_sound; [exact sound_V0 | exact o_Identity_proto_inline]. Qed.
  Lemma s_Pair : sound ds pd vPair. Proof. apply mk_vp_sound; [exact sound_V0 | exact o_Pair]. Qed.
  Lemma s_Share : sound ds pd vShare. Proof. apply mk_vp_sound; [exact sound_V0 | exact o_Share]. Qed.
  Lemma sound_V1 : forall p, In p V1 -> sound ds pd p.
  Proof. apply all_sound. repeat constructor; [exact s_Identity_TOML | exact s_Identity_proto_inl]. Qed.
  Lemma s_Node_TOML : sound ds pd vNodeTOML. Proof. apply mk_vp_sound; [exact sound_V1 | exact o_Node_TOML]. Qed.
  Lemma s_Node_proto : sound ds pd vNodeProto. Proof. apply mk_vp_sound; [exact sound_V1 | exact o_Node_proto]. Qed.
  Lemma sound_V2 : forall p, In p V2 -> sound ds pd p.
  Proof. apply all_sound. repeat constructor; [exact s_Node_TOML | exact s_Node_proto | exact s_DistPublic]. Qed.
  Lemma s_Group_TOML : sound ds pd vGroupTOML. Proof. apply mk_vp_sound; [exact sound_V2 | exact o_Group_TOML]. Qed.
  Lemma s_Group_proto : sound ds pd vGroupProto. Proof. apply mk_vp_sound; [exact sound_V2 | exact o_Group_proto]. Qed.
  Lemma sound_V3 : forall p, In p V3 -> sound ds pd p.
  Proof. apply all_sound. repeat constructor; [exact s_Group_TOML | exact s_Share]. Qed.
  Lemma s_DBState : sound ds pd vDBState. Proof. apply mk_vp_sound; [exact sound_V3 | exact o_DBState]. Qed.
  Lemma s_Info_proto : sound ds pd vInfoProto. Proof. apply mk_vp_sound; [exact sound_V0 | exact o_Info_proto]. Qed.
  Lemma s_Info_JSON : sound ds pd vInfoJSON. Proof. apply mk_vp_sound; [exact sound_V0 | exact o_Info_JSON]. Qed.
  Lemma s_Beacon_proto : sound ds pd vBeaconProto. Proof. apply mk_vp_sound; [exact sound_V0 | exact o_Beacon_proto]. Qed.
  Lemma s_Beacon_JSON : sound ds pd vBeaconJSON. Proof. apply mk_vp_sound; [exact sound_V0 | exact o_Beacon_JSON]. Qed.

  Lemma roundtrip_all : forall p, In p all_pairs -> sound ds pd p.
  Proof.
    intros p I. simpl in I.
    repeat (destruct I as [<-|I];
      [first [exact s_DistPublic | exact s_Identity_TOML | exact s_Identity_proto | exact s_Identity_proto_inl
             | exact s_Pair | exact s_Share | exact s_Node_TOML | exact s_Node_proto | exact s_Group_TOML
             | exact s_Group_proto | exact s_DBState | exact s_Info_proto | exact s_Info_JSON
             | exact s_Beacon_proto | exact s_Beacon_JSON] |]).
    contradiction.
  Qed.
End Chain.

(* ---- decode-side checks ---- *)
Lemma check_in_rejects : forall hp hs d r c, In c (m_checks d) -> chk_rejects hp hs r c = true ->
  checks_reject hp hs d r = true.
Proof. intros. unfold checks_reject. apply existsb_exists. eauto. Qed.

Lemma decode_reject : forall ds pd hp hs name d r c, lookup mirrors name = Some d -> In c (m_checks d) ->
  chk_rejects hp hs r c = true -> decode ds pd hp hs mirrors name r = None.
Proof.
  intros. unfold decode. eapply den_chk_reject; eauto. eapply check_in_rejects; eauto.
Qed.

(* ---- what a round trip leaves untouched ---- *)
Definition plain (c : rtclass) : bool :=
  match c with
  | RExternal | RCanonID | RNested _ _ | ROptNested _ _ | RMapNested _ _ | RPartial _ => false
  | _ => true
  end.
Lemma plain_cres : forall V c v, plain c = true -> cres V c v = v.
Proof. intros V c v H. destruct c; try discriminate; reflexivity. Qed.

Lemma norm_plain : forall V enc dec r,
  forallb (fun l => match leaf_class enc dec l with Some c => plain c | None => true end) (map fst r) = true ->
  norm_rec V enc dec r = r.
Proof.
  intros V enc dec r H. unfold norm_rec. rewrite <- (map_id r) at 2. apply map_ext_in.
  intros [k v] I. simpl. rewrite forallb_forall in H. specialize (H k (in_map fst _ _ I)). simpl in H.
  destruct (leaf_class enc dec k); auto. rewrite plain_cres; auto.
Qed.

Lemma get_norm : forall V enc dec r leaf,
  get leaf (norm_rec V enc dec r) =
  option_map (fun v => match leaf_class enc dec leaf with Some c => cres V c v | None => v end) (get leaf r).
Proof.
  intros V enc dec r leaf. unfold norm_rec. induction r as [|[k v] r]; simpl; auto.
  destruct (path_eqb k leaf) eqn:E; auto. apply path_eqb_eq in E. subst. reflexivity.
Qed.

(* ---- typed views ---- *)
Definition bytes_of (v : option val) : bytes := match v with Some (VBytes b) => b | _ => [] end.
Definition int_of (v : option val) : Z := match v with Some (VInt z) => z | _ => 0 end.
Definition rec_of (v : option val) : record := match v with Some (VRec r) => r | _ => [] end.
Definition list_of (v : option val) : list val := match v with Some (VList l) => l | _ => [] end.

Definition info_of_record (r : record) : minfo :=
  {| i_pk := bytes_of (get ["PublicKey"] r); i_id := bytes_of (get ["ID"] r); i_period := int_of (get ["Period"] r);
     i_scheme := bytes_of (get ["Scheme"] r); i_genesis := int_of (get ["GenesisTime"] r);
     i_seed := bytes_of (get ["GenesisSeed"] r) |}.

(* the hashed projection of a group record (address, signature, period, scheme, seed are not hashed) *)
Definition node_of_val (v : val) : mnode :=
  match v with
  | VRec nr => {| n_idx := int_of (get ["Index"] nr); n_key := bytes_of (get ["Key"] (rec_of (get ["Identity"] nr)));
                  n_addr := []; n_sig := [] |}
  | _ => {| n_idx := 0; n_key := []; n_addr := []; n_sig := [] |}
  end.
Definition coeffs_of (v : option val) : option (list bytes) :=
  match v with
  | Some (VRec dr) => Some (map (fun c => bytes_of (Some c)) (list_of (get ["Coefficients"] dr)))
  | _ => None
  end.
Definition group_of_record (r : record) : mgroup :=
  {| g_thr := int_of (get ["Threshold"] r); g_period := 0; g_catchup := 0; g_scheme := [];
     g_id := bytes_of (get ["ID"] r); g_nodes := map node_of_val (list_of (get ["Nodes"] r));
     g_genesis := int_of (get ["GenesisTime"] r); g_seed := None; g_ttime := int_of (get ["TransitionTime"] r);
     g_pk := coeffs_of (get ["PublicKey"] r) |}.

Lemma vp_R_GroupTOML : vp_R vGroupTOML = norm_rec V2 mir_Group_TOML mir_Group_FromTOML. Proof. reflexivity. Qed.
Lemma vp_R_GroupProto : vp_R vGroupProto = norm_rec V2 mir_Group_ToProto mir_GroupFromProto. Proof. reflexivity. Qed.
Lemma vp_R_NodeTOML : vp_R vNodeTOML = norm_rec V1 mir_Node_TOML mir_Node_FromTOML. Proof. reflexivity. Qed.
Lemma vp_R_NodeProto : vp_R vNodeProto = norm_rec V1 mir_Group_ToProto__ids mir_NodeFromProto. Proof. reflexivity. Qed.
Lemma vp_R_IdentityTOML : vp_R vIdentityTOML = norm_rec V0 mir_Identity_TOML mir_Identity_FromTOML. Proof. reflexivity. Qed.
Lemma vp_R_IdentityProtoInl : vp_R vIdentityProtoInl = norm_rec V0 mir_Group_ToProto__ids__Public mir_IdentityFromProto. Proof. reflexivity. Qed.
Lemma vp_R_DistPublic : vp_R vDistPublic = norm_rec V0 mir_DistPublic_TOML mir_DistPublic_FromTOML. Proof. reflexivity. Qed.

Lemma vf_IdT : vfind V1 "Identity.TOML" "Identity.FromTOML" = Some vIdentityTOML. Proof. reflexivity. Qed.
Lemma vf_IdP : vfind V1 "Group.ToProto#ids#Public" "IdentityFromProto" = Some vIdentityProtoInl. Proof. reflexivity. Qed.
Lemma vf_NodeT : vfind V2 "Node.TOML" "Node.FromTOML" = Some vNodeTOML. Proof. reflexivity. Qed.
Lemma vf_NodeP : vfind V2 "Group.ToProto#ids" "NodeFromProto" = Some vNodeProto. Proof. reflexivity. Qed.
Lemma vf_DistT : vfind V2 "DistPublic.TOML" "DistPublic.FromTOML" = Some vDistPublic. Proof. reflexivity. Qed.

Ltac cls := repeat match goal with |- context[leaf_class ?e ?d ?l] =>
  let c := eval vm_compute in (leaf_class e d l) in change (leaf_class e d l) with c end.

Lemma key_norm_IdT : forall o, bytes_of (get ["Key"] (rec_of (option_map (nres (vp_R vIdentityTOML)) o))) =
                               bytes_of (get ["Key"] (rec_of o)).
Proof.
  intros [v|]; [|reflexivity]. destruct v; try reflexivity.
  change (bytes_of (get ["Key"] (vp_R vIdentityTOML r)) = bytes_of (get ["Key"] r)).
  rewrite vp_R_IdentityTOML, get_norm. cls. simpl. destruct (get ["Key"] r); reflexivity.
Qed.
Lemma key_norm_IdP : forall o, bytes_of (get ["Key"] (rec_of (option_map (nres (vp_R vIdentityProtoInl)) o))) =
                               bytes_of (get ["Key"] (rec_of o)).
Proof.
  intros [v|]; [|reflexivity]. destruct v; try reflexivity.
  change (bytes_of (get ["Key"] (vp_R vIdentityProtoInl r)) = bytes_of (get ["Key"] r)).
  rewrite vp_R_IdentityProtoInl, get_norm. cls. simpl. destruct (get ["Key"] r); reflexivity.
Qed.

Lemma node_norm_TOML : forall x, node_of_val (nres (vp_R vNodeTOML) x) = node_of_val x.
Proof.
  destruct x; try reflexivity. unfold nres. rewrite vp_R_NodeTOML. unfold node_of_val.
  rewrite !get_norm. cls. unfold cres. rewrite vf_IdT.
  f_equal.
  - destruct (get ["Index"] r); reflexivity.
  - apply key_norm_IdT.
Qed.
Lemma node_norm_proto : forall x, node_of_val (nres (vp_R vNodeProto) x) = node_of_val x.
Proof.
  destruct x; try reflexivity. unfold nres. rewrite vp_R_NodeProto. unfold node_of_val.
  rewrite !get_norm. cls. unfold cres. rewrite vf_IdP.
  f_equal.
  - destruct (get ["Index"] r); reflexivity.
  - apply key_norm_IdP.
Qed.

Lemma coeffs_norm : forall o, coeffs_of (option_map (nres (vp_R vDistPublic)) o) = coeffs_of o.
Proof.
  intros [v|]; [|reflexivity]. destruct v; try reflexivity.
  change (Some (map (fun c => bytes_of (Some c)) (list_of (get ["Coefficients"] (vp_R vDistPublic r)))) =
          Some (map (fun c => bytes_of (Some c)) (list_of (get ["Coefficients"] r)))).
  rewrite vp_R_DistPublic, get_norm. cls. simpl. destruct (get ["Coefficients"] r); reflexivity.
Qed.

(* the hashed projection of a group that went through the TOML / protobuf round trip is the
   projection of the original with the id in canonical form *)
Lemma group_norm_TOML : forall r,
  group_of_record (vp_R vGroupTOML r) =
  g_with_id (group_of_record r) (match get ["ID"] r with Some (VBytes id) => canon_id id | _ => [] end).
Proof.
  intros r. rewrite vp_R_GroupTOML. unfold group_of_record, g_with_id. simpl.
  rewrite !get_norm. cls. unfold cres. rewrite vf_NodeT, vf_DistT.
  f_equal.
  - destruct (get ["Threshold"] r); reflexivity.
  - destruct (get ["ID"] r) as [[]|]; reflexivity.
  - destruct (get ["Nodes"] r) as [[]|]; simpl; auto. rewrite map_map. apply map_ext. apply node_norm_TOML.
  - destruct (get ["GenesisTime"] r); reflexivity.
  - destruct (get ["TransitionTime"] r); reflexivity.
  - apply coeffs_norm.
Qed.
Lemma group_norm_proto : forall r,
  group_of_record (vp_R vGroupProto r) =
  g_with_id (group_of_record r) (match get ["ID"] r with Some (VBytes id) => canon_id id | _ => [] end).
Proof.
  intros r. rewrite vp_R_GroupProto. unfold group_of_record, g_with_id. simpl.
  rewrite !get_norm. cls. unfold cres. rewrite vf_NodeP.
  f_equal.
  - destruct (get ["Threshold"] r); reflexivity.
  - destruct (get ["ID"] r) as [[]|]; reflexivity.
  - destruct (get ["Nodes"] r) as [[]|]; simpl; auto. rewrite map_map. apply map_ext. apply node_norm_proto.
  - destruct (get ["GenesisTime"] r); reflexivity.
  - destruct (get ["TransitionTime"] r); reflexivity.
  - destruct (get ["PublicKey"] r); reflexivity.
Qed.

Lemma group_hash_canon : forall H256 Hb g id,
  id_bytes id = id_bytes (g_id g) -> group_hash H256 Hb (g_with_id g id) = group_hash H256 Hb g.
Proof.
  intros. rewrite !group_hash_eq. f_equal. rewrite !group_pre_eq. simpl. rewrite H. reflexivity.
Qed.

Lemma group_hash_preserved : forall H256 Hb p, In p [vGroupTOML; vGroupProto] -> forall r,
  group_hash H256 Hb (group_of_record (vp_R p r)) = group_hash H256 Hb (group_of_record r).
Proof.
  intros H256 Hb p I r. simpl in I. destruct I as [<-|[<-|[]]];
    [rewrite group_norm_TOML | rewrite group_norm_proto]; apply group_hash_canon; simpl;
    destruct (get ["ID"] r) as [[]|]; simpl; auto using id_bytes_canon.
Qed.
