(* Proofs over Model/Ticker.v: what a tick delivered to a channel guarantees. *)
From Coq Require Import ZArith List Bool Lia.
From DV Require Import Model.Time Model.Ticker Proofs.TimeProofs.
Import ListNotations.
Open Scope Z_scope.

Section Ticker.
  Variables p g : Z.

  Lemma deliveries_from_sound t chans : forall i d,
    In d (deliveries_from p g t i chans) ->
    exists a, nth_error chans (tk_chan d - i) = Some a /\ (i <= tk_chan d)%nat /\
              a <= t /\ tk_time d = t /\ tk_round d = current_round t p g.
  Proof.
    induction chans as [|a rest IH]; intros i d Hin; cbn [deliveries_from] in Hin.
    - destruct Hin.
    - apply in_app_or in Hin. destruct Hin as [Hin|Hin].
      + destruct (a <=? t) eqn:Ha; [|destruct Hin].
        destruct Hin as [<-|[]]. cbn [tk_chan tk_time tk_round].
        exists a. rewrite Nat.sub_diag. cbn. repeat split; try lia; try (apply Z.leb_le; exact Ha).
      + destruct (IH _ _ Hin) as (a' & Hn & Hi & Ha & Ht & Hr).
        exists a'. repeat split; try assumption; try lia.
        replace (tk_chan d - i)%nat with (S (tk_chan d - S i))%nat by lia. exact Hn.
  Qed.

  (* one step: every delivery goes to a registered channel whose start time is not after the
     tick's time, the tick's time is not after the clock, and its round is the current round of
     its time *)
  Lemma kstep_sound s e s' ds : kstep p g s e = (s', ds) ->
    forall d, In d ds ->
      exists a, nth_error (k_chans s') (tk_chan d) = Some a /\
                a <= tk_time d /\ tk_time d <= k_now s' /\ tk_round d = current_round (tk_time d) p g.
  Proof.
    destruct e as [n|a|stamp]; cbn [kstep]; intros H; inversion H; subst; clear H; intros d Hin;
      try (destruct Hin; fail).
    destruct (deliveries_from_sound _ _ _ _ Hin) as (a & Hn & _ & Ha & Ht & Hr).
    rewrite Nat.sub_0_r in Hn. exists a. cbn [k_chans k_now].
    split; [exact Hn|]. split; [lia|]. split; [lia|]. rewrite Ht. exact Hr.
  Qed.

  Lemma kstep_chans_prefix s e s' ds : kstep p g s e = (s', ds) ->
    exists more, k_chans s' = k_chans s ++ more.
  Proof.
    destruct e; cbn [kstep]; intros H; inversion H; subst; cbn [k_chans].
    - exists []. now rewrite app_nil_r.
    - eexists. reflexivity.
    - exists []. now rewrite app_nil_r.
  Qed.

  Lemma kstep_now_mono s e s' ds : kstep p g s e = (s', ds) -> k_now s <= k_now s'.
  Proof. destruct e; cbn [kstep]; intros H; inversion H; subst; cbn [k_now]; lia. Qed.

  (* every channel of the final state satisfies Q if the initial ones and the registered ones do *)
  Definition chans_ok (Q : Z -> Prop) (s : tk) (es : list tkev) : Prop :=
    Forall Q (k_chans s) /\ forall a, In (KChan a) es -> Q a.

  Lemma kstep_chans_ok Q s e s' ds : kstep p g s e = (s', ds) ->
    Forall Q (k_chans s) -> (forall a, e = KChan a -> Q a) -> Forall Q (k_chans s').
  Proof.
    destruct e as [n|a|stamp]; cbn [kstep]; intros H; inversion H; subst; cbn [k_chans]; intros HF HQ;
      try exact HF.
    apply Forall_app. split; [exact HF|]. constructor; [apply HQ; reflexivity|constructor].
  Qed.

  (* every delivery of every run: registered channel that satisfies Q, start <= time <= the
     clock at the moment of delivery, round = current round of the tick's time *)
  Theorem krun_sound Q : forall es s s' out, krun p g s es = (s', out) -> chans_ok Q s es ->
    forall d now, In (d, now) out ->
      exists a, Q a /\ a <= tk_time d /\ tk_time d <= now /\
                tk_round d = current_round (tk_time d) p g.
  Proof.
    induction es as [|e es IH]; intros s s' out H [HF HQ] d now Hin; cbn [krun] in H.
    - inversion H; subst. destruct Hin.
    - destruct (kstep p g s e) as [s1 ds] eqn:Hs.
      destruct (krun p g s1 es) as [s2 rest] eqn:Hr. inversion H; subst; clear H.
      assert (HF1 : Forall Q (k_chans s1)).
      { eapply kstep_chans_ok; [exact Hs|exact HF|]. intros a ->. apply HQ. now left. }
      apply in_app_or in Hin. destruct Hin as [Hin|Hin].
      + apply in_map_iff in Hin. destruct Hin as (d0 & Heq & Hd). inversion Heq; subst; clear Heq.
        destruct (kstep_sound _ _ _ _ Hs _ Hd) as (a & Hn & Ha & Ht & Hround).
        exists a. repeat split; try assumption.
        rewrite Forall_forall in HF1. apply HF1. eapply nth_error_In; exact Hn.
      + eapply IH; [exact Hr| |exact Hin]. split; [exact HF1|]. intros a Ha. apply HQ. now right.
  Qed.

  (* The beacon handler only registers channels that start at or after genesis (ChannelAt(genesis)
     in Start, ChannelAt(time of the next round) in Catchup).  Then no tick reaches it before
     genesis on its own clock, and the round a tick announces has a scheduled time that is not
     after the clock at the moment the tick is delivered -- however the clock stalled or jumped
     and however late the tick is consumed. *)
  Theorem handler_ticks_timely : forall es s s' out,
    dom_p p -> dom_g g ->
    krun p g s es = (s', out) -> chans_ok (fun a => g <= a) s es ->
    forall d now, In (d, now) out -> now - g <= 2 ^ 50 ->
      g <= tk_time d /\ tk_time d <= now /\ 1 <= tk_round d /\
      time_of_round 36 p g (tk_round d) <= now.
  Proof.
    intros es s s' out Hp Hg H Hok d now Hin Hbound.
    destruct (krun_sound _ _ _ _ _ H Hok _ _ Hin) as (a & Ha & Hat & Htn & Hr).
    assert (Hdt : dom_t g (tk_time d)) by (split; lia).
    assert (H1 : 1 <= tk_round d).
    { rewrite Hr. apply current_round_ge_1; try assumption. right; exact Hdt. }
    repeat split; try lia.
    apply Z.le_trans with (tk_time d); [|exact Htn].
    apply round_le_current_timely; try assumption; try reflexivity. split; [exact H1|]. rewrite Hr. lia.
  Qed.
End Ticker.
