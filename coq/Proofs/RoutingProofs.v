(* Lemmas and invariants for Model/Routing.v (C19). *)
From Coq Require Import ZArith List Bool Lia.
From DV Require Import Model.Routing.
Import ListNotations.
Open Scope Z_scope.

(* ---------- strings ---------- *)
Lemma str_eqb_eq : forall a b, str_eqb a b = true <-> a = b.
Proof.
  induction a as [|x a IH]; destruct b as [|y b]; simpl; split; intro E; try reflexivity; try discriminate.
  - apply andb_true_iff in E as [E1 E2]. apply Z.eqb_eq in E1. apply IH in E2. congruence.
  - inversion E; subst. rewrite Z.eqb_refl. simpl. apply IH. reflexivity.
Qed.
Lemma str_eqb_refl : forall a, str_eqb a a = true.
Proof. intro; apply str_eqb_eq; reflexivity. Qed.
Lemma str_eqb_neq : forall a b, str_eqb a b = false <-> a <> b.
Proof.
  intros a b; split; intro E.
  - intro F. apply str_eqb_eq in F. congruence.
  - destruct (str_eqb a b) eqn:F; auto. apply str_eqb_eq in F. contradiction.
Qed.
Lemma str_eq_dec : forall a b : str, {a = b} + {a <> b}.
Proof. intros a b. destruct (str_eqb a b) eqn:E; [left; apply str_eqb_eq; auto | right; apply str_eqb_neq; auto]. Qed.

Lemma is_default_spec : forall s, is_default s = true <-> (s = default_str \/ s = []).
Proof.
  intro s. unfold is_default. rewrite orb_true_iff, !str_eqb_eq. tauto.
Qed.
Lemma canon_default : forall s, is_default s = true -> canon s = default_str.
Proof. intros s E. unfold canon. rewrite E. reflexivity. Qed.
Lemma canon_other : forall s, is_default s = false -> canon s = s.
Proof. intros s E. unfold canon. rewrite E. reflexivity. Qed.
Lemma canon_idem : forall s, canon (canon s) = canon s.
Proof.
  intro s. destruct (is_default s) eqn:E.
  - rewrite (canon_default _ E). reflexivity.
  - rewrite (canon_other _ E). apply canon_other, E.
Qed.
Lemma canon_fix_nonempty : forall s, canon s = s -> s <> [].
Proof.
  intros s E F. subst s. discriminate E.
Qed.
Lemma canon_fix_default : forall s, canon s = s -> is_default s = true -> s = default_str.
Proof. intros s E D. rewrite (canon_default _ D) in E. congruence. Qed.
Lemma canon_default_str : canon default_str = default_str.
Proof. reflexivity. Qed.
Lemma is_default_canon : forall s, is_default (canon s) = is_default s.
Proof.
  intro s. unfold canon. destruct (is_default s) eqn:E; [reflexivity | exact E].
Qed.
Lemma compare_ids_spec : forall a b, compare_ids a b = true <-> canon a = canon b.
Proof.
  intros a b. unfold compare_ids, canon.
  destruct (is_default a) eqn:A, (is_default b) eqn:B; simpl.
  - tauto.
  - rewrite str_eqb_eq. split; intro E.
    + subst. congruence.
    + subst b. vm_compute in B. discriminate.
  - rewrite str_eqb_eq. split; intro E.
    + subst. congruence.
    + subst a. vm_compute in A. discriminate.
  - apply str_eqb_eq.
Qed.

(* ---------- association lists ---------- *)
Section AL.
Context {A : Type}.
Implicit Types (l : list (str * A)).
Lemma alookup_adel_eq : forall k l, alookup k (adel k l) = None.
Proof.
  induction l as [|[k' v] l IH]; simpl; auto.
  destruct (str_eqb k k') eqn:E; auto. simpl. rewrite E. exact IH.
Qed.
Lemma alookup_adel_neq : forall k k' l, k <> k' -> alookup k (adel k' l) = alookup k l.
Proof.
  induction l as [|[k2 v] l IH]; simpl; intro N; auto.
  destruct (str_eqb k' k2) eqn:E.
  - apply str_eqb_eq in E. subst k2.
    destruct (str_eqb k k') eqn:F; [apply str_eqb_eq in F; contradiction | auto].
  - simpl. destruct (str_eqb k k2); auto.
Qed.
Lemma alookup_aset_eq : forall k v l, alookup k (aset k v l) = Some v.
Proof. intros. unfold aset. simpl. rewrite str_eqb_refl. reflexivity. Qed.
Lemma alookup_aset_neq : forall k k' v l, k <> k' -> alookup k (aset k' v l) = alookup k l.
Proof.
  intros. unfold aset. simpl. destruct (str_eqb k k') eqn:F; [apply str_eqb_eq in F; contradiction|].
  apply alookup_adel_neq; auto.
Qed.
Lemma alookup_aset : forall k k' v l,
  alookup k (aset k' v l) = if str_eqb k k' then Some v else alookup k l.
Proof.
  intros. destruct (str_eqb k k') eqn:E.
  - apply str_eqb_eq in E; subst. apply alookup_aset_eq.
  - apply alookup_aset_neq. apply str_eqb_neq; auto.
Qed.
Lemma alookup_adel : forall k k' l,
  alookup k (adel k' l) = if str_eqb k k' then None else alookup k l.
Proof.
  intros. destruct (str_eqb k k') eqn:E.
  - apply str_eqb_eq in E; subst. apply alookup_adel_eq.
  - apply alookup_adel_neq. apply str_eqb_neq; auto.
Qed.
End AL.

(* ---------- hex ---------- *)
Definition hexchar (c : Z) : Prop := (48 <= c <= 57) \/ (97 <= c <= 102).
Lemma hex_digit_char : forall d, 0 <= d < 16 -> hexchar (hex_digit d).
Proof. intros d D. unfold hex_digit, hexchar. destruct (d <? 10) eqn:E; [apply Z.ltb_lt in E | apply Z.ltb_ge in E]; lia. Qed.
Lemma is_byte_spec : forall b, is_byte b = true <-> 0 <= b < 256.
Proof. intro b. unfold is_byte. rewrite andb_true_iff, Z.leb_le, Z.ltb_lt. tauto. Qed.
Lemma hex_chars : forall bs, forallb is_byte bs = true -> Forall hexchar (hex bs).
Proof.
  induction bs as [|b r IH]; simpl; intro V; [constructor|].
  apply andb_true_iff in V as [V1 V2]. apply is_byte_spec in V1.
  constructor; [|constructor; [|auto]]; apply hex_digit_char.
  - split; [apply Z.div_pos; lia | apply Z.div_lt_upper_bound; lia].
  - apply Z.mod_pos_bound; lia.
Qed.
Lemma default_not_hex : ~ Forall hexchar default_str.
Proof.
  intro F. unfold default_str in F.
  repeat match goal with H : Forall _ (_ :: _) |- _ => inversion H; clear H; subst end.
  match goal with H : hexchar 117 |- _ => unfold hexchar in H; lia end.
Qed.
(* "default" cannot be the hex rendering of any byte string (hex alphabet) *)
Lemma hex_not_default : forall bs, forallb is_byte bs = true -> hex bs <> default_str.
Proof. intros bs V E. apply default_not_hex. rewrite <- E. apply hex_chars, V. Qed.
Lemma hex_nil : forall bs, hex bs = [] -> bs = [].
Proof. destruct bs; simpl; [auto | discriminate]. Qed.
Lemma hex_digit_inj : forall a b, 0 <= a < 16 -> 0 <= b < 16 -> hex_digit a = hex_digit b -> a = b.
Proof.
  intros a b A B. unfold hex_digit.
  destruct (a <? 10) eqn:E1, (b <? 10) eqn:E2;
  try apply Z.ltb_lt in E1; try apply Z.ltb_lt in E2; try apply Z.ltb_ge in E1; try apply Z.ltb_ge in E2; lia.
Qed.
Lemma hex_inj : forall a b, forallb is_byte a = true -> forallb is_byte b = true -> hex a = hex b -> a = b.
Proof.
  induction a as [|x a IH]; destruct b as [|y b]; simpl; intros VA VB E; try reflexivity; try discriminate.
  apply andb_true_iff in VA as [VA1 VA2]. apply andb_true_iff in VB as [VB1 VB2].
  apply is_byte_spec in VA1. apply is_byte_spec in VB1.
  inversion E as [[E1 E2 E3]].
  assert (Dx : 0 <= x / 16 < 16) by (split; [apply Z.div_pos; lia | apply Z.div_lt_upper_bound; lia]).
  assert (Dy : 0 <= y / 16 < 16) by (split; [apply Z.div_pos; lia | apply Z.div_lt_upper_bound; lia]).
  assert (Mx : 0 <= x mod 16 < 16) by (apply Z.mod_pos_bound; lia).
  assert (My : 0 <= y mod 16 < 16) by (apply Z.mod_pos_bound; lia).
  apply (hex_digit_inj _ _ Dx Dy) in E1.
  apply (hex_digit_inj _ _ Mx My) in E2.
  f_equal; [| apply IH; auto].
  rewrite (Z.div_mod x 16), (Z.div_mod y 16) by lia. congruence.
Qed.
Lemma valid_hash_spec : forall h, valid_hash h = true -> h <> [] /\ forallb is_byte h = true.
Proof. destruct h; simpl; intro V; [discriminate | split; [discriminate | exact V]]. Qed.
Lemma valid_hash_hex_nonnil : forall h, valid_hash h = true -> hex h <> [].
Proof. intros h V E. apply hex_nil in E. apply valid_hash_spec in V as [V _]. contradiction. Qed.
Lemma valid_hash_hex_nondefault : forall h, valid_hash h = true -> hex h <> default_str.
Proof. intros h V. apply hex_not_default. apply valid_hash_spec in V as [_ V]. exact V. Qed.

Lemma unhex_digit_range : forall c x, unhex_digit c = Some x -> 0 <= x < 16.
Proof.
  intros c x. unfold unhex_digit.
  destruct ((48 <=? c) && (c <=? 57)) eqn:E1; [intro E; inversion E; subst; apply andb_true_iff in E1 as [A B]; apply Z.leb_le in A, B; lia|].
  destruct ((97 <=? c) && (c <=? 102)) eqn:E2; [intro E; inversion E; subst; apply andb_true_iff in E2 as [A B]; apply Z.leb_le in A, B; lia|].
  destruct ((65 <=? c) && (c <=? 70)) eqn:E3; [intro E; inversion E; subst; apply andb_true_iff in E3 as [A B]; apply Z.leb_le in A, B; lia|].
  discriminate.
Qed.
Local Opaque Z.mul.
Lemma unhex_bytes : forall n s bs, (length s <= n)%nat -> unhex s = Some bs -> forallb is_byte bs = true.
Proof.
  induction n as [|n IH]; intros s bs L E.
  - destruct s; [inversion E; reflexivity | simpl in L; lia].
  - destruct s as [|a [|b r]]; simpl in E.
    + inversion E; reflexivity.
    + discriminate.
    + destruct (unhex_digit a) eqn:A; [|discriminate].
      destruct (unhex_digit b) eqn:B; [|discriminate].
      destruct (unhex r) eqn:R; [|discriminate].
      inversion E; subst. cbn [forallb]. apply unhex_digit_range in A. apply unhex_digit_range in B.
      rewrite (IH r l); [| simpl in L; lia | auto]. rewrite andb_true_r. apply is_byte_spec. lia.
Qed.
Lemma unhex_valid : forall s bs, unhex s = Some bs -> forallb is_byte bs = true.
Proof. intros s bs. apply (unhex_bytes (length s)). lia. Qed.
Lemma unhex_nonnil : forall s bs, s <> [] -> unhex s = Some bs -> bs <> [].
Proof.
  intros [|a [|b r]] bs N E; [contradiction | discriminate |].
  simpl in E. destruct (unhex_digit a), (unhex_digit b), (unhex r); try discriminate. inversion E. discriminate.
Qed.
Local Transparent Z.mul.

Lemma is_default_default : is_default default_str = true.
Proof. reflexivity. Qed.
Lemma default_str_nonnil : default_str <> [].
Proof. discriminate. Qed.
Local Opaque default_str.
Ltac sp := unfold http_register, http_remove in *; cbn [procs hashes http disk set_procs set_hashes set_http set_disk http_register http_remove fst snd] in *.

Definition valid_str (s : str) : bool := forallb is_byte s.
Definition valid_req (m : option meta) : Prop := forallb is_byte (req_hash m) = true.

Ltac seq :=
  repeat match goal with
  | H : str_eqb _ _ = true |- _ => apply str_eqb_eq in H
  | H : str_eqb _ _ = false |- _ => apply str_eqb_neq in H
  end.
Ltac al := repeat (rewrite ?alookup_aset, ?alookup_adel in * ).
Ltac dse :=
  match goal with
  | |- context [str_eqb ?a ?b] => let SE := fresh "SE" in destruct (str_eqb a b) eqn:SE
  | H : context [str_eqb ?a ?b] |- _ => let SE := fresh "SE" in destruct (str_eqb a b) eqn:SE
  end; seq; subst.

Section Inv.
Variable H : str -> list Z.
Hypothesis H_valid : forall i, valid_hash (H i) = true.
Hypothesis H_inj : forall i j, valid_str i = true -> valid_str j = true -> hex (H i) = hex (H j) -> i = j.

Definition disk_ok (dk : list (str * group)) : Prop :=
  forall i g, alookup i dk = Some g ->
    valid_str i = true /\ canon i = i /\ (forall h, g = Some h -> h = H i).

(* table entry k -> i is the chain-hash entry of process i or the "default" alias *)
Definition entry_ok (d : daemon) (k i : str) : Prop :=
  alookup i (procs d) = Some (Some (H i)) /\
  (k = hex (H i) \/ (k = default_str /\ i = default_str)).

Record inv (d : daemon) : Prop := mkInv {
  inv_disk : disk_ok (disk d);
  inv_procs : forall i g, alookup i (procs d) = Some g ->
     exists g0, alookup i (disk d) = Some g0 /\ (forall h, g = Some h -> g0 = Some h);
  inv_h : forall k i, alookup k (hashes d) = Some i -> entry_ok d k i;
  inv_hc : forall i h, alookup i (procs d) = Some (Some h) ->
     alookup (hex h) (hashes d) = Some i /\
     (i = default_str -> alookup default_str (hashes d) = Some i);
  inv_w : forall k i, alookup k (http d) = Some i -> entry_ok d k i;
  inv_wc : forall i h, alookup i (procs d) = Some (Some h) ->
     alookup (hex h) (http d) = Some i /\
     (i = default_str -> alookup default_str (http d) = Some i)
}.

Lemma inv_proc_facts : forall d i g, inv d -> alookup i (procs d) = Some g ->
  valid_str i = true /\ canon i = i /\ (forall h, g = Some h -> h = H i).
Proof.
  intros d i g I P. destruct (inv_procs d I i g P) as (g0 & D & G).
  destruct (inv_disk d I i g0 D) as (V & C & HH). split; [auto | split; [auto|]].
  intros h E. apply HH. apply G. exact E.
Qed.

Lemma inv_init : forall dk, disk_ok dk -> inv (init_daemon dk).
Proof.
  intros dk D. constructor; simpl; auto; intros; discriminate.
Qed.

Lemma hexH_not_default : forall i, hex (H i) <> default_str.
Proof. intro i. apply valid_hash_hex_nondefault, H_valid. Qed.
Lemma H_nonnil : forall i, is_nil (H i) = false.
Proof. intro i. pose proof (H_valid i) as HV. destruct (H i); [discriminate | reflexivity]. Qed.
Lemma hexH_not_nil : forall i, hex (H i) <> [].
Proof. intro i. apply valid_hash_hex_nonnil, H_valid. Qed.

(* ---- the registration part shared by load and DKG completion ----
   [reg d i]: process i (canonical, on disk) gets group H i and its handler is added *)
Definition reg (d : daemon) (i : str) : daemon :=
  add_handler (set_procs d (aset i (Some (H i)) (procs d))) i (Some (H i)).

Lemma is_default_fix : forall i, canon i = i -> is_default i = true -> i = default_str.
Proof. exact canon_fix_default. Qed.

Lemma reg_inv : forall d i, inv d -> canon i = i -> valid_str i = true ->
  alookup i (disk d) = Some (Some (H i)) ->
  (forall g, alookup i (procs d) = Some g -> True) ->
  inv (reg d i).
Proof.
  intros d i I C V D _.
  assert (ND : is_default i = true -> i = default_str) by (apply is_default_fix; auto).
  unfold reg, add_handler.
  destruct (is_default i) eqn:DF.
  - (* default chain *)
    specialize (ND eq_refl). subst i.
    constructor; sp.
    + apply I.
    + intros k g. al. dse.
      * intro E; inversion E; subst. eexists; split; [exact D|]. intros h E'. congruence.
      * apply I.
    + intros k j. al. unfold entry_ok; sp. dse.
      * intro E; inversion E; subst. al. rewrite ?str_eqb_refl. split; auto.
      * dse.
        -- intro E; inversion E; subst. al. rewrite ?str_eqb_refl. split; auto.
        -- intro P. destruct (inv_h d I k j P) as [P1 P2]. al.
           destruct (str_eqb j default_str) eqn:E1; seq; subst; [split; auto|]. split; auto.
    + intros k h. al. dse.
      * intro E; inversion E; subst. al. rewrite ?str_eqb_refl.
        destruct (str_eqb (hex (H default_str)) default_str) eqn:E1; seq; [exfalso; eapply hexH_not_default; eauto|].
        split; auto.
      * intro P. destruct (inv_hc d I k h P) as [P1 P2].
        destruct (inv_proc_facts d k (Some h) I P) as (Vk & Ck & Hk). specialize (Hk h eq_refl). subst h.
        al. destruct (str_eqb (hex (H k)) default_str) eqn:E1; seq; [exfalso; eapply hexH_not_default; eauto|].
        destruct (str_eqb (hex (H k)) (hex (H default_str))) eqn:E2; seq.
        -- apply H_inj in E2; auto. contradiction.
        -- split; auto. intro; contradiction.
    + intros k j. al. unfold entry_ok; sp. dse.
      * intro E; inversion E; subst. al. rewrite ?str_eqb_refl. split; auto.
      * dse.
        -- intro E; inversion E; subst. al. rewrite ?str_eqb_refl. split; auto.
        -- intro P. destruct (inv_w d I k j P) as [P1 P2]. al.
           destruct (str_eqb j default_str) eqn:E1; seq; subst; [split; auto|]. split; auto.
    + intros k h. al. dse.
      * intro E; inversion E; subst. al. rewrite ?str_eqb_refl.
        destruct (str_eqb (hex (H default_str)) default_str) eqn:E1; seq; [exfalso; eapply hexH_not_default; eauto|].
        split; auto.
      * intro P. destruct (inv_wc d I k h P) as [P1 P2].
        destruct (inv_proc_facts d k (Some h) I P) as (Vk & Ck & Hk). specialize (Hk h eq_refl). subst h.
        al. destruct (str_eqb (hex (H k)) default_str) eqn:E1; seq; [exfalso; eapply hexH_not_default; eauto|].
        destruct (str_eqb (hex (H k)) (hex (H default_str))) eqn:E2; seq.
        -- apply H_inj in E2; auto. contradiction.
        -- split; auto. intro; contradiction.
  - (* named chain *)
    assert (NDi : i <> default_str) by (intro; subst; rewrite is_default_default in DF; discriminate).
    constructor; sp.
    + apply I.
    + intros k g. al. dse.
      * intro E; inversion E; subst. eexists; split; [exact D|]. intros h E'. congruence.
      * apply I.
    + intros k j. al. unfold entry_ok; sp. dse.
      * intro E; inversion E; subst. al. rewrite ?str_eqb_refl. split; auto.
      * intro P. destruct (inv_h d I k j P) as [P1 P2]. al.
        destruct (str_eqb j i) eqn:E1; seq; subst; split; auto.
    + intros k h. al. dse.
      * intro E; inversion E; subst. al. rewrite ?str_eqb_refl. split; auto. intro; contradiction.
      * intro P. destruct (inv_hc d I k h P) as [P1 P2].
        destruct (inv_proc_facts d k (Some h) I P) as (Vk & Ck & Hk). specialize (Hk h eq_refl). subst h.
        al. destruct (str_eqb (hex (H k)) (hex (H i))) eqn:E2; seq.
        -- apply H_inj in E2; auto. contradiction.
        -- split; auto. intro; subst. al. dse; [exfalso; eapply hexH_not_default; eauto | auto].
    + intros k j. al. unfold entry_ok; sp. dse.
      * intro E; inversion E; subst. al. rewrite ?str_eqb_refl. split; auto.
      * intro P. destruct (inv_w d I k j P) as [P1 P2]. al.
        destruct (str_eqb j i) eqn:E1; seq; subst; split; auto.
    + intros k h. al. dse.
      * intro E; inversion E; subst. al. rewrite ?str_eqb_refl. split; auto. intro; contradiction.
      * intro P. destruct (inv_wc d I k h P) as [P1 P2].
        destruct (inv_proc_facts d k (Some h) I P) as (Vk & Ck & Hk). specialize (Hk h eq_refl). subst h.
        al. destruct (str_eqb (hex (H k)) (hex (H i))) eqn:E2; seq.
        -- apply H_inj in E2; auto. contradiction.
        -- split; auto. intro; subst. al. dse; [exfalso; eapply hexH_not_default; eauto | auto].
Qed.

Lemma adel_idem : forall (A : Type) k (l : list (str * A)), adel k (adel k l) = adel k l.
Proof.
  induction l as [|[k' v] l IH]; simpl; auto.
  destruct (str_eqb k k') eqn:E; auto. simpl. rewrite E, IH. reflexivity.
Qed.

Lemma load_from_store_reg : forall d i, canon i = i -> alookup i (disk d) = Some (Some (H i)) ->
  load_from_store d i = (reg d i, Ok tt).
Proof.
  intros d i C D. unfold load_from_store. rewrite D. unfold instantiate, set_group. rewrite C. sp.
  rewrite alookup_aset_eq. sp. rewrite alookup_aset_eq.
  unfold reg. f_equal. f_equal. unfold aset at 1 3. unfold aset. cbn [adel]. rewrite str_eqb_refl.
  rewrite adel_idem. reflexivity.
Qed.

Lemma no_group_no_entries : forall d i, inv d -> alookup i (procs d) <> Some (Some (H i)) ->
  (forall k, alookup k (hashes d) <> Some i) /\ (forall k, alookup k (http d) <> Some i).
Proof.
  intros d i I N. split; intros k E.
  - destruct (inv_h d I k i E) as [P _]. contradiction.
  - destruct (inv_w d I k i E) as [P _]. contradiction.
Qed.

Lemma inst_inv : forall d i, inv d -> alookup i (disk d) = Some None ->
  inv (set_procs d (aset i None (procs d))).
Proof.
  intros d i I D.
  assert (N : alookup i (procs d) <> Some (Some (H i))).
  { intro P. destruct (inv_procs d I i _ P) as (g0 & D' & G). specialize (G _ eq_refl). congruence. }
  destruct (no_group_no_entries d i I N) as [NH NW].
  constructor; sp.
  - apply I.
  - intros k g. al. dse.
    + intro E; inversion E; subst. eexists; split; [exact D|]. intros; discriminate.
    + apply I.
  - intros k j P. destruct (inv_h d I k j P) as [P1 P2]. split; auto. sp. al.
    dse; [exfalso; eapply NH; eauto | auto].
  - intros k h. al. dse; [discriminate|]. apply I.
  - intros k j P. destruct (inv_w d I k j P) as [P1 P2]. split; auto. sp. al.
    dse; [exfalso; eapply NW; eauto | auto].
  - intros k h. al. dse; [discriminate|]. apply I.
Qed.

Lemma load_from_store_inv : forall d i, inv d -> inv (fst (load_from_store d i)).
Proof.
  intros d i I. destruct (alookup i (disk d)) as [[h|]|] eqn:D.
  - destruct (inv_disk d I i _ D) as (V & C & HH). specialize (HH h eq_refl). subst h.
    rewrite load_from_store_reg; auto. apply reg_inv; auto.
  - destruct (inv_disk d I i _ D) as (V & C & HH).
    unfold load_from_store. rewrite D. unfold instantiate. rewrite C. apply inst_inv; auto.
  - unfold load_from_store. rewrite D. exact I.
Qed.

Lemma load_all_inv : forall ids d, inv d -> inv (load_all d ids).
Proof. induction ids; simpl; intros; auto using load_from_store_inv. Qed.

Lemma load_beacon_inv : forall d m, inv d -> inv (fst (load_beacon d m)).
Proof.
  intros d m I. unfold load_beacon. destruct (read_beacon_id d m); [|exact I].
  destruct (alookup a (procs d)); [exact I|]. apply load_from_store_inv, I.
Qed.

Lemma disk_set_inv : forall d i g, inv d -> alookup i (procs d) = Some g ->
  inv (set_disk d (aset i (Some (H i)) (disk d))).
Proof.
  intros d i g I P. destruct (inv_proc_facts d i g I P) as (V & C & HH).
  constructor; sp; try apply I.
  - intros k g'. al. dse; [|apply I]. intro E; inversion E; subst. repeat split; auto. congruence.
  - intros k g' P'. al. dse.
    + rewrite P in P'. inversion P'; subst. eexists; split; eauto. intros h E. subst. f_equal. symmetry. apply HH. reflexivity.
    + apply I; auto.
Qed.

Lemma dkg_done_inv : forall d i, inv d -> inv (dkg_done d i (H i)).
Proof.
  intros d i I. unfold dkg_done. destruct (alookup i (procs d)) as [g|] eqn:P; [|exact I].
  destruct (inv_proc_facts d i g I P) as (V & C & HH).
  unfold set_group. rewrite P. sp. rewrite C. rewrite alookup_aset_eq.
  pose proof (disk_set_inv d i g I P) as I2.
  change (inv (reg (set_disk d (aset i (Some (H i)) (disk d))) i)).
  apply reg_inv; auto. sp. apply alookup_aset_eq.
Qed.

(* ---- shutdown ---- *)
Definition removed (d : daemon) (i : str) (g : group) : daemon :=
  remove_process (remove_handler d i g) i g.

Lemma removed_spec : forall d i g, inv d -> alookup i (procs d) = Some g ->
  let d' := removed d i g in
  (forall k, alookup k (procs d') = if str_eqb k i then None else alookup k (procs d)) /\
  (forall k j, alookup k (hashes d') = Some j <-> (alookup k (hashes d) = Some j /\ j <> i)) /\
  (forall k j, alookup k (http d') = Some j <-> (alookup k (http d) = Some j /\ j <> i)) /\
  disk d' = disk d.
Proof.
  intros d i g I P d'. destruct (inv_proc_facts d i g I P) as (V & C & HH).
  assert (EH : forall k j, alookup k (hashes d) = Some j -> j <> i ->
               k <> hex (H i) /\ (is_default i = true -> k <> default_str) /\ k <> []).
  { intros k j E N. destruct (inv_h d I k j E) as [P1 P2].
    destruct (inv_proc_facts d j _ I P1) as (Vj & Cj & _).
    repeat split.
    - intro; subst k. destruct P2 as [P2|[P2 _]]; [apply H_inj in P2; auto | eapply hexH_not_default; eauto].
    - intros DF F; subst k. apply canon_fix_default in DF; auto. subst i.
      destruct P2 as [P2|[_ P2]]; [eapply hexH_not_default; eauto | auto].
    - intro; subst k. destruct P2 as [P2|[P2 _]]; [eapply hexH_not_nil; eauto | eapply default_str_nonnil; eauto]. }
  assert (EW : forall k j, alookup k (http d) = Some j -> j <> i ->
               k <> hex (H i) /\ (is_default i = true -> k <> default_str) /\ k <> []).
  { intros k j E N. destruct (inv_w d I k j E) as [P1 P2].
    destruct (inv_proc_facts d j _ I P1) as (Vj & Cj & _).
    repeat split.
    - intro; subst k. destruct P2 as [P2|[P2 _]]; [apply H_inj in P2; auto | eapply hexH_not_default; eauto].
    - intros DF F; subst k. apply canon_fix_default in DF; auto. subst i.
      destruct P2 as [P2|[_ P2]]; [eapply hexH_not_default; eauto | auto].
    - intro; subst k. destruct P2 as [P2|[P2 _]]; [eapply hexH_not_nil; eauto | eapply default_str_nonnil; eauto]. }
  assert (GH : forall k, alookup k (hashes d) = Some i -> g = Some (H i) /\ (k = hex (H i) \/ (k = default_str /\ is_default i = true))).
  { intros k E. destruct (inv_h d I k i E) as [P1 P2]. rewrite P in P1. inversion P1; subst. split; auto.
    destruct P2 as [P2|[P2 P3]]; auto. right. split; auto. subst i. apply is_default_default. }
  assert (GW : forall k, alookup k (http d) = Some i -> g = Some (H i) /\ (k = hex (H i) \/ (k = default_str /\ is_default i = true))).
  { intros k E. destruct (inv_w d I k i E) as [P1 P2]. rewrite P in P1. inversion P1; subst. split; auto.
    destruct P2 as [P2|[P2 P3]]; auto. right. split; auto. subst i. apply is_default_default. }
  subst d'. unfold removed, remove_process, remove_handler. rewrite C.
  destruct g as [h|].
  - specialize (HH h eq_refl). subst h.
    destruct (is_default i) eqn:DF; sp; (split; [|split; [intros k j; split|split; [intros k j; split|]]]); try reflexivity.
    + intro k. al. reflexivity.
    + al. repeat dse; try discriminate. intro E. split; auto. intro; subst j.
      destruct (GH _ E) as [_ [G|[G _]]]; contradiction.
    + intros [E N]. destruct (EH k j E N) as (N1 & N2 & N3). specialize (N2 eq_refl).
      al. repeat dse; try contradiction. exact E.
    + al. repeat dse; try discriminate. intro E. split; auto. intro; subst j.
      destruct (GW _ E) as [_ [G|[G _]]]; contradiction.
    + intros [E N]. destruct (EW k j E N) as (N1 & N2 & N3). specialize (N2 eq_refl).
      al. repeat dse; try contradiction. exact E.
    + intro k. al. reflexivity.
    + al. repeat dse; try discriminate. intro E. split; auto. intro; subst j.
      destruct (GH _ E) as [_ [G|[_ G]]]; [contradiction | discriminate].
    + intros [E N]. destruct (EH k j E N) as (N1 & N2 & N3).
      al. repeat dse; try contradiction. exact E.
    + al. repeat dse; try discriminate. intro E. split; auto. intro; subst j.
      destruct (GW _ E) as [_ [G|[_ G]]]; [contradiction | discriminate].
    + intros [E N]. destruct (EW k j E N) as (N1 & N2 & N3).
      al. repeat dse; try contradiction. exact E.
  - destruct (is_default i) eqn:DF; sp; (split; [|split; [intros k j; split|split; [intros k j; split|]]]); try reflexivity.
    + intro k. al. reflexivity.
    + al. repeat dse; try discriminate. intro E. split; auto. intro; subst j.
      destruct (GH _ E) as [G _]; discriminate.
    + intros [E N]. destruct (EH k j E N) as (N1 & N2 & N3). specialize (N2 eq_refl).
      al. repeat dse; try contradiction. exact E.
    + intro E. split; auto. intro; subst j. destruct (GW _ E) as [G _]; discriminate.
    + intros [E N]. exact E.
    + intro k. al. reflexivity.
    + al. repeat dse; try discriminate. intro E. split; auto. intro; subst j.
      destruct (GH _ E) as [G _]; discriminate.
    + intros [E N]. destruct (EH k j E N) as (N1 & N2 & N3).
      al. repeat dse; try contradiction. exact E.
    + intro E. split; auto. intro; subst j. destruct (GW _ E) as [G _]; discriminate.
    + intros [E N]. exact E.
Qed.
Lemma removed_inv : forall d i g, inv d -> alookup i (procs d) = Some g -> inv (removed d i g).
Proof.
  intros d i g I P. destruct (removed_spec d i g I P) as (SP & SH & SW & SD).
  constructor.
  - rewrite SD. apply I.
  - intros k g'. rewrite SP, SD. dse; [discriminate | apply I].
  - intros k j E. apply SH in E as [E N]. destruct (inv_h d I k j E) as [P1 P2]. split; auto.
    rewrite SP. dse; [contradiction | auto].
  - intros k h. rewrite SP. dse; [discriminate|]. intro P'. destruct (inv_hc d I k h P') as [P1 P2].
    split; [apply SH; auto | intro; apply SH; auto].
  - intros k j E. apply SW in E as [E N]. destruct (inv_w d I k j E) as [P1 P2]. split; auto.
    rewrite SP. dse; [contradiction | auto].
  - intros k h. rewrite SP. dse; [discriminate|]. intro P'. destruct (inv_wc d I k h P') as [P1 P2].
    split; [apply SW; auto | intro; apply SW; auto].
Qed.

Lemma shutdown_inv : forall d m, inv d -> inv (fst (shutdown d m)).
Proof.
  intros d m I. unfold shutdown. destruct (is_nil (req_id m)); [exact I|].
  destruct (read_beacon_id d m) as [i|]; [|exact I].
  destruct (alookup i (procs d)) as [g|] eqn:P; [|exact I].
  apply (removed_inv d i g I P).
Qed.

Definition ev_ok (e : event) : Prop :=
  match e with EDkgDone i h => h = H i | _ => True end.

Lemma step_inv : forall d e, inv d -> ev_ok e -> inv (step d e).
Proof.
  intros d [|m|m|i h] I O; simpl.
  - apply load_all_inv, I.
  - apply load_beacon_inv, I.
  - apply shutdown_inv, I.
  - simpl in O. subst h. apply dkg_done_inv, I.
Qed.

Lemma run_inv : forall evs d, inv d -> Forall ev_ok evs -> inv (run d evs).
Proof.
  induction evs as [|e r IH]; simpl; intros d I F; auto.
  inversion F; subst. apply IH; auto. apply step_inv; auto.
Qed.

(* ---------- what a resolved request names ---------- *)
Lemma read_beacon_id_sound : forall d m i, inv d -> valid_req m ->
  read_beacon_id d m = Ok i ->
  (req_id m = [] \/ canon (req_id m) = i) /\
  (req_hash m = [] \/ alookup i (procs d) = Some None \/
   (alookup i (procs d) = Some (Some (H i)) /\ req_hash m = H i)).
Proof.
  intros d m i I V. unfold read_beacon_id.
  destruct (req_hash m) as [|b bs] eqn:RH; cbn [is_nil negb].
  - intro E; inversion E; subst. split; auto.
  - rewrite <- RH in *. destruct (alookup (hex (req_hash m)) (hashes d)) as [j|] eqn:L.
    + destruct (inv_h d I _ _ L) as [P1 P2]. destruct (inv_proc_facts d j _ I P1) as (Vj & Cj & _).
      destruct P2 as [P2|[P2 _]]; [| exfalso; eapply hex_not_default; [exact V | exact P2]].
      assert (RQ : req_hash m = H j).
      { apply hex_inj; auto. destruct (valid_hash_spec _ (H_valid j)); auto. }
      destruct (negb (is_nil (req_id m)) && negb (compare_ids (req_id m) j)) eqn:T; [discriminate|].
      intro E; inversion E; subst i. rewrite Cj. split.
      * destruct (req_id m) as [|c cs] eqn:RI; [left; reflexivity|]. right. cbn [is_nil negb andb] in T.
        apply negb_false_iff in T. apply compare_ids_spec in T. congruence.
      * right. right. split; assumption.
    + destruct (alookup (canon (req_id m)) (procs d)) as [[h|]|] eqn:P; try discriminate.
      intro E; inversion E; subst i. split; auto.
  Qed.

Lemma get_process_served : forall d m i g, inv d -> valid_req m ->
  get_process d m = Ok (i, g) ->
  alookup i (procs d) = Some g /\
  (req_id m = [] \/ canon (req_id m) = i) /\
  (req_hash m = [] \/ g = None \/ (g = Some (H i) /\ req_hash m = H i)).
Proof.
  intros d m i g I V. unfold get_process, get_process_by_id.
  destruct (read_beacon_id d m) as [j|] eqn:R; [|discriminate].
  destruct (alookup j (procs d)) as [g'|] eqn:P; [|discriminate].
  intro E; inversion E; subst. split; auto.
  destruct (read_beacon_id_sound d m i I V R) as [A B]. split; auto.
  destruct B as [B|[B|[B1 B2]]]; auto; rewrite P in *.
  - inversion B; auto.
  - inversion B1; auto.
Qed.

(* a known hash, alone or with its own id, selects its chain *)
Lemma known_hash_selects : forall d m i h, inv d -> alookup i (procs d) = Some (Some h) ->
  req_hash m = h -> (req_id m = [] \/ canon (req_id m) = i) ->
  get_process d m = Ok (i, Some h).
Proof.
  intros d m i h I P RH RI. destruct (inv_proc_facts d i _ I P) as (V & C & HH).
  specialize (HH h eq_refl). destruct (inv_hc d I i h P) as [L _].
  unfold get_process, read_beacon_id. rewrite RH.
  assert (NN : is_nil h = false).
  { rewrite HH. apply H_nonnil. }
  rewrite NN. cbn [negb]. rewrite L.
  assert (T : negb (is_nil (req_id m)) && negb (compare_ids (req_id m) i) = false).
  { destruct RI as [RI|RI]; [rewrite RI; reflexivity|].
    apply andb_false_iff. right. apply negb_false_iff. apply compare_ids_spec. congruence. }
  rewrite T, C. unfold get_process_by_id. rewrite P. reflexivity.
Qed.

(* a hash of one running chain with the id of another is refused *)
Lemma mismatch_refused : forall d m j h, inv d -> alookup j (procs d) = Some (Some h) ->
  req_hash m = h -> req_id m <> [] -> canon (req_id m) <> j ->
  get_process d m = Err EInvalidPair.
Proof.
  intros d m j h I P RH RI NE. destruct (inv_proc_facts d j _ I P) as (V & C & HH).
  specialize (HH h eq_refl). destruct (inv_hc d I j h P) as [L _].
  unfold get_process, read_beacon_id. rewrite RH.
  assert (NN : is_nil h = false).
  { rewrite HH. apply H_nonnil. }
  rewrite NN. cbn [negb]. rewrite L.
  assert (T : negb (is_nil (req_id m)) && negb (compare_ids (req_id m) j) = true).
  { apply andb_true_iff. split.
    - destruct (req_id m); [contradiction | reflexivity].
    - apply negb_true_iff. destruct (compare_ids (req_id m) j) eqn:CI; auto.
      apply compare_ids_spec in CI. congruence. }
  rewrite T. reflexivity.
Qed.

(* neither id nor hash: the default process or refusal *)
Lemma neither_default : forall d m, req_id m = [] -> req_hash m = [] ->
  get_process d m = get_process_by_id d default_str.
Proof.
  intros d m RI RH. unfold get_process, read_beacon_id. rewrite RI, RH. reflexivity.
Qed.

(* ---------- after a shutdown ---------- *)
Lemma shutdown_one : forall d m i, inv d -> shutdown d m = (fst (shutdown d m), SOne i) ->
  exists g, alookup i (procs d) = Some g /\ fst (shutdown d m) = removed d i g.
Proof.
  intros d m i I. unfold shutdown. destruct (is_nil (req_id m)); [discriminate|].
  destruct (read_beacon_id d m) as [j|]; [|discriminate].
  destruct (alookup j (procs d)) as [g|] eqn:P; [|discriminate].
  cbn [fst]. intro E; inversion E; subst. eauto.
Qed.

Lemma removed_gone : forall d i g m r, inv d -> valid_req m -> alookup i (procs d) = Some g ->
  get_process (removed d i g) m = Ok r ->
  fst r <> i /\ (req_hash m = H i -> snd r = None).
Proof.
  intros d i g m [j g'] I V P G. pose proof (removed_inv d i g I P) as I'.
  destruct (removed_spec d i g I P) as (SP & _).
  destruct (get_process_served _ _ _ _ I' V G) as (P' & _ & B). cbn [fst snd].
  assert (N : j <> i). { intro; subst j. rewrite SP, str_eqb_refl in P'. discriminate. }
  split; auto. intro RH. destruct B as [B|[B|[B1 B2]]]; auto.
  - rewrite RH in B. exfalso. pose proof (H_valid i) as HV. rewrite B in HV. discriminate.
  - exfalso. apply N. rewrite SP in P'. destruct (str_eqb j i) eqn:E; [discriminate|].
    destruct (inv_proc_facts d j _ I P') as (Vj & _). destruct (inv_proc_facts d i _ I P) as (Vi & _).
    apply H_inj; auto. congruence.
Qed.

Lemma removed_others_kept : forall d i g m j gj, inv d -> valid_req m ->
  alookup i (procs d) = Some g ->
  get_process d m = Ok (j, gj) -> j <> i ->
  get_process (removed d i g) m = Ok (j, gj).
Proof.
  intros d i g m j gj I V P G N.
  destruct (removed_spec d i g I P) as (SP & SH & _).
  destruct (get_process_served _ _ _ _ I V G) as (Pj & _).
  revert G. unfold get_process, read_beacon_id.
  destruct (negb (is_nil (req_hash m))) eqn:NH.
  - destruct (alookup (hex (req_hash m)) (hashes d)) as [x|] eqn:L.
    + destruct (negb (is_nil (req_id m)) && negb (compare_ids (req_id m) x)) eqn:T; [discriminate|].
      unfold get_process_by_id. destruct (alookup (canon x) (procs d)) eqn:PX; [|discriminate].
      intro E; inversion E; subst.
      destruct (inv_h d I _ _ L) as [P1 _]. destruct (inv_proc_facts d x _ I P1) as (_ & Cx & _).
      assert (L' : alookup (hex (req_hash m)) (hashes (removed d i g)) = Some x).
      { apply SH. split; auto. rewrite Cx in N. exact N. }
      rewrite L', T, SP. rewrite Cx in *. dse; [contradiction|]. rewrite PX. reflexivity.
    + assert (L' : alookup (hex (req_hash m)) (hashes (removed d i g)) = None).
      { destruct (alookup (hex (req_hash m)) (hashes (removed d i g))) eqn:L'; auto.
        apply SH in L' as [L' _]. congruence. }
      rewrite L'. rewrite !SP.
      destruct (alookup (canon (req_id m)) (procs d)) as [[h|]|] eqn:PX; try discriminate.
      unfold get_process_by_id. rewrite PX. intro E; inversion E; subst.
      dse; [contradiction|]. rewrite SP. dse; [contradiction|]. rewrite PX. reflexivity.
  - unfold get_process_by_id. destruct (alookup (canon (req_id m)) (procs d)) eqn:PX; [|discriminate].
    intro E; inversion E; subst. rewrite SP. dse; [contradiction|]. rewrite PX. reflexivity.
Qed.

(* ---------- HTTP ---------- *)
Lemma http_route_served : forall d path i, inv d -> http_route (http d) path = HServe i ->
  exists h, alookup i (procs d) = Some (Some h) /\ h = H i /\
  match path with
  | None => i = default_str
  | Some s => s = [] /\ i = default_str \/ (s <> [] /\ unhex s = Some h)
  end.
Proof.
  intros d path i I. unfold http_route, http_key.
  destruct path as [s|].
  - destruct (is_nil s) eqn:NS.
    + destruct (alookup default_str (http d)) as [j|] eqn:L; [|discriminate].
      intro E; inversion E; subst j. destruct (inv_w d I _ _ L) as [P1 P2].
      exists (H i). split; auto. split; auto. left. split; [destruct s; [auto|discriminate]|].
      destruct P2 as [P2|[_ P2]]; auto. exfalso. eapply hexH_not_default; eauto.
    + destruct (unhex s) as [bs|] eqn:U; [|discriminate].
      assert (SN : s <> []) by (intro; subst; discriminate).
      pose proof (unhex_valid _ _ U) as VB. pose proof (unhex_nonnil _ _ SN U) as BN.
      assert (KN : is_nil (hex bs) = false).
      { destruct (hex bs) eqn:HB; auto. apply hex_nil in HB. contradiction. }
      rewrite KN. destruct (alookup (hex bs) (http d)) as [j|] eqn:L; [|discriminate].
      intro E; inversion E; subst j. destruct (inv_w d I _ _ L) as [P1 P2].
      exists (H i). split; auto. split; auto. right. split; auto.
      destruct P2 as [P2|[P2 _]]; [| exfalso; eapply hex_not_default; eauto].
      f_equal. apply hex_inj; auto. destruct (valid_hash_spec _ (H_valid i)); auto.
  - destruct (alookup default_str (http d)) as [j|] eqn:L; [|discriminate].
    intro E; inversion E; subst j. destruct (inv_w d I _ _ L) as [P1 P2].
    exists (H i). split; auto. split; auto.
    destruct P2 as [P2|[_ P2]]; auto. exfalso. eapply hexH_not_default; eauto.
Qed.

(* a path segment is never looked up under the "default" alias *)
Lemma http_key_alias_only_empty : forall s, s <> [] -> http_key (Some s) <> Some default_str.
Proof.
  intros s SN. unfold http_key. destruct (is_nil s) eqn:NS; [destruct s; [contradiction|discriminate]|].
  destruct (unhex s) as [bs|] eqn:U; [|discriminate].
  pose proof (unhex_valid _ _ U) as VB. pose proof (unhex_nonnil _ _ SN U) as BN.
  destruct (is_nil (hex bs)) eqn:KN; [destruct (hex bs) eqn:HB; [apply hex_nil in HB; contradiction|discriminate]|].
  intro E; inversion E. eapply hex_not_default; eauto.
Qed.

Lemma unhex_hex_digit : forall d, 0 <= d < 16 -> unhex_digit (hex_digit d) = Some d.
Proof.
  intros d D. assert (d = 0 \/ d = 1 \/ d = 2 \/ d = 3 \/ d = 4 \/ d = 5 \/ d = 6 \/ d = 7 \/ d = 8 \/
    d = 9 \/ d = 10 \/ d = 11 \/ d = 12 \/ d = 13 \/ d = 14 \/ d = 15) as C by lia.
  repeat (destruct C as [C|C]; [subst d; reflexivity|]). subst d; reflexivity.
Qed.
Lemma unhex_hex : forall bs, forallb is_byte bs = true -> unhex (hex bs) = Some bs.
Proof.
  induction bs as [|b r IH]; intro V; [reflexivity|].
  cbn [forallb] in V. apply andb_true_iff in V as [V1 V2]. apply is_byte_spec in V1.
  cbn [hex hex_byte app unhex].
  assert (Dx : 0 <= b / 16 < 16) by (split; [apply Z.div_pos; lia | apply Z.div_lt_upper_bound; lia]).
  assert (Mx : 0 <= b mod 16 < 16) by (apply Z.mod_pos_bound; lia).
  rewrite (unhex_hex_digit _ Dx), (unhex_hex_digit _ Mx), (IH V2).
  f_equal. f_equal. symmetry. apply Z.div_mod. lia.
Qed.

(* a path under the hash of a running chain is served by that chain's handler *)
Lemma http_running_served : forall d i h, inv d -> alookup i (procs d) = Some (Some h) ->
  http_route (http d) (Some (hex h)) = HServe i.
Proof.
  intros d i h I P. destruct (inv_wc d I i h P) as [L _].
  destruct (inv_proc_facts d i _ I P) as (_ & _ & HH). specialize (HH h eq_refl).
  destruct (valid_hash_spec _ (H_valid i)) as [HN HV]. rewrite <- HH in *.
  unfold http_route, http_key.
  assert (KN : is_nil (hex h) = false).
  { destruct (hex h) eqn:HB; auto. apply hex_nil in HB. contradiction. }
  rewrite KN, (unhex_hex _ HV), KN, L. reflexivity.
Qed.

Lemma http_removed_404 : forall d i g s j, inv d -> alookup i (procs d) = Some g ->
  http_route (http (removed d i g)) (Some s) = HServe j -> j <> i.
Proof.
  intros d i g s j I P R. pose proof (removed_inv d i g I P) as I'.
  destruct (http_route_served _ _ _ I' R) as (h & P' & _).
  destruct (removed_spec d i g I P) as (SP & _). intro; subst j.
  rewrite SP, str_eqb_refl in P'. discriminate.
Qed.

Lemma dkg_proxy_named : forall d m i, dkg_proxy d m = DServe i ->
  m = Some i /\ exists g, alookup i (procs d) = Some g.
Proof.
  intros d [j|] i; simpl; [|discriminate].
  destruct (alookup j (procs d)) eqn:P; [|discriminate]. intro E; inversion E; subst. eauto.
Qed.
End Inv.

(* ---------- the hash-function hypothesis bundled; a concrete instance (non-vacuity) ---------- *)
(* [H i] stands for the chain hash of the chain with beacon id [i]: chain.Info.Hash covers the
   id (non-default ids) and the genesis parameters, which never change (C07/C17); distinct
   chains have distinct hashes (collision-freeness, idealised as injectivity). *)
Definition hash_model (H : str -> list Z) : Prop :=
  (forall i, valid_hash (H i) = true) /\
  (forall i j, valid_str i = true -> valid_str j = true -> hex (H i) = hex (H j) -> i = j).

Definition H0 (i : str) : list Z := map (fun c => c mod 256) i ++ [0].
Lemma H0_model : hash_model H0.
Proof.
  split.
  - intro i. unfold H0, valid_hash.
    assert (F : forallb is_byte (map (fun c => c mod 256) i ++ [0]) = true).
    { rewrite forallb_app. apply andb_true_iff. split; [|reflexivity].
      induction i as [|c r IH]; [reflexivity|]. cbn [map forallb]. rewrite IH, andb_true_r.
      apply is_byte_spec. apply Z.mod_pos_bound. lia. }
    destruct (map (fun c => c mod 256) i ++ [0]) eqn:E; [destruct i; discriminate | exact F].
  - intros i j Vi Vj E.
    assert (M : forall s, valid_str s = true -> map (fun c => c mod 256) s = s).
    { induction s as [|c r IH]; [reflexivity|]. unfold valid_str. cbn [forallb map]. intro V.
      apply andb_true_iff in V as [V1 V2]. apply is_byte_spec in V1. rewrite (IH V2), Z.mod_small; auto. }
    unfold H0 in E. rewrite (M i Vi), (M j Vj) in E.
    apply hex_inj in E.
    + apply app_inv_tail in E. exact E.
    + rewrite forallb_app. unfold valid_str in Vi. rewrite Vi. reflexivity.
    + rewrite forallb_app. unfold valid_str in Vj. rewrite Vj. reflexivity.
Qed.
