(* Proofs about the codec model (Model/Codec.v, C20): the per-class round-trip laws and the
   reflection theorem [roundtrip_sound]: if the boolean checker [roundtrip_ok] accepts a pair of
   generated mirrors, then decoding the encoding of every well-formed value gives the value back
   (normalised where the class says so). *)
From Coq Require Import String ZArith List Bool Lia.
From DV Require Import Model.ByteEnc Model.HashVocab Gen.HashOrder Model.Hashes Model.CodecVocab Model.Codec Proofs.HashesProofs.
Import ListNotations.
Open Scope Z_scope.
Open Scope list_scope.

Lemma path_eqb_eq : forall a b, path_eqb a b = true <-> a = b.
Proof.
  induction a; destruct b; simpl; split; intros; try reflexivity; try discriminate.
  - apply andb_true_iff in H as [H1 H2]. apply String.eqb_eq in H1. apply IHa in H2. subst; reflexivity.
  - injection H as -> ->. rewrite String.eqb_refl. apply IHa. reflexivity.
Qed.
Lemma path_eqb_refl : forall a, path_eqb a a = true.
Proof. intros; apply path_eqb_eq; reflexivity. Qed.

Lemma prim_eqb_eq : forall a b, prim_eqb a b = true -> a = b.
Proof.
  destruct a, b; simpl; intros H; try discriminate; try reflexivity;
    apply String.eqb_eq in H; subst; reflexivity.
Qed.
Lemma ops_eqb_eq : forall a b, ops_eqb a b = true -> a = b.
Proof.
  induction a; destruct b; simpl; intros H; try discriminate; auto.
  apply andb_true_iff in H as [H1 H2]. apply prim_eqb_eq in H1. apply IHa in H2. subst; reflexivity.
Qed.

Lemma find_entry_some : forall es leaf e, find_entry es leaf = Some e -> In e es /\ e_dst e = leaf.
Proof.
  unfold find_entry; intros. apply find_some in H as [H1 H2]. apply path_eqb_eq in H2. auto.
Qed.

Lemma mapM_length : forall A B (f : A -> option B) l out, mapM f l = Some out -> length out = length l.
Proof.
  induction l; simpl; intros out H.
  - injection H as <-. reflexivity.
  - destruct (f a); try discriminate. destruct (mapM f l); try discriminate.
    injection H as <-. simpl. f_equal. auto.
Qed.

Lemma mapM_total : forall A B (f : A -> option B) l,
  (forall x, In x l -> exists y, f x = Some y) -> exists out, mapM f l = Some out.
Proof.
  induction l; simpl; intros H; eauto.
  destruct (H a) as [y Hy]; auto. rewrite Hy.
  destruct IHl as [ys Hys]; auto. rewrite Hys. eauto.
Qed.

Lemma mapM_ext : forall A B (f g : A -> option B) l,
  (forall x, In x l -> f x = g x) -> mapM f l = mapM g l.
Proof.
  induction l; simpl; intros H; auto. rewrite H by auto. rewrite IHl by auto. reflexivity.
Qed.

(* reading back a leaf from a record built leaf by leaf *)
Lemma get_mapM : forall (f : path -> option (path * val)) l out,
  (forall q p v, f q = Some (p, v) -> p = q) ->
  mapM f l = Some out -> forall q, In q l -> exists v, f q = Some (q, v) /\ get q out = Some v.
Proof.
  induction l; simpl; intros out K H q I; [contradiction|].
  destruct (f a) as [[p v]|] eqn:Fa; try discriminate.
  destruct (mapM f l) as [ys|] eqn:M; try discriminate. injection H as <-.
  pose proof (K _ _ _ Fa) as ->. simpl.
  destruct (path_eqb a q) eqn:E.
  - apply path_eqb_eq in E. subst. eauto.
  - destruct I as [->|I]; [rewrite path_eqb_refl in E; discriminate|].
    eapply IHl; eauto.
Qed.

Lemma mapM_map_id : forall (f : path -> option (path * val)) (g : path -> val) l,
  (forall q, In q l -> f q = Some (q, g q)) -> mapM f l = Some (map (fun q => (q, g q)) l).
Proof.
  induction l; simpl; intros H; auto. rewrite H by auto. rewrite IHl by auto. reflexivity.
Qed.

(* a record whose keys are pairwise distinct is determined by its lookups *)
Lemma record_canonical : forall (r : record), NoDup (map fst r) ->
  r = map (fun q => (q, match get q r with Some v => v | None => VUnset end)) (map fst r).
Proof.
  induction r as [|[q v] r]; simpl; intros ND; auto. inversion ND; subst.
  rewrite path_eqb_refl. f_equal. rewrite IHr at 1 by assumption.
  apply map_ext_in. intros p I. destruct (path_eqb q p) eqn:E; auto.
  apply path_eqb_eq in E. subst. contradiction.
Qed.

(* ---- the table ---- *)
Lemma existsb_eqb_in : forall n l, existsb (String.eqb n) l = true <-> In n l.
Proof.
  intros. rewrite existsb_exists. split.
  - intros [x [I E]]. apply String.eqb_eq in E. subst; auto.
  - intros I. exists n. split; auto. apply String.eqb_refl.
Qed.

Lemma nodup_names_NoDup : forall l, nodup_names l = true -> NoDup l.
Proof.
  induction l; simpl; intros H; constructor; apply andb_true_iff in H as [H1 H2]; auto.
  intros I. apply existsb_eqb_in in I. rewrite I in H1. discriminate.
Qed.

Section Den.
  Variables (dur_str : Z -> bytes) (parse_dur : bytes -> option Z).
  Notation D := (den dur_str parse_dur).

  Lemma den_at : forall tbl a d, lookup tbl a = Some d ->
    forall r, D tbl a r = apply dur_str parse_dur (D (rest_after tbl a)) d r.
  Proof.
    induction tbl as [|x tbl]; simpl; intros a d L r; [discriminate|].
    destruct (String.eqb (m_name x) a); auto. injection L as ->. reflexivity.
  Qed.

  (* a name defined in the rest of the table (and, names being distinct, nowhere above) *)
  Lemma den_rest : forall tbl a n, NoDup (names_of tbl) -> In n (names_of (rest_after tbl a)) ->
    forall r, D (rest_after tbl a) n r = D tbl n r.
  Proof.
    induction tbl as [|x tbl]; simpl; intros a n ND I r; [contradiction|].
    inversion ND; subst.
    destruct (String.eqb (m_name x) a) eqn:E.
    - destruct (String.eqb (m_name x) n) eqn:E2; auto.
      apply String.eqb_eq in E2. subst. contradiction.
    - assert (In n (names_of tbl)).
      { clear -I. induction tbl; simpl in *; auto. destruct (String.eqb (m_name a0) a); auto. }
      destruct (String.eqb (m_name x) n) eqn:E2.
      + apply String.eqb_eq in E2. subst. contradiction.
      + apply IHtbl; auto.
  Qed.
End Den.

Lemma den_chk_reject : forall ds pd hp hs tbl name d r, lookup tbl name = Some d ->
  checks_reject hp hs d r = true -> den_chk ds pd hp hs tbl name r = None.
Proof.
  induction tbl as [|x tbl]; simpl; intros name d r L C; [discriminate|].
  destruct (String.eqb (m_name x) name).
  - injection L as ->. rewrite C. reflexivity.
  - eapply IHtbl; eauto.
Qed.

(* ---- hexadecimal text ---- *)
Lemma hex_digit_val : forall n, 0 <= n < 16 -> hex_val (hex_digit n) = Some n.
Proof.
  intros n R. assert (n = 0 \/ n = 1 \/ n = 2 \/ n = 3 \/ n = 4 \/ n = 5 \/ n = 6 \/ n = 7 \/ n = 8 \/ n = 9 \/
    n = 10 \/ n = 11 \/ n = 12 \/ n = 13 \/ n = 14 \/ n = 15) by lia.
  repeat (destruct H as [->|H]; [reflexivity|]). subst; reflexivity.
Qed.

Lemma hex_roundtrip : forall b, all_bytes b = true -> hex_decode (hex_encode b) = Some b.
Proof.
  induction b; simpl; intros H; auto.
  apply andb_true_iff in H as [Ha Hb]. unfold is_byte in Ha. apply andb_true_iff in Ha as [A1 A2].
  apply Z.leb_le in A1. apply Z.ltb_lt in A2.
  rewrite !hex_digit_val.
  - rewrite IHb by assumption. f_equal. f_equal.
    rewrite Z.mul_comm. symmetry. apply Z.div_mod. lia.
  - apply Z.mod_pos_bound; lia.
  - split; [apply Z.div_pos; lia | apply Z.div_lt_upper_bound; lia].
Qed.

Lemma hex_encode_nonempty : forall b, b <> [] -> hex_encode b <> [].
Proof. destruct b; simpl; intros; congruence. Qed.

(* ---- the per-class laws ---- *)
Definition is_bytes_val (v : val) : Prop := exists b, v = VBytes b /\ all_bytes b = true.

Definition vpair := (string * string * (record -> Prop) * (record -> record))%type.
Definition vp_a (p : vpair) := fst (fst (fst p)).
Definition vp_b (p : vpair) := snd (fst (fst p)).
Definition vp_P (p : vpair) := snd (fst p).
Definition vp_R (p : vpair) := snd p.

Fixpoint vfind (vs : list vpair) (a b : string) : option vpair :=
  match vs with
  | [] => None
  | p :: rest => if String.eqb (vp_a p) a && String.eqb (vp_b p) b then Some p else vfind rest a b
  end.

Definition nres (R : record -> record) (v : val) : val := match v with VRec r => VRec (R r) | x => x end.

Section Laws.
  Variables (dur_str : Z -> bytes) (parse_dur : bytes -> option Z).
  Hypothesis parse_dur_str : forall d, parse_dur (dur_str d) = Some d.
  Hypothesis dur_str_nonempty : forall d, dur_str d <> [].
  Variable nested : string -> record -> option record.
  Variable verified : list vpair.
  Hypothesis verified_sound : forall p, In p verified -> forall r, vp_P p r ->
    exists r1, nested (vp_a p) r = Some r1 /\ nested (vp_b p) r1 = Some (vp_R p r).

  Notation SS := (sem_seq dur_str parse_dur nested).

  (* precondition of a class on the value being encoded *)
  Definition cpre (c : rtclass) (v : val) : Prop :=
    match c with
    | RAny | RExternal => True
    | RNotNil => v <> VNil
    | RBytes => is_bytes_val v
    | RBytesOrNil => v = VNil \/ exists b, v = VBytes b /\ b <> [] /\ all_bytes b = true
    | RBytesNonEmpty => exists b, v = VBytes b /\ b <> [] /\ all_bytes b = true
    | RBytesList => exists l, v = VList l /\ Forall is_bytes_val l
    | RDur => exists d, v = VInt d
    | RSecs bits => exists k, v = VInt (k * ns_per_s) /\ 0 <= k < 2 ^ bits
    | RUnsigned bits => exists z, v = VInt z /\ 0 <= z < 2 ^ bits
    | RSigned bits => exists z, v = VInt z /\ - 2 ^ (bits - 1) <= z < 2 ^ (bits - 1)
    | RScheme => exists n, v = VBytes n /\ n <> [] /\ mem_bytes n scheme_names = true
    | RCanonID => exists id, v = VBytes id
    | ROptCoeffs f => v = VNil \/ exists l, v = VRec [([f], VList l)] /\ l <> [] /\ Forall is_bytes_val l
    | RNested a b => exists p r, vfind verified a b = Some p /\ v = VRec r /\ vp_P p r
    | ROptNested a b => v = VNil \/ exists p r, vfind verified a b = Some p /\ v = VRec r /\ vp_P p r
    | RMapNested a b => exists p l, vfind verified a b = Some p /\ v = VList l /\
                                    Forall (fun x => exists r, x = VRec r /\ vp_P p r) l
    | RPartial f => exists r n, v = VRec r /\ get [f] r = Some (VBytes n) /\ n <> [] /\ mem_bytes n scheme_names = true
    end.

  (* the value that comes back *)
  Definition cres (c : rtclass) (v : val) : val :=
    match c with
    | RExternal => VUnset
    | RCanonID => match v with VBytes id => VBytes (canon_id id) | x => x end
    | RNested a b | ROptNested a b =>
        match vfind verified a b with Some p => nres (vp_R p) v | None => v end
    | RMapNested a b =>
        match vfind verified a b, v with Some p, VList l => VList (map (nres (vp_R p)) l) | _, _ => v end
    | RPartial f => match v with VRec r => match get [f] r with Some s => VRec [([f], s)] | None => v end | x => x end
    | _ => v
    end.

  Lemma vfind_in : forall vs a b p, vfind vs a b = Some p -> In p vs /\ vp_a p = a /\ vp_b p = b.
  Proof.
    induction vs; simpl; intros; [discriminate|].
    destruct (String.eqb (vp_a a) a0 && String.eqb (vp_b a) b) eqn:E.
    - injection H as <-. apply andb_true_iff in E as [E1 E2].
      apply String.eqb_eq in E1, E2. auto.
    - apply IHvs in H. tauto.
  Qed.

  Lemma mapM_bytes_id : forall l, Forall is_bytes_val l -> mapM (bytesv) l = Some l.
  Proof.
    induction 1; simpl; auto. destruct H as [b [-> _]]. simpl. rewrite IHForall. reflexivity.
  Qed.
  Lemma mapM_hex : forall l, Forall is_bytes_val l ->
    exists l', mapM hexv l = Some l' /\ mapM unhexv l' = Some l.
  Proof.
    induction 1; simpl; eauto. destruct H as [b [-> Hb]]. destruct IHForall as [l' [E1 E2]].
    simpl. rewrite E1. eexists; split; [reflexivity|]. simpl. rewrite hex_roundtrip by assumption.
    simpl. rewrite E2. reflexivity.
  Qed.

  Lemma wrap_u_small : forall bits z, 0 <= z < 2 ^ bits -> wrap_u bits z = z.
  Proof. intros; unfold wrap_u; apply Z.mod_small; auto. Qed.

  Lemma wrap_s_small : forall z, - 2 ^ 63 <= z < 2 ^ 63 -> wrap_s 64 z = z.
  Proof.
    intros z R. unfold wrap_s. change (64 - 1) with 63.
    destruct (Z_lt_ge_dec z 0).
    - assert (E : z mod 2 ^ 64 = z + 2 ^ 64).
      { symmetry. apply Z.mod_unique with (q := -1); lia. }
      rewrite E. destruct (z + 2 ^ 64 <? 2 ^ 63) eqn:C; [apply Z.ltb_lt in C; lia | lia].
    - rewrite Z.mod_small by lia. destruct (z <? 2 ^ 63) eqn:C; auto. apply Z.ltb_ge in C. lia.
  Qed.

  Lemma wrap_s_u : forall z, - 2 ^ 63 <= z < 2 ^ 63 -> wrap_s 64 (wrap_u 64 z) = z.
  Proof.
    intros z R. unfold wrap_s, wrap_u. rewrite Z.mod_mod by lia. apply (wrap_s_small z R).
  Qed.

  (* the fixed table *)
  Lemma table_law : forall e d c, In (e, d, c) class_table -> forall v, cpre c v ->
    exists w, SS e v = Some w /\ SS d w = Some (cres c v).
  Proof.
    intros e d c I v P. simpl in I.
    repeat (destruct I as [I|I]; [injection I as <- <- <-|]); try contradiction; simpl in P; simpl cres.
    all: try (exists v; split; destruct v; reflexivity).
    - (* SeedOrHash / IfNotNil *) exists v; split; destruct v; try reflexivity; congruence.
    - destruct P as [b [-> Hb]]. simpl. eexists; split; [reflexivity|]. simpl. rewrite hex_roundtrip by auto. reflexivity.
    - destruct P as [b [-> Hb]]. simpl. eexists; split; [reflexivity|]. simpl. rewrite hex_roundtrip by auto. reflexivity.
    - destruct P as [b [-> Hb]]. simpl. eexists; split; [reflexivity|]. simpl. rewrite hex_roundtrip by auto. reflexivity.
    - destruct P as [b [-> Hb]]. simpl. eexists; split; reflexivity.
    - destruct P as [b [-> Hb]]. simpl. eexists; split; [reflexivity|]. simpl. rewrite hex_roundtrip by auto. reflexivity.
    - (* Hex / IfNonEmpty; UnHex *)
      destruct P as [->|[b [-> [Nb Hb]]]]; simpl.
      + eexists; split; reflexivity.
      + eexists; split; [reflexivity|]. simpl.
        destruct (hex_encode b) eqn:Eh; [apply hex_encode_nonempty in Nb; contradiction|].
        rewrite <- Eh. rewrite hex_roundtrip by auto. reflexivity.
    - (* IfNonEmpty; Hex / IfNotNil; UnHex *)
      destruct P as [->|[b [-> [Nb Hb]]]]; simpl.
      + eexists; split; reflexivity.
      + destruct b; [congruence|]. simpl. eexists; split; [reflexivity|].
        change (z / 16) with (z / 16). 
        assert (X := hex_roundtrip (z :: b) Hb). simpl in X. simpl. rewrite X. reflexivity.
    - (* SeedOrHash; Hex / IfNonEmpty; UnHex *)
      destruct P as [b [-> [Nb Hb]]]. simpl. eexists; split; [reflexivity|]. simpl.
      destruct (hex_encode b) eqn:Eh; [apply hex_encode_nonempty in Nb; contradiction|].
      rewrite <- Eh. rewrite hex_roundtrip by auto. reflexivity.
    - (* MapPointStr / MapStrPoint *)
      destruct P as [l [-> F]]. destruct (mapM_hex l F) as [l' [E1 E2]]. simpl. rewrite E1. simpl.
      eexists; split; [reflexivity|]. simpl. rewrite E2. reflexivity.
    - destruct P as [l [-> F]]. simpl. rewrite mapM_bytes_id by auto. simpl.
      eexists; split; [reflexivity|]. simpl. rewrite mapM_bytes_id by auto. reflexivity.
    - destruct P as [d0 ->]. simpl. eexists; split; [reflexivity|]. simpl. rewrite parse_dur_str. reflexivity.
    - destruct P as [d0 ->]. simpl. eexists; split; [reflexivity|]. simpl.
      destruct (dur_str d0) eqn:Ed; [apply dur_str_nonempty in Ed; contradiction|].
      rewrite <- Ed, parse_dur_str. reflexivity.
    - destruct P as [k [-> R]]. simpl. eexists; split; [reflexivity|]. simpl.
      unfold ns_per_s. rewrite Z.div_mul by lia. rewrite wrap_u_small by auto. reflexivity.
    - destruct P as [k [-> R]]. simpl. eexists; split; [reflexivity|]. simpl.
      unfold ns_per_s. rewrite Z.div_mul by lia. rewrite wrap_u_small by auto. reflexivity.
    - destruct P as [z [-> R]]. simpl. eexists; split; [reflexivity|]. simpl.
      rewrite wrap_u_small by auto. rewrite wrap_s_small; [reflexivity|].
      assert (2 ^ 32 < 2 ^ 63) by (apply Z.pow_lt_mono_r; lia). lia.
    - destruct P as [z [-> R]]. simpl. eexists; split; [reflexivity|]. simpl.
      change (64 - 1) with 63 in R. rewrite wrap_s_u by auto. reflexivity.
    - destruct P as [n [-> [Nn Hn]]]. simpl. eexists; split; [reflexivity|]. simpl.
      destruct n; [congruence|]. rewrite Hn. reflexivity.
    - destruct P as [n [-> [Nn Hn]]]. simpl. eexists; split; [reflexivity|]. simpl.
      destruct n; [congruence|]. rewrite Hn. reflexivity.
    - destruct P as [n [-> [Nn Hn]]]. simpl. eexists; split; [reflexivity|]. simpl.
      destruct n; [congruence|]. rewrite Hn. reflexivity.
    - destruct P as [id ->]. simpl. eexists; split; reflexivity.
    - destruct P as [id ->]. simpl. eexists; split; reflexivity.
  Qed.

  Lemma mapM_nested : forall p l, In p verified ->
    Forall (fun x => exists r, x = VRec r /\ vp_P p r) l ->
    exists l', mapM (nestv nested (vp_a p)) l = Some l' /\
               mapM (nestv nested (vp_b p)) l' = Some (map (nres (vp_R p)) l).
  Proof.
    intros p l I F. induction F; simpl; eauto.
    destruct H as [r [-> Pr]]. destruct IHF as [l' [E1 E2]].
    destruct (verified_sound p I r Pr) as [r1 [N1 N2]].
    simpl. rewrite N1. simpl. rewrite E1. eexists; split; [reflexivity|].
    simpl. rewrite N2. simpl. rewrite E2. reflexivity.
  Qed.

  Lemma param_law : forall e d c, classify_param e d = Some c -> forall v, cpre c v ->
    exists w, SS e v = Some w /\ SS d w = Some (cres c v).
  Proof.
    intros e d c H v P. unfold classify_param in H.
    repeat match type of H with
           | (if String.eqb ?a ?b then _ else _) = Some _ => destruct (String.eqb a b) eqn:Heqb; try discriminate
           | match ?x with _ => _ end = Some _ => destruct x; try discriminate
           end; injection H as <-; simpl in P; simpl cres.
    - (* Field f; SchemeName / SchemeByID; WrapField f *)
      apply String.eqb_eq in Heqb. subst.
      destruct P as [r [n [-> [G [Nn Hn]]]]]. simpl. rewrite G. simpl.
      eexists; split; [reflexivity|]. simpl. destruct n; [congruence|]. rewrite Hn. reflexivity.
    - (* OptField f; MapPointBytes / MapBytesPoint; WrapIfNonEmpty f *)
      apply String.eqb_eq in Heqb. subst.
      destruct P as [->|[l [-> [Nl Fl]]]]; simpl.
      + eexists; split; reflexivity.
      + rewrite String.eqb_refl. simpl. rewrite mapM_bytes_id by auto. simpl.
        eexists; split; [reflexivity|]. simpl. rewrite mapM_bytes_id by auto. simpl.
        destruct l; [congruence|]. reflexivity.
    - (* Nested *)
      destruct P as [p [r [F [-> Pr]]]]. rewrite F. apply vfind_in in F as [I [<- <-]].
      destruct (verified_sound p I r Pr) as [r1 [N1 N2]]. simpl. rewrite N1. simpl.
      eexists; split; [reflexivity|]. simpl. rewrite N2. reflexivity.
    - (* OptNested *)
      destruct P as [->|[p [r [F [-> Pr]]]]].
      + destruct (vfind verified m m0); simpl; eexists; split; reflexivity.
      + rewrite F. apply vfind_in in F as [I [<- <-]].
        destruct (verified_sound p I r Pr) as [r1 [N1 N2]]. simpl. rewrite N1. simpl.
        eexists; split; [reflexivity|]. simpl. rewrite N2. reflexivity.
    - (* MapNested *)
      destruct P as [p [l [F [-> Fl]]]]. rewrite F. apply vfind_in in F as [I [<- <-]].
      destruct (mapM_nested p l I Fl) as [l' [E1 E2]]. simpl. rewrite E1. simpl.
      eexists; split; [reflexivity|]. simpl. rewrite E2. reflexivity.
  Qed.

  Lemma class_law : forall e d c, classify e d = Some c -> forall v, cpre c v ->
    exists w, SS e v = Some w /\ SS d w = Some (cres c v).
  Proof.
    intros e d c H. unfold classify in H.
    destruct (find _ class_table) as [[[e' d'] c']|] eqn:F.
    - injection H as <-. apply find_some in F as [I E]. simpl in E.
      apply andb_true_iff in E as [E1 E2]. apply ops_eqb_eq in E1, E2. subst.
      apply table_law; auto.
    - apply param_law; auto.
  Qed.
End Laws.

(* ---- the conversion by another mirror only matters for the names that occur ---- *)
Definition prim_names (p : prim) : list string :=
  match p with Nested m | OptNested m | MapNested m => [m] | _ => [] end.

Section Ext.
  Variables (dur_str : Z -> bytes) (parse_dur : bytes -> option Z).
  Variables f g : string -> record -> option record.

  Lemma sem_ext : forall p v, (forall m, In m (prim_names p) -> forall r, f m r = g m r) ->
    sem dur_str parse_dur f p v = sem dur_str parse_dur g p v.
  Proof.
    intros p v H. destruct p; simpl; try reflexivity.
    - unfold nestv. destruct v; try reflexivity. rewrite H by (simpl; auto). reflexivity.
    - destruct v; try reflexivity; unfold nestv; rewrite H by (simpl; auto); reflexivity.
    - unfold vmap. destruct v; try reflexivity. f_equal. apply mapM_ext. intros x _.
      unfold nestv. destruct x; try reflexivity. rewrite H by (simpl; auto). reflexivity.
  Qed.

  Lemma sem_step_ext : forall p (k k' : val -> option val) v,
    (forall w, k w = k' w) -> (forall w, sem dur_str parse_dur f p w = sem dur_str parse_dur g p w) ->
    sem_step dur_str parse_dur f p k v = sem_step dur_str parse_dur g p k' v.
  Proof.
    intros p k k' v Hk Hs. unfold sem_step.
    destruct v; try reflexivity; destruct p; rewrite ?Hs; rewrite ?Hk;
      try reflexivity;
      try (match goal with |- match ?x with _ => _ end = _ => destruct x end; rewrite ?Hk; reflexivity).
  Qed.

  Lemma sem_seq_ext : forall ops v, (forall m, In m (flat_map prim_names ops) -> forall r, f m r = g m r) ->
    sem_seq dur_str parse_dur f ops v = sem_seq dur_str parse_dur g ops v.
  Proof.
    induction ops as [|p ops]; simpl; intros v H; auto.
    apply sem_step_ext.
    - intros w. apply IHops. intros; apply H; apply in_or_app; auto.
    - intros w. apply sem_ext. intros; apply H; apply in_or_app; auto.
  Qed.

  Lemma apply_ext : forall d r, (forall m, In m (nested_names (m_entries d)) -> forall r, f m r = g m r) ->
    apply dur_str parse_dur f d r = apply dur_str parse_dur g d r.
  Proof.
    intros d r H. unfold apply. apply mapM_ext. intros leaf _. unfold apply_leaf.
    destruct (find_entry (m_entries d) leaf) as [e|] eqn:F; auto.
    apply find_entry_some in F as [I _].
    assert (He : forall m, In m (flat_map prim_names (e_ops e)) -> forall r, f m r = g m r).
    { intros m Im. apply H. unfold nested_names. apply in_flat_map. exists e. split; auto. }
    destruct (e_src e) as [|s0 l0].
    - rewrite (sem_seq_ext (e_ops e) VUnset He). reflexivity.
    - destruct (get (s0 :: l0) r) as [sv|]; [|reflexivity].
      rewrite (sem_seq_ext (e_ops e) sv He). reflexivity.
  Qed.
End Ext.

Lemma get_in_keys : forall (r : record) q, In q (map fst r) -> exists v, get q r = Some v.
Proof.
  induction r as [|[p v] r]; simpl; intros q I; [contradiction|].
  destruct (path_eqb p q) eqn:E; eauto. destruct I as [->|I]; [rewrite path_eqb_refl in E; discriminate|auto].
Qed.

Lemma mem_path_in : forall p l, mem_path p l = true -> In p l.
Proof.
  unfold mem_path; intros. apply existsb_exists in H as [x [I E]]. apply path_eqb_eq in E. subst; auto.
Qed.
Lemma paths_eqb_eq : forall a b, paths_eqb a b = true -> a = b.
Proof.
  induction a; destruct b; simpl; intros H; try discriminate; auto.
  apply andb_true_iff in H as [H1 H2]. apply path_eqb_eq in H1. apply IHa in H2. subst; reflexivity.
Qed.

Lemma classify_not_external : forall e d c, classify e d = Some c -> c <> RExternal.
Proof.
  intros e d c Hc. unfold classify in Hc.
  destruct (find _ class_table) as [[[e' d'] c']|] eqn:F.
  - injection Hc as <-. apply find_some in F as [Ic _]. simpl in Ic.
    repeat (destruct Ic as [Ic|Ic]; [injection Ic as <- <- <-; discriminate|]). contradiction.
  - unfold classify_param in Hc.
    repeat match type of Hc with
           | (if String.eqb ?x ?y then _ else _) = Some _ => destruct (String.eqb x y); try discriminate
           | match ?x with _ => _ end = Some _ => destruct x; try discriminate
           end; injection Hc as <-; discriminate.
Qed.

Lemma ext_entry_spec : forall e, ext_entry e = true -> exists w, e_ops e = [External w] /\ e_src e = [].
Proof.
  unfold ext_entry; intros e H. destruct (e_ops e) as [|p [|p1 ops1]]; try discriminate;
    destruct p; try discriminate; destruct (e_src e); try discriminate. eauto.
Qed.

Lemma leaf_link_spec : forall enc dec leaf q c, leaf_link enc dec leaf = Some (q, c) ->
  (c = RExternal /\ exists eb w, find_entry (m_entries dec) leaf = Some eb /\ e_ops eb = [External w] /\ e_src eb = []) \/
  (c <> RExternal /\ exists ea eb, find_entry (m_entries dec) leaf = Some eb /\ e_src eb = q /\ q <> [] /\
      In q (m_dst_leaves enc) /\ find_entry (m_entries enc) q = Some ea /\ e_src ea = leaf /\ leaf <> [] /\
      classify (e_ops ea) (e_ops eb) = Some c).
Proof.
  intros enc dec leaf q c LL. unfold leaf_link in LL.
  destruct (find_entry (m_entries dec) leaf) as [eb|] eqn:FB; [|discriminate].
  destruct (ext_entry eb) eqn:EX.
  - injection LL as <- <-. left. split; auto. apply ext_entry_spec in EX as [w [O S]]. eauto.
  - right. unfold link_generic in LL. destruct (find_entry (m_entries enc) (e_src eb)) as [ea|] eqn:FA; [|discriminate].
    destruct (path_eqb (e_src ea) leaf && mem_path (e_src eb) (m_dst_leaves enc) && negb (path_eqb leaf []) && negb (path_eqb (e_src eb) [])) eqn:C; [|discriminate].
    repeat (apply andb_true_iff in C as [C ?]).
    destruct (classify (e_ops ea) (e_ops eb)) as [c0|] eqn:CL; [|discriminate]. simpl in LL. injection LL as <- <-.
    apply path_eqb_eq in C. apply mem_path_in in H1.
    split; [eapply classify_not_external; eauto|].
    exists ea, eb. repeat split; auto.
    + intros E. rewrite E in H. simpl in H. discriminate.
    + intros E. rewrite E in H0. simpl in H0. discriminate.
Qed.

Lemma apply_leaf_key : forall ds pd nst es r q p v, apply_leaf ds pd nst es r q = Some (p, v) -> p = q.
Proof.
  unfold apply_leaf; intros. destruct (find_entry es q) as [e|].
  - destruct (match e_src e with [] => Some VUnset | s0 :: l0 => get (s0 :: l0) r end); [|discriminate].
    destruct (sem_seq ds pd nst (e_ops e) v0); [|discriminate]. simpl in H. congruence.
  - congruence.
Qed.

(* ---- the reflection theorem ---- *)
Section Reflection.
  Variables (dur_str : Z -> bytes) (parse_dur : bytes -> option Z).
  Hypothesis parse_dur_str : forall d, parse_dur (dur_str d) = Some d.
  Hypothesis dur_str_nonempty : forall d, dur_str d <> [].
  Variable tbl : list mirror_def.
  Notation N := (den dur_str parse_dur tbl).

  Definition pair_sound (a b : string) (P : record -> Prop) (R : record -> record) : Prop :=
    forall r, P r -> exists r1, N a r = Some r1 /\ N b r1 = Some (R r).

  Variable verified : list vpair.
  Hypothesis verified_sound : forall p, In p verified -> pair_sound (vp_a p) (vp_b p) (vp_P p) (vp_R p).

  (* a well-formed source value: exactly the source leaves, each meeting its class's precondition *)
  Definition wf_rec (enc dec : mirror_def) (r : record) : Prop :=
    map fst r = m_src_leaves enc /\ NoDup (m_src_leaves enc) /\
    forall leaf c v, leaf_class enc dec leaf = Some c -> get leaf r = Some v -> cpre verified c v.

  (* what comes back: the value itself, except for the classes that normalise *)
  Definition norm_rec (enc dec : mirror_def) (r : record) : record :=
    map (fun kv => (fst kv, match leaf_class enc dec (fst kv) with
                            | Some c => cres verified c (snd kv) | None => snd kv end)) r.

  Definition vnames : list (string * string) := map (fun p => (vp_a p, vp_b p)) verified.

  Theorem roundtrip_sound : forall a b enc dec,
    lookup tbl a = Some enc -> lookup tbl b = Some dec ->
    roundtrip_ok tbl vnames a b = true ->
    pair_sound a b (wf_rec enc dec) (norm_rec enc dec).
  Proof.
    intros a b enc dec La Lb OK r [Keys [ND WF]].
    unfold roundtrip_ok in OK. rewrite La, Lb in OK.
    repeat (apply andb_true_iff in OK as [OK ?]).
    rename H into Covr, H0 into NestB, H1 into NestA, H2 into Harm, H3 into Cover, H4 into Incl, H5 into Leaves.
    apply nodup_names_NoDup in OK. apply paths_eqb_eq in Leaves.
    (* both conversions may be read with the full table as nested denotation *)
    assert (EA : forall r0, N a r0 = apply dur_str parse_dur N enc r0).
    { intros r0. rewrite (den_at _ _ _ _ _ La). apply apply_ext. intros m Im r'.
      apply den_rest; auto. rewrite forallb_forall in NestA. apply existsb_eqb_in. apply NestA; auto. }
    assert (EB : forall r0, N b r0 = apply dur_str parse_dur N dec r0).
    { intros r0. rewrite (den_at _ _ _ _ _ Lb). apply apply_ext. intros m Im r'.
      apply den_rest; auto. rewrite forallb_forall in NestB. apply existsb_eqb_in. apply NestB; auto. }
    pose proof (class_law dur_str parse_dur parse_dur_str dur_str_nonempty N verified verified_sound) as LAW.
    (* what the link of a source leaf gives *)
    assert (LINK : forall leaf, In leaf (m_src_leaves enc) -> exists q c v,
              leaf_link enc dec leaf = Some (q, c) /\ get leaf r = Some v /\ cpre verified c v /\
              ((c = RExternal /\ exists eb w, find_entry (m_entries dec) leaf = Some eb /\ e_ops eb = [External w] /\ e_src eb = []) \/
               (c <> RExternal /\ exists ea eb, find_entry (m_entries dec) leaf = Some eb /\ e_src eb = q /\ q <> [] /\
                   In q (m_dst_leaves enc) /\ find_entry (m_entries enc) q = Some ea /\ e_src ea = leaf /\ leaf <> [] /\
                   classify (e_ops ea) (e_ops eb) = Some c))).
    { intros leaf I. rewrite forallb_forall in Cover. specialize (Cover leaf I).
      destruct (leaf_class enc dec leaf) as [c|] eqn:LC; [|discriminate].
      unfold leaf_class in LC. destruct (leaf_link enc dec leaf) as [[q c']|] eqn:LL; [|discriminate].
      simpl in LC. injection LC as ->.
      destruct (get_in_keys r leaf) as [v G]; [rewrite Keys; auto|].
      exists q, c, v. split; auto. split; auto. split.
      { apply (WF leaf c v); auto. unfold leaf_class. rewrite LL. reflexivity. }
      apply leaf_link_spec; auto. }
    (* encoding succeeds *)
    assert (ENC : exists r1, apply dur_str parse_dur N enc r = Some r1).
    { unfold apply. apply mapM_total. intros q Iq. unfold apply_leaf.
      destruct (find_entry (m_entries enc) q) as [ea|] eqn:FA; eauto.
      rewrite forallb_forall in Harm. specialize (Harm q Iq). rewrite FA in Harm.
      apply orb_true_iff in Harm as [Hh|Hp].
      - unfold harmless_entry in Hh. destruct (e_ops ea) as [|p0 t]; try discriminate.
        destruct p0; try discriminate; destruct t; try discriminate; destruct (e_src ea); try discriminate; simpl; eauto.
      - apply existsb_exists in Hp as [leaf [Il Hl]].
        destruct (LINK leaf Il) as [q' [c [v [LL [G [PRE ALT]]]]]]. rewrite LL in Hl.
        apply andb_true_iff in Hl as [Hq Hc]. apply path_eqb_eq in Hq. subst q'.
        destruct ALT as [[-> _]|[_ [ea' [eb [FB [SB [Nq [Iq' [FA' [SA [Nl CL]]]]]]]]]]]; [discriminate|].
        rewrite FA in FA'. injection FA' as <-. rewrite SA.
        destruct leaf as [|l0 leaf]; [congruence|]. rewrite G.
        destruct (LAW _ _ _ CL v PRE) as [w [E1 _]]. rewrite E1. simpl. eauto. }
    destruct ENC as [r1 ENC]. exists r1. split; [rewrite EA; exact ENC|].
    rewrite EB. unfold apply. rewrite <- Leaves.
    unfold norm_rec. rewrite (record_canonical r) at 1 by (rewrite Keys; auto).
    rewrite map_map. simpl. rewrite Keys.
    apply mapM_map_id. intros leaf Il.
    destruct (LINK leaf Il) as [q [c [v [LL [G [PRE ALT]]]]]].
    unfold leaf_class. rewrite LL. simpl. rewrite G. unfold apply_leaf.
    destruct ALT as [[-> [eb [w [FB [OPS SRC]]]]]|[NEx [ea [eb [FB [SB [Nq [Iq [FA [SA [Nl CL]]]]]]]]]]].
    - rewrite FB, SRC, OPS. reflexivity.
    - rewrite FB, SB. destruct q as [|q0 q]; [congruence|].
      unfold apply in ENC.
      destruct (get_mapM _ _ _ (apply_leaf_key _ _ _ _ _) ENC (q0 :: q) Iq) as [w [AL GW]].
      rewrite GW. unfold apply_leaf in AL. rewrite FA, SA in AL.
      destruct leaf as [|l0 leaf]; [congruence|]. rewrite G in AL.
      destruct (LAW _ _ _ CL v PRE) as [w' [E1 E2]]. rewrite E1 in AL. simpl in AL. injection AL as <-.
      rewrite E2. reflexivity.
  Qed.
End Reflection.
