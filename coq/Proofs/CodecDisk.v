(* The key store as a register per file (the disk model of Model/Codec.v): after any history of saves,
   loads and resets a load returns exactly the value written last. *)
From Coq Require Import String ZArith List Bool.
From DV Require Import Model.ByteEnc Model.CodecVocab Model.Codec.
Import ListNotations.
Open Scope Z_scope.
Open Scope list_scope.

Lemma disk_run_app : forall a b s,
  disk_run s (a ++ b) =
  let '(s1, o1) := disk_run s a in let '(s2, o2) := disk_run s1 b in (s2, o1 ++ o2).
Proof.
  induction a as [|o a]; intros b s; simpl.
  - destruct (disk_run s b); reflexivity.
  - destruct (disk_step s o) as [s1 out]. rewrite IHa.
    destruct (disk_run s1 a) as [s2 o1]. destruct (disk_run s2 b) as [s3 o2].
    destruct out; reflexivity.
Qed.

Lemma dget_dset_same : forall f x s, dget f (dset f x s) = x.
Proof. destruct f; reflexivity. Qed.

Lemma disk_state_is_last_written : forall ops f,
  dget f (fst (disk_run disk_init ops)) = last_written f (rev ops).
Proof.
  intros ops. induction ops as [|o ops IH] using rev_ind; intros f; [destruct f; reflexivity|].
  rewrite rev_app_distr. simpl rev. simpl app. rewrite disk_run_app.
  destruct (disk_run disk_init ops) as [s1 o1] eqn:R. simpl in IH.
  destruct o as [g v|g|]; simpl.
  - destruct f, g; simpl; try reflexivity; rewrite <- IH; reflexivity.
  - apply IH.
  - destruct f; simpl; try reflexivity. rewrite <- IH. reflexivity.
Qed.

(* a load at the end of any history returns the value written last to that file *)
Lemma disk_load_last_written : forall ops f,
  snd (disk_run disk_init (ops ++ [DLoad f])) =
  snd (disk_run disk_init ops) ++ [last_written f (rev ops)].
Proof.
  intros ops f. rewrite disk_run_app.
  pose proof (disk_state_is_last_written ops f) as H.
  destruct (disk_run disk_init ops) as [s1 o1]. simpl in *. rewrite H. reflexivity.
Qed.
