(* Lemmas about the hash preimage model (Model/Hashes.v, C17): fixed-width encodings are
   injective on their ranges, concatenations of fixed-length fields decompose uniquely, sorted
   permutations are unique, and the sensitivity / order-invariance facts used by Props/C17.v. *)
From Coq Require Import String ZArith List Bool Lia Permutation Sorted.
From DV Require Import Model.ByteEnc Model.HashVocab Gen.HashOrder Model.Hashes.
Import ListNotations.
Open Scope Z_scope.
Open Scope list_scope.

Lemma le_bytes_length : forall n z, length (le_bytes n z) = n.
Proof. induction n; simpl; intros; auto. Qed.

Lemma be_bytes_length : forall n z, length (be_bytes n z) = n.
Proof. intros; unfold be_bytes; rewrite rev_length; apply le_bytes_length. Qed.

Lemma le_bytes_inj_mod : forall n z z', le_bytes n z = le_bytes n z' ->
  z mod 256 ^ Z.of_nat n = z' mod 256 ^ Z.of_nat n.
Proof.
  induction n; intros z z' H.
  - simpl. rewrite !Z.mod_1_r. reflexivity.
  - simpl in H. injection H as H0 H1. apply IHn in H1.
    rewrite Nat2Z.inj_succ, Z.pow_succ_r by lia.
    rewrite !Z.rem_mul_r by lia. rewrite H0, H1. reflexivity.
Qed.

Lemma be_bytes_inj_mod : forall n z z', be_bytes n z = be_bytes n z' ->
  z mod 256 ^ Z.of_nat n = z' mod 256 ^ Z.of_nat n.
Proof.
  unfold be_bytes; intros. apply le_bytes_inj_mod.
  rewrite <- (rev_involutive (le_bytes n z)), H, rev_involutive. reflexivity.
Qed.

Lemma enc_int_length : forall e w z, 0 <= w -> Z.of_nat (length (enc_int e w z)) = w.
Proof. intros; destruct e; simpl; rewrite ?le_bytes_length, ?be_bytes_length; lia. Qed.

Lemma enc_int_inj_mod : forall e w z z', 0 <= w -> enc_int e w z = enc_int e w z' ->
  z mod 256 ^ w = z' mod 256 ^ w.
Proof.
  intros e w z z' Hw H. rewrite <- (Z2Nat.id w) by lia.
  destruct e; simpl in H; [apply be_bytes_inj_mod | apply le_bytes_inj_mod]; exact H.
Qed.

(* unsigned range *)
Lemma enc_int_inj_unsigned : forall e w z z', 0 <= w -> 0 <= z < 256 ^ w -> 0 <= z' < 256 ^ w ->
  enc_int e w z = enc_int e w z' -> z = z'.
Proof.
  intros e w z z' Hw R R' H. apply enc_int_inj_mod in H; auto.
  rewrite !Z.mod_small in H by lia. exact H.
Qed.

(* signed (two's complement) range *)
Lemma enc_int_inj_signed : forall e w z z', 0 < w ->
  - (256 ^ w / 2) <= z < 256 ^ w / 2 -> - (256 ^ w / 2) <= z' < 256 ^ w / 2 ->
  enc_int e w z = enc_int e w z' -> z = z'.
Proof.
  intros e w z z' Hw R R' H. apply enc_int_inj_mod in H; try lia.
  assert (P : 0 < 256 ^ w) by (apply Z.pow_pos_nonneg; lia).
  assert (E : 256 ^ w = 2 * (256 ^ w / 2)).
  { replace w with (Z.succ (w - 1)) by lia. rewrite Z.pow_succ_r by lia.
    replace (256 * 256 ^ (w - 1)) with ((128 * 256 ^ (w-1)) * 2) by lia.
    rewrite Z.div_mul by lia. lia. }
  set (m := 256 ^ w) in *. set (h := m / 2) in *.
  assert (Hz : z mod m = z' mod m) by exact H.
  rewrite (Z.mod_eq z m), (Z.mod_eq z' m) in Hz by lia.
  assert (D : z - z' = m * (z / m - z' / m)) by lia.
  assert (K : z / m - z' / m = 0) by nia.
  rewrite K in D. lia.
Qed.
Lemma bytes_eqb_eq : forall a b, bytes_eqb a b = true <-> a = b.
Proof.
  induction a; destruct b; simpl; split; intros; try reflexivity; try discriminate.
  - apply andb_true_iff in H as [H1 H2]. apply Z.eqb_eq in H1. apply IHa in H2. subst; reflexivity.
  - injection H as -> ->. rewrite Z.eqb_refl. apply IHa. reflexivity.
Qed.

Lemma bytes_eqb_refl : forall a, bytes_eqb a a = true.
Proof. intros; apply bytes_eqb_eq; reflexivity. Qed.

Lemma is_default_empty : is_default_id [] = true.
Proof. reflexivity. Qed.

Lemma id_bytes_equiv : forall a b, id_bytes a = id_bytes b <-> id_equiv a b = true.
Proof.
  intros a b. unfold id_bytes, id_equiv.
  destruct (is_default_id a) eqn:Da, (is_default_id b) eqn:Db; simpl.
  - split; auto.
  - split; intros H.
    + subst b. rewrite is_default_empty in Db. discriminate.
    + apply bytes_eqb_eq in H. subst b. congruence.
  - split; intros H.
    + subst a. rewrite is_default_empty in Da. discriminate.
    + apply bytes_eqb_eq in H. subst b. congruence.
  - rewrite bytes_eqb_eq. tauto.
Qed.

Lemma id_equiv_refl : forall a, id_equiv a a = true.
Proof. intros; unfold id_equiv; rewrite bytes_eqb_refl; apply orb_true_r. Qed.

Lemma canon_id_idem : forall a, canon_id (canon_id a) = canon_id a.
Proof.
  intros; unfold canon_id. destruct (is_default_id a) eqn:D.
  - reflexivity.
  - rewrite D. reflexivity.
Qed.

Lemma id_bytes_canon : forall a, id_bytes (canon_id a) = id_bytes a.
Proof.
  intros; unfold canon_id, id_bytes. destruct (is_default_id a) eqn:D.
  - reflexivity.
  - rewrite D. reflexivity.
Qed.

(* ---- unique decomposition of concatenations ---- *)
Lemma app_inv_len : forall (A : Type) (a a' b b' : list A),
  a ++ b = a' ++ b' -> length a = length a' -> a = a' /\ b = b'.
Proof.
  induction a; destruct a'; simpl; intros; try discriminate; auto.
  injection H as -> H. injection H0 as H0. destruct (IHa _ _ _ H H0). subst; auto.
Qed.

Lemma concat_inj_fixed : forall (A : Type) n (l l' : list (list A)),
  Forall (fun x => length x = n) l -> Forall (fun x => length x = n) l' ->
  length l = length l' -> concat l = concat l' -> l = l'.
Proof.
  induction l; destruct l'; simpl; intros F F' L E; try discriminate; auto.
  inversion F; inversion F'; subst.
  apply app_inv_len in E; [| congruence]. destruct E as [-> E].
  f_equal. apply IHl; auto.
Qed.

Lemma concat_length_fixed : forall (A : Type) n (l : list (list A)),
  Forall (fun x => length x = n) l -> length (concat l) = (length l * n)%nat.
Proof.
  induction 1; simpl; auto. rewrite app_length, IHForall, H. reflexivity.
Qed.

Lemma concat_inj_fixed_pos : forall (A : Type) n (l l' : list (list A)), (0 < n)%nat ->
  Forall (fun x => length x = n) l -> Forall (fun x => length x = n) l' ->
  concat l = concat l' -> l = l'.
Proof.
  intros A n l l' Hn F F' E. apply (concat_inj_fixed A n); auto.
  assert (L : length (concat l) = length (concat l')) by congruence.
  rewrite (concat_length_fixed _ n), (concat_length_fixed _ n) in L by assumption.
  nia.
Qed.

Ltac zb := repeat match goal with
  | H : (_ <=? _) = true |- _ => apply Z.leb_le in H
  | H : (_ <=? _) = false |- _ => apply Z.leb_gt in H end.

(* ---- sorting by key ---- *)
Section Sort.
  Context {A : Type}.
  Definition klt (a b : Z * A) : Prop := fst a < fst b.

  Lemma insert_k_perm : forall (x : Z * A) l, Permutation (insert_k x l) (x :: l).
  Proof.
    induction l; simpl; auto. destruct (fst x <=? fst a); auto.
    eapply perm_trans; [apply perm_skip, IHl | apply perm_swap].
  Qed.

  Lemma isort_k_perm : forall (l : list (Z * A)), Permutation (isort_k l) l.
  Proof.
    induction l; simpl; auto. eapply perm_trans; [apply insert_k_perm | apply perm_skip, IHl].
  Qed.

  Lemma insert_k_comm : forall (x y : Z * A) l, fst x <> fst y ->
    insert_k x (insert_k y l) = insert_k y (insert_k x l).
  Proof.
    induction l; intros N; simpl.
    - destruct (fst x <=? fst y) eqn:E1, (fst y <=? fst x) eqn:E2; auto; zb; lia.
    - destruct (fst y <=? fst a) eqn:Ya, (fst x <=? fst a) eqn:Xa; simpl; rewrite ?Ya, ?Xa;
        repeat (match goal with |- context[?a <=? ?b] => destruct (a <=? b) eqn:? end);
        try reflexivity; try (zb; lia).
      f_equal. apply IHl; auto.
  Qed.

  Lemma isort_k_perm_eq : forall (l l' : list (Z * A)), Permutation l l' ->
    NoDup (map fst l) -> isort_k l = isort_k l'.
  Proof.
    induction 1; intros ND; simpl; auto.
    - inversion ND; subst. rewrite IHPermutation; auto.
    - apply insert_k_comm. inversion ND; subst. simpl in H1. intuition.
    - rewrite IHPermutation1 by auto. apply IHPermutation2.
      eapply Permutation_NoDup; [apply Permutation_map; eassumption | assumption].
  Qed.

  Lemma insert_k_below : forall (x : Z * A) s, Forall (klt x) s -> insert_k x s = x :: s.
  Proof.
    destruct s; simpl; auto. intros F. inversion F; subst. unfold klt in H1.
    destruct (fst x <=? fst p) eqn:E; auto. apply Z.leb_gt in E. lia.
  Qed.

  Lemma sorted_isort_id : forall (s : list (Z * A)), StronglySorted klt s -> isort_k s = s.
  Proof.
    induction 1; simpl; auto. rewrite IHStronglySorted. apply insert_k_below; auto.
  Qed.

  Lemma sorted_nodup : forall (s : list (Z * A)), StronglySorted klt s -> NoDup (map fst s).
  Proof.
    induction 1; simpl; constructor; auto.
    intros I. apply in_map_iff in I as [y [E I]]. rewrite Forall_forall in H0.
    apply H0 in I. unfold klt in I. lia.
  Qed.

  (* any sorting procedure agrees with the model's on lists with pairwise distinct keys *)
  Lemma sorted_perm_unique : forall (s l : list (Z * A)),
    Permutation s l -> StronglySorted klt s -> s = isort_k l.
  Proof.
    intros s l P S. rewrite <- (sorted_isort_id s S). apply isort_k_perm_eq; auto.
    apply sorted_nodup; auto.
  Qed.

  Lemma insert_k_forall : forall (P : Z * A -> Prop) x l, P x -> Forall P l -> Forall P (insert_k x l).
  Proof.
    intros. eapply Permutation_Forall; [symmetry; apply insert_k_perm | constructor; auto].
  Qed.

  Lemma insert_k_sorted : forall (x : Z * A) s, StronglySorted klt s -> ~ In (fst x) (map fst s) ->
    StronglySorted klt (insert_k x s).
  Proof.
    induction 1; intros NI; simpl.
    - constructor; auto. constructor.
    - destruct (fst x <=? fst a) eqn:E.
      + apply Z.leb_le in E. assert (fst x < fst a) by (simpl in NI; lia).
        constructor; [constructor; auto|]. constructor; auto.
        eapply Forall_impl; [| exact H0]. unfold klt; intros; lia.
      + apply Z.leb_gt in E. constructor.
        * apply IHStronglySorted. simpl in NI; tauto.
        * apply insert_k_forall; auto.
  Qed.

  Lemma isort_k_sorted : forall (l : list (Z * A)), NoDup (map fst l) -> StronglySorted klt (isort_k l).
  Proof.
    induction l; simpl; intros ND; [constructor|]. inversion ND; subst.
    apply insert_k_sorted; auto.
    intros I. apply H1. eapply Permutation_in; [apply Permutation_map, isort_k_perm | exact I].
  Qed.
End Sort.

(* ---- explicit forms of the preimages (these are the statements that depend on the
        generated write orders: a change of Info.Hash/Group.Hash/... breaks them first) ---- *)
Definition opt_ttime (t : Z) : bytes := if t =? 0 then [] else le64 t.

Section HashFacts.
  Variables H256 Hb : bytes -> bytes.

  Lemma chain_hash_eq : forall i, chain_hash H256 Hb i = H256 (chain_pre i).
  Proof. reflexivity. Qed.
  Lemma group_hash_eq : forall g, group_hash H256 Hb g = Hb (group_pre H256 Hb g).
  Proof. reflexivity. Qed.
  Lemma node_hash_eq : forall n, node_hash H256 Hb n = Hb (node_pre n).
  Proof. reflexivity. Qed.
  Lemma dist_hash_eq : forall cs, dist_hash H256 Hb cs = Hb (dist_pre cs).
  Proof. reflexivity. Qed.

  Lemma chain_pre_eq : forall i, chain_pre i =
    be32 (i_period i / ns_per_s) ++ be64 (i_genesis i) ++ i_pk i ++ i_seed i ++ id_bytes (i_id i).
  Proof.
    intros. unfold chain_pre, run_spec, id_bytes. cbn.
    destruct (is_default_id (i_id i)); cbn; rewrite ?app_nil_r; reflexivity.
  Qed.

  Lemma node_pre_eq : forall n, node_pre n = le32 (n_idx n) ++ n_key n.
  Proof. intros. unfold node_pre, run_spec. cbn. rewrite ?app_nil_r. reflexivity. Qed.

  Lemma dist_pre_eq : forall cs, dist_pre cs = concat cs.
  Proof. intros. unfold dist_pre, run_spec. cbn. rewrite ?app_nil_r. reflexivity. Qed.

  Definition opt_dist (pk : option (list bytes)) : bytes :=
    match pk with None => [] | Some cs => dist_hash H256 Hb cs end.

  Lemma group_pre_eq : forall g, group_pre H256 Hb g =
    concat (map snd (isort_k (map (node_elem H256 Hb) (g_nodes g)))) ++ le32 (g_thr g) ++ le64 (g_genesis g)
    ++ opt_ttime (g_ttime g) ++ opt_dist (g_pk g) ++ id_bytes (g_id g).
  Proof.
    intros. unfold group_pre, run_spec, id_bytes, opt_ttime, opt_dist. cbn.
    destruct (g_ttime g =? 0), (g_pk g), (is_default_id (g_id g)); cbn; rewrite ?app_nil_r; reflexivity.
  Qed.
End HashFacts.

(* ---- setters used to state single-field perturbations ---- *)
Definition i_with_period i p := {| i_pk := i_pk i; i_id := i_id i; i_period := p; i_scheme := i_scheme i; i_genesis := i_genesis i; i_seed := i_seed i |}.
Definition i_with_genesis i t := {| i_pk := i_pk i; i_id := i_id i; i_period := i_period i; i_scheme := i_scheme i; i_genesis := t; i_seed := i_seed i |}.
Definition i_with_pk i k := {| i_pk := k; i_id := i_id i; i_period := i_period i; i_scheme := i_scheme i; i_genesis := i_genesis i; i_seed := i_seed i |}.
Definition i_with_seed i s := {| i_pk := i_pk i; i_id := i_id i; i_period := i_period i; i_scheme := i_scheme i; i_genesis := i_genesis i; i_seed := s |}.
Definition i_with_id i d := {| i_pk := i_pk i; i_id := d; i_period := i_period i; i_scheme := i_scheme i; i_genesis := i_genesis i; i_seed := i_seed i |}.

Definition whole_secs_u32 (p : Z) : Prop := exists k, p = k * ns_per_s /\ 0 <= k < 2 ^ 32.
Definition in_int64 (t : Z) : Prop := - 2 ^ 63 <= t < 2 ^ 63.
Definition in_uint32 (t : Z) : Prop := 0 <= t < 2 ^ 32.

(* i' is i with exactly one of the five parameters changed (id: changed to a non-equivalent id) *)
Inductive idiff : minfo -> minfo -> Prop :=
| ID_period : forall i p, whole_secs_u32 (i_period i) -> whole_secs_u32 p -> p <> i_period i -> idiff i (i_with_period i p)
| ID_genesis : forall i t, in_int64 (i_genesis i) -> in_int64 t -> t <> i_genesis i -> idiff i (i_with_genesis i t)
| ID_pk : forall i k, length k = length (i_pk i) -> k <> i_pk i -> idiff i (i_with_pk i k)
| ID_seed : forall i s, s <> i_seed i -> idiff i (i_with_seed i s)
| ID_id : forall i d, id_equiv (i_id i) d = false -> idiff i (i_with_id i d).

Definition g_with_nodes g ns := {| g_thr := g_thr g; g_period := g_period g; g_catchup := g_catchup g; g_scheme := g_scheme g; g_id := g_id g; g_nodes := ns; g_genesis := g_genesis g; g_seed := g_seed g; g_ttime := g_ttime g; g_pk := g_pk g |}.
Definition g_with_thr g t := {| g_thr := t; g_period := g_period g; g_catchup := g_catchup g; g_scheme := g_scheme g; g_id := g_id g; g_nodes := g_nodes g; g_genesis := g_genesis g; g_seed := g_seed g; g_ttime := g_ttime g; g_pk := g_pk g |}.
Definition g_with_genesis g t := {| g_thr := g_thr g; g_period := g_period g; g_catchup := g_catchup g; g_scheme := g_scheme g; g_id := g_id g; g_nodes := g_nodes g; g_genesis := t; g_seed := g_seed g; g_ttime := g_ttime g; g_pk := g_pk g |}.
Definition g_with_ttime g t := {| g_thr := g_thr g; g_period := g_period g; g_catchup := g_catchup g; g_scheme := g_scheme g; g_id := g_id g; g_nodes := g_nodes g; g_genesis := g_genesis g; g_seed := g_seed g; g_ttime := t; g_pk := g_pk g |}.
Definition g_with_pk g k := {| g_thr := g_thr g; g_period := g_period g; g_catchup := g_catchup g; g_scheme := g_scheme g; g_id := g_id g; g_nodes := g_nodes g; g_genesis := g_genesis g; g_seed := g_seed g; g_ttime := g_ttime g; g_pk := k |}.
Definition g_with_id g d := {| g_thr := g_thr g; g_period := g_period g; g_catchup := g_catchup g; g_scheme := g_scheme g; g_id := d; g_nodes := g_nodes g; g_genesis := g_genesis g; g_seed := g_seed g; g_ttime := g_ttime g; g_pk := g_pk g |}.

Definition node_id (n : mnode) : Z * bytes := (n_idx n, n_key n).
Definition keys_len (klen : nat) (pk : option (list bytes)) : Prop :=
  match pk with None => True | Some cs => Forall (fun c => length c = klen) cs end.

(* g' is g with exactly one hashed parameter changed: one member's key or index (the other
   members and the listing order untouched), the threshold, the genesis time, the transition
   time (0 is "absent"), the distributed public key (absent, or other coefficients of the
   scheme's fixed key length [klen]), or the id (to a non-equivalent one) *)
Inductive gdiff (klen : nat) : mgroup -> mgroup -> Prop :=
| GD_node : forall g l1 n n' l2, g_nodes g = l1 ++ n :: l2 -> node_id n <> node_id n' ->
    Forall (fun m => in_uint32 (n_idx m)) (g_nodes g) -> in_uint32 (n_idx n') ->
    NoDup (map n_idx (g_nodes g)) ->
    gdiff klen g (g_with_nodes g (l1 ++ n' :: l2))
| GD_thr : forall g t, in_uint32 (g_thr g) -> in_uint32 t -> t <> g_thr g -> gdiff klen g (g_with_thr g t)
| GD_genesis : forall g t, in_int64 (g_genesis g) -> in_int64 t -> t <> g_genesis g -> gdiff klen g (g_with_genesis g t)
| GD_ttime : forall g t, in_int64 (g_ttime g) -> in_int64 t -> t <> g_ttime g -> gdiff klen g (g_with_ttime g t)
| GD_pk : forall g k, (0 < klen)%nat -> keys_len klen (g_pk g) -> keys_len klen k -> k <> g_pk g -> gdiff klen g (g_with_pk g k)
| GD_id : forall g d, id_equiv (g_id g) d = false -> gdiff klen g (g_with_id g d).

Definition injective (H : bytes -> bytes) : Prop := forall a b, H a = H b -> a = b.

Lemma pow256_4 : 256 ^ 4 = 2 ^ 32. Proof. reflexivity. Qed.
Lemma pow256_8 : 256 ^ 8 = 2 ^ 64. Proof. reflexivity. Qed.

Lemma be32_inj : forall a b, in_uint32 a -> in_uint32 b -> be32 a = be32 b -> a = b.
Proof. intros a b Ha Hb E. apply (enc_int_inj_unsigned BE 4); try lia; rewrite ?pow256_4; auto. Qed.
Lemma le32_inj : forall a b, in_uint32 a -> in_uint32 b -> le32 a = le32 b -> a = b.
Proof. intros a b Ha Hb E. apply (enc_int_inj_unsigned LE 4); try lia; rewrite ?pow256_4; auto. Qed.
Lemma be64_inj : forall a b, in_int64 a -> in_int64 b -> be64 a = be64 b -> a = b.
Proof.
  intros a b Ha Hb E. apply (enc_int_inj_signed BE 8); try lia; auto;
    rewrite pow256_8; change (2 ^ 64 / 2) with (2 ^ 63); auto.
Qed.
Lemma le64_inj : forall a b, in_int64 a -> in_int64 b -> le64 a = le64 b -> a = b.
Proof.
  intros a b Ha Hb E. apply (enc_int_inj_signed LE 8); try lia; auto;
    rewrite pow256_8; change (2 ^ 64 / 2) with (2 ^ 63); auto.
Qed.
Lemma be32_len : forall a, length (be32 a) = 4%nat. Proof. intros; apply be_bytes_length. Qed.
Lemma be64_len : forall a, length (be64 a) = 8%nat. Proof. intros; apply be_bytes_length. Qed.
Lemma le32_len : forall a, length (le32 a) = 4%nat. Proof. intros; apply le_bytes_length. Qed.
Lemma le64_len : forall a, length (le64 a) = 8%nat. Proof. intros; apply le_bytes_length. Qed.

Lemma whole_secs_div : forall p, whole_secs_u32 p -> in_uint32 (p / ns_per_s) /\ p = (p / ns_per_s) * ns_per_s.
Proof.
  intros p [k [-> R]]. unfold ns_per_s. rewrite Z.div_mul by lia. split; [exact R | reflexivity].
Qed.

(* the fixed-width, fixed-position part of the chain preimage decomposes uniquely; the tail
   seed ++ id does not (see chain_pre_joint_collision) *)
Lemma chain_pre_decompose : forall i i', length (i_pk i) = length (i_pk i') ->
  chain_pre i = chain_pre i' ->
  be32 (i_period i / ns_per_s) = be32 (i_period i' / ns_per_s) /\
  be64 (i_genesis i) = be64 (i_genesis i') /\ i_pk i = i_pk i' /\
  i_seed i ++ id_bytes (i_id i) = i_seed i' ++ id_bytes (i_id i').
Proof.
  intros i i' L E. rewrite !chain_pre_eq in E.
  apply app_inv_len in E; [| rewrite !be32_len; reflexivity]. destruct E as [E1 E].
  apply app_inv_len in E; [| rewrite !be64_len; reflexivity]. destruct E as [E2 E].
  apply app_inv_len in E; [| exact L]. destruct E as [E3 E]. auto.
Qed.

Section Theorems.
  Variables H256 Hb : bytes -> bytes.
  Hypothesis H256_inj : injective H256.
  Hypothesis Hb_inj : injective Hb.
  Variable hlen : nat.
  Hypothesis hlen_pos : (0 < hlen)%nat.
  Hypothesis Hb_len : forall x, length (Hb x) = hlen.

  Notation chain_hash := (chain_hash H256 Hb).
  Notation group_hash := (group_hash H256 Hb).
  Notation node_hash := (node_hash H256 Hb).
  Notation dist_hash := (dist_hash H256 Hb).
  Notation group_pre := (group_pre H256 Hb).
  Notation node_elem := (node_elem H256 Hb).

  (* equal parameters (periods equal at whole-second granularity, ids equivalent) => equal hash;
     the scheme name is not an input *)
  Lemma chain_hash_deterministic : forall i i',
    i_period i / ns_per_s = i_period i' / ns_per_s -> i_genesis i = i_genesis i' ->
    i_pk i = i_pk i' -> i_seed i = i_seed i' -> id_equiv (i_id i) (i_id i') = true ->
    chain_hash i = chain_hash i'.
  Proof.
    intros i i' P G K S D. rewrite !chain_hash_eq. f_equal. rewrite !chain_pre_eq.
    apply id_bytes_equiv in D. rewrite P, G, K, S, D. reflexivity.
  Qed.

  Lemma chain_hash_sensitive : forall i i', idiff i i' -> chain_hash i <> chain_hash i'.
  Proof.
    intros i i' D E. rewrite !chain_hash_eq in E. apply H256_inj in E.
    inversion D; subst; clear D.
    - apply chain_pre_decompose in E; [| reflexivity]. destruct E as [E _]. simpl in E.
      apply whole_secs_div in H, H0. destruct H as [R1 X1], H0 as [R2 X2].
      apply be32_inj in E; auto. apply H1. rewrite X1, X2, E. reflexivity.
    - apply chain_pre_decompose in E; [| reflexivity]. destruct E as [_ [E _]]. simpl in E.
      apply be64_inj in E; auto.
    - apply chain_pre_decompose in E; [| simpl; auto]. destruct E as [_ [_ [E _]]]. simpl in E. auto.
    - apply chain_pre_decompose in E; [| reflexivity]. destruct E as [_ [_ [_ E]]]. simpl in E.
      apply app_inv_tail in E. auto.
    - apply chain_pre_decompose in E; [| reflexivity]. destruct E as [_ [_ [_ E]]]. simpl in E.
      apply app_inv_head in E. apply id_bytes_equiv in E. congruence.
  Qed.

  (* the chain hash of a group's chain info does not depend on membership, threshold,
     transition time, catch-up period or scheme *)
  Lemma chain_hash_ignores_membership : forall g g' i i',
    info_of_group H256 Hb g = Some i -> info_of_group H256 Hb g' = Some i' ->
    g_period g / ns_per_s = g_period g' / ns_per_s -> g_genesis g = g_genesis g' ->
    hd_error (match g_pk g with Some cs => cs | None => [] end) =
      hd_error (match g_pk g' with Some cs => cs | None => [] end) ->
    genesis_seed H256 Hb g = genesis_seed H256 Hb g' -> id_equiv (g_id g) (g_id g') = true ->
    chain_hash i = chain_hash i'.
  Proof.
    intros g g' i i' I I' P G K S D. unfold info_of_group in I, I'.
    destruct (g_pk g) as [[|c cs]|]; try discriminate.
    destruct (g_pk g') as [[|c' cs']|]; try discriminate.
    injection I as <-. injection I' as <-. simpl in K. injection K as ->.
    apply chain_hash_deterministic; simpl; auto.
  Qed.

  Lemma node_pre_inj : forall n n', in_uint32 (n_idx n) -> in_uint32 (n_idx n') ->
    node_pre n = node_pre n' -> node_id n = node_id n'.
  Proof.
    intros n n' R R' E. rewrite !node_pre_eq in E.
    apply app_inv_len in E; [| rewrite !le32_len; reflexivity]. destruct E as [E1 E2].
    apply le32_inj in E1; auto. unfold node_id. congruence.
  Qed.

  Lemma isort_map_elem : forall l l', Permutation l l' -> NoDup (map n_idx l) ->
    isort_k (map node_elem l) = isort_k (map node_elem l').
  Proof.
    intros. apply isort_k_perm_eq. apply Permutation_map; auto.
    rewrite map_map. simpl. exact H0.
  Qed.

  (* C17_group_order *)
  Lemma group_hash_order : forall g ns, Permutation (g_nodes g) ns -> NoDup (map n_idx (g_nodes g)) ->
    group_hash g = group_hash (g_with_nodes g ns).
  Proof.
    intros g ns P ND. rewrite !group_hash_eq. f_equal. rewrite !group_pre_eq. simpl.
    rewrite (isort_map_elem _ _ P ND). reflexivity.
  Qed.

  Lemma digests_len : forall l : list mnode, Forall (fun x => length x = hlen) (map snd (isort_k (map node_elem l))).
  Proof.
    intros. apply Forall_forall. intros x I. apply in_map_iff in I as [[k d] [<- I]].
    eapply Permutation_in in I; [| apply isort_k_perm]. apply in_map_iff in I as [n [E _]].
    unfold Hashes.node_elem in E. injection E as _ <-. simpl. rewrite node_hash_eq. apply Hb_len.
  Qed.

  Lemma group_hash_sensitive : forall klen g g', gdiff klen g g' -> group_hash g <> group_hash g'.
  Proof.
    intros klen g g' D E. rewrite !group_hash_eq in E. apply Hb_inj in E. rewrite !group_pre_eq in E.
    inversion D; subst; clear D;
      cbn [g_thr g_genesis g_ttime g_pk g_id g_nodes g_with_nodes g_with_thr g_with_genesis g_with_ttime g_with_pk g_with_id] in E.
    - (* one member *)
      rename H into Hn, H0 into Hne, H1 into Hr, H2 into Hr', H3 into ND.
      apply app_inv_tail in E.
      apply concat_inj_fixed_pos with (n := hlen) in E; auto using digests_len.
      assert (S : forall l, Permutation (map snd (isort_k (map node_elem l))) (map node_hash l)).
      { intros l. eapply perm_trans; [apply Permutation_map, isort_k_perm|].
        rewrite map_map. apply Permutation_refl. }
      assert (P : Permutation (map node_hash (g_nodes g)) (map node_hash (l1 ++ n' :: l2))).
      { eapply perm_trans; [symmetry; apply S|]. rewrite E. apply S. }
      rewrite Hn in P. rewrite !map_app in P. apply Permutation_app_inv_l in P. simpl in P.
      assert (I : In (node_hash n) (node_hash n' :: map node_hash l2)).
      { eapply Permutation_in; [exact P | left; reflexivity]. }
      rewrite Hn in Hr, ND. apply Forall_app in Hr as [_ Hr]. inversion Hr as [|? ? Rn Rl2]; subst.
      destruct I as [I | I].
      + rewrite !node_hash_eq in I. apply Hb_inj in I. apply node_pre_inj in I; auto.
      + apply in_map_iff in I as [m [I M]]. rewrite !node_hash_eq in I. apply Hb_inj in I.
        rewrite Forall_forall in Rl2. apply node_pre_inj in I; auto.
        rewrite map_app in ND. apply NoDup_remove_2 in ND. apply ND.
        apply in_or_app. right. unfold node_id in I. injection I as <- _. apply in_map. exact M.
    - apply app_inv_head in E. apply app_inv_tail in E. apply le32_inj in E; auto.
    - apply app_inv_head in E. apply app_inv_head in E. apply app_inv_tail in E. apply le64_inj in E; auto.
    - do 3 apply app_inv_head in E. apply app_inv_tail in E.
      unfold opt_ttime in E. destruct (g_ttime g =? 0) eqn:Z0, (t =? 0) eqn:Z1.
      + apply Z.eqb_eq in Z0, Z1. congruence.
      + apply (f_equal (@length Z)) in E. rewrite le64_len in E. discriminate.
      + apply (f_equal (@length Z)) in E. rewrite le64_len in E. discriminate.
      + apply le64_inj in E; auto.
    - do 4 apply app_inv_head in E. apply app_inv_tail in E.
      unfold opt_dist in E. destruct (g_pk g) as [cs|], k as [cs'|]; simpl in *.
      + rewrite !dist_hash_eq in E. apply Hb_inj in E. rewrite !dist_pre_eq in E.
        apply concat_inj_fixed_pos with (n := klen) in E; auto. congruence.
      + apply (f_equal (@length Z)) in E. rewrite dist_hash_eq, Hb_len in E. simpl in E. lia.
      + apply (f_equal (@length Z)) in E. rewrite dist_hash_eq, Hb_len in E. simpl in E. lia.
      + congruence.
    - do 5 apply app_inv_head in E. apply id_bytes_equiv in E. congruence.
  Qed.
End Theorems.

(* ---- honest limits of the preimage formats ---- *)
(* seed ++ id is unframed: two infos differing in BOTH seed and id share a preimage *)
Lemma chain_pre_joint_collision : exists i i',
  i_seed i <> i_seed i' /\ id_equiv (i_id i) (i_id i') = false /\
  i_period i = i_period i' /\ i_genesis i = i_genesis i' /\ i_pk i = i_pk i' /\
  chain_pre i = chain_pre i'.
Proof.
  exists {| i_pk := [7]; i_id := [97; 98]; i_period := 30 * ns_per_s; i_scheme := []; i_genesis := 5; i_seed := [1; 2] |},
         {| i_pk := [7]; i_id := [98]; i_period := 30 * ns_per_s; i_scheme := []; i_genesis := 5; i_seed := [1; 2; 97] |}.
  repeat split; try discriminate; reflexivity.
Qed.

(* ... which cannot happen when seeds have one fixed length (they are 32-byte group hashes) *)
Lemma chain_pre_injective_fixed_seed : forall i i',
  length (i_pk i) = length (i_pk i') -> length (i_seed i) = length (i_seed i') ->
  whole_secs_u32 (i_period i) -> whole_secs_u32 (i_period i') ->
  in_int64 (i_genesis i) -> in_int64 (i_genesis i') ->
  chain_pre i = chain_pre i' ->
  i_period i = i_period i' /\ i_genesis i = i_genesis i' /\ i_pk i = i_pk i' /\
  i_seed i = i_seed i' /\ id_equiv (i_id i) (i_id i') = true.
Proof.
  intros i i' Lk Ls P P' G G' E. apply chain_pre_decompose in E; auto.
  destruct E as [E1 [E2 [E3 E4]]].
  apply whole_secs_div in P, P'. destruct P as [R1 X1], P' as [R2 X2].
  apply be32_inj in E1; auto. apply be64_inj in E2; auto.
  apply app_inv_len in E4; auto. destruct E4 as [E4 E5]. apply id_bytes_equiv in E5.
  repeat split; auto. rewrite X1, X2, E1. reflexivity.
Qed.

(* the period enters at whole-second granularity only *)
Lemma chain_pre_subsecond_collision : forall i,
  chain_pre i = chain_pre (i_with_period i (i_period i / ns_per_s * ns_per_s)).
Proof.
  intros. rewrite !chain_pre_eq. simpl. unfold ns_per_s. rewrite Z.div_mul by lia. reflexivity.
Qed.
