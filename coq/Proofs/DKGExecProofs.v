(* Lemmas about Model/DKGExec.v (used by Props/C06.v). *)
From Coq Require Import ZArith List Bool Lia Sorting.Permutation Sorting.Sorted.
From DV Require Import Model.Time Model.DKGExec Proofs.TimeProofs.
Import ListNotations.
Open Scope Z_scope.

(* ------------------------------------------------------------------------------------ *)
(* Go's string order on byte lists                                                       *)
(* ------------------------------------------------------------------------------------ *)

Lemma bytes_cmp_refl a : bytes_cmp a a = Eq.
Proof. induction a as [|x a IH]; cbn; [reflexivity|]. rewrite Z.compare_refl. exact IH. Qed.

Lemma bytes_cmp_eq a : forall b, bytes_cmp a b = Eq -> a = b.
Proof.
  induction a as [|x a IH]; intros [|y b]; cbn; try discriminate; [reflexivity|].
  destruct (x ?= y) eqn:E; try discriminate.
  apply Z.compare_eq in E. intros H. f_equal; [exact E|apply IH; exact H].
Qed.

Lemma bytes_cmp_antisym a : forall b, bytes_cmp b a = CompOpp (bytes_cmp a b).
Proof.
  induction a as [|x a IH]; intros [|y b]; cbn; try reflexivity.
  rewrite (Z.compare_antisym x y). destruct (x ?= y); cbn; [apply IH|reflexivity|reflexivity].
Qed.

Lemma bytes_cmp_lt_trans a : forall b c, bytes_cmp a b = Lt -> bytes_cmp b c = Lt -> bytes_cmp a c = Lt.
Proof.
  induction a as [|x a IH]; intros [|y b] [|z c]; cbn; try discriminate; try reflexivity.
  destruct (x ?= y) eqn:E1; try discriminate; destruct (y ?= z) eqn:E2; try discriminate; intros H1 H2.
  - apply Z.compare_eq in E1, E2. subst. rewrite Z.compare_refl. eapply IH; eassumption.
  - apply Z.compare_eq in E1. subst. rewrite E2. reflexivity.
  - apply Z.compare_eq in E2. subst. rewrite E1. reflexivity.
  - rewrite Z.compare_lt_iff in *. assert (x < z) by lia.
    destruct (x ?= z) eqn:E3; try reflexivity; [apply Z.compare_eq in E3|rewrite Z.compare_gt_iff in E3]; lia.
Qed.

Lemma bytes_leb_total a b : bytes_leb a b = true \/ bytes_leb b a = true.
Proof.
  unfold bytes_leb. rewrite (bytes_cmp_antisym a b). destruct (bytes_cmp a b); cbn; auto.
Qed.

Lemma bytes_leb_antisym a b : bytes_leb a b = true -> bytes_leb b a = true -> a = b.
Proof.
  unfold bytes_leb. rewrite (bytes_cmp_antisym a b).
  destruct (bytes_cmp a b) eqn:E; cbn; try discriminate.
  intros _ _. apply bytes_cmp_eq; exact E.
Qed.

Lemma bytes_leb_trans a b c : bytes_leb a b = true -> bytes_leb b c = true -> bytes_leb a c = true.
Proof.
  unfold bytes_leb.
  destruct (bytes_cmp a b) eqn:E1; try discriminate; destruct (bytes_cmp b c) eqn:E2; try discriminate; intros _ _.
  - apply bytes_cmp_eq in E1. subst. rewrite E2. reflexivity.
  - apply bytes_cmp_eq in E1. subst. rewrite E2. reflexivity.
  - apply bytes_cmp_eq in E2. subst. rewrite E1. reflexivity.
  - rewrite (bytes_cmp_lt_trans _ _ _ E1 E2). reflexivity.
Qed.

Lemma bytes_le_leb a b : bytes_le a b <-> bytes_leb a b = true.
Proof.
  unfold bytes_le, bytes_leb. destruct (bytes_cmp a b); split; intros; try reflexivity; try discriminate; congruence.
Qed.

Lemma bytes_eqb_eq a b : bytes_eqb a b = true <-> a = b.
Proof.
  unfold bytes_eqb. split.
  - destruct (bytes_cmp a b) eqn:E; try discriminate. intros _. apply bytes_cmp_eq; exact E.
  - intros ->. rewrite bytes_cmp_refl. reflexivity.
Qed.

(* ------------------------------------------------------------------------------------ *)
(* Insertion sort on a key: sorted, a permutation, and canonical when keys are distinct   *)
(* ------------------------------------------------------------------------------------ *)

Section SortFacts.
  Context {A K : Type} (key : A -> K) (leb : K -> K -> bool).
  Hypothesis leb_total : forall a b, leb a b = true \/ leb b a = true.
  Hypothesis leb_trans : forall a b c, leb a b = true -> leb b c = true -> leb a c = true.
  Hypothesis leb_antisym : forall a b, leb a b = true -> leb b a = true -> a = b.

  Definition kle (x y : A) : Prop := leb (key x) (key y) = true.

  Lemma insert_by_perm x l : Permutation (x :: l) (insert_by key leb x l).
  Proof.
    induction l as [|y l IH]; cbn; [reflexivity|].
    destruct (leb (key x) (key y)); [reflexivity|].
    etransitivity; [apply perm_swap|]. apply perm_skip. exact IH.
  Qed.

  Lemma sort_by_perm l : Permutation l (sort_by key leb l).
  Proof.
    induction l as [|x l IH]; cbn; [reflexivity|].
    etransitivity; [apply perm_skip; exact IH|]. apply insert_by_perm.
  Qed.

  Lemma insert_by_sorted x l : StronglySorted kle l -> StronglySorted kle (insert_by key leb x l).
  Proof.
    induction l as [|y l IH]; intros Hs; cbn.
    - constructor; constructor.
    - apply StronglySorted_inv in Hs. destruct Hs as [Hs Hy].
      destruct (leb (key x) (key y)) eqn:E.
      + constructor; [constructor; assumption|].
        constructor; [exact E|].
        rewrite Forall_forall in *. intros z Hz. unfold kle. eapply leb_trans; [exact E|apply Hy; exact Hz].
      + constructor; [apply IH; exact Hs|].
        assert (Hyx : kle y x). { unfold kle. destruct (leb_total (key x) (key y)); congruence. }
        rewrite Forall_forall in *. intros z Hz.
        apply (Permutation_in _ (Permutation_sym (insert_by_perm x l))) in Hz.
        destruct Hz as [<-|Hz]; [exact Hyx|apply Hy; exact Hz].
  Qed.

  Lemma sort_by_sorted l : StronglySorted kle (sort_by key leb l).
  Proof. induction l; cbn; [constructor|apply insert_by_sorted; assumption]. Qed.

  Lemma sortedb_sound l : sortedb key leb l = true -> StronglySorted kle l.
  Proof.
    induction l as [|x l IH]; intros H; [constructor|].
    cbn in H. destruct l as [|y l']; [constructor; constructor|].
    apply andb_prop in H. destruct H as [Hxy Hl]. specialize (IH Hl).
    constructor; [exact IH|].
    constructor; [exact Hxy|].
    apply StronglySorted_inv in IH. destruct IH as [_ Hy].
    rewrite Forall_forall in *. intros z Hz. unfold kle. eapply leb_trans; [exact Hxy|apply Hy; exact Hz].
  Qed.

  (* keys pairwise distinct: the key identifies the element *)
  Lemma nodup_key_inj l x y : NoDup (map key l) -> In x l -> In y l -> key x = key y -> x = y.
  Proof.
    induction l as [|z l IH]; intros Hnd Hx Hy Hk; [contradiction|].
    cbn in Hnd. inversion Hnd as [|? ? Hnot Hnd']; subst.
    destruct Hx as [<-|Hx], Hy as [<-|Hy]; try reflexivity.
    - exfalso. apply Hnot. rewrite Hk. apply in_map; exact Hy.
    - exfalso. apply Hnot. rewrite <- Hk. apply in_map; exact Hx.
    - apply IH; assumption.
  Qed.

  (* Sorted + NoDup + Permutation => equal *)
  Lemma sorted_perm_unique l1 : forall l2,
    Permutation l1 l2 -> NoDup (map key l1) ->
    StronglySorted kle l1 -> StronglySorted kle l2 -> l1 = l2.
  Proof.
    induction l1 as [|x l1 IH]; intros l2 Hp Hnd Hs1 Hs2.
    - apply Permutation_nil in Hp. subst. reflexivity.
    - destruct l2 as [|y l2]; [apply Permutation_sym, Permutation_nil in Hp; discriminate|].
      apply StronglySorted_inv in Hs1. destruct Hs1 as [Hs1 Hx].
      apply StronglySorted_inv in Hs2. destruct Hs2 as [Hs2 Hy].
      rewrite Forall_forall in Hx, Hy.
      assert (Hxy : x = y).
      { assert (Hyin : In y (x :: l1)) by (apply (Permutation_in _ (Permutation_sym Hp)); left; reflexivity).
        assert (Hxin : In x (y :: l2)) by (apply (Permutation_in _ Hp); left; reflexivity).
        destruct Hyin as [E|Hyin]; [exact E|].
        destruct Hxin as [E|Hxin]; [symmetry; exact E|].
        apply (nodup_key_inj (x :: l1)); [exact Hnd|left; reflexivity|right; exact Hyin|].
        apply leb_antisym; [apply Hx; exact Hyin|apply Hy; exact Hxin]. }
      subst y. f_equal. apply IH; try assumption.
      + eapply Permutation_cons_inv; exact Hp.
      + cbn in Hnd. inversion Hnd; assumption.
  Qed.

  Lemma sort_by_unique input output :
    NoDup (map key input) -> Permutation input output -> StronglySorted kle output ->
    output = sort_by key leb input.
  Proof.
    intros Hnd Hp Hs. apply sorted_perm_unique; try assumption.
    - etransitivity; [apply Permutation_sym; exact Hp|apply sort_by_perm].
    - eapply Permutation_NoDup; [apply Permutation_map; exact Hp|exact Hnd].
    - apply sort_by_sorted.
  Qed.

  (* the canonical order does not depend on the order of the input *)
  Lemma sort_by_perm_eq l1 l2 :
    Permutation l1 l2 -> NoDup (map key l1) -> sort_by key leb l1 = sort_by key leb l2.
  Proof.
    intros Hp Hnd. symmetry. apply sort_by_unique; [exact Hnd| |apply sort_by_sorted].
    etransitivity; [exact Hp|apply sort_by_perm].
  Qed.

  Lemma sort_by_idem l : NoDup (map key l) -> sort_by key leb (sort_by key leb l) = sort_by key leb l.
  Proof. intros Hnd. symmetry. apply sort_by_perm_eq; [apply sort_by_perm|exact Hnd]. Qed.
End SortFacts.

(* ---- instances ---- *)

Lemma key_le_kle a b : key_le a b <-> kle p_key bytes_leb a b.
Proof. unfold key_le, kle. apply bytes_le_leb. Qed.

Lemma StronglySorted_iff {A} (R R' : A -> A -> Prop) l :
  (forall a b, R a b <-> R' a b) -> StronglySorted R l -> StronglySorted R' l.
Proof.
  intros Hi. induction 1 as [|a l Hs IH Hf]; constructor; [exact IH|].
  rewrite Forall_forall in *. intros x Hx. apply Hi, Hf, Hx.
Qed.

(* sort_by_key realises the relation ... *)
Lemma sort_by_key_is_sorted_by_key l : sorted_by_key l (sort_by_key l).
Proof.
  split; [apply sort_by_perm|].
  eapply StronglySorted_iff; [intros a b; symmetry; apply key_le_kle|].
  apply sort_by_sorted; [exact bytes_leb_total|exact bytes_leb_trans].
Qed.

(* ... and with pairwise distinct keys the relation is that function (whatever the unstable
   sort.Slice does, it returns this list) *)
Lemma sorted_by_key_functional input output :
  NoDup (map p_key input) -> sorted_by_key input output -> output = sort_by_key input.
Proof.
  intros Hnd [Hp Hs]. apply sort_by_unique; try assumption.
  - exact bytes_leb_total. - exact bytes_leb_trans. - exact bytes_leb_antisym.
  - eapply StronglySorted_iff; [intros a b; apply key_le_kle|exact Hs].
Qed.

Lemma sort_by_key_perm_eq l1 l2 :
  Permutation l1 l2 -> NoDup (map p_key l1) -> sort_by_key l1 = sort_by_key l2.
Proof.
  apply sort_by_perm_eq; [exact bytes_leb_total|exact bytes_leb_trans|exact bytes_leb_antisym].
Qed.

Lemma zleb_total a b : Z.leb a b = true \/ Z.leb b a = true.
Proof. destruct (Z.leb_spec a b); [left; reflexivity|right; apply Z.leb_le; lia]. Qed.
Lemma zleb_trans a b c : Z.leb a b = true -> Z.leb b c = true -> Z.leb a c = true.
Proof. rewrite !Z.leb_le. lia. Qed.
Lemma zleb_antisym a b : Z.leb a b = true -> Z.leb b a = true -> a = b.
Proof. rewrite !Z.leb_le. lia. Qed.

Lemma sort_nodes_perm_eq l1 l2 :
  Permutation l1 l2 -> NoDup (map n_index l1) -> sort_nodes_by_index l1 = sort_nodes_by_index l2.
Proof. apply sort_by_perm_eq; [exact zleb_total|exact zleb_trans|exact zleb_antisym]. Qed.

Lemma sort_nodes_perm l : Permutation l (sort_nodes_by_index l).
Proof. apply sort_by_perm. Qed.

Lemma sort_nodes_idem l : NoDup (map n_index l) ->
  sort_nodes_by_index (sort_nodes_by_index l) = sort_nodes_by_index l.
Proof. apply sort_by_idem; [exact zleb_total|exact zleb_trans|exact zleb_antisym]. Qed.

(* executable checker of the relation is sound *)
Lemma participant_eqb_eq a b : participant_eqb a b = true -> a = b.
Proof.
  unfold participant_eqb. intros H.
  repeat (apply andb_prop in H; destruct H as [H ?]).
  destruct a, b; cbn in *.
  repeat match goal with Hh : bytes_eqb _ _ = true |- _ => apply bytes_eqb_eq in Hh end.
  match goal with Hh : Bool.eqb _ _ = true |- _ => apply Bool.eqb_prop in Hh end.
  subst. reflexivity.
Qed.

Lemma remove_first_perm x l : forall r, remove_first x l = Some r -> Permutation l (x :: r).
Proof.
  induction l as [|y l IH]; intros r H; cbn in H; [discriminate|].
  destruct (participant_eqb x y) eqn:E.
  - apply participant_eqb_eq in E. inversion H; subst. reflexivity.
  - destruct (remove_first x l) as [r'|]; [|discriminate]. inversion H; subst.
    etransitivity; [apply perm_skip; apply IH; reflexivity|apply perm_swap].
Qed.

Lemma same_multiset_perm a : forall b, same_multiset a b = true -> Permutation a b.
Proof.
  induction a as [|x a IH]; intros b H; cbn in H.
  - destruct b; [reflexivity|discriminate].
  - destruct (remove_first x b) as [b'|] eqn:E; [|discriminate].
    apply remove_first_perm in E. etransitivity; [apply perm_skip; apply IH; exact H|].
    apply Permutation_sym; exact E.
Qed.

Lemma sorted_by_key_check_sound input output :
  sorted_by_key_check input output = true -> sorted_by_key input output.
Proof.
  unfold sorted_by_key_check. intros H. apply andb_prop in H. destruct H as [Hm Hs].
  split; [apply same_multiset_perm; exact Hm|].
  eapply StronglySorted_iff; [intros a b; symmetry; apply key_le_kle|].
  apply sortedb_sound; [exact bytes_leb_trans|exact Hs].
Qed.

(* ------------------------------------------------------------------------------------ *)
(* Index assignment: DKG index i <-> sorted[i], and the group's node indices              *)
(* ------------------------------------------------------------------------------------ *)

Lemma nth_z_in {A} (l : list A) : forall i x, nth_z l i = Some x -> In x l.
Proof.
  induction l as [|y l IH]; intros i x H; cbn in H; [discriminate|].
  destruct (i =? 0); [inversion H; left; reflexivity|].
  destruct (i <? 0); [discriminate|]. right. eapply IH; exact H.
Qed.

Lemma nth_z_nonneg {A} (l : list A) : forall i x, nth_z l i = Some x -> 0 <= i < Z.of_nat (length l).
Proof.
  induction l as [|y l IH]; intros i x H; cbn [nth_z] in H; [discriminate|].
  destruct (Z.eqb_spec i 0); [subst; cbn [length]; lia|].
  destruct (Z.ltb_spec i 0); [discriminate|]. apply IH in H. cbn [length]. lia.
Qed.

(* to_dkg_nodes numbers the sorted list consecutively and copies the keys *)
Lemma to_dkg_nodes_nth l : forall i0 nn, to_dkg_nodes i0 l = Ok nn ->
  forall j p, nth_z l j = Some p -> nth_z nn j = Some (i0 + j, p_key p).
Proof.
  induction l as [|q l IH]; intros i0 nn H j p Hj; cbn [nth_z] in Hj; [discriminate|].
  cbn in H. destruct (p_key_ok q); [|discriminate].
  destruct (to_dkg_nodes (i0 + 1) l) as [r|] eqn:E; [|discriminate]. inversion H; subst nn.
  cbn [nth_z]. destruct (Z.eqb_spec j 0).
  - inversion Hj; subst. f_equal. f_equal. lia.
  - destruct (Z.ltb_spec j 0); [discriminate|].
    rewrite (IH _ _ E _ _ Hj). f_equal. f_equal. lia.
Qed.

Lemma to_dkg_nodes_nth_inv l : forall i0 nn, to_dkg_nodes i0 l = Ok nn ->
  forall j x, nth_z nn j = Some x -> exists p, nth_z l j = Some p /\ x = (i0 + j, p_key p) /\ p_key_ok p = true.
Proof.
  induction l as [|q l IH]; intros i0 nn H j x Hj; cbn in H.
  - inversion H; subst. discriminate.
  - destruct (p_key_ok q) eqn:Hok; [|discriminate].
    destruct (to_dkg_nodes (i0 + 1) l) as [r|] eqn:E; [|discriminate]. inversion H; subst nn.
    cbn [nth_z] in *. destruct (Z.eqb_spec j 0).
    + inversion Hj; subst. exists q. repeat split; [f_equal; lia|exact Hok].
    + destruct (Z.ltb_spec j 0); [discriminate|].
      destruct (IH _ _ E _ _ Hj) as [p [Hp [Hx Hk]]]. exists p. repeat split; try assumption.
      rewrite Hx. f_equal. lia.
Qed.

Lemma final_nodes_spec nn : forall qual fn, final_nodes nn qual = Ok fn ->
  Forall2 (fun v nd => nth_z nn v = Some nd) qual fn.
Proof.
  induction qual as [|v q IH]; intros fn H; cbn in H.
  - inversion H; constructor.
  - destruct (nth_z nn v) as [nd|] eqn:E; [|discriminate].
    destruct (final_nodes nn q) as [r|]; [|discriminate]. inversion H; subst.
    constructor; [exact E|apply IH; reflexivity].
Qed.

(* the dkg.Node taken from config.NewNodes[v.Index] carries index v.Index again *)
Lemma final_nodes_indices st nn qual fn :
  dkg_nodes st = Ok nn -> final_nodes nn qual = Ok fn -> map fst fn = qual.
Proof.
  unfold dkg_nodes. intros Hnn Hfn. apply final_nodes_spec in Hfn.
  induction Hfn as [|v nd q r Hv _ IH]; [reflexivity|].
  cbn. f_equal; [|exact IH].
  destruct (to_dkg_nodes_nth_inv _ _ _ Hnn _ _ Hv) as [p [_ [-> _]]]. cbn. lia.
Qed.

Definition key_node_at (sorted : list participant) (v : Z) : option node :=
  match nth_z sorted v with
  | Some p => if p_key_ok p then Some (mkN v (p_key p) (p_addr p) (p_sig p)) else None
  | None => None
  end.

Lemma key_nodes_ok sorted : forall idxs ns,
  key_nodes sorted idxs = Ok ns <-> Forall2 (fun v n => key_node_at sorted v = Some n) idxs ns.
Proof.
  induction idxs as [|v q IH]; intros ns; cbn.
  - split; [intros H; inversion H; constructor|intros H; inversion H; reflexivity].
  - unfold key_node_at at 1. split.
    + destruct (nth_z sorted v) as [p|] eqn:E; [|discriminate].
      destruct (p_key_ok p) eqn:Hok; [|discriminate].
      destruct (key_nodes sorted q) as [r|] eqn:Er; [|discriminate]. intros H; inversion H; subst.
      constructor; [unfold key_node_at; rewrite E, Hok; reflexivity|apply IH; reflexivity].
    + intros H. inversion H as [|? n ? r Hn Hr]; subst.
      unfold key_node_at in Hn. destruct (nth_z sorted v) as [p|]; [|discriminate].
      destruct (p_key_ok p); [|discriminate]. apply IH in Hr. rewrite Hr. inversion Hn; reflexivity.
Qed.

Lemma key_node_at_index sorted v n : key_node_at sorted v = Some n -> n_index n = v.
Proof.
  unfold key_node_at. destruct (nth_z sorted v) as [p|]; [|discriminate].
  destruct (p_key_ok p); [|discriminate]. intros H; inversion H; reflexivity.
Qed.

Lemma key_nodes_indices sorted idxs ns : key_nodes sorted idxs = Ok ns -> map n_index ns = idxs.
Proof.
  intros H. apply key_nodes_ok in H. induction H as [|v n q r Hv _ IH]; [reflexivity|].
  cbn. f_equal; [eapply key_node_at_index; exact Hv|exact IH].
Qed.

(* every node of the result has the key, address and signature of sorted[its index] *)
Lemma key_nodes_aligned sorted idxs ns n :
  key_nodes sorted idxs = Ok ns -> In n ns ->
  exists p, nth_z sorted (n_index n) = Some p /\
            n_key n = p_key p /\ n_addr n = p_addr p /\ n_sig n = p_sig p /\ In (n_index n) idxs.
Proof.
  intros H. apply key_nodes_ok in H. induction H as [|v m q r Hv _ IH]; intros Hin; [contradiction|].
  destruct Hin as [<-|Hin].
  - unfold key_node_at in Hv. destruct (nth_z sorted v) as [p|] eqn:E; [|discriminate].
    destruct (p_key_ok p); [|discriminate]. inversion Hv; subst; cbn. exists p. repeat split; auto.
  - destruct (IH Hin) as [p (H1 & H2 & H3 & H4 & H5)]. exists p. repeat split; try assumption. right; exact H5.
Qed.

(* order of QUAL only permutes the node list *)
Lemma key_nodes_perm sorted idxs1 idxs2 ns1 :
  Permutation idxs1 idxs2 -> key_nodes sorted idxs1 = Ok ns1 ->
  exists ns2, key_nodes sorted idxs2 = Ok ns2 /\ Permutation ns1 ns2.
Proof.
  intros Hp H. apply key_nodes_ok in H.
  destruct (Permutation_Forall2 Hp H) as [ns2 [Hp2 H2]].
  exists ns2. split; [apply key_nodes_ok; exact H2|exact Hp2].
Qed.

(* ------------------------------------------------------------------------------------ *)
(* as_group                                                                               *)
(* ------------------------------------------------------------------------------------ *)

Definition eff_scheme (defsch : bytes) (st : dstate) : bytes :=
  match st_scheme st with [] => defsch | s => s end.

Definition pre_seed_group (defsch : bytes) (st : dstate) (commits : list bytes) (nodes : list node) (tt : Z) : group :=
  mkG (st_beacon_id st) (st_threshold st) (st_period st) (eff_scheme defsch st) (st_catchup st)
      (st_genesis_time st) (st_genesis_seed st) tt nodes commits.

Lemma as_group_inv H defsch st commits idxs tt g :
  as_group H defsch st commits idxs tt = Ok g ->
  st_scheme_ok st = true /\
  exists nodes, key_nodes (sorted_participants st) idxs = Ok nodes /\
    g_id g = st_beacon_id st /\ g_threshold g = st_threshold st /\ g_period g = st_period st /\
    g_scheme g = eff_scheme defsch st /\ g_catchup g = st_catchup st /\
    g_genesis_time g = st_genesis_time st /\ g_transition_time g = tt /\ g_public g = commits /\
    ((st_genesis_seed st <> [] /\ g_genesis_seed g = st_genesis_seed st /\ g_nodes g = nodes) \/
     (st_genesis_seed st = [] /\
      g_genesis_seed g = H (group_hash_input (pre_seed_group defsch st commits nodes tt)) /\
      g_nodes g = sort_nodes_by_index nodes)).
Proof.
  unfold as_group. destruct (st_scheme_ok st); cbn [negb]; [|discriminate].
  destruct (key_nodes (sorted_participants st) idxs) as [nodes|] eqn:E; [|discriminate].
  intros Hg. split; [reflexivity|]. exists nodes. split; [reflexivity|].
  fold (eff_scheme defsch st) in Hg.
  destruct (st_genesis_seed st) as [|b s] eqn:Es; inversion Hg; subst; cbn;
    repeat split; try reflexivity.
  - right. split; [reflexivity|]. split; [|reflexivity]. unfold pre_seed_group. rewrite Es. reflexivity.
  - left. split; [discriminate|split; reflexivity].
Qed.

(* the fields that decide the result *)
Definition same_terms (s1 s2 : dstate) : Prop :=
  st_beacon_id s1 = st_beacon_id s2 /\ st_threshold s1 = st_threshold s2 /\
  st_scheme s1 = st_scheme s2 /\ st_scheme_ok s1 = st_scheme_ok s2 /\
  st_genesis_time s1 = st_genesis_time s2 /\ st_genesis_seed s1 = st_genesis_seed s2 /\
  st_catchup s1 = st_catchup s2 /\ st_period s1 = st_period s2.

Lemma sorted_participants_perm s1 s2 :
  Permutation (all_participants s1) (all_participants s2) ->
  NoDup (map p_key (all_participants s1)) -> sorted_participants s1 = sorted_participants s2.
Proof. intros. unfold sorted_participants. apply sort_by_key_perm_eq; assumption. Qed.

(* same inputs up to listing order => the very same group *)
Lemma as_group_order_independent H defsch s1 s2 commits idxs tt :
  Permutation (all_participants s1) (all_participants s2) ->
  NoDup (map p_key (all_participants s1)) -> same_terms s1 s2 ->
  as_group H defsch s1 commits idxs tt = as_group H defsch s2 commits idxs tt.
Proof.
  intros Hp Hnd (E1 & E2 & E3 & E4 & E5 & E6 & E7 & E8).
  unfold as_group. rewrite (sorted_participants_perm s1 s2 Hp Hnd).
  rewrite E1, E2, E3, E4, E5, E6, E7, E8. reflexivity.
Qed.

Lemma group_hash_input_perm g1 g2 :
  Permutation (g_nodes g1) (g_nodes g2) -> NoDup (map n_index (g_nodes g1)) ->
  g_threshold g1 = g_threshold g2 -> g_genesis_time g1 = g_genesis_time g2 ->
  g_transition_time g1 = g_transition_time g2 -> g_public g1 = g_public g2 -> g_id g1 = g_id g2 ->
  group_hash_input g1 = group_hash_input g2.
Proof.
  intros Hp Hnd E1 E2 E3 E4 E5. unfold group_hash_input.
  rewrite (sort_nodes_perm_eq _ _ Hp Hnd), E1, E2, E3, E4, E5. reflexivity.
Qed.

(* ... and when the two nodes also saw QUAL in different orders: equal up to the listing order
   of the nodes, identical hash inputs (so identical group hashes), identical when the seed is
   derived (epoch 1), because Group.Hash sorts the node list *)
Lemma as_group_qual_order H defsch s1 s2 commits idxs1 idxs2 tt g1 :
  Permutation (all_participants s1) (all_participants s2) ->
  NoDup (map p_key (all_participants s1)) -> same_terms s1 s2 ->
  Permutation idxs1 idxs2 -> NoDup idxs1 ->
  as_group H defsch s1 commits idxs1 tt = Ok g1 ->
  exists g2, as_group H defsch s2 commits idxs2 tt = Ok g2 /\
    Permutation (g_nodes g1) (g_nodes g2) /\
    g_id g1 = g_id g2 /\ g_threshold g1 = g_threshold g2 /\ g_period g1 = g_period g2 /\
    g_scheme g1 = g_scheme g2 /\ g_catchup g1 = g_catchup g2 /\
    g_genesis_time g1 = g_genesis_time g2 /\ g_genesis_seed g1 = g_genesis_seed g2 /\
    g_transition_time g1 = g_transition_time g2 /\ g_public g1 = g_public g2 /\
    group_hash_input g1 = group_hash_input g2 /\
    (st_genesis_seed s1 = [] -> g1 = g2).
Proof.
  intros Hp Hnd Hst Hq Hndq Hg1.
  rewrite (as_group_order_independent H defsch s1 s2 commits idxs1 tt Hp Hnd Hst) in Hg1.
  destruct Hst as (_ & _ & _ & _ & _ & Eseed & _ & _).
  unfold as_group in *. destruct (st_scheme_ok s2); cbn [negb] in *; [|discriminate].
  destruct (key_nodes (sorted_participants s2) idxs1) as [ns1|] eqn:K1; [|discriminate].
  destruct (key_nodes_perm _ _ _ _ Hq K1) as [ns2 [K2 Hpn]]. rewrite K2.
  assert (Hndn : NoDup (map n_index ns1)) by (rewrite (key_nodes_indices _ _ _ K1); exact Hndq).
  assert (Hsn : sort_nodes_by_index ns1 = sort_nodes_by_index ns2) by (apply sort_nodes_perm_eq; assumption).
  rewrite Eseed.
  destruct (st_genesis_seed s2) as [|b sd] eqn:Es.
  - inversion Hg1; subst g1; clear Hg1. eexists. split; [reflexivity|].
    assert (Hh : forall a b c d e f sd',
       group_hash_input (mkG a b c d e f sd' tt ns1 commits) =
       group_hash_input (mkG a b c d e f sd' tt ns2 commits)).
    { intros. apply group_hash_input_perm; cbn; auto. }
    rewrite (Hh _ _ _ _ _ _ []), Hsn. cbn. repeat split; try reflexivity.
  - inversion Hg1; subst g1; clear Hg1. eexists. split; [reflexivity|]. cbn.
    repeat split; try reflexivity; try exact Hpn.
    + apply group_hash_input_perm; cbn; auto.
    + discriminate.
Qed.

(* asGroup does not read the previous group, the epoch or the participant split *)
Lemma as_group_frame H defsch st commits idxs tt fg ep :
  as_group H defsch (mkS (st_beacon_id st) ep (st_threshold st) (st_scheme st) (st_scheme_ok st)
                         (st_genesis_time st) (st_genesis_seed st) (st_catchup st) (st_period st)
                         (st_remaining st) (st_joining st) fg) commits idxs tt
  = as_group H defsch st commits idxs tt.
Proof. reflexivity. Qed.

(* ------------------------------------------------------------------------------------ *)
(* In-place sort aliasing (F12): what current.Remaining views after                        *)
(*   SortedByPublicKey(append(current.Remaining, current.Joining...))                      *)
(* States decoded from dkg.db have cap = len, so append reallocates unless there is        *)
(* nothing to append, in which case the sort permutes Remaining itself.                    *)
(* ------------------------------------------------------------------------------------ *)
Definition remaining_after_sort (rem join out : list participant) : list participant :=
  match join with [] => out | _ => rem end.

Lemma sort_in_place_is_permutation rem join out :
  sorted_by_key (rem ++ join) out -> Permutation rem (remaining_after_sort rem join out).
Proof.
  intros [Hp _]. unfold remaining_after_sort. destruct join; [|reflexivity].
  rewrite app_nil_r in Hp. exact Hp.
Qed.

(* hence nothing computed from the participant multiset changes *)
Lemma sort_in_place_harmless rem join out :
  NoDup (map p_key (rem ++ join)) -> sorted_by_key (rem ++ join) out ->
  sort_by_key (remaining_after_sort rem join out ++ join) = sort_by_key (rem ++ join).
Proof.
  intros Hnd Hs. symmetry. apply sort_by_key_perm_eq; [|exact Hnd].
  apply Permutation_app_tail. eapply sort_in_place_is_permutation; exact Hs.
Qed.

(* ------------------------------------------------------------------------------------ *)
(* Transition time                                                                        *)
(* ------------------------------------------------------------------------------------ *)

Lemma transition_time_epoch1 bits rut now st : st_epoch st = 1 ->
  transition_time bits rut now st = st_genesis_time st.
Proof. intros E. unfold transition_time. rewrite E. reflexivity. Qed.

Lemma transition_time_same_round bits rut now1 now2 st :
  current_round now1 (st_period st) (st_genesis_time st) = current_round now2 (st_period st) (st_genesis_time st) ->
  transition_time bits rut now1 st = transition_time bits rut now2 st.
Proof. intros E. unfold transition_time. rewrite E. reflexivity. Qed.

(* exactness of TimeOfRound a little beyond C16's "current round" range: the transition round
   lies rut rounds after the current one *)
Lemma mid_round_no_guard k : 1 <= k <= 32 ->
  (2 ^ 56) / (2 ^ k - 1) + 3 < Z.shiftr max_uint64 (k + 2).
Proof. intros Hk. enum_k k; vm_compute; reflexivity. Qed.

Lemma time_of_round_exact_mid p g r :
  dom_p p -> dom_g g -> 1 <= r -> (r - 1) * p <= 2 ^ 56 ->
  time_of_round 36 p g r = ideal p g r.
Proof.
  intros Hp Hg Hr Hsm. rewrite time_of_round_spec by (assumption || lia).
  destruct (Z.eqb_spec r 0); [lia|].
  pose proof (pbits_range p Hp) as Hk. pose proof (pbits_bounds p Hp) as [Hlo Hhi].
  assert (Hgd : guard p r = false).
  { unfold guard. rewrite Z.geb_leb. apply Z.leb_gt.
    set (k := Z.log2 (p + 1)) in *.
    pose proof (mid_round_no_guard k Hk) as Hs.
    assert (2 ^ k - 1 <= p) by lia.
    assert (0 < 2 ^ k - 1). { assert (2 ^ 1 <= 2 ^ k) by (apply Z.pow_le_mono_r; lia). lia. }
    assert (r - 1 <= (2 ^ 56) / (2 ^ k - 1)).
    { apply Z.div_le_lower_bound; [lia|]. destruct Hp. nia. }
    lia. }
  rewrite Hgd.
  destruct (Z.gtb_spec (ideal p g r) (err_val 36)) as [Hgt|]; [|reflexivity].
  unfold ideal in Hgt. destruct Hg.
  assert (err_val 36 = 2 ^ 63 - 1 - 2 ^ 36) by reflexivity. lia.
Qed.

(* closed form on the domain of C16: start of round (current + rut) *)
Lemma transition_time_spec rut now st :
  dom_p (st_period st) -> dom_g (st_genesis_time st) -> dom_t (st_genesis_time st) now ->
  0 <= rut <= 2 ^ 20 -> st_epoch st <> 1 ->
  transition_time 36 rut now st =
    st_genesis_time st + ((now - st_genesis_time st) / st_period st + rut) * st_period st.
Proof.
  intros Hp Hg Ht Hr He. unfold transition_time.
  destruct (Z.eqb_spec (st_epoch st) 1); [contradiction|].
  rewrite current_round_spec by assumption.
  set (p := st_period st) in *. set (g := st_genesis_time st) in *.
  destruct Ht as [Ht1 Ht2]. pose proof Hp as [Hp1 Hp2].
  assert (Hq : 0 <= (now - g) / p) by (apply Z.div_pos; lia).
  assert (Hq2 : (now - g) / p <= 2 ^ 50) by (apply Z.div_le_upper_bound; nia).
  rewrite Z.mod_small by (unfold two64; lia).
  assert (Hqp : p * ((now - g) / p) <= now - g) by (apply Z.mul_div_le; lia).
  rewrite time_of_round_exact_mid by (try assumption; nia).
  unfold ideal. lia.
Qed.

(* two instants give different transition times exactly when they lie in different rounds *)
Lemma transition_skew_iff rut now1 now2 st :
  dom_p (st_period st) -> dom_g (st_genesis_time st) ->
  dom_t (st_genesis_time st) now1 -> dom_t (st_genesis_time st) now2 ->
  0 <= rut <= 2 ^ 20 -> st_epoch st <> 1 ->
  (transition_time 36 rut now1 st <> transition_time 36 rut now2 st <->
   current_round now1 (st_period st) (st_genesis_time st) <> current_round now2 (st_period st) (st_genesis_time st)).
Proof.
  intros Hp Hg H1 H2 Hr He.
  rewrite !transition_time_spec, !current_round_spec by assumption.
  destruct Hp as [Hp1 Hp2]. split; intros H C; apply H; nia.
Qed.

(* and the difference is exactly the number of round boundaries between them *)
Lemma transition_skew_amount rut now1 now2 st :
  dom_p (st_period st) -> dom_g (st_genesis_time st) ->
  dom_t (st_genesis_time st) now1 -> dom_t (st_genesis_time st) now2 ->
  0 <= rut <= 2 ^ 20 -> st_epoch st <> 1 ->
  transition_time 36 rut now2 st - transition_time 36 rut now1 st =
  (current_round now2 (st_period st) (st_genesis_time st) - current_round now1 (st_period st) (st_genesis_time st)) * st_period st.
Proof.
  intros Hp Hg H1 H2 Hr He.
  rewrite !transition_time_spec, !current_round_spec by assumption. lia.
Qed.

(* ------------------------------------------------------------------------------------ *)
(* finish_dkg: the whole drand-side computation                                           *)
(* ------------------------------------------------------------------------------------ *)

Lemma final_nodes_complete nn : forall qual fn,
  Forall2 (fun v nd => nth_z nn v = Some nd) qual fn -> final_nodes nn qual = Ok fn.
Proof.
  induction 1 as [|v nd q r Hv _ IH]; cbn; [reflexivity|]. rewrite Hv, IH. reflexivity.
Qed.

Lemma finish_dkg_as_group H defsch bits rut st commits qual now g :
  finish_dkg H defsch bits rut st commits qual now = Ok g ->
  as_group H defsch st commits qual (transition_time bits rut now st) = Ok g /\
  exists nn, dkg_nodes st = Ok nn /\ Forall (fun v => exists nd, nth_z nn v = Some nd) qual.
Proof.
  unfold finish_dkg. destruct (dkg_nodes st) as [nn|] eqn:En; [|discriminate].
  destruct (final_nodes nn qual) as [fn|] eqn:Ef; [|discriminate].
  rewrite (final_nodes_indices st nn qual fn En Ef). intros Hg. split; [exact Hg|].
  exists nn. split; [reflexivity|]. apply final_nodes_spec in Ef.
  clear -Ef. induction Ef; constructor; eauto.
Qed.

Lemma as_group_finish_dkg H defsch bits rut st commits qual now nn :
  dkg_nodes st = Ok nn -> Forall (fun v => exists nd, nth_z nn v = Some nd) qual ->
  finish_dkg H defsch bits rut st commits qual now =
  as_group H defsch st commits qual (transition_time bits rut now st).
Proof.
  intros En Hq. unfold finish_dkg. rewrite En.
  assert (exists fn, final_nodes nn qual = Ok fn) as [fn Ef].
  { induction Hq as [|v q [nd Hv] _ [r IH]]; [exists []; reflexivity|].
    exists (nd :: r). cbn. rewrite Hv, IH. reflexivity. }
  rewrite Ef, (final_nodes_indices st nn qual fn En Ef). reflexivity.
Qed.

(* ------------------------------------------------------------------------------------ *)
(* Shares and threshold signing, over an abstract threshold-signature interface           *)
(* ------------------------------------------------------------------------------------ *)

Section ThresholdSigning.
  Variables scalar point msg psig sig : Type.
  Variable pub_of : scalar -> point.                      (* g^s *)
  Variable eval : list bytes -> Z -> point.               (* public polynomial at DKG index i *)
  Variable sign_part : Z -> scalar -> msg -> psig.        (* tbls.Sign with share (i, s) *)
  Variable recover : list bytes -> msg -> list psig -> Z -> option sig.   (* tbls.Recover *)
  Variable vfy : bytes -> msg -> sig -> bool.             (* verification under commits[0] *)

  (* recover-validity: t = |commits| partials with pairwise distinct indices, each made with a
     share lying on the public polynomial, recover to a signature valid under commits[0] *)
  Definition recover_validity : Prop :=
    forall commits m (shares : list (Z * scalar)),
      NoDup (map fst shares) -> (length commits <= length shares)%nat ->
      (forall i s, In (i, s) shares -> pub_of s = eval commits i) ->
      exists sg, recover commits m (map (fun x => sign_part (fst x) (snd x) m) shares)
                         (Z.of_nat (length commits)) = Some sg /\
                 vfy (hd [] commits) m sg = true.

  (* contract of kyber's Pedersen DKG (black box): on success the participant whose long-term
     key sits at DKG index i of QUAL receives a share on the common public polynomial at i *)
  Definition dkg_contract (st : dstate) (qual : list Z) (commits : list bytes)
             (share_of : bytes -> scalar) : Prop :=
    forall nn i k, dkg_nodes st = Ok nn -> In i qual -> nth_z nn i = Some (i, k) ->
                   pub_of (share_of k) = eval commits i.

  Lemma finish_dkg_alignment H defsch bits rut st commits qual now g nn nd :
    finish_dkg H defsch bits rut st commits qual now = Ok g -> dkg_nodes st = Ok nn ->
    In nd (g_nodes g) ->
    nth_z nn (n_index nd) = Some (n_index nd, n_key nd) /\ In (n_index nd) qual /\
    exists p, nth_z (sorted_participants st) (n_index nd) = Some p /\
              n_key nd = p_key p /\ n_addr nd = p_addr p /\ n_sig nd = p_sig p.
  Proof.
    intros Hf Hnn Hin. apply finish_dkg_as_group in Hf. destruct Hf as [Hg _].
    apply as_group_inv in Hg. destruct Hg as [_ [nodes [Hk Hrest]]].
    assert (Hin' : In nd nodes).
    { destruct Hrest as (_ & _ & _ & _ & _ & _ & _ & _ & [(_ & _ & E)|(_ & _ & E)]); rewrite E in Hin.
      - exact Hin.
      - eapply Permutation_in; [apply Permutation_sym, sort_nodes_perm|exact Hin]. }
    destruct (key_nodes_aligned _ _ _ _ Hk Hin') as [p (Hp & E1 & E2 & E3 & Hq)].
    split; [|split; [exact Hq|exists p; auto]].
    unfold dkg_nodes in Hnn. rewrite (to_dkg_nodes_nth _ _ _ Hnn _ _ Hp), E1. f_equal.
  Qed.

  Lemma finish_dkg_share_on_polynomial H defsch bits rut st commits qual now g share_of nd :
    dkg_contract st qual commits share_of ->
    finish_dkg H defsch bits rut st commits qual now = Ok g -> In nd (g_nodes g) ->
    pub_of (share_of (n_key nd)) = eval (g_public g) (n_index nd).
  Proof.
    intros Hc Hf Hin. destruct (finish_dkg_as_group _ _ _ _ _ _ _ _ _ Hf) as [Hg [nn [Hnn _]]].
    destruct (finish_dkg_alignment _ _ _ _ _ _ _ _ _ _ _ Hf Hnn Hin) as (Hn & Hq & _).
    apply as_group_inv in Hg. destruct Hg as [_ [nodes (_ & _ & _ & _ & _ & _ & _ & _ & Ep & _)]].
    rewrite Ep. eapply Hc; eassumption.
  Qed.

  Lemma finish_dkg_threshold_signing H defsch bits rut st commits qual now g share_of m signers :
    recover_validity -> dkg_contract st qual commits share_of ->
    finish_dkg H defsch bits rut st commits qual now = Ok g ->
    incl signers (g_nodes g) -> NoDup (map n_index signers) ->
    (length (g_public g) <= length signers)%nat ->
    exists sg,
      recover (g_public g) m
              (map (fun nd => sign_part (n_index nd) (share_of (n_key nd)) m) signers)
              (Z.of_nat (length (g_public g))) = Some sg /\
      vfy (hd [] (g_public g)) m sg = true.
  Proof.
    intros Hrv Hc Hf Hincl Hnd Hlen.
    pose (shares := map (fun nd => (n_index nd, share_of (n_key nd))) signers).
    destruct (Hrv (g_public g) m shares) as [sg [Hr Hv]].
    - unfold shares. rewrite map_map. cbn. exact Hnd.
    - unfold shares. rewrite map_length. exact Hlen.
    - intros i s Hin. unfold shares in Hin. apply in_map_iff in Hin.
      destruct Hin as [nd [E Hin]]. inversion E; subst.
      eapply finish_dkg_share_on_polynomial; eauto.
    - exists sg. split; [|exact Hv]. unfold shares in Hr. rewrite map_map in Hr. cbn in Hr. exact Hr.
  Qed.
End ThresholdSigning.

(* ------------------------------------------------------------------------------------ *)
(* Agreement of two nodes that complete the same DKG                                      *)
(* ------------------------------------------------------------------------------------ *)

Definition same_round_or_first (s : dstate) (now1 now2 : Z) : Prop :=
  st_epoch s = 1 \/
  current_round now1 (st_period s) (st_genesis_time s) = current_round now2 (st_period s) (st_genesis_time s).

Lemma finish_dkg_agreement H defsch bits rut s1 s2 commits q1 q2 now1 now2 g1 :
  Permutation (all_participants s1) (all_participants s2) ->
  NoDup (map p_key (all_participants s1)) -> same_terms s1 s2 -> st_epoch s1 = st_epoch s2 ->
  Permutation q1 q2 -> NoDup q1 -> same_round_or_first s1 now1 now2 ->
  finish_dkg H defsch bits rut s1 commits q1 now1 = Ok g1 ->
  exists g2, finish_dkg H defsch bits rut s2 commits q2 now2 = Ok g2 /\
    Permutation (g_nodes g1) (g_nodes g2) /\
    g_id g1 = g_id g2 /\ g_threshold g1 = g_threshold g2 /\ g_period g1 = g_period g2 /\
    g_scheme g1 = g_scheme g2 /\ g_catchup g1 = g_catchup g2 /\
    g_genesis_time g1 = g_genesis_time g2 /\ g_genesis_seed g1 = g_genesis_seed g2 /\
    g_transition_time g1 = g_transition_time g2 /\ g_public g1 = g_public g2 /\
    group_hash_input g1 = group_hash_input g2 /\
    (st_genesis_seed s1 = [] -> g1 = g2).
Proof.
  intros Hp Hnd Hst Hep Hq Hndq Hr Hf.
  destruct (finish_dkg_as_group _ _ _ _ _ _ _ _ _ Hf) as [Hg [nn [Hnn Hrange]]].
  assert (Htt : transition_time bits rut now1 s1 = transition_time bits rut now2 s2).
  { pose proof Hst as (_ & _ & _ & _ & Eg & _ & _ & Epd).
    unfold transition_time. rewrite <- Hep, <- Eg, <- Epd.
    destruct Hr as [E|E]; [rewrite E; reflexivity|rewrite E; reflexivity]. }
  assert (Hnn2 : dkg_nodes s2 = Ok nn).
  { unfold dkg_nodes in *. rewrite <- (sorted_participants_perm s1 s2 Hp Hnd). exact Hnn. }
  rewrite (as_group_finish_dkg H defsch bits rut s2 commits q2 now2 nn Hnn2).
  - rewrite <- Htt. eapply as_group_qual_order; eassumption.
  - eapply Permutation_Forall; eassumption.
Qed.

(* ------------------------------------------------------------------------------------ *)
(* Echo broadcast: every bundle is sent / re-sent to every other participant              *)
(* ------------------------------------------------------------------------------------ *)

Lemma dispatcher_senders_in sorted own S :
  In S sorted -> p_addr S <> own -> In S (dispatcher_senders sorted own).
Proof.
  intros Hin Hne. unfold dispatcher_senders. apply filter_In. split; [exact Hin|].
  destruct (bytes_eqb (p_addr S) own) eqn:E; [|reflexivity].
  apply bytes_eqb_eq in E. contradiction.
Qed.

Lemma shape_ok_inv s : shape_ok s = true ->
  d_one_sender_per_other s = true /\ d_echo s = AllSenders /\ d_direct s = AllSenders.
Proof.
  unfold shape_ok. intros H. apply andb_prop in H. destruct H as [H H3].
  apply andb_prop in H. destruct H as [H1 H2].
  destruct (d_echo s); try discriminate. destruct (d_direct s); try discriminate. auto.
Qed.

Lemma echo_delivery s sorted R S :
  shape_ok s = true -> In S sorted -> p_addr S <> p_addr R ->
  In S (echo_targets s sorted (p_addr R)) /\ In S (direct_targets s sorted (p_addr R)).
Proof.
  intros Hs Hin Hne. destruct (shape_ok_inv s Hs) as (H1 & H2 & H3).
  unfold echo_targets, direct_targets. rewrite H1, H2, H3. cbn.
  split; apply dispatcher_senders_in; assumption.
Qed.

(* ------------------------------------------------------------------------------------ *)
(* Phase duration                                                                         *)
(* ------------------------------------------------------------------------------------ *)

Lemma phase_window src c delay :
  phaser_ok src = true -> 0 <= delay < t_phase c -> arrives_in_phase src c delay = true.
Proof.
  intros Hs Hd. destruct src; try discriminate. unfold arrives_in_phase; cbn.
  apply Z.ltb_lt. lia.
Qed.
