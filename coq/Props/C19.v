(* C19 — Requests reach only the beacon chain they name.
   Property theorems only; proofs are in Proofs/RoutingProofs.v, the model in Model/Routing.v,
   the endpoint table in the generated Gen/Routes.v (read from internal/core on every run).

   Histories are arbitrary lists of start-up / LoadBeacon / Shutdown / DKG-completion events
   ([run]) over an arbitrary initial set of key stores on disk. [H i] is the chain hash of the
   chain with beacon id [i]; [hash_model H] says chain hashes are non-empty byte strings and
   distinct chains have distinct hashes (the chain hash commits to the id and the genesis
   parameters: C17; a resharing keeps it: C07). Requests carry any id (absent = empty,
   "default", any string) and any hash bytes (absent = empty, any bytes). *)
From Coq Require Import ZArith List Bool.
From DV Require Import Model.Routing Proofs.RoutingProofs Gen.Routes.
Import ListNotations.
Open Scope Z_scope.

(* every maintenance step preserves the table invariant ... *)
Theorem C19_tables_step : forall H d e, hash_model H -> inv H d -> ev_ok H e -> inv H (step d e).
Proof. intros H d e [HV HI]. exact (step_inv H HV HI d e). Qed.
Print Assumptions C19_tables_step.

(* ... hence it holds after every history: every chainHashes / HTTP entry k -> i is the
   chain-hash entry of a registered process i that has that group (or the "default" alias of
   the default chain), every process with a group is reachable under its hash, process ids
   are canonical *)
Theorem C19_tables_consistent : forall H dk evs, hash_model H -> disk_ok H dk ->
  Forall (ev_ok H) evs -> inv H (run (init_daemon dk) evs).
Proof. intros H dk evs [HV HI] D F. apply (run_inv H HV HI); auto. apply inv_init, D. Qed.
Print Assumptions C19_tables_consistent.

(* a request dispatched to process (i, g) names it: its id is absent or canonically i, and its
   hash is absent, or is the chain hash of i's group, or i has no group yet *)
Theorem C19_served_is_named : forall H dk evs m i g, hash_model H -> disk_ok H dk ->
  Forall (ev_ok H) evs -> valid_req m ->
  get_process (run (init_daemon dk) evs) m = Ok (i, g) ->
  alookup i (procs (run (init_daemon dk) evs)) = Some g /\
  (req_id m = [] \/ canon (req_id m) = i) /\
  (req_hash m = [] \/ g = None \/ (g = Some (H i) /\ req_hash m = H i)).
Proof.
  intros H dk evs m i g HM D F V G. pose proof (C19_tables_consistent H dk evs HM D F) as I.
  destruct HM as [HV HI]. eapply get_process_served; eauto.
Qed.
Print Assumptions C19_served_is_named.

(* a known hash alone (or together with its own id) selects its chain *)
Theorem C19_known_hash_selects : forall H dk evs m i h, hash_model H -> disk_ok H dk ->
  Forall (ev_ok H) evs ->
  alookup i (procs (run (init_daemon dk) evs)) = Some (Some h) ->
  req_hash m = h -> (req_id m = [] \/ canon (req_id m) = i) ->
  get_process (run (init_daemon dk) evs) m = Ok (i, Some h).
Proof.
  intros H dk evs m i h HM D F P RH RI. pose proof (C19_tables_consistent H dk evs HM D F) as I.
  destruct HM as [HV HI]. eapply known_hash_selects; eauto.
Qed.
Print Assumptions C19_known_hash_selects.

(* a mismatching id / hash pair is refused *)
Theorem C19_mismatch_refused : forall H dk evs m j h, hash_model H -> disk_ok H dk ->
  Forall (ev_ok H) evs ->
  alookup j (procs (run (init_daemon dk) evs)) = Some (Some h) ->
  req_hash m = h -> req_id m <> [] -> canon (req_id m) <> j ->
  get_process (run (init_daemon dk) evs) m = Err EInvalidPair.
Proof.
  intros H dk evs m j h HM D F P RH RI NE. pose proof (C19_tables_consistent H dk evs HM D F) as I.
  destruct HM as [HV HI]. eapply mismatch_refused; eauto.
Qed.
Print Assumptions C19_mismatch_refused.

(* neither id nor hash: the default process, or refusal when it is not running *)
Theorem C19_neither_goes_to_default : forall d m, req_id m = [] -> req_hash m = [] ->
  get_process d m = get_process_by_id d default_str.
Proof. exact neither_default. Qed.
Print Assumptions C19_neither_goes_to_default.

(* after Shutdown of chain i: i is gone; no request is dispatched to i any more, and a request
   carrying i's hash reaches at most a process without group; every request that was
   dispatched to another chain j is still dispatched to j; the hash and HTTP tables lose
   exactly the entries of i *)
Theorem C19_after_shutdown : forall H dk evs m i, hash_model H -> disk_ok H dk ->
  Forall (ev_ok H) evs ->
  let d := run (init_daemon dk) evs in
  let d' := fst (shutdown d m) in
  snd (shutdown d m) = SOne i ->
  alookup i (procs d') = None /\
  (forall m' r, valid_req m' -> get_process d' m' = Ok r ->
     fst r <> i /\ (req_hash m' = H i -> snd r = None)) /\
  (forall m' j gj, valid_req m' -> get_process d m' = Ok (j, gj) -> j <> i ->
     get_process d' m' = Ok (j, gj)) /\
  (forall k j, alookup k (hashes d') = Some j <-> (alookup k (hashes d) = Some j /\ j <> i)) /\
  (forall k j, alookup k (http d') = Some j <-> (alookup k (http d) = Some j /\ j <> i)) /\
  (forall s j, http_route (http d') (Some s) = HServe j -> j <> i).
Proof.
  intros H dk evs m i HM D F d d' S. pose proof (C19_tables_consistent H dk evs HM D F) as I.
  destruct HM as [HV HI]. fold d in I.
  destruct (shutdown_one H d m i I) as (g & P & E).
  { destruct (shutdown d m) as [x y] eqn:SD. simpl in *. subst y. reflexivity. }
  fold d' in E. rewrite E.
  destruct (removed_spec H HV HI d i g I P) as (SP & SH & SW & _).
  split; [rewrite SP, str_eqb_refl; reflexivity|].
  split; [intros m' r V G; exact (removed_gone H HV HI d i g m' r I V P G)|].
  split; [intros m' j gj V G N; exact (removed_others_kept H HV HI d i g m' j gj I V P G N)|].
  split; [exact SH|]. split; [exact SW|].
  intros s j R. exact (http_removed_404 H HV HI d i g s j I P R).
Qed.
Print Assumptions C19_after_shutdown.

(* HTTP: a path is served by handler i only if i is a running chain with a group and the path
   segment decodes to exactly i's chain hash, or the path has no hash segment and i is the
   default chain; a path under the hash of a running chain is served by that chain *)
Theorem C19_http : forall H dk evs, hash_model H -> disk_ok H dk -> Forall (ev_ok H) evs ->
  let d := run (init_daemon dk) evs in
  (forall path i, http_route (http d) path = HServe i ->
     exists h, alookup i (procs d) = Some (Some h) /\ h = H i /\
       match path with
       | None => i = default_str
       | Some s => (s = [] /\ i = default_str) \/ (s <> [] /\ unhex s = Some h)
       end) /\
  (forall i h, alookup i (procs d) = Some (Some h) -> http_route (http d) (Some (hex h)) = HServe i).
Proof.
  intros H dk evs HM D F d. pose proof (C19_tables_consistent H dk evs HM D F) as I.
  destruct HM as [HV HI]. split.
  - intros path i R. eapply http_route_served; eauto.
  - intros i h P. eapply http_running_served; eauto.
Qed.
Print Assumptions C19_http.

(* "default" is not the hex rendering of any byte string, so neither the chainHashes alias nor
   the HTTP alias can be addressed by request bytes / a path segment *)
Theorem C19_hex_never_default : forall bs, forallb is_byte bs = true -> hex bs <> default_str.
Proof. exact hex_not_default. Qed.
Print Assumptions C19_hex_never_default.

Theorem C19_http_alias_only_empty_path : forall s, s <> [] -> http_key (Some s) <> Some default_str.
Proof. exact http_key_alias_only_empty. Qed.
Print Assumptions C19_http_alias_only_empty_path.

(* DKG proxy endpoints are served only for the exact id named in the metadata, which must be
   a registered process *)
Theorem C19_dkg_proxy : forall d m i, dkg_proxy d m = DServe i ->
  m = Some i /\ exists g, alookup i (procs d) = Some g.
Proof. exact dkg_proxy_named. Qed.
Print Assumptions C19_dkg_proxy.

(* endpoint coverage, tied to the source: every DrandDaemon method taking a protobuf request
   resolves the request before using a process / checks beaconExists before using the DKG
   process, and never reads the process table itself; the table lists the routed endpoints *)
Definition expected_endpoints : list str :=
  [ [80;117;98;108;105;99;82;97;110;100] (* PublicRand *);
    [80;117;98;108;105;99;82;97;110;100;83;116;114;101;97;109] (* PublicRandStream *);
    [67;104;97;105;110;73;110;102;111] (* ChainInfo *);
    [71;101;116;73;100;101;110;116;105;116;121] (* GetIdentity *);
    [83;121;110;99;67;104;97;105;110] (* SyncChain *);
    [80;97;114;116;105;97;108;66;101;97;99;111;110] (* PartialBeacon *);
    [83;116;97;116;117;115] (* Status *);
    [71;114;111;117;112;70;105;108;101] (* GroupFile *);
    [80;117;98;108;105;99;75;101;121] (* PublicKey *);
    [68;75;71;83;116;97;116;117;115] (* DKGStatus *);
    [67;111;109;109;97;110;100] (* Command *);
    [80;97;99;107;101;116] (* Packet *);
    [66;114;111;97;100;99;97;115;116;68;75;71] (* BroadcastDKG *) ].

Theorem C19_routes : routes_ok routes = true /\ routes_cover expected_endpoints routes = true.
Proof. vm_compute. split; reflexivity. Qed.
Print Assumptions C19_routes.

(* non-vacuity: a concrete hash model, a concrete history (start-up with the default chain on
   disk and a fresh "alpha" store, DKG completion for alpha, shutdown of default) meeting all
   premises, with a served request, a refused mismatching pair and a table that is not empty *)
Example C19_nonvacuous :
  let alpha := [97; 108; 112; 104; 97] in
  let dk := [(default_str, Some (H0 default_str)); (alpha, None)] in
  let evs := [EStartup; ELoad (Some (mkM alpha [])); EDkgDone alpha (H0 alpha)] in
  let d := run (init_daemon dk) evs in
  hash_model H0 /\ disk_ok H0 dk /\ Forall (ev_ok H0) evs /\
  get_process d (Some (mkM [] (H0 alpha))) = Ok (alpha, Some (H0 alpha)) /\
  get_process d (Some (mkM default_str (H0 alpha))) = Err EInvalidPair /\
  get_process d None = Ok (default_str, Some (H0 default_str)) /\
  snd (shutdown d (Some (mkM default_str []))) = SOne default_str /\
  get_process (fst (shutdown d (Some (mkM default_str [])))) None = Err ENotRunning /\
  http_route (http d) (Some (hex (H0 alpha))) = HServe alpha /\
  http_route (http d) None = HServe default_str.
Proof.
  cbv zeta. split; [exact H0_model|]. split.
  - intros i g. simpl.
    destruct (str_eqb i default_str) eqn:E1.
    + apply str_eqb_eq in E1; subst. intro E; inversion E; subst. repeat split; auto. intros h E'. inversion E'. reflexivity.
    + destruct (str_eqb i [97; 108; 112; 104; 97]) eqn:E2; [|discriminate].
      apply str_eqb_eq in E2; subst. intro E; inversion E; subst. repeat split; auto. discriminate.
  - split; [repeat constructor|]. vm_compute. repeat split; reflexivity.
Qed.
