(* C20 — Persisted and transmitted state round-trips without loss.
   Property theorems only; the generic proofs are in Proofs/CodecProofs.v (reflection theorem
   roundtrip_sound) and Proofs/CodecGen.v (the chain of pairs over the generated table). Every
   obligation below is about the GENERATED table Gen/Mirrors.v (read from the Go sources on every
   run): a field added to a struct but forgotten in its mirror or in one of the two conversion
   functions makes [roundtrip_ok] evaluate to false and the corresponding obligation fail. *)
From Coq Require Import String ZArith List Bool Lia.
From DV Require Import Model.ByteEnc Gen.HashOrder Model.Hashes Model.CodecVocab Model.Codec
  Proofs.HashesProofs Proofs.CodecProofs Gen.Mirrors Proofs.CodecGen Proofs.CodecDisk.
Import ListNotations.
Open Scope string_scope.
Open Scope Z_scope.
Open Scope list_scope.

(* the per-run obligations: the generated conversions of each pair are mutually inverse, field by field *)
Theorem C20_obl_DistPublic : ok V0 vDistPublic = true. Proof. vm_compute. reflexivity. Qed.
Theorem C20_obl_Identity_TOML : ok V0 vIdentityTOML = true. Proof. vm_compute. reflexivity. Qed.
Theorem C20_obl_Identity_proto : ok V0 vIdentityProto = true. Proof. vm_compute. reflexivity. Qed.
Theorem C20_obl_Identity_proto_inline : ok V0 vIdentityProtoInl = true. Proof. vm_compute. reflexivity. Qed.
Theorem C20_obl_Pair : ok V0 vPair = true. Proof. vm_compute. reflexivity. Qed.
Theorem C20_obl_Share : ok V0 vShare = true. Proof. vm_compute. reflexivity. Qed.
Theorem C20_obl_Node_TOML : ok V1 vNodeTOML = true. Proof. vm_compute. reflexivity. Qed.
Theorem C20_obl_Node_proto : ok V1 vNodeProto = true. Proof. vm_compute. reflexivity. Qed.
Theorem C20_obl_Group_TOML : ok V2 vGroupTOML = true. Proof. vm_compute. reflexivity. Qed.
Theorem C20_obl_Group_proto : ok V2 vGroupProto = true. Proof. vm_compute. reflexivity. Qed.
Theorem C20_obl_DBState : ok V3 vDBState = true. Proof. vm_compute. reflexivity. Qed.
Theorem C20_obl_Info_proto : ok V0 vInfoProto = true. Proof. vm_compute. reflexivity. Qed.
Theorem C20_obl_Info_JSON : ok V0 vInfoJSON = true. Proof. vm_compute. reflexivity. Qed.
Theorem C20_obl_Beacon_proto : ok V0 vBeaconProto = true. Proof. vm_compute. reflexivity. Qed.
Theorem C20_obl_Beacon_JSON : ok V0 vBeaconJSON = true. Proof. vm_compute. reflexivity. Qed.

(* For every pair (encoder a, decoder b) of [all_pairs] - DistPublic, Identity (TOML, protobuf),
   Pair, Share, Node (TOML, protobuf), Group (TOML, protobuf), DBState (TOML), chain Info
   (protobuf, JSON), Beacon (protobuf, JSON) - and EVERY well-formed value r of the source type
   (vp_P: exactly the source leaves, each meeting the precondition [cpre] of its class: whole
   seconds for periods on the protobuf/JSON paths, thresholds within uint32, a known scheme, a
   non-nil non-empty genesis seed, byte strings nil or non-empty where the code tests for
   emptiness): encoding succeeds and decoding the result gives vp_R r, which is r itself except
   for the stated normalisations [cres]: a beacon id is read back in canonical form ("" becomes
   "default"), an identity's scheme is not transmitted on the protobuf path (it is supplied by
   the decoder's caller), and a key pair's public identity is stored in a file of its own (only
   its scheme is restored from the private file).
   Library facts that enter as hypotheses ([dur_laws]; validated on every run by the codec
   engine): time.ParseDuration inverts time.Duration.String, which never returns "". The TOML /
   JSON / protobuf libraries are taken to transport the mirror structs unchanged. *)
Theorem C20_roundtrip : forall ds pd, dur_laws ds pd ->
  forall p, In p all_pairs -> forall r, vp_P p r ->
  exists r1, den ds pd mirrors (vp_a p) r = Some r1 /\ den ds pd mirrors (vp_b p) r1 = Some (vp_R p r).
Proof.
  intros ds pd L.
  exact (roundtrip_all ds pd L C20_obl_DistPublic C20_obl_Identity_TOML C20_obl_Identity_proto
    C20_obl_Identity_proto_inline C20_obl_Pair C20_obl_Share C20_obl_Node_TOML C20_obl_Node_proto
    C20_obl_Group_TOML C20_obl_Group_proto C20_obl_DBState C20_obl_Info_proto C20_obl_Info_JSON
    C20_obl_Beacon_proto C20_obl_Beacon_JSON).
Qed.
Print Assumptions C20_roundtrip.

(* a round trip does not change the hash: the group read back from its file or from a protobuf
   packet has the group hash of the original (the hashed projection survives the normalisations);
   chain infos come back unchanged (C17_paths_agree) *)
Theorem C20_hash_preserved : forall ds pd H256 Hb, dur_laws ds pd ->
  forall p, In p [vGroupTOML; vGroupProto] -> forall r, vp_P p r ->
  exists r1 r2, den ds pd mirrors (vp_a p) r = Some r1 /\ den ds pd mirrors (vp_b p) r1 = Some r2 /\ group_hash H256 Hb (group_of_record r2) = group_hash H256 Hb (group_of_record r).
Proof.
  intros ds pd H256 Hb L p I r P.
  assert (IA : In p all_pairs) by (simpl in I; destruct I as [<-|[<-|[]]]; simpl; auto 20).
  destruct (C20_roundtrip ds pd L p IA r P) as [r1 [E1 E2]].
  exists r1, (vp_R p r). repeat split; auto. apply group_hash_preserved; auto.
Qed.
Print Assumptions C20_hash_preserved.

(* non-vacuity of C20_roundtrip: a well-formed beacon and what the model computes for it *)
Definition ex_beacon : record :=
  [(["PreviousSig"], VNil); (["Round"], VInt 7); (["Signature"], VBytes [1; 2; 255])].
Example C20_roundtrip_nonvacuous :
  vp_P vBeaconJSON ex_beacon /\ In vBeaconJSON all_pairs /\
  den (fun _ => []) (fun _ => None) mirrors "Beacon.MarshalJSON" ex_beacon =
    Some [(["previous_signature"], VNil); (["round"], VInt 7); (["signature"], VBytes [48; 49; 48; 50; 102; 102])].
Proof.
  split; [|split; [simpl; auto 20 | vm_compute; reflexivity]].
  split; [reflexivity|]. split; [repeat constructor; simpl; intuition; discriminate|].
  intros leaf c v LC G. unfold ex_beacon in G. cbn [get] in G.
  destruct (path_eqb ["PreviousSig"] leaf) eqn:E1; [apply path_eqb_eq in E1; subst; injection G as <-; vm_compute in LC; injection LC as <-; simpl; auto|].
  destruct (path_eqb ["Round"] leaf) eqn:E2; [apply path_eqb_eq in E2; subst; injection G as <-; vm_compute in LC; injection LC as <-; simpl; auto|].
  destruct (path_eqb ["Signature"] leaf) eqn:E3; [apply path_eqb_eq in E3; subst; injection G as <-; vm_compute in LC; injection LC as <-; exists [1; 2; 255]; split; reflexivity|].
  discriminate G.
Qed.

(* ---- the disk path: the key store behaves as one register per file. For EVERY history of
   SaveKeyPair / SaveShare / SaveGroup / Load* / Reset on one store, a load returns exactly the
   value written last to that file (nothing after a Reset for the share and the group); the codec
   engine replays generated histories - values growing AND shrinking - on the real
   key.NewFileStore and compares every load with this model ---- *)
Theorem C20_disk_last_written : forall ops f,
  snd (disk_run disk_init (ops ++ [DLoad f])) = snd (disk_run disk_init ops) ++ [last_written f (rev ops)].
Proof. exact disk_load_last_written. Qed.
Print Assumptions C20_disk_last_written.

Example C20_disk_nonvacuous :
  snd (disk_run disk_init [DSave FShare 0; DLoad FShare; DSave FShare 1; DLoad FShare; DSave FPair 2; DReset; DLoad FShare; DLoad FPair]) =
    [Some 0; Some 1; None; Some 2].
Proof. reflexivity. Qed.

(* ---- fields of a mirror struct that no conversion writes / reads (stated, so that a new one
        is noticed): DBStateTOML.TransitionTime and ShareTOML.PrivatePoly have no source ---- *)
Theorem C20_fields_without_source :
  unwritten mir_DBState_TOML = [["TransitionTime"]] /\ unread mir_DBStateTOML_FromTOML = [["TransitionTime"]] /\
  unwritten mir_Share_TOML = [["PrivatePoly"]] /\ unread mir_Share_FromTOML = [["PrivatePoly"]] /\
  unwritten mir_Group_TOML = [] /\ unread mir_Group_FromTOML = [] /\
  unread mir_Group_TOML = [] /\ unread mir_DBState_TOML = [] /\ unread mir_Group_ToProto = [] /\
  unread mir_Share_TOML = [] /\ unread mir_Info_ToProto = [] /\ unread mir_Info_MarshalJSON = [] /\
  unread mir_beaconToProto = [] /\ unread mir_Beacon_MarshalJSON = [] /\
  unread mir_Info_UnmarshalJSON = [["chain_hash"]; ["schemeID"]; ["groupHash"]; ["metadata"; "beaconID"]].
Proof. vm_compute. repeat split; reflexivity. Qed.

(* ---- decode-side checks ---- *)
Section Decode.
  Variables (ds : Z -> bytes) (pd : bytes -> option Z) (hp : bytes -> bool) (hs : bytes).
  Notation dec := (decode ds pd hp hs mirrors).

  Definition thr_out_of_range (thr : Z) (n : nat) : Prop :=
    thr < minimum_t (Z.of_nat n) \/ thr > Z.of_nat n.

  (* group file (TOML): threshold below MinimumT(n) or above n, or unknown scheme => rejected *)
  Theorem C20_decode_rejects_toml : forall r thr nodes,
    get ["Threshold"] r = Some (VInt thr) -> get ["Nodes"] r = Some (VList nodes) ->
    thr_out_of_range thr (length nodes) -> dec "Group.FromTOML" r = None.
  Proof.
    intros r thr nodes HT HN [Lo|Hi].
    - apply (decode_reject ds pd hp hs "Group.FromTOML" mir_Group_FromTOML r
        (ChkRejectIf RLt (CField ["Threshold"]) (CMinT (CLen ["Nodes"])))); [reflexivity | simpl; auto |].
      simpl. rewrite HT, HN. simpl. apply Z.ltb_lt. exact Lo.
    - apply (decode_reject ds pd hp hs "Group.FromTOML" mir_Group_FromTOML r
        (ChkRejectIf RGt (CField ["Threshold"]) (CLen ["Nodes"]))); [reflexivity | simpl; auto |].
      simpl. rewrite HT, HN. simpl. apply Z.gtb_lt. lia.
  Qed.

  Theorem C20_decode_rejects_scheme_toml : forall r n,
    get ["SchemeID"] r = Some (VBytes n) -> n <> [] -> mem_bytes n scheme_names = false ->
    dec "Group.FromTOML" r = None.
  Proof.
    intros r n HS Nn Hm.
    apply (decode_reject ds pd hp hs "Group.FromTOML" mir_Group_FromTOML r (ChkScheme SchemeByID ["SchemeID"])); [reflexivity | simpl; auto |].
    simpl. rewrite HS. destruct n; [congruence|]. simpl. simpl in Hm. rewrite Hm. reflexivity.
  Qed.

  (* protobuf packet: threshold below MinimumT(n), or unknown scheme => rejected *)
  Theorem C20_decode_rejects_proto_low : forall r thr nodes,
    get ["Threshold"] r = Some (VInt thr) -> get ["Nodes"] r = Some (VList nodes) ->
    thr < minimum_t (Z.of_nat (length nodes)) -> dec "GroupFromProto" r = None.
  Proof.
    intros r thr nodes HT HN Lo.
    apply (decode_reject ds pd hp hs "GroupFromProto" mir_GroupFromProto r
      (ChkRejectIf RLt (CField ["Threshold"]) (CMinT (CLen ["Nodes"])))); [reflexivity | simpl; auto |].
    simpl. rewrite HT, HN. simpl. apply Z.ltb_lt. exact Lo.
  Qed.

  Theorem C20_decode_rejects_scheme_proto : forall r n,
    get ["SchemeID"] r = Some (VBytes n) -> mem_bytes n scheme_names = false ->
    dec "GroupFromProto" r = None.
  Proof.
    intros r n HS Hm.
    apply (decode_reject ds pd hp hs "GroupFromProto" mir_GroupFromProto r (ChkScheme SchemeFromName ["SchemeID"])); [reflexivity | simpl; auto |].
    simpl. rewrite HS. destruct n; [reflexivity|]. simpl. simpl in Hm. rewrite Hm. reflexivity.
  Qed.
End Decode.
Print Assumptions C20_decode_rejects_toml.
Print Assumptions C20_decode_rejects_scheme_toml.
Print Assumptions C20_decode_rejects_proto_low.
Print Assumptions C20_decode_rejects_scheme_proto.

(* The property text says "decoding rejects group encodings whose threshold is out of range".
   Read two-sidedly this is FALSE on the protobuf path: GroupFromProto has no `thr > n` check
   (DESIGN §6 F16). The full statement, its refutation by a concrete packet, and what holds: *)
Definition C20_decode_rejects_full : Prop :=
  forall ds pd hp hs name, In name ["Group.FromTOML"; "GroupFromProto"] ->
  forall r thr nodes, get ["Threshold"] r = Some (VInt thr) -> get ["Nodes"] r = Some (VList nodes) ->
  thr_out_of_range thr (length nodes) -> decode ds pd hp hs mirrors name r = None.

(* one node, threshold 5, no distributed key: accepted *)
Definition f16_node : val :=
  VRec [(["Public"], VRec [(["Address"], VBytes [49; 58; 49]); (["Key"], VBytes [1]); (["Tls"], VInt 0); (["Signature"], VNil)]);
        (["Index"], VInt 0)].
Definition f16_packet : record :=
  [(["Nodes"], VList [f16_node]); (["Threshold"], VInt 5); (["Period"], VInt 30); (["GenesisTime"], VInt 1000);
   (["TransitionTime"], VInt 0); (["GenesisSeed"], VNil); (["DistKey"], VList []); (["CatchupPeriod"], VInt 1);
   (["SchemeID"], VBytes default_scheme_id); (["Metadata"; "BeaconID"], VBytes default_beacon_id)].

Theorem C20_decode_rejects_refuted : ~ C20_decode_rejects_full.
Proof.
  intros F.
  specialize (F (fun _ => []) (fun _ => None) (fun _ => true) [] "GroupFromProto" (or_intror (or_introl eq_refl))
                f16_packet 5 [f16_node] eq_refl eq_refl).
  assert (O : thr_out_of_range 5 (length [f16_node])) by (right; simpl; lia).
  specialize (F O). vm_compute in F. discriminate.
Qed.
Print Assumptions C20_decode_rejects_refuted.

Theorem C20_decode_rejects_partial : forall ds pd hp hs r thr nodes,
  get ["Threshold"] r = Some (VInt thr) -> get ["Nodes"] r = Some (VList nodes) ->
  (thr_out_of_range thr (length nodes) -> decode ds pd hp hs mirrors "Group.FromTOML" r = None) /\
  (thr < minimum_t (Z.of_nat (length nodes)) -> decode ds pd hp hs mirrors "GroupFromProto" r = None).
Proof.
  intros; split; intros.
  - eapply C20_decode_rejects_toml; eauto.
  - eapply C20_decode_rejects_proto_low; eauto.
Qed.
Print Assumptions C20_decode_rejects_partial.

Example C20_decode_nonvacuous :
  get ["Threshold"] f16_packet = Some (VInt 5) /\ get ["Nodes"] f16_packet = Some (VList [f16_node]) /\
  thr_out_of_range 5 1 /\
  (* the same packet with threshold 1 is in range and accepted *)
  (exists g, decode (fun _ => []) (fun _ => None) (fun _ => true) [] mirrors "GroupFromProto"
     ((["Threshold"], VInt 1) :: f16_packet) = Some g).
Proof. repeat split; try reflexivity; [right; simpl; lia | vm_compute; eauto]. Qed.
