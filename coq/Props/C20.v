(* C20 — Persisted and transmitted state round-trips without loss.
   Property theorems only; the generic proofs are in Proofs/CodecProofs.v. Every obligation
   below is about the GENERATED table Gen/Mirrors.v (read from the Go sources on every run):
   a field added to a struct but forgotten in its mirror or in one of the two conversion
   functions makes [roundtrip_ok] evaluate to false and the corresponding theorem fail. *)
From Coq Require Import String ZArith List Bool Lia.
From DV Require Import Model.ByteEnc Gen.HashOrder Model.Hashes Model.CodecVocab Model.Codec
  Proofs.HashesProofs Proofs.CodecProofs Gen.Mirrors.
Import ListNotations.
Open Scope Z_scope.
Open Scope list_scope.
Open Scope string_scope.

(* a verified pair of the generated table, with its well-formedness predicate and normaliser *)
Definition mk_vp (verified : list vpair) (a b : string) : vpair :=
  match lookup mirrors a, lookup mirrors b with
  | Some enc, Some dec => (a, b, wf_rec verified enc dec, norm_rec verified enc dec)
  | _, _ => (a, b, fun _ => False, fun r => r)
  end.

Definition V0 : list vpair := [].
Definition vDistPublic := mk_vp V0 "DistPublic.TOML" "DistPublic.FromTOML".
Definition vIdentityTOML := mk_vp V0 "Identity.TOML" "Identity.FromTOML".
Definition vIdentityProto := mk_vp V0 "Identity.ToProto" "IdentityFromProto".
Definition vIdentityProtoInl := mk_vp V0 "Group.ToProto#ids#Public" "IdentityFromProto".
Definition vPair := mk_vp V0 "Pair.TOML" "Pair.FromTOML".
Definition vShare := mk_vp V0 "Share.TOML" "Share.FromTOML".
Definition V1 : list vpair := [vIdentityTOML; vIdentityProtoInl].
Definition vNodeTOML := mk_vp V1 "Node.TOML" "Node.FromTOML".
Definition vNodeProto := mk_vp V1 "Group.ToProto#ids" "NodeFromProto".
Definition V2 : list vpair := [vNodeTOML; vNodeProto; vDistPublic].
Definition vGroupTOML := mk_vp V2 "Group.TOML" "Group.FromTOML".
Definition vGroupProto := mk_vp V2 "Group.ToProto" "GroupFromProto".
Definition V3 : list vpair := [vGroupTOML; vShare].
Definition vDBState := mk_vp V3 "DBState.TOML" "DBStateTOML.FromTOML".
Definition vInfoProto := mk_vp V0 "Info.ToProto" "InfoFromProto".
Definition vInfoJSON := mk_vp V0 "Info.MarshalJSON" "Info.UnmarshalJSON".
Definition vBeaconProto := mk_vp V0 "beaconToProto" "protoToBeacon".
Definition vBeaconJSON := mk_vp V0 "Beacon.MarshalJSON" "Beacon.UnmarshalJSON".

(* the per-run obligations: the generated conversions of each pair are mutually inverse, field by field *)
Definition ok (verified : list vpair) (p : vpair) : bool :=
  roundtrip_ok mirrors (vnames verified) (vp_a p) (vp_b p).

Theorem C20_obl_DistPublic : ok V0 vDistPublic = true. Proof. vm_compute. reflexivity. Qed.
Theorem C20_obl_Identity_TOML : ok V0 vIdentityTOML = true. Proof. vm_compute. reflexivity. Qed.
Theorem C20_obl_Identity_proto : ok V0 vIdentityProto = true. Proof. vm_compute. reflexivity. Qed.
Theorem C20_obl_Identity_proto_inline : ok V0 vIdentityProtoInl = true. Proof. vm_compute. reflexivity. Qed.
Theorem C20_obl_Pair : ok V0 vPair = true. Proof. vm_compute. reflexivity. Qed.
Theorem C20_obl_Share : ok V0 vShare = true. Proof. vm_compute. reflexivity. Qed.
Theorem C20_obl_Node_TOML : ok V1 vNodeTOML = true. Proof. vm_compute. reflexivity. Qed.
Theorem C20_obl_Node_proto : ok V1 vNodeProto = true. Proof. vm_compute. reflexivity. Qed.
Theorem C20_obl_Group_TOML : ok V2 vGroupTOML = true. Proof. vm_compute. reflexivity. Qed.
Theorem C20_obl_Group_proto : ok V2 vGroupProto = true. Proof. vm_compute. reflexivity. Qed.
Theorem C20_obl_DBState : ok V3 vDBState = true. Proof. vm_compute. reflexivity. Qed.
Theorem C20_obl_Info_proto : ok V0 vInfoProto = true. Proof. vm_compute. reflexivity. Qed.
Theorem C20_obl_Info_JSON : ok V0 vInfoJSON = true. Proof. vm_compute. reflexivity. Qed.
Theorem C20_obl_Beacon_proto : ok V0 vBeaconProto = true. Proof. vm_compute. reflexivity. Qed.
Theorem C20_obl_Beacon_JSON : ok V0 vBeaconJSON = true. Proof. vm_compute. reflexivity. Qed.

(* Library facts that enter as hypotheses (validated on every run by the codec engine):
   time.ParseDuration inverts time.Duration.String, which never returns "". The TOML / JSON /
   protobuf libraries are taken to transport the mirror structs unchanged. *)
Definition dur_laws (dur_str : Z -> bytes) (parse_dur : bytes -> option Z) : Prop :=
  (forall d, parse_dur (dur_str d) = Some d) /\ (forall d, dur_str d <> []).

Definition sound (ds : Z -> bytes) (pd : bytes -> option Z) (p : vpair) : Prop :=
  pair_sound ds pd mirrors (vp_a p) (vp_b p) (vp_P p) (vp_R p).

Section RoundTrips.
  Variables (ds : Z -> bytes) (pd : bytes -> option Z).
  Hypothesis laws : dur_laws ds pd.

  Lemma mk_vp_sound : forall verified a b,
    (forall p, In p verified -> sound ds pd p) ->
    roundtrip_ok mirrors (vnames verified) a b = true -> sound ds pd (mk_vp verified a b).
  Proof.
    intros verified a b HV OK. unfold sound, mk_vp.
    destruct (lookup mirrors a) as [enc|] eqn:La; [|unfold roundtrip_ok in OK; rewrite La in OK; discriminate].
    destruct (lookup mirrors b) as [dec|] eqn:Lb; [|unfold roundtrip_ok in OK; rewrite La, Lb in OK; discriminate].
    destruct laws as [L1 L2]. simpl. apply (roundtrip_sound ds pd L1 L2 mirrors verified HV a b enc dec La Lb OK).
  Qed.

  Lemma all_sound : forall l : list vpair, Forall (sound ds pd) l -> forall p, In p l -> sound ds pd p.
  Proof. intros l F p I. rewrite Forall_forall in F. auto. Qed.

  Lemma sound_V0 : forall p, In p V0 -> sound ds pd p. Proof. intros p []. Qed.
  Lemma s_DistPublic : sound ds pd vDistPublic. Proof. apply mk_vp_sound; [exact sound_V0 | exact C20_obl_DistPublic]. Qed.
  Lemma s_Identity_TOML : sound ds pd vIdentityTOML. Proof. apply mk_vp_sound; [exact sound_V0 | exact C20_obl_Identity_TOML]. Qed.
  Lemma s_Identity_proto : sound ds pd vIdentityProto. Proof. apply mk_vp_sound; [exact sound_V0 | exact C20_obl_Identity_proto]. Qed.
  Lemma s_Identity_proto_inl : sound ds pd vIdentityProtoInl. Proof. apply mk_vp_sound; [exact sound_V0 | exact C20_obl_Identity_proto_inline]. Qed.
  Lemma s_Pair : sound ds pd vPair. Proof. apply mk_vp_sound; [exact sound_V0 | exact C20_obl_Pair]. Qed.
  Lemma s_Share : sound ds pd vShare. Proof. apply mk_vp_sound; [exact sound_V0 | exact C20_obl_Share]. Qed.
  Lemma sound_V1 : forall p, In p V1 -> sound ds pd p.
  Proof. apply all_sound. repeat constructor; [exact s_Identity_TOML | exact s_Identity_proto_inl]. Qed.
  Lemma s_Node_TOML : sound ds pd vNodeTOML. Proof. apply mk_vp_sound; [exact sound_V1 | exact C20_obl_Node_TOML]. Qed.
  Lemma s_Node_proto : sound ds pd vNodeProto. Proof. apply mk_vp_sound; [exact sound_V1 | exact C20_obl_Node_proto]. Qed.
  Lemma sound_V2 : forall p, In p V2 -> sound ds pd p.
  Proof. apply all_sound. repeat constructor; [exact s_Node_TOML | exact s_Node_proto | exact s_DistPublic]. Qed.
  Lemma s_Group_TOML : sound ds pd vGroupTOML. Proof. apply mk_vp_sound; [exact sound_V2 | exact C20_obl_Group_TOML]. Qed.
  Lemma s_Group_proto : sound ds pd vGroupProto. Proof. apply mk_vp_sound; [exact sound_V2 | exact C20_obl_Group_proto]. Qed.
  Lemma sound_V3 : forall p, In p V3 -> sound ds pd p.
  Proof. apply all_sound. repeat constructor; [exact s_Group_TOML | exact s_Share]. Qed.
  Lemma s_DBState : sound ds pd vDBState. Proof. apply mk_vp_sound; [exact sound_V3 | exact C20_obl_DBState]. Qed.
  Lemma s_Info_proto : sound ds pd vInfoProto. Proof. apply mk_vp_sound; [exact sound_V0 | exact C20_obl_Info_proto]. Qed.
  Lemma s_Info_JSON : sound ds pd vInfoJSON. Proof. apply mk_vp_sound; [exact sound_V0 | exact C20_obl_Info_JSON]. Qed.
  Lemma s_Beacon_proto : sound ds pd vBeaconProto. Proof. apply mk_vp_sound; [exact sound_V0 | exact C20_obl_Beacon_proto]. Qed.
  Lemma s_Beacon_JSON : sound ds pd vBeaconJSON. Proof. apply mk_vp_sound; [exact sound_V0 | exact C20_obl_Beacon_JSON]. Qed.
End RoundTrips.

Definition all_pairs : list vpair :=
  [vDistPublic; vIdentityTOML; vIdentityProto; vIdentityProtoInl; vPair; vShare; vNodeTOML; vNodeProto;
   vGroupTOML; vGroupProto; vDBState; vInfoProto; vInfoJSON; vBeaconProto; vBeaconJSON].

(* For every pair (encoder a, decoder b) above and EVERY well-formed value r of the source type
   (vp_P: exactly the source leaves, each meeting the precondition [cpre] of its class — whole
   seconds for periods on the protobuf/JSON paths, thresholds within uint32, a known scheme, a
   non-nil genesis seed, ...): encoding succeeds and decoding the result gives vp_R r, which is r
   itself except for the stated normalisations [cres]: a beacon id is read back in canonical form
   ("" becomes "default"), an identity's scheme is not transmitted on the protobuf path (it is
   supplied by the decoder's caller), and a key pair's public identity is stored in a file of its
   own (only its scheme is restored from the private file). *)
Theorem C20_roundtrip : forall ds pd, dur_laws ds pd ->
  forall p, In p all_pairs -> forall r, vp_P p r ->
  exists r1, den ds pd mirrors (vp_a p) r = Some r1 /\ den ds pd mirrors (vp_b p) r1 = Some (vp_R p r).
Proof.
  intros ds pd L p I. simpl in I.
  repeat (destruct I as [<-|I];
    [first [exact (s_DistPublic ds pd L) | exact (s_Identity_TOML ds pd L) | exact (s_Identity_proto ds pd L)
           | exact (s_Identity_proto_inl ds pd L) | exact (s_Pair ds pd L) | exact (s_Share ds pd L)
           | exact (s_Node_TOML ds pd L) | exact (s_Node_proto ds pd L) | exact (s_Group_TOML ds pd L)
           | exact (s_Group_proto ds pd L) | exact (s_DBState ds pd L) | exact (s_Info_proto ds pd L)
           | exact (s_Info_JSON ds pd L) | exact (s_Beacon_proto ds pd L) | exact (s_Beacon_JSON ds pd L)] |]).
  contradiction.
Qed.
Print Assumptions C20_roundtrip.

(* ---- fields of a mirror struct that no conversion writes / reads (stated, so that a new one
        is noticed): DBStateTOML.TransitionTime and ShareTOML.PrivatePoly have no source ---- *)
Theorem C20_fields_without_source :
  unwritten mir_DBState_TOML = [["TransitionTime"]] /\ unread mir_DBStateTOML_FromTOML = [["TransitionTime"]] /\
  unwritten mir_Share_TOML = [["PrivatePoly"]] /\ unread mir_Share_FromTOML = [["PrivatePoly"]] /\
  unwritten mir_Group_TOML = [] /\ unread mir_Group_FromTOML = [] /\
  unread mir_Group_TOML = [] /\ unread mir_DBState_TOML = [] /\ unread mir_Group_ToProto = [] /\
  unread mir_Share_TOML = [] /\ unread mir_Info_ToProto = [] /\ unread mir_Info_MarshalJSON = [] /\
  unread mir_beaconToProto = [] /\ unread mir_Beacon_MarshalJSON = [] /\
  unread mir_Info_UnmarshalJSON = [["chain_hash"]; ["schemeID"]; ["groupHash"]; ["metadata"; "beaconID"]].
Proof. vm_compute. repeat split; reflexivity. Qed.

(* ---- decode-side checks ---- *)
Lemma check_in_rejects : forall hp hs d r c, In c (m_checks d) -> chk_rejects hp hs r c = true ->
  checks_reject hp hs d r = true.
Proof. intros. unfold checks_reject. apply existsb_exists. eauto. Qed.

Section Decode.
  Variables (ds : Z -> bytes) (pd : bytes -> option Z) (hp : bytes -> bool) (hs : bytes).
  Notation dec := (decode ds pd hp hs mirrors).

  Lemma decode_reject : forall name d r c, lookup mirrors name = Some d -> In c (m_checks d) ->
    chk_rejects hp hs r c = true -> dec name r = None.
  Proof.
    intros. unfold decode. eapply den_chk_reject; eauto. eapply check_in_rejects; eauto.
  Qed.

  Definition thr_out_of_range (thr : Z) (n : nat) : Prop :=
    thr < minimum_t (Z.of_nat n) \/ thr > Z.of_nat n.

  (* group file (TOML): threshold below MinimumT(n) or above n, or unknown scheme => rejected *)
  Theorem C20_decode_rejects_toml : forall r thr nodes,
    get ["Threshold"] r = Some (VInt thr) -> get ["Nodes"] r = Some (VList nodes) ->
    thr_out_of_range thr (length nodes) -> dec "Group.FromTOML" r = None.
  Proof.
    intros r thr nodes HT HN [Lo|Hi].
    - apply (decode_reject "Group.FromTOML" mir_Group_FromTOML r
        (ChkRejectIf RLt (CField ["Threshold"]) (CMinT (CLen ["Nodes"])))); [reflexivity | simpl; auto |].
      simpl. rewrite HT, HN. simpl. apply Z.ltb_lt. exact Lo.
    - apply (decode_reject "Group.FromTOML" mir_Group_FromTOML r
        (ChkRejectIf RGt (CField ["Threshold"]) (CLen ["Nodes"]))); [reflexivity | simpl; auto |].
      simpl. rewrite HT, HN. simpl. apply Z.gtb_lt. lia.
  Qed.

  Theorem C20_decode_rejects_scheme_toml : forall r n,
    get ["SchemeID"] r = Some (VBytes n) -> n <> [] -> mem_bytes n scheme_names = false ->
    dec "Group.FromTOML" r = None.
  Proof.
    intros r n HS Nn Hm.
    apply (decode_reject "Group.FromTOML" mir_Group_FromTOML r (ChkScheme SchemeByID ["SchemeID"])); [reflexivity | simpl; auto |].
    simpl. rewrite HS. destruct n; [congruence|]. simpl. simpl in Hm. rewrite Hm. reflexivity.
  Qed.

  (* protobuf packet: threshold below MinimumT(n), or unknown scheme => rejected *)
  Theorem C20_decode_rejects_proto_low : forall r thr nodes,
    get ["Threshold"] r = Some (VInt thr) -> get ["Nodes"] r = Some (VList nodes) ->
    thr < minimum_t (Z.of_nat (length nodes)) -> dec "GroupFromProto" r = None.
  Proof.
    intros r thr nodes HT HN Lo.
    apply (decode_reject "GroupFromProto" mir_GroupFromProto r
      (ChkRejectIf RLt (CField ["Threshold"]) (CMinT (CLen ["Nodes"])))); [reflexivity | simpl; auto |].
    simpl. rewrite HT, HN. simpl. apply Z.ltb_lt. exact Lo.
  Qed.

  Theorem C20_decode_rejects_scheme_proto : forall r n,
    get ["SchemeID"] r = Some (VBytes n) -> mem_bytes n scheme_names = false ->
    dec "GroupFromProto" r = None.
  Proof.
    intros r n HS Hm.
    apply (decode_reject "GroupFromProto" mir_GroupFromProto r (ChkScheme SchemeFromName ["SchemeID"])); [reflexivity | simpl; auto |].
    simpl. rewrite HS. destruct n; [reflexivity|]. simpl. simpl in Hm. rewrite Hm. reflexivity.
  Qed.
End Decode.
Print Assumptions C20_decode_rejects_toml.
Print Assumptions C20_decode_rejects_scheme_toml.
Print Assumptions C20_decode_rejects_proto_low.
Print Assumptions C20_decode_rejects_scheme_proto.

(* The property text says "decoding rejects group encodings whose threshold is out of range".
   Read two-sidedly this is FALSE on the protobuf path: GroupFromProto has no `thr > n` check
   (DESIGN §6 F16). The full statement, its refutation by a concrete packet, and what holds: *)
Definition C20_decode_rejects_full : Prop :=
  forall ds pd hp hs name, In name ["Group.FromTOML"; "GroupFromProto"] ->
  forall r thr nodes, get ["Threshold"] r = Some (VInt thr) -> get ["Nodes"] r = Some (VList nodes) ->
  thr_out_of_range thr (length nodes) -> decode ds pd hp hs mirrors name r = None.

(* one node, threshold 5, no distributed key: accepted *)
Definition f16_node : val :=
  VRec [(["Public"], VRec [(["Address"], VBytes [49; 58; 49]); (["Key"], VBytes [1]); (["Tls"], VInt 0); (["Signature"], VNil)]);
        (["Index"], VInt 0)].
Definition f16_packet : record :=
  [(["Nodes"], VList [f16_node]); (["Threshold"], VInt 5); (["Period"], VInt 30); (["GenesisTime"], VInt 1000);
   (["TransitionTime"], VInt 0); (["GenesisSeed"], VNil); (["DistKey"], VList []); (["CatchupPeriod"], VInt 1);
   (["SchemeID"], VBytes default_scheme_id); (["Metadata"; "BeaconID"], VBytes default_beacon_id)].

Theorem C20_decode_rejects_refuted : ~ C20_decode_rejects_full.
Proof.
  intros F.
  specialize (F (fun _ => []) (fun _ => None) (fun _ => true) [] "GroupFromProto" (or_intror (or_introl eq_refl))
                f16_packet 5 [f16_node] eq_refl eq_refl).
  assert (O : thr_out_of_range 5 (length [f16_node])) by (right; simpl; lia).
  specialize (F O). vm_compute in F. discriminate.
Qed.
Print Assumptions C20_decode_rejects_refuted.

Theorem C20_decode_rejects_partial : forall ds pd hp hs r thr nodes,
  get ["Threshold"] r = Some (VInt thr) -> get ["Nodes"] r = Some (VList nodes) ->
  (thr_out_of_range thr (length nodes) -> decode ds pd hp hs mirrors "Group.FromTOML" r = None) /\
  (thr < minimum_t (Z.of_nat (length nodes)) -> decode ds pd hp hs mirrors "GroupFromProto" r = None).
Proof.
  intros; split; intros.
  - eapply C20_decode_rejects_toml; eauto.
  - eapply C20_decode_rejects_proto_low; eauto.
Qed.
Print Assumptions C20_decode_rejects_partial.

Example C20_decode_nonvacuous :
  get ["Threshold"] f16_packet = Some (VInt 5) /\ get ["Nodes"] f16_packet = Some (VList [f16_node]) /\
  thr_out_of_range 5 1 /\
  (* the same packet with threshold 1 is in range and accepted *)
  (exists g, decode (fun _ => []) (fun _ => None) (fun _ => true) [] mirrors "GroupFromProto"
     ((["Threshold"], VInt 1) :: f16_packet) = Some g).
Proof. repeat split; try reflexivity; [right; simpl; lia | vm_compute; eauto]. Qed.
