(* C16 — Round numbers and times convert consistently and never wrap.
   Property theorems only; proofs are in Proofs/TimeProofs.v. The buffer constant comes from
   the generated Gen/Consts.v (read from common/time.go on every run). *)
From Coq Require Import ZArith.
From DV Require Import Model.Time Model.TimeFloat Proofs.TimeProofs Proofs.TimeFloatProofs Gen.Consts.
Open Scope Z_scope.

(* obligation tied to the source: the reserved time buffer is what the proofs need *)
Theorem C16_buffer_const : time_buffer_bits = 36.
Proof. reflexivity. Qed.

(* for all periods 1..2^32-1 s, genesis 0..2^32, all 64-bit rounds: never a wrapped or
   negative time; either the documented error value or exactly g+(r-1)p *)
Theorem C16_no_wrap : forall p g r, dom_p p -> dom_g g -> 0 <= r < two64 ->
  (r = 0 /\ time_of_round time_buffer_bits p g r = g) \/
  (1 <= r /\ (time_of_round time_buffer_bits p g r = err_val time_buffer_bits \/
    (time_of_round time_buffer_bits p g r = ideal p g r /\
     0 <= ideal p g r <= err_val time_buffer_bits))).
Proof. intros; apply time_of_round_no_wrap; try assumption; vm_compute; split; discriminate. Qed.
Print Assumptions C16_no_wrap.

Theorem C16_monotone : forall p g r r', dom_p p -> dom_g g -> 1 <= r < r' ->
  time_of_round time_buffer_bits p g r <> err_val time_buffer_bits ->
  time_of_round time_buffer_bits p g r' <> err_val time_buffer_bits ->
  time_of_round time_buffer_bits p g r < time_of_round time_buffer_bits p g r'.
Proof. exact (time_of_round_strict_mono time_buffer_bits). Qed.
Print Assumptions C16_monotone.

Theorem C16_error_upward_closed : forall p g r r', dom_p p -> dom_g g -> 1 <= r <= r' ->
  time_of_round time_buffer_bits p g r = err_val time_buffer_bits ->
  time_of_round time_buffer_bits p g r' = err_val time_buffer_bits.
Proof. exact (time_of_round_err_upward time_buffer_bits). Qed.
Print Assumptions C16_error_upward_closed.

(* instants from genesis up to 2^50 s later *)
Theorem C16_current_brackets : forall now p g, dom_p p -> dom_g g -> dom_t g now ->
  let c := current_round now p g in
  1 <= c /\ time_of_round time_buffer_bits p g c <= now < time_of_round time_buffer_bits p g (c + 1).
Proof. intros now p g; exact (current_round_brackets time_buffer_bits now p g C16_buffer_const). Qed.
Print Assumptions C16_current_brackets.

Theorem C16_current_unique : forall now p g r, dom_p p -> dom_g g -> dom_t g now ->
  1 <= r -> r + 1 < two64 ->
  time_of_round time_buffer_bits p g r <= now < time_of_round time_buffer_bits p g (r + 1) ->
  r = current_round now p g.
Proof. intros now p g r; exact (current_round_unique time_buffer_bits now p g r C16_buffer_const). Qed.
Print Assumptions C16_current_unique.

Theorem C16_next : forall now p g, dom_p p -> dom_g g -> dom_t g now ->
  next_round now p g =
    (current_round now p g + 1,
     time_of_round time_buffer_bits p g (current_round now p g + 1)).
Proof. intros now p g; exact (next_round_is_current_plus_one time_buffer_bits now p g C16_buffer_const). Qed.
Print Assumptions C16_next.

(* round -> time -> round: every instant of a schedulable round's slot (its scheduled time plus
   less than one period) converts back to exactly that round *)
Theorem C16_round_of_its_time : forall p g r d, dom_p p -> dom_g g -> 1 <= r -> r + 1 < two64 ->
  time_of_round time_buffer_bits p g r <> err_val time_buffer_bits ->
  time_of_round time_buffer_bits p g (r + 1) <> err_val time_buffer_bits ->
  0 <= d < p -> dom_t g (time_of_round time_buffer_bits p g r + d) ->
  current_round (time_of_round time_buffer_bits p g r + d) p g = r.
Proof. intros p g r d; exact (round_of_its_time time_buffer_bits p g r d C16_buffer_const). Qed.
Print Assumptions C16_round_of_its_time.

(* time -> round -> time: the current round's scheduled time is exactly g + (c-1)p, at or before
   the instant and less than one period before it *)
Theorem C16_time_of_current_round : forall now p g, dom_p p -> dom_g g -> dom_t g now ->
  let c := current_round now p g in
  time_of_round time_buffer_bits p g c = g + (c - 1) * p /\
  time_of_round time_buffer_bits p g c <= now < time_of_round time_buffer_bits p g c + p.
Proof. intros now p g; exact (time_of_current_round time_buffer_bits now p g C16_buffer_const). Qed.
Print Assumptions C16_time_of_current_round.

(* the current round never goes back as time advances, and moves by at most one within a period *)
Theorem C16_current_round_monotone : forall now now' p g,
  dom_p p -> dom_g g -> dom_t g now -> dom_t g now' -> now <= now' ->
  current_round now p g <= current_round now' p g /\
  (now' - now < p -> current_round now' p g <= current_round now p g + 1).
Proof. exact current_round_monotone. Qed.
Print Assumptions C16_current_round_monotone.

Theorem C16_before_genesis : forall now p g, now < g ->
  next_round now p g = (1, g) /\ current_round now p g = 1.
Proof. exact before_genesis. Qed.
Print Assumptions C16_before_genesis.

(* The implementation divides in IEEE-754 binary64 (float64(now-genesis) / period.Seconds(), then
   math.Floor): for elapsed times and periods below 2^53 (the property asks 2^50 and 2^32) the
   executable binary64 model returns exactly what the integer model returns, so the theorems
   above hold of the float computation.  This is the only place where the classical axioms of
   the real-number library appear (Flocq's rounding theory is stated over R). *)
Theorem C16_float_division : forall now p g, 0 < p < 2 ^ 53 -> now - g < 2 ^ 53 ->
  next_round_f now p g = next_round now p g /\ current_round_f now p g = current_round now p g.
Proof. intros now p g Hp Hn. split; [apply next_round_f_eq|apply current_round_f_eq]; assumption. Qed.
Print Assumptions C16_float_division.

Theorem C16_float_floor_div_exact : forall a b, 0 <= a < 2 ^ 53 -> 0 < b < 2 ^ 53 -> fdiv_floor a b = a / b.
Proof. exact fdiv_floor_exact. Qed.
Print Assumptions C16_float_floor_div_exact.

(* non-vacuity: a concrete instance of the premises and of a non-error, non-trivial value *)
Example C16_nonvacuous :
  dom_p 30 /\ dom_g 1595431050 /\ dom_t 1595431050 1700000000 /\
  current_round 1700000000 30 1595431050 = 3485632 /\
  time_of_round time_buffer_bits 30 1595431050 3485632 = 1699999980 /\
  time_of_round time_buffer_bits 30 1595431050 (two64 - 1) = err_val time_buffer_bits /\
  current_round (time_of_round time_buffer_bits 30 1595431050 3485632 + 29) 30 1595431050 = 3485632.
Proof. unfold dom_p, dom_g, dom_t. repeat split; try (vm_compute; discriminate); vm_compute; reflexivity. Qed.
