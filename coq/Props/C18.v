(* C18 — Every storage back-end behaves as one sorted round-to-beacon map.
   Property theorems only; proofs are in Proofs/BackendsProofs.v, models in Model/Backends.v.

   Vocabulary (Model/Backends.v):
     bu_step / bt_step rp / md_step cap   the models of untrimmed bolt, trimmed bolt (rp =
                                          requiresPrevious) and the memdb ring (cap = bufferSize)
     specU_step / specT_step rp / sr_step cap   the specification: one strictly ascending
                                          association list round -> value
     out_after step init pre o            what operation o returns after the history pre
     outs_from step init pre suf          what the operations suf return after the history pre
     wf ops                               every round mentioned is a uint64
     hist val_of pre r                    the last value put for round r in pre and not deleted
                                          since (None if there is none)
   Every theorem quantifies over ALL operation histories [pre] (lists of put / get / last / del /
   len / cursor operations), proved by induction over the list. *)
From Coq Require Import ZArith List Bool Sorted.
From DV Require Import Model.Backends Proofs.BackendsProofs.
Import ListNotations.
Open Scope Z_scope.

(* ---- the mechanism: big-endian keys order like the rounds ---- *)

Theorem C18_key_order : forall r r', in_range r -> in_range r' ->
  lex_cmp (be64 r) (be64 r') = (r ?= r').
Proof. exact be64_order. Qed.
Print Assumptions C18_key_order.

Theorem C18_key_roundtrip : forall r, in_range r -> be64_dec (be64 r) = r.
Proof. exact be64_dec_enc. Qed.
Print Assumptions C18_key_roundtrip.

(* ---- refinement: after every history, every operation sequence answers as the sorted map ---- *)

Theorem C18_refines_boltU : refines bu_step bu_init specU_step sb_init.
Proof. exact boltU_refines. Qed.
Print Assumptions C18_refines_boltU.

Theorem C18_refines_boltT : forall rp, refines (bt_step rp) bt_init (specT_step rp) sb_init.
Proof. exact boltT_refines. Qed.
Print Assumptions C18_refines_boltT.

(* the ring = the sorted map with keep-old re-put, restricted to the newest cap rounds *)
Theorem C18_refines_memdb : forall cap, refines (md_step cap) md_init (sr_step cap) sr_init.
Proof. exact memdb_refines. Qed.
Print Assumptions C18_refines_memdb.

(* in particular whole runs from the empty store agree *)
Theorem C18_runs_agree : forall ops, wf ops ->
  run bu_step bu_init ops = run specU_step sb_init ops /\
  (forall rp, run (bt_step rp) bt_init ops = run (specT_step rp) sb_init ops) /\
  (forall cap, run (md_step cap) md_init ops = run (sr_step cap) sr_init ops).
Proof.
  intros ops H. repeat split; intros; apply refines_run; auto using boltU_refines, boltT_refines, memdb_refines.
Qed.
Print Assumptions C18_runs_agree.

(* the specification maps are strictly ascending after every history *)
Theorem C18_spec_sorted : forall pre, wf pre ->
  asc (sb_map (exec specU_step sb_init pre)) /\
  (forall rp, asc (sb_map (exec (specT_step rp) sb_init pre))) /\
  (forall cap, asc (sr_map (exec (sr_step cap) sr_init pre))).
Proof.
  intros pre H. repeat split.
  - exact (proj1 (specU_inv pre H)).
  - intros rp. exact (proj1 (specT_inv rp pre H)).
  - intros cap. exact (proj1 (sr_inv_exec cap pre)).
Qed.
Print Assumptions C18_spec_sorted.

(* what trimming to the capacity means on an ascending map: a prefix (the oldest rounds) is
   dropped and min(len, cap) entries stay *)
Theorem C18_ring_forgets_oldest : forall cap (m : smap (V := beacon)), 0 <= cap -> asc m ->
  exists old, m = old ++ sm_trim cap m /\ zlen (sm_trim cap m) = Z.min (zlen m) cap /\
    forall k k', In k (keys old) -> In k' (keys (sm_trim cap m)) -> k < k'.
Proof. exact (@trim_spec beacon). Qed.
Print Assumptions C18_ring_forgets_oldest.

(* ---- label integrity: whatever any operation returns is exactly what Get of the round it is
        labelled with returns in the same state (for memdb this also covers cursors used while
        the store is mutated: C18_memdb_cursor_live, first half) ---- *)

Theorem C18_label_integrity :
  label_ok bu_step bu_init /\
  (forall rp, label_ok (bt_step rp) bt_init) /\
  (forall cap, label_ok (md_step cap) md_init).
Proof. exact label_integrity_all. Qed.
Print Assumptions C18_label_integrity.

(* ---- ... and Get returns the data last put for that round and not deleted since (bolt:
        re-put replaces).  [~ In OBad ..]: no write was attempted inside a cursor session ---- *)

Theorem C18_get_boltU : forall pre r, wf pre -> in_range r ->
  ~ In OBad (run bu_step bu_init pre) ->
  out_after bu_step bu_init pre (Get r) =
  match hist (fun b => b) pre r with Some b => OBeacon b | None => OErr ENoBeacon end.
Proof. exact boltU_get_hist. Qed.
Print Assumptions C18_get_boltU.

(* trimmed bolt: signature from the history; previous signature = the stored signature of the
   preceding round, or the read fails; never another value *)
Theorem C18_prev_reconstruction : forall rp pre r, wf pre -> in_range r ->
  ~ In OBad (run (bt_step rp) bt_init pre) ->
  out_after (bt_step rp) bt_init pre (Get r) =
  match hist b_sig pre r with
  | None => OErr ENoBeacon
  | Some sig =>
      if rp && (0 <? r) then
        match hist b_sig pre (r - 1) with
        | Some p => OBeacon (mkB r p sig)
        | None => OErr ENoBeacon
        end
      else OBeacon (mkB r [] sig)
  end.
Proof. exact boltT_get_hist. Qed.
Print Assumptions C18_prev_reconstruction.

(* every beacon returned by ANY operation of the bolt back-ends, in terms of the history *)
Theorem C18_returned_boltU : forall pre o b, wf pre -> op_wf o ->
  ~ In OBad (run bu_step bu_init pre) ->
  out_after bu_step bu_init pre o = OBeacon b ->
  hist (fun b => b) pre (b_round b) = Some b.
Proof. exact boltU_returned. Qed.
Print Assumptions C18_returned_boltU.

Theorem C18_returned_boltT : forall rp pre o b, wf pre -> op_wf o ->
  ~ In OBad (run (bt_step rp) bt_init pre) ->
  out_after (bt_step rp) bt_init pre o = OBeacon b ->
  hist b_sig pre (b_round b) = Some (b_sig b) /\
  (if rp && (0 <? b_round b) then hist b_sig pre (b_round b - 1) = Some (b_prev b)
   else b_prev b = []).
Proof. exact boltT_returned. Qed.
Print Assumptions C18_returned_boltT.

(* ring: every returned beacon was put (as is) and its round was not deleted since *)
Theorem C18_returned_memdb : forall cap, hist_ok (md_step cap) md_init.
Proof. exact memdb_hist_ok. Qed.
Print Assumptions C18_returned_memdb.

(* ring: re-putting a stored round keeps the old value: nothing observable changes *)
Theorem C18_ring_keeps : forall cap, 0 <= cap -> keep_ok (md_step cap) md_init.
Proof. exact memdb_keep_ok. Qed.
Print Assumptions C18_ring_keeps.

Theorem C18_ring_bounded : forall cap pre n, 0 <= cap -> wf pre ->
  out_after (md_step cap) md_init pre Len = OLen n -> 0 <= n <= cap.
Proof. exact memdb_bounded. Qed.
Print Assumptions C18_ring_bounded.

(* ---- seeking a stored round returns that round ---- *)

Theorem C18_seek_stored :
  seek_ok bu_step bu_init /\
  (forall rp, seek_ok (bt_step rp) bt_init) /\
  (forall cap, seek_ok (md_step cap) md_init).
Proof. exact seek_stored_all. Qed.
Print Assumptions C18_seek_stored.

(* ---- iteration: First, Next, ..., Next inside a session visits the stored rounds in strictly
        ascending order, all of them, each position answering like Get ---- *)

Theorem C18_iteration :
  iter_ok bu_step bu_init /\
  (forall rp, iter_ok (bt_step rp) bt_init) /\
  (forall cap, iter_ok (md_step cap) md_init).
Proof. exact iteration_all. Qed.
Print Assumptions C18_iteration.

(* ---- C18_memdb_cursor_live, second half: a memdb cursor used while the store is mutated
        still returns only stored beacons (C18_label_integrity) but may skip or repeat rounds.
        Witnesses: round 2 is stored throughout and skipped; round 2 is returned twice. ---- *)

Definition bb (r v : Z) : beacon := mkB r [] [v].

Theorem C18_memdb_cursor_skips :
  run (md_step 10) md_init
    [Put (bb 1 1); Put (bb 2 2); Put (bb 3 3); COpen; CFirst; Del 1; CNext; CNext] =
    [ODone; ODone; ODone; ODone; OBeacon (bb 1 1); ODone; OBeacon (bb 3 3); OErr ENoBeacon].
Proof. vm_compute. reflexivity. Qed.
Print Assumptions C18_memdb_cursor_skips.

Theorem C18_memdb_cursor_repeats :
  run (md_step 10) md_init
    [Put (bb 2 2); Put (bb 3 3); COpen; CFirst; Put (bb 1 1); CNext; CNext] =
    [ODone; ODone; ODone; OBeacon (bb 2 2); ODone; OBeacon (bb 2 2); OBeacon (bb 3 3)].
Proof. vm_compute. reflexivity. Qed.
Print Assumptions C18_memdb_cursor_repeats.

(* ---- regression witness of F1 (fixed): store {1,5}, Seek 3 on the trimmed store returns
        round 5 labelled 5 (before the fix: labelled 3) ---- *)
Example C18_seek_absent_trimmed :
  run (bt_step false) bt_init [Put (bb 1 1); Put (bb 5 5); COpen; CSeek 3] =
    [ODone; ODone; ODone; OBeacon (bb 5 5)].
Proof. vm_compute. reflexivity. Qed.

(* ---- non-vacuity: histories meeting the premises with non-trivial answers ---- *)

Ltac wf_tac := unfold wf; repeat (apply Forall_cons; [vm_compute; first [exact I | split; [discriminate|reflexivity]]|]); apply Forall_nil.
Ltac fact_tac :=
  match goal with
  | |- wf _ => wf_tac
  | |- _ <> _ => vm_compute; discriminate
  | |- ~ _ => vm_compute; intuition discriminate
  | |- _ = _ => vm_compute; reflexivity
  end.
Ltac each_conj := match goal with |- _ /\ _ => split; [fact_tac | each_conj] | _ => fact_tac end.

Definition demo : list op :=
  [Put (mkB 256 [9] [1]); Put (mkB 1 [8] [2]); Put (mkB 255 [7] [3]); Put (mkB 1 [6] [4]);
   Del 255; Put (mkB 2 [5] [5]); COpen].

Example C18_nonvacuous_bolt :
  wf demo /\ ~ In OBad (run bu_step bu_init demo) /\ ~ In OBad (run (bt_step true) bt_init demo) /\
  out_after bu_step bu_init demo CFirst <> OBad /\
  out_after bu_step bu_init demo (Get 1) = OBeacon (mkB 1 [6] [4]) /\
  out_after (bt_step true) bt_init demo (Get 2) = OBeacon (mkB 2 [4] [5]) /\
  out_after (bt_step true) bt_init demo (Get 256) = OErr ENoBeacon /\
  out_after (bt_step false) bt_init demo (CSeek 3) = OBeacon (mkB 256 [] [1]) /\
  outs_from bu_step bu_init demo [CFirst; CNext; CNext; CNext] =
    [OBeacon (mkB 1 [6] [4]); OBeacon (mkB 2 [5] [5]); OBeacon (mkB 256 [9] [1]); OErr ENoBeacon].
Proof. unfold demo. each_conj. Qed.

Definition demo_ring : list op :=
  [Put (bb 5 5); Put (bb 1 1); Put (bb 2 2); Put (bb 3 3); Put (bb 4 4); Put (bb 6 6); Put (bb 7 7);
   Put (bb 8 8); Put (bb 9 9); Put (bb 10 10); Put (bb 11 11); Put (bb 12 12); Put (bb 7 99); COpen].

Example C18_nonvacuous_ring :
  wf demo_ring /\
  out_after (md_step 10) md_init demo_ring CFirst = OBeacon (bb 3 3) /\
  out_after (md_step 10) md_init demo_ring (Get 7) = OBeacon (bb 7 7) /\
  out_after (md_step 10) md_init demo_ring (Get 1) = OErr ENoBeacon /\
  out_after (md_step 10) md_init demo_ring Len = OLen 10 /\
  out_after (md_step 10) md_init demo_ring (CSeek 12) = OBeacon (bb 12 12).
Proof. unfold demo_ring. each_conj. Qed.
