(* C10 — Chain sync stores only verified beacons and converges when an honest peer exists.
   Property theorems only; the model is Model/Sync.v, the proofs are in Proofs/SyncProofs.v.
   [vfy] is VerifyBeacon against the pinned chain information (a parameter: cryptography is not
   re-implemented); peers are arbitrary functions from the requested round to a finite stream of
   packets / Stall / Close; orders are arbitrary index lists. What StartFollowChain's source says
   about its retry loop and its hash pin is read from the Go syntax tree on every run
   (Gen/Follow.v) and enters the follow theorems through [src]. *)
From Coq Require Import ZArith List Bool Lia Sorted.
From DV Require Import Model.Sync Proofs.SyncProofs Gen.Follow Gen.Consts.
Import ListNotations.
Open Scope Z_scope.

(* ---- obligations tied to the source of StartFollowChain ---- *)
Definition src : follow_src :=
  mkFsrc err_chan_is_made failed_sync_is_reported retry_branch_continues hash_pinned_before_store
         follow_stack_has_append_store.

(* errChan is made (not a nil channel), failed attempts are sent on it, the receiving branch
   continues the loop: the retry branch is live; the hash test precedes every store operation *)
Theorem C10_follow_src : retry_live src = true /\ src_hash_pinned_before_store src = true.
Proof. split; reflexivity. Qed.

(* the store StartFollowChain hands to its SyncManager is callback(append(scheme(base))), the
   participant's stack (before the fix the appendStore was missing there) *)
Theorem C10_follow_stack_src : follow_stack src = SkAppend.
Proof. reflexivity. Qed.

(* the SyncManager of follow is configured with the information that passed the hash test, and
   tryNode's only VerifyBeacon call takes s.info.PublicKey and precedes every Put: this is what
   makes [vfy] of the theorems "verification against the pinned information" *)
Theorem C10_verify_src :
  sync_uses_pinned_info = true /\ try_node_verifies_pinned_key = true /\
  try_node_verifies_before_put = true.
Proof. repeat split; reflexivity. Qed.

(* ---- 1. only verified beacons, in chain order ---- *)

(* Participant stack (appendStore present). For EVERY verification predicate, scheme kind,
   back-end, peer list, peer behaviour and order: every beacon Sync writes verifies, the rounds
   written are head+1, head+2, ..., the raw store grows by exactly these, and the wrappers stay
   consistent with it. *)
Theorem C10_only_verified_in_order :
  forall vfy chained bk (ps : list peer) (order : list nat) upTo st, wf st ->
  let o := sync vfy chained bk SkAppend order 0 upTo st ps in
  Forall (fun b => vfy b = true) (sy_ws o) /\
  map b_round (sy_ws o) = zseq (hd st + 1) (length (sy_ws o)) /\
  s_base (sy_st o) = rev (map (store_form chained) (sy_ws o)) ++ s_base st /\
  wf (sy_st o).
Proof.
  intros vfy chained bk ps order upTo st Hw. unfold sync.
  pose proof (sync_loop_generic vfy chained bk SkAppend 0 upTo (permute order ps) st) as [G1 _].
  pose proof (sync_loop_inorder vfy chained bk SkAppend wf (wf_put vfy chained bk) upTo (permute order ps) st Hw)
    as [A1 [_ [A3 A4]]].
  simpl. repeat split; try assumption. apply consec_rounds. exact A1.
Qed.
Print Assumptions C10_only_verified_in_order.

(* The same over the renewals of SyncManager.Run (each attempt is cancelled and replaced when it
   makes no progress): still only verified beacons, still head+1, head+2, ... *)
Theorem C10_run_only_verified_in_order :
  forall vfy chained bk (attempts : list (list peer)) upTo st, wf st ->
  let o := run_attempts vfy chained bk SkAppend upTo st attempts in
  Forall (fun b => vfy b = true) (sy_ws o) /\
  map b_round (sy_ws o) = zseq (hd st + 1) (length (sy_ws o)) /\
  s_base (sy_st o) = rev (map (store_form chained) (sy_ws o)) ++ s_base st /\
  wf (sy_st o).
Proof.
  intros vfy chained bk attempts upTo st Hw.
  pose proof (run_attempts_generic vfy chained bk SkAppend upTo attempts st) as [G1 _].
  pose proof (run_attempts_inorder vfy chained bk SkAppend wf (wf_put vfy chained bk) upTo attempts st Hw)
    as [A1 [_ [A3 A4]]].
  simpl. repeat split; try assumption. apply consec_rounds. exact A1.
Qed.
Print Assumptions C10_run_only_verified_in_order.

(* Any stack (in particular the follow stack, which has no appendStore), any request (plain sync
   or re-sync): whatever is written verified, and the raw store changes by exactly the logged
   writes ([stored_of]: as received on the re-sync path, prev cleared on unchained schemes
   otherwise; [apply_write]: a Put through the stack, Del + Put on the re-sync path). *)
Theorem C10_only_verified_any_stack :
  forall vfy chained bk sk (ps : list peer) (order : list nat) from upTo st,
  let o := sync vfy chained bk sk order from upTo st ps in
  Forall (fun b => vfy b = true) (sy_ws o) /\
  s_base (sy_st o) =
    fold_left (apply_write bk (0 <? from)) (map (stored_of chained (0 <? from)) (sy_ws o)) (s_base st).
Proof.
  intros vfy chained bk sk ps order from upTo st. unfold sync.
  pose proof (sync_loop_generic vfy chained bk sk from upTo (permute order ps) st) as [G1 [G2 _]].
  simpl. split; assumption.
Qed.
Print Assumptions C10_only_verified_any_stack.

(* ReSync and CorrectPastBeacons write (straight to the raw store, each write replacing what is
   stored for that round) only verifying beacons *)
Theorem C10_resync_only_verified :
  forall vfy chained bk sk st,
  (forall from to a1 a2, 0 < from ->
     let o := resync vfy chained bk sk from to st a1 a2 in
     Forall (fun b => vfy b = true) (sy_ws o) /\
     s_base (sy_st o) = fold_left (apply_write bk true) (sy_ws o) (s_base st)) /\
  (forall jobs, (forall j, In j jobs -> 0 < fst j) ->
     let o := correct_past vfy chained bk sk st jobs in
     Forall (fun b => vfy b = true) (co_ws o) /\
     s_base (co_st o) = fold_left (apply_write bk true) (co_ws o) (s_base st)).
Proof.
  intros vfy chained bk sk st. split.
  - intros from to a1 a2 Hf.
    pose proof (resync_generic vfy chained bk sk from to st a1 a2) as [G1 [G2 _]].
    replace (0 <? from) with true in G2 by (symmetry; apply Z.ltb_lt; exact Hf).
    rewrite map_stored_true in G2. split; assumption.
  - intros jobs Hpos.
    pose proof (correct_past_generic vfy chained bk sk jobs st Hpos) as [G1 [G2 _]].
    rewrite map_stored_true in G2. split; assumption.
Qed.
Print Assumptions C10_resync_only_verified.

(* StartFollowChain's retry loop, every scheme, every back-end, every peer behaviour, no
   cryptographic assumption: the writes verify, the rounds are head+1, head+2, ..., the raw store
   grows by exactly these. (Full statement; it was refuted for unchained schemes while the follow
   stack had no appendStore.) *)
Theorem C10_follow_in_order :
  forall vfy chained bk live keep targ upTo fuel attempts st r st' ws, wf st ->
  follow_loop chained bk (follow_stack src) vfy live keep targ upTo fuel st attempts = (r, st', ws) ->
  Forall (fun b => vfy b = true) ws /\
  map b_round ws = zseq (hd st + 1) (length ws) /\
  s_base st' = rev (map (store_form chained) ws) ++ s_base st /\ wf st'.
Proof.
  intros vfy chained bk live keep targ upTo fuel attempts st r st' ws Hw H.
  rewrite C10_follow_stack_src in H.
  pose proof (follow_loop_generic vfy chained bk SkAppend live keep targ upTo fuel attempts st r st' ws H) as [G1 _].
  pose proof (follow_loop_inorder vfy chained bk SkAppend wf (wf_put vfy chained bk)
                live keep targ upTo fuel attempts st r st' ws Hw H) as [A1 [_ [A3 A4]]].
  split; [exact G1|]. split; [apply consec_rounds; exact A1|]. split; assumption.
Qed.
Print Assumptions C10_follow_in_order.

(* regression witness, kept: what the stack WITHOUT the appendStore did (model only; the same
   script is replayed on the real StartFollowChain on every run and must now be refused): head 0,
   a peer streams only the genuine beacon of round 5 - it was stored, and Sync(upTo=5) succeeded *)
Definition liar_skips : peer := mkP false true (fun _ => [Pkt MdSame (xchain false 5)]).
Example C10_follow_gap_witness :
  let old := sync_loop (xvfy false) false BkOverwrite SkFollow 0 5
               (mkS [xchain false 0] (xchain false 0)) [liar_skips] in
  let now := sync_loop (xvfy false) false BkOverwrite (follow_stack src) 0 5
               (mkS [xchain false 0] (xchain false 0)) [liar_skips] in
  sy_r old = SyncOk /\ map b_round (s_base (sy_st old)) = [5; 0] /\
  sy_r now = SyncErr EFailedAll /\ map b_round (s_base (sy_st now)) = [0].
Proof. vm_compute. repeat split. Qed.

(* ---- 2. convergence ---- *)

(* Full strength: "whatever the other peers do, in every order, one Sync reaches the target when
   some peer is honest". NOT true of the code: tryNode has no timeout of its own (MaxSyncWaitTime
   is not used by it), so a peer that opens the stream and then sends nothing blocks the whole
   Sync call, and when the call is finally cancelled it returns without trying the others. *)
Definition C10_converges_one_attempt_full : Prop :=
  forall vfy chained bk (chain : Z -> beacon),
  (forall r, b_round (chain r) = r) ->
  (forall r, 1 <= r -> vfy (chain r) = true) ->
  (chained = true -> forall r, 1 <= r -> b_prev (chain r) = b_sig (chain (r - 1))) ->
  (forall b, vfy b = true -> 1 <= b_round b) ->
  (forall b, vfy b = true -> b_sig b = b_sig (chain (b_round b))) ->
  forall (ps : list peer) (order : list nat) upTo st pre h post,
  permute order ps = pre ++ h :: post -> honest chain 1 upTo h ->
  cinv chain st -> hd st < upTo ->
  sy_r (sync vfy chained bk SkAppend order 0 upTo st ps) = SyncOk.

Definition staller : peer := mkP false true (fun _ => [Stall]).
Theorem C10_converges_one_attempt_refuted : ~ C10_converges_one_attempt_full.
Proof.
  intro H. destruct (xinst_laws true) as [L1 [L2 [L3 [L4 [L5 _]]]]].
  specialize (H (xvfy true) true BkOverwrite (xchain true) L1 L2 L3 L4 L5
                [staller; xhonest true 5] [0%nat; 1%nat] 3 (mkS [xchain true 0] (xchain true 0))
                [staller] (xhonest true 5) [] eq_refl (xhonest_honest true 5 3 ltac:(lia))).
  assert (Hc : cinv (xchain true) (mkS [xchain true 0] (xchain true 0))).
  { unfold cinv, wf, hd. simpl. repeat split; lia. }
  specialize (H Hc ltac:(unfold hd; simpl; lia)). vm_compute in H. discriminate.
Qed.
Print Assumptions C10_converges_one_attempt_refuted.

(* carve-out spelled out: the peers tried BEFORE the honest one never stall (they may be
   unreachable, close early, lie in any field, send bad signatures, wrong rounds, foreign ids).
   Then for every order and every behaviour of all other peers: success, head = upTo, and each
   failing peer costs one iteration, leaving a valid prefix (the first theorem). *)
Theorem C10_converges_one_attempt :
  forall vfy chained bk (chain : Z -> beacon),
  (forall r, b_round (chain r) = r) ->
  (forall r, 1 <= r -> vfy (chain r) = true) ->
  (chained = true -> forall r, 1 <= r -> b_prev (chain r) = b_sig (chain (r - 1))) ->
  (forall b, vfy b = true -> 1 <= b_round b) ->
  (forall b, vfy b = true -> b_sig b = b_sig (chain (b_round b))) ->
  forall (ps : list peer) (order : list nat) upTo st pre h post,
  permute order ps = pre ++ h :: post -> Forall quiet pre -> honest chain 1 upTo h ->
  cinv chain st -> hd st < upTo ->
  let o := sync vfy chained bk SkAppend order 0 upTo st ps in
  sy_r o = SyncOk /\ hd (sy_st o) = upTo /\ cinv chain (sy_st o).
Proof.
  intros vfy chained bk chain L1 L2 L3 L4 L5 ps order upTo st pre h post Hperm Hq Hh Hc Hlt.
  unfold sync. rewrite Hperm.
  assert (Htol : Forall (tolerated vfy chained SkAppend) pre).
  { apply Forall_forall. intros p Hp. apply quiet_tolerated_append.
    rewrite Forall_forall in Hq. apply Hq. exact Hp. }
  pose proof (sync_converges vfy chained bk SkAppend chain L1 L2 L3 L4 L5
                (fun H => ltac:(discriminate H)) (fun H => ltac:(discriminate H))
                upTo pre h post st Htol Hh Hc Hlt) as [S1 [S2 [S3 _]]].
  simpl. auto.
Qed.
Print Assumptions C10_converges_one_attempt.

(* What resolves a stalled attempt in participant mode is SyncManager.Run's renewal. Over ANY
   sequence of attempts with ARBITRARY peers (stalling ones included) the store stays a valid
   prefix, and the first attempt whose order reaches an honest peer through non-stalling ones
   ends the catch-up with head = upTo. *)
Theorem C10_renewal_converges :
  forall vfy chained bk (chain : Z -> beacon),
  (forall r, b_round (chain r) = r) ->
  (forall r, 1 <= r -> vfy (chain r) = true) ->
  (chained = true -> forall r, 1 <= r -> b_prev (chain r) = b_sig (chain (r - 1))) ->
  (forall b, vfy b = true -> 1 <= b_round b) ->
  (forall b, vfy b = true -> b_sig b = b_sig (chain (b_round b))) ->
  forall upTo (fails : list (list peer)) pre h post rest st,
  Forall quiet pre -> honest chain 1 upTo h -> cinv chain st -> hd st < upTo -> 0 < upTo ->
  let o := run_attempts vfy chained bk SkAppend upTo st (fails ++ (pre ++ h :: post) :: rest) in
  sy_r o = SyncOk /\ hd (sy_st o) = upTo /\ cinv chain (sy_st o).
Proof.
  intros vfy chained bk chain L1 L2 L3 L4 L5 upTo fails pre h post rest st Hq Hh Hc Hlt Hpos.
  assert (Htol : Forall (tolerated vfy chained SkAppend) pre).
  { apply Forall_forall. intros p Hp. apply quiet_tolerated_append.
    rewrite Forall_forall in Hq. apply Hq. exact Hp. }
  assert (Hf : Forall (Forall (orderly vfy chained SkAppend)) fails).
  { apply Forall_forall. intros a _. apply any_orderly_append. }
  pose proof (run_converges vfy chained bk SkAppend chain L1 L2 L3 L4 L5
                (fun H => ltac:(discriminate H)) (fun H => ltac:(discriminate H))
                upTo fails pre h post rest st Hf Htol Hh Hc Hlt Hpos) as [S1 [S2 S3]].
  simpl. auto.
Qed.
Print Assumptions C10_renewal_converges.

(* The same with Run's clock, for the expiry factor the source has (Gen/Consts.v): the node is
   behind and a sync request arrives at EVERY period (what Handler.run does). A request that finds
   a Sync in flight and not yet overdue does nothing - in particular it does not refresh the
   progress time -, so a Sync blocked on a silent stream is cancelled at the first request later
   than factor periods after its last progress. With ARBITRARY peers in the attempts before (silent
   ones included), the attempt that reaches an honest peer through non-stalling ones is started
   within 1 + (factor+1) * (number of earlier attempts) periods, and the store then holds upTo. *)
Theorem C10_ticks_converge :
  forall vfy chained bk (chain : Z -> beacon),
  (forall r, b_round (chain r) = r) ->
  (forall r, 1 <= r -> vfy (chain r) = true) ->
  (chained = true -> forall r, 1 <= r -> b_prev (chain r) = b_sig (chain (r - 1))) ->
  (forall b, vfy b = true -> 1 <= b_round b) ->
  (forall b, vfy b = true -> b_sig b = b_sig (chain (b_round b))) ->
  forall upTo (fails : list (list peer)) pre h post rest st (n : nat),
  Forall quiet pre -> honest chain 1 upTo h -> cinv chain st -> hd st < upTo -> 0 < upTo ->
  (1 + length fails * (Z.to_nat sync_expiry_factor + 1) <= n)%nat ->
  let s := run_ticks vfy chained bk SkAppend sync_expiry_factor upTo n 0
             (mkTk st false 0 [] [] (fails ++ (pre ++ h :: post) :: rest)) in
  hd (tk_st s) = upTo /\ cinv chain (tk_st s).
Proof.
  intros vfy chained bk chain L1 L2 L3 L4 L5 upTo fails pre h post rest st n Hq Hh Hc Hlt Hpos Hn.
  assert (Htol : Forall (tolerated vfy chained SkAppend) pre).
  { apply Forall_forall. intros p Hp. apply quiet_tolerated_append.
    rewrite Forall_forall in Hq. apply Hq. exact Hp. }
  assert (Hf : 0 <= sync_expiry_factor) by (vm_compute; discriminate).
  destruct (ticks_converge vfy chained bk chain L1 L2 L3 L4 L5 sync_expiry_factor upTo Hf Hpos
              fails pre h post rest Htol Hh 0%nat
              (mkTk st false 0 [] [] (fails ++ (pre ++ h :: post) :: rest)) 0 n Hc Hlt eq_refl
              ltac:(simpl; discriminate) Hn) as [A B].
  simpl. auto.
Qed.
Print Assumptions C10_ticks_converge.

(* ---- 3. check and repair ---- *)

(* CheckPastBeacons(upTo) returns exactly the rounds 1 <= r <= min(upTo, head) that cannot be
   read back or whose beacon does not verify, in ascending order *)
Theorem C10_check_exact :
  forall vfy upTo st last, raw_last (s_base st) = Some last ->
  exists l, check_past vfy upTo st = Some l /\
    l = filter (faultyb vfy (s_base st)) (zseq 1 (Z.to_nat (Z.min upTo (b_round last)))) /\
    StronglySorted Z.lt l /\
    (forall r, In r l <->
       1 <= r <= Z.min upTo (b_round last) /\
       (raw_get (s_base st) r = None \/
        exists b, raw_get (s_base st) r = Some b /\ vfy b = false)).
Proof.
  intros vfy upTo st last H. eexists. split; [apply check_past_exact; exact H|].
  split; [reflexivity|]. split; [apply filter_zseq_sorted|].
  intro r. rewrite filter_zseq_in. unfold faultyb.
  destruct (raw_get (s_base st) r) as [b|] eqn:E.
  - split.
    + intros [Hr Hv]. split; [lia|]. right. exists b. split; [reflexivity|].
      apply negb_true_iff. exact Hv.
    + intros [Hr [Hn|[b' [Hb Hv]]]]; [discriminate|]. inversion Hb; subst. split; [lia|].
      apply negb_true_iff. exact Hv.
  - split.
    + intros [Hr _]. split; [lia|]. left. reflexivity.
    + intros [Hr _]. split; [lia|reflexivity].
Qed.
Print Assumptions C10_check_exact.

(* Whatever the peers do (lying, stalling, closing), on every back-end: a round whose stored
   beacon verified before CorrectPastBeacons still verifies afterwards, with the same signature *)
Theorem C10_correct_no_damage :
  forall vfy chained bk sk (chain : Z -> beacon),
  (forall b, vfy b = true -> b_sig b = b_sig (chain (b_round b))) ->
  forall jobs st r b, (forall j, In j jobs -> 0 < fst j) ->
  raw_get (s_base st) r = Some b -> vfy b = true ->
  exists b', raw_get (s_base (co_st (correct_past vfy chained bk sk st jobs))) r = Some b' /\
             vfy b' = true /\ b_sig b' = b_sig b.
Proof.
  intros vfy chained bk sk chain L5. exact (correct_past_no_damage vfy chained bk sk chain L5).
Qed.
Print Assumptions C10_correct_no_damage.

(* On EVERY back-end (full statement; it was refuted on memdb while the re-sync path relied on
   Put alone, which memdb ignores for a round it holds): with an honest peer reached through
   non-stalling ones in the first attempt of every listed round, CorrectPastBeacons reports no
   error and every listed round verifies afterwards. Together with C10_correct_no_damage:
   exactly the listed rounds change. *)
Theorem C10_correct_exact :
  forall vfy chained bk sk (chain : Z -> beacon),
  (forall r, b_round (chain r) = r) ->
  (forall r, 1 <= r -> vfy (chain r) = true) ->
  (forall b, vfy b = true -> b_sig b = b_sig (chain (b_round b))) ->
  forall jobs st, s_base st <> [] -> (forall j, In j jobs -> job_ok chain j) ->
  let o := correct_past vfy chained bk sk st jobs in
  co_r o = CorrOk /\ forall j, In j jobs -> valid_at vfy (s_base (co_st o)) (fst j).
Proof.
  intros vfy chained bk sk chain L1 L2 L5. exact (correct_past_repairs vfy chained bk sk chain L1 L2 L5).
Qed.
Print Assumptions C10_correct_exact.

(* regression witness, kept: memdb holding an invalid beacon for round 1, an honest peer; the
   round verifies after the repair (it used to survive it) *)
Definition bad1 : beacon := mkB 1 [] [7].
Example C10_correct_memdb_witness :
  let o := correct_past (xvfy false) false BkKeep SkAppend (mkS [bad1; xchain false 0] bad1)
             [(1, ([xhonest false 3], []))] in
  co_r o = CorrOk /\ raw_get (s_base (co_st o)) 1 = Some (xchain false 1).
Proof. vm_compute. split; reflexivity. Qed.

(* ---- 4. follow ---- *)

(* For every input: (a) chain information whose hash differs from the operator's is refused and
   nothing is created, stored or written; (b) whenever follow creates/changes the database or
   writes a beacon, the information it verified against has exactly the operator's hash and
   every written beacon verified against it. *)
Theorem C10_follow_pins_hash :
  forall vfy_of chained bk busy hash answers db upTo cur fuel attempts,
  let o := follow vfy_of chained bk src busy hash answers db upTo cur fuel attempts in
  (forall i, busy = false -> info_from_peers answers = Some i -> i_hash i <> hash ->
     fw_r o = FwRefused FeHash /\ fw_db o = db /\ fw_ws o = []) /\
  (fw_db o <> db \/ fw_ws o <> [] ->
     exists i, info_from_peers answers = Some i /\ i_hash i = hash /\
               Forall (fun b => vfy_of i b = true) (fw_ws o)).
Proof.
  intros vfy_of chained bk busy hash answers db upTo cur fuel attempts. unfold follow.
  destruct busy; simpl.
  { split; [intros i Hb; discriminate|]. intros [H|H]; exfalso; apply H; reflexivity. }
  destruct (info_from_peers answers) as [i|]; simpl.
  2:{ split; [intros i _ Hi; discriminate|]. intros [H|H]; exfalso; apply H; reflexivity. }
  change (src_hash_pinned_before_store src) with true. simpl.
  destruct (bytes_eqb (i_hash i) hash) eqn:E; simpl.
  - apply bytes_eqb_eq in E. split.
    { intros i' _ Hi Hne. inversion Hi; subst. contradiction. }
    intros _. exists i. split; [reflexivity|]. split; [exact E|].
    destruct (negb (i_id_ok i)); simpl; [constructor|].
    destruct (open_store (raw_put bk match db with Some d => d | None => [] end (i_genesis i))) as [st|];
      simpl; [|constructor].
    destruct (follow_loop chained bk (follow_stack src) (vfy_of i) (retry_live src) (upTo =? 0)
                (if negb (upTo =? 0) && (upTo <? cur) then upTo else cur) upTo fuel st attempts)
      as [[r st'] ws] eqn:F.
    simpl. pose proof (follow_loop_generic (vfy_of i) chained bk _ _ _ _ _ _ _ _ _ _ _ F) as [G1 _]. exact G1.
  - split.
    { intros i' _ Hi Hne. auto. }
    intros [H|H]; exfalso; apply H; reflexivity.
Qed.
Print Assumptions C10_follow_pins_hash.

(* With the retry loop as the source has it now (C10_follow_src, C10_follow_stack_src): if the
   peers fail for k = length fails attempts (unreachable, closing, lying in any field - anything
   but staying silent) and the next attempt reaches an honest peer through non-silent ones, follow
   ends with done, head = upTo, everything written verified against the pinned information.
   Fuel k+1 (attempts) suffices; [cur] is the current round, upTo <= cur. *)
Theorem C10_follow_retry :
  forall vfy_of chained bk hash answers db upTo cur fuel i (chain : Z -> beacon),
  info_from_peers answers = Some i -> i_hash i = hash -> i_id_ok i = true ->
  (forall r, b_round (chain r) = r) ->
  (forall r, 1 <= r -> vfy_of i (chain r) = true) ->
  (chained = true -> forall r, 1 <= r -> b_prev (chain r) = b_sig (chain (r - 1))) ->
  (forall b, vfy_of i b = true -> 1 <= b_round b) ->
  (forall b, vfy_of i b = true -> b_sig b = b_sig (chain (b_round b))) ->
  forall st0 fails pre h post rest,
  open_store (raw_put bk (match db with Some d => d | None => [] end) (i_genesis i)) = Some st0 ->
  cinv chain st0 -> hd st0 < upTo -> 1 <= upTo <= cur ->
  (length fails < fuel)%nat ->
  Forall (Forall quiet) fails -> Forall quiet pre -> honest chain 1 upTo h ->
  let o := follow vfy_of chained bk src false hash answers db upTo cur fuel
             (fails ++ (pre ++ h :: post) :: rest) in
  fw_r o = FwDone /\
  (exists base', fw_db o = Some base' /\ head_of base' = upTo) /\
  Forall (fun b => vfy_of i b = true) (fw_ws o).
Proof.
  intros vfy_of chained bk hash answers db upTo cur fuel i chain Hi Hh Hid L1 L2 L3 L4 L5
         st0 fails pre h post rest Hopen Hc Hlt Hup Hfuel Hf Hpre Hhon.
  unfold follow. rewrite Hi. simpl.
  replace (bytes_eqb (i_hash i) hash) with true by (symmetry; apply bytes_eqb_eq; exact Hh).
  change (negb true) with false. cbv iota. rewrite Hid. simpl. rewrite Hopen.
  replace (upTo =? 0) with false by (symmetry; apply Z.eqb_neq; lia). simpl.
  assert (Htarg : (if upTo <? cur then upTo else cur) = upTo).
  { destruct (upTo <? cur) eqn:E; [reflexivity|]. apply Z.ltb_ge in E. lia. }
  rewrite Htarg.
  destruct C10_follow_src as [Hlive _]. rewrite Hlive, C10_follow_stack_src.
  assert (Htol : forall ps, Forall quiet ps -> Forall (tolerated (vfy_of i) chained SkAppend) ps).
  { intros ps Hq. apply Forall_forall. intros p Hp. apply quiet_tolerated_append.
    rewrite Forall_forall in Hq. apply Hq. exact Hp. }
  assert (Hf' : Forall (Forall (tolerated (vfy_of i) chained SkAppend)) fails).
  { apply Forall_forall. intros a Ha. apply Htol. rewrite Forall_forall in Hf. apply Hf. exact Ha. }
  destruct (follow_loop_converges (vfy_of i) chained bk SkAppend chain L1 L2 L3 L4 L5
              (fun H => ltac:(discriminate H)) (fun H => ltac:(discriminate H))
              upTo fails pre h post rest fuel st0 Hfuel ltac:(lia) Hf' (Htol _ Hpre) Hhon Hc Hlt)
    as [st' [ws [E [C1 C2]]]].
  rewrite E. simpl. split; [reflexivity|]. split.
  - exists (s_base st'). split; [reflexivity|]. rewrite (head_of_hd st' (proj1 C1)). exact C2.
  - pose proof (follow_loop_generic (vfy_of i) chained bk _ _ _ _ _ _ _ _ _ _ _ E) as [G1 _]. exact G1.
Qed.
Print Assumptions C10_follow_retry.

(* ---- non-vacuity: concrete reachable instances of the premises and conclusions ---- *)

(* the cryptographic hypotheses used above are jointly satisfiable (symbolic instance) *)
Example C10_hypotheses_satisfiable : forall chained,
  (forall r, b_round (xchain chained r) = r) /\
  (forall r, 1 <= r -> xvfy chained (xchain chained r) = true) /\
  (chained = true -> forall r, 1 <= r -> b_prev (xchain chained r) = b_sig (xchain chained (r - 1))) /\
  (forall b, xvfy chained b = true -> 1 <= b_round b) /\
  (forall b, xvfy chained b = true -> b_sig b = b_sig (xchain chained (b_round b))) /\
  (chained = true -> forall b, xvfy chained b = true -> b_prev b = b_sig (xchain chained (b_round b - 1))) /\
  (forall r r', 0 <= r -> 0 <= r' -> b_sig (xchain chained r) = b_sig (xchain chained r') -> r = r').
Proof. exact xinst_laws. Qed.

Definition g0 (c : bool) : store := mkS [xchain c 0] (xchain c 0).
(* a liar: round 1 genuine, then round 2 with a bad signature; a peer that closes at once; an
   unreachable peer; our own address *)
Definition liar_badsig (c : bool) : peer :=
  mkP false true (fun _ => [Pkt MdSame (xchain c 1); Pkt MdSame (mkB 2 (xsig 1) [9]); Close]).
Definition closer : peer := mkP false true (fun _ => [Close]).
Definition unreachable : peer := mkP false false (fun _ => []).
Definition self_peer : peer := mkP true true (fun _ => [Stall]).

Example C10_nonvacuous_converge :
  let ps := [xhonest true 6; liar_badsig true; closer; self_peer; unreachable] in
  let order := [3%nat; 1%nat; 4%nat; 2%nat; 0%nat] in
  let o := sync (xvfy true) true BkOverwrite SkAppend order 0 4 (g0 true) ps in
  (* premises of C10_converges_one_attempt *)
  permute order ps = [self_peer; liar_badsig true; unreachable; closer] ++ xhonest true 6 :: [] /\
  Forall quiet [self_peer; liar_badsig true; unreachable; closer] /\
  honest (xchain true) 1 4 (xhonest true 6) /\ cinv (xchain true) (g0 true) /\ hd (g0 true) < 4 /\
  (* what happens: the liar's valid round 1 is kept, its round 2 refused; the honest peer is asked
     from round 2 and finishes *)
  sy_r o = SyncOk /\ map b_round (sy_ws o) = [1; 2; 3; 4] /\ sy_reqs o = [1; 2; 2; 2] /\
  map b_round (s_base (sy_st o)) = [4; 3; 2; 1; 0].
Proof.
  cbv zeta. split; [reflexivity|]. split.
  { constructor; [left; reflexivity|].
    constructor; [right; intros f [H|[H|[H|H]]]; try discriminate; contradiction|].
    constructor; [right; intros f H; contradiction|].
    constructor; [right; intros f [H|H]; [discriminate|contradiction]|]. constructor. }
  split; [apply xhonest_honest; lia|].
  split; [unfold cinv, wf, hd; simpl; repeat split; lia|].
  split; [unfold hd; simpl; lia|]. vm_compute. repeat split.
Qed.

(* one request per period, the first Sync blocked on a silent peer: with factor 2 it is replaced
   at the 4th request (not before), and the honest peer of the second attempt finishes *)
Example C10_nonvacuous_ticks :
  let att := [[staller; xhonest true 6]; [closer; xhonest true 6]] in
  let run := fun n => run_ticks (xvfy true) true BkOverwrite SkAppend sync_expiry_factor 4 n 0
                        (mkTk (g0 true) false 0 [] [] att) in
  (tk_inflight (run 3%nat) = true /\ hd (tk_st (run 3%nat)) = 0) /\
  (tk_inflight (run 4%nat) = false /\ hd (tk_st (run 4%nat)) = 4) /\
  hd (tk_st (run 9%nat)) = 4.
Proof. vm_compute. repeat split. Qed.

(* check and repair on a store with planted corruption: round 2 missing, round 4 invalid *)
Definition planted : store :=
  mkS [xchain false 5; mkB 4 [] [1]; xchain false 3; xchain false 1; xchain false 0] (xchain false 5).
Example C10_nonvacuous_check_repair :
  check_past (xvfy false) 10 planted = Some [2; 4] /\
  check_past (xvfy false) 3 planted = Some [2] /\
  let jobs := [(2, ([closer; xhonest false 1], [])); (4, ([unreachable; xhonest false 1], []))] in
  let o := correct_past (xvfy false) false BkOverwrite SkAppend planted jobs in
  (forall j, In j jobs -> job_ok (xchain false) j) /\
  co_r o = CorrOk /\ check_past (xvfy false) 10 (co_st o) = Some [] /\
  (* the same on memdb *)
  check_past (xvfy false) 10 (co_st (correct_past (xvfy false) false BkKeep SkAppend planted jobs)) = Some [].
Proof.
  split; [reflexivity|]. split; [reflexivity|]. cbv zeta. split.
  { intros j [<-|[<-|[]]]; (split; [simpl; lia|]).
    - exists [closer], (xhonest false 1), []. split; [reflexivity|]. split.
      + constructor; [|constructor]. right. intros f [H|H]; [discriminate|contradiction].
      + split; [reflexivity|]. split; [reflexivity|]. eexists; eexists; split; [reflexivity|discriminate].
    - exists [unreachable], (xhonest false 1), []. split; [reflexivity|]. split.
      + constructor; [|constructor]. right. intros f H; contradiction.
      + split; [reflexivity|]. split; [reflexivity|]. eexists; eexists; split; [reflexivity|discriminate]. }
  vm_compute. repeat split.
Qed.

(* follow: two attempts in which every peer fails, then an honest peer; fuel 3 converges, fuel 2
   is still retrying, and with a nil errChan (what the source had before the fix) the first
   failure is never observed *)
Definition xinfo (c : bool) : info := mkI [42] true (xchain c 0).
Definition outage : list peer := [unreachable; closer].
Example C10_nonvacuous_follow :
  let att := [outage; outage; [closer; xhonest true 5]; outage] in
  let run := fun s fuel => follow (fun _ => xvfy true) true BkOverwrite s false [42]
                             [InfoUnreachable; InfoIs (xinfo true)] None 4 9 fuel att in
  fw_r (run src 3%nat) = FwDone /\
  option_map (map b_round) (fw_db (run src 3%nat)) = Some [4; 3; 2; 1; 0] /\
  fw_r (run src 2%nat) = FwRetrying /\
  fw_r (run (mkFsrc false true true true true) 3%nat) = FwBlocked /\
  (* a different hash: refused, nothing created *)
  follow (fun _ => xvfy true) true BkOverwrite src false [43] [InfoIs (xinfo true)] None 4 9 3 att
    = mkFw (FwRefused FeHash) None [] /\
  (* premises of C10_follow_retry for this instance *)
  Forall (Forall quiet) [outage; outage] /\ Forall quiet [closer].
Proof.
  cbv zeta. split; [vm_compute; reflexivity|]. split; [vm_compute; reflexivity|].
  split; [vm_compute; reflexivity|]. split; [vm_compute; reflexivity|]. split; [vm_compute; reflexivity|].
  assert (Hc : quiet closer) by (right; intros f [H|H]; [discriminate|contradiction]).
  assert (Hu : quiet unreachable) by (right; intros f H; contradiction).
  split; [|constructor; [exact Hc|constructor]].
  constructor; [constructor; [exact Hu|constructor; [exact Hc|constructor]]|].
  constructor; [constructor; [exact Hu|constructor; [exact Hc|constructor]]|constructor].
Qed.
