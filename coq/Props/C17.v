(* C17 — Chain hash and group hash commit to exactly the parameters they identify.
   Property theorems only; proofs are in Proofs/HashesProofs.v (and Props/C20.v for the mirror
   round trips used by C17_paths_agree). The preimages are folds over the write orders of
   Gen/HashOrder.v, regenerated from Info.Hash / Group.Hash / Node.Hash / DistPublic.Hash on every
   run; SHA-256 and BLAKE2b-256 are idealised as injective functions (hypotheses [injective]),
   BLAKE2b-256 has a fixed positive output length, a scheme has one public-key length. *)
From Coq Require Import String ZArith List Bool Lia Permutation Sorted.
From DV Require Import Model.ByteEnc Model.HashVocab Gen.HashOrder Model.Hashes Proofs.HashesProofs
  Model.CodecVocab Model.Codec Proofs.CodecProofs Gen.Mirrors Proofs.CodecGen Props.C20.
Import ListNotations.
Open Scope string_scope.
Open Scope Z_scope.
Open Scope list_scope.

(* ---- chain hash ---- *)

(* (a) equal parameters give equal hashes (ids modulo "" == "default"; the period enters at
       whole-second granularity; the scheme name is not an input);
   (b) changing exactly one of period (whole seconds below 2^32), genesis time, public key (same
       length), genesis seed, id (to a non-equivalent one) changes the hash;
   (c) the chain hash of a group's chain info does not depend on membership, threshold,
       transition time, catch-up period or scheme. *)
Theorem C17_chain_sensitive : forall H256 Hb, injective H256 ->
  (forall i i', i_period i / ns_per_s = i_period i' / ns_per_s -> i_genesis i = i_genesis i' ->
     i_pk i = i_pk i' -> i_seed i = i_seed i' -> id_equiv (i_id i) (i_id i') = true ->
     chain_hash H256 Hb i = chain_hash H256 Hb i') /\
  (forall i i', idiff i i' -> chain_hash H256 Hb i <> chain_hash H256 Hb i') /\
  (forall g g' i i', info_of_group H256 Hb g = Some i -> info_of_group H256 Hb g' = Some i' ->
     g_period g / ns_per_s = g_period g' / ns_per_s -> g_genesis g = g_genesis g' ->
     hd_error (match g_pk g with Some cs => cs | None => [] end) =
       hd_error (match g_pk g' with Some cs => cs | None => [] end) ->
     genesis_seed H256 Hb g = genesis_seed H256 Hb g' -> id_equiv (g_id g) (g_id g') = true ->
     chain_hash H256 Hb i = chain_hash H256 Hb i').
Proof.
  intros H256 Hb Hinj. split; [|split].
  - apply chain_hash_deterministic.
  - intros i i' D. apply chain_hash_sensitive; auto.
  - apply chain_hash_ignores_membership; auto.
Qed.
Print Assumptions C17_chain_sensitive.

(* honest limits of the format: seed ++ id is unframed, so a change of BOTH can collide (cannot
   happen when seeds have one length, which they have: 32-byte group hashes); the sub-second
   part of the period is not hashed *)
Theorem C17_chain_pre_joint_collision : exists i i',
  i_seed i <> i_seed i' /\ id_equiv (i_id i) (i_id i') = false /\
  i_period i = i_period i' /\ i_genesis i = i_genesis i' /\ i_pk i = i_pk i' /\ chain_pre i = chain_pre i'.
Proof. exact chain_pre_joint_collision. Qed.
Print Assumptions C17_chain_pre_joint_collision.

Theorem C17_chain_injective_fixed_seed : forall H256 Hb, injective H256 -> forall i i',
  length (i_pk i) = length (i_pk i') -> length (i_seed i) = length (i_seed i') ->
  whole_secs_u32 (i_period i) -> whole_secs_u32 (i_period i') ->
  in_int64 (i_genesis i) -> in_int64 (i_genesis i') ->
  chain_hash H256 Hb i = chain_hash H256 Hb i' ->
  i_period i = i_period i' /\ i_genesis i = i_genesis i' /\ i_pk i = i_pk i' /\
  i_seed i = i_seed i' /\ id_equiv (i_id i) (i_id i') = true.
Proof.
  intros H256 Hb Hinj i i' Lk Ls P P' G G' E. rewrite !chain_hash_eq in E. apply Hinj in E.
  apply chain_pre_injective_fixed_seed; auto.
Qed.
Print Assumptions C17_chain_injective_fixed_seed.

Theorem C17_chain_subsecond_not_hashed : forall i,
  chain_pre i = chain_pre (i_with_period i (i_period i / ns_per_s * ns_per_s)).
Proof. exact chain_pre_subsecond_collision. Qed.
Print Assumptions C17_chain_subsecond_not_hashed.

(* ---- group hash ---- *)
Theorem C17_group_order : forall H256 Hb g ns, Permutation (g_nodes g) ns ->
  NoDup (map n_idx (g_nodes g)) -> group_hash H256 Hb g = group_hash H256 Hb (g_with_nodes g ns).
Proof. intros; apply group_hash_order; auto. Qed.
Print Assumptions C17_group_order.

(* the model sorts by insertion; any procedure returning a strictly sorted permutation (Go's
   sort.Slice on pairwise distinct indices) returns the same list *)
Theorem C17_sort_unique : forall (s l : list (Z * bytes)),
  Permutation s l -> StronglySorted klt s -> s = isort_k l.
Proof. intros; apply sorted_perm_unique; auto. Qed.
Print Assumptions C17_sort_unique.

Theorem C17_group_sensitive : forall H256 Hb hlen klen, injective Hb -> (0 < hlen)%nat ->
  (forall x, length (Hb x) = hlen) ->
  forall g g', gdiff klen g g' -> group_hash H256 Hb g <> group_hash H256 Hb g'.
Proof. intros H256 Hb hlen klen Hinj Hpos Hlen g g' D. eapply group_hash_sensitive; eauto. Qed.
Print Assumptions C17_group_sensitive.

(* ---- decode-side check (Info.UnmarshalJSON; the check list is generated from the source) ----
   [hs] is HashString() of the value being decoded. A chain_hash field that is present and
   differs from it is rejected; an absent (empty) field is not checked - as coded. *)
Theorem C17_decode_rejects : forall ds pd hp hs r ch,
  get ["chain_hash"] r = Some (VBytes ch) -> ch <> [] -> ch <> hs ->
  decode ds pd hp hs mirrors "Info.UnmarshalJSON" r = None.
Proof.
  intros ds pd hp hs r ch G Ne D.
  apply (decode_reject ds pd hp hs "Info.UnmarshalJSON" mir_Info_UnmarshalJSON r
    (ChkIfNonEmpty ["chain_hash"] (ChkRejectIf RNe CHashString (CField ["chain_hash"]))));
    [reflexivity | simpl; auto |].
  simpl. rewrite G. destruct ch; [congruence|]. simpl.
  destruct (bytes_eqb hs (z :: ch)) eqn:E; auto. apply bytes_eqb_eq in E. congruence.
Qed.
Print Assumptions C17_decode_rejects.

Theorem C17_decode_absent_hash_unchecked : forall hp hs r,
  get ["chain_hash"] r = Some (VBytes []) ->
  chk_rejects hp hs r (ChkIfNonEmpty ["chain_hash"] (ChkRejectIf RNe CHashString (CField ["chain_hash"]))) = false.
Proof. intros hp hs r G. simpl. rewrite G. reflexivity. Qed.
Print Assumptions C17_decode_absent_hash_unchecked.

(* ---- every encoding path gives the same chain hash ---- *)
(* protobuf packet and JSON form: a chain info comes back as the same value, hence with the same
   hash; group form: the chain info of a group and of the group read back from its file (whose id
   is canonicalised) have the same hash *)
Theorem C17_paths_agree : forall ds pd H256 Hb, dur_laws ds pd ->
  (forall p, In p [vInfoProto; vInfoJSON] -> forall r, vp_P p r ->
     exists r1 r2, den ds pd mirrors (vp_a p) r = Some r1 /\ den ds pd mirrors (vp_b p) r1 = Some r2 /\
       r2 = r /\ chain_hash H256 Hb (info_of_record r2) = chain_hash H256 Hb (info_of_record r)) /\
  (forall g i i', info_of_group H256 Hb g = Some i ->
     info_of_group H256 Hb (g_with_id g (canon_id (g_id g))) = Some i' ->
     chain_hash H256 Hb i = chain_hash H256 Hb i').
Proof.
  intros ds pd H256 Hb L. split.
  - intros p I r P.
    assert (IA : In p all_pairs) by (simpl in I; destruct I as [<-|[<-|[]]]; simpl; auto 20).
    destruct (C20_roundtrip ds pd L p IA r P) as [r1 [E1 E2]].
    exists r1, (vp_R p r). repeat split; auto.
    + simpl in I. destruct I as [<-|[<-|[]]]; destruct P as [Keys _];
        unfold vInfoProto, vInfoJSON, mk_vp; simpl; apply norm_plain; rewrite Keys; vm_compute; reflexivity.
    + f_equal. f_equal. simpl in I.
      destruct I as [<-|[<-|[]]]; destruct P as [Keys _];
        unfold vInfoProto, vInfoJSON, mk_vp; simpl; apply norm_plain; rewrite Keys; vm_compute; reflexivity.
  - intros g i i' I I'. unfold info_of_group in I, I'. simpl in I'.
    destruct (g_pk g) as [[|c cs]|]; try discriminate. injection I as <-. injection I' as <-.
    apply chain_hash_deterministic; simpl; auto.
    + unfold genesis_seed. simpl. destruct (g_seed g); auto.
      rewrite !group_hash_eq. f_equal. rewrite !group_pre_eq. simpl. rewrite id_bytes_canon. reflexivity.
    + apply id_bytes_equiv. rewrite id_bytes_canon. reflexivity.
Qed.
Print Assumptions C17_paths_agree.

(* ---- non-vacuity ---- *)
Definition ex_info : minfo :=
  {| i_pk := [1; 2; 3]; i_id := [113]; i_period := 30 * ns_per_s; i_scheme := []; i_genesis := 1595431050; i_seed := [9; 9] |}.
Definition ex_node (i : Z) (k : bytes) : mnode := {| n_idx := i; n_key := k; n_addr := []; n_sig := [] |}.
Definition ex_group : mgroup :=
  {| g_thr := 2; g_period := 30 * ns_per_s; g_catchup := 0; g_scheme := []; g_id := []; g_nodes := [ex_node 2 [5]; ex_node 0 [6]; ex_node 1 [7]];
     g_genesis := 1595431050; g_seed := None; g_ttime := 0; g_pk := Some [[1; 2; 3]; [4; 5; 6]] |}.

Example C17_nonvacuous :
  idiff ex_info (i_with_period ex_info (31 * ns_per_s)) /\
  idiff ex_info (i_with_id ex_info default_beacon_id) /\
  gdiff 3 ex_group (g_with_nodes ex_group [ex_node 2 [5]; ex_node 4 [6]; ex_node 1 [7]]) /\
  gdiff 3 ex_group (g_with_ttime ex_group 77) /\
  gdiff 3 ex_group (g_with_pk ex_group None) /\
  Permutation (g_nodes ex_group) [ex_node 0 [6]; ex_node 1 [7]; ex_node 2 [5]] /\
  NoDup (map n_idx (g_nodes ex_group)) /\
  (* the preimage of the example group, nodes in index order *)
  group_pre (fun _ => []) (fun x => x) ex_group =
    [0; 0; 0; 0; 6] ++ [1; 0; 0; 0; 7] ++ [2; 0; 0; 0; 5] ++ [2; 0; 0; 0] ++ le64 1595431050 ++ [1; 2; 3; 4; 5; 6].
Proof.
  repeat split.
  - apply ID_period; [exists 30 | exists 31 | ]; unfold ns_per_s; simpl; try lia; split; lia.
  - apply ID_id. reflexivity.
  - apply (GD_node 3 ex_group [ex_node 2 [5]] (ex_node 0 [6]) (ex_node 4 [6]) [ex_node 1 [7]]); try reflexivity.
    + discriminate.
    + repeat constructor; unfold in_uint32; simpl; lia.
    + unfold in_uint32; simpl; lia.
    + simpl. repeat constructor; simpl; intuition; discriminate.
  - apply GD_ttime; unfold in_int64; simpl; lia.
  - apply GD_pk; simpl; try lia; try discriminate; auto; repeat constructor.
  - simpl. eapply perm_trans; [apply perm_swap|]. apply perm_skip. apply perm_swap.
  - simpl. repeat constructor; simpl; intuition; discriminate.
Qed.
