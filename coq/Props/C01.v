(* C01 — Every beacon a node stores or serves is publicly verifiable.
   Node-local theorems over Model/Node.v and Model/Serve.v; proofs in Proofs/NodeProofs.v.
   [vrec r p s] stands for VerifyBeacon / VerifyRecovered under the chain's distributed public
   key on the digest of (round r, previous signature p) and signature s. *)
From Coq Require Import ZArith List Bool Lia.
From DV Require Import Model.Time Model.Node Model.Serve Model.HttpWait Model.Bootstrap Proofs.NodeProofs Proofs.HttpWaitProofs Gen.Consts.
Import ListNotations.
Open Scope Z_scope.

Section C01.
  Variable C : cfg.
  Variable idx_of : Z -> Z.
  Variable vpart : Z -> Z -> Z -> Z -> bool.
  Variable recov : Z -> Z -> Z -> list Z -> Z -> option Z.
  Variable vrec : Z -> Z -> Z -> bool.
  Variable own_psig : Z -> Z -> Z -> Z.
  (* on unchained schemes the digest does not contain the previous signature (crypto/schemes.go) *)
  Hypothesis vrec_unchained : c_chained C = false -> forall r p p' s, vrec r p s = vrec r p' s.

  (* Whatever partial signatures, sync streams, ticks, restarts and transitions occur, in any
     order and with any content (the event list is universally quantified, the oracles are
     arbitrary), every beacon the node writes verifies for exactly its round (and the previous
     signature it carries). *)
  Theorem C01_store : forall s es s' os,
    run C idx_of vpart recov vrec own_psig s es = (s', os) ->
    Forall (verified vrec) (proj_puts (all_outs os)).
  Proof. exact (all_puts_verified C idx_of vpart recov vrec own_psig vrec_unchained). Qed.

  (* ... so a chain that starts valid stays valid, gap-free and linked *)
  Theorem C01_chain_stays_valid : forall s es s' os,
    s_chain s <> [] -> chain_ok C vrec (s_chain s) ->
    run C idx_of vpart recov vrec own_psig s es = (s', os) ->
    chain_ok C vrec (s_chain s').
  Proof.
    intros s es s' os Hne Hc Hr.
    exact (proj1 (chain_gapfree_appendonly C idx_of vpart recov vrec own_psig vrec_unchained s es s' os Hne Hc Hr)).
  Qed.

  (* every beacon of a valid chain other than its oldest element (the genesis) verifies *)
  Lemma chain_ok_in_verified : forall ch b, chain_ok C vrec ch -> In b ch ->
    b <> last ch (mkB 0 empty_id empty_id) -> verified vrec b.
  Proof.
    induction ch as [|x ch IH]; intros b Hc Hin Hl; [destruct Hin|].
    destruct ch as [|y ch'].
    - destruct Hin as [->|[]]. exfalso; apply Hl; reflexivity.
    - destruct Hc as [Hg Hc]. destruct Hin as [->|Hin].
      + destruct Hg as [Hv _]. exact Hv.
      + apply IH; [exact Hc|exact Hin|]. exact Hl.
  Qed.

  (* a successful answer to a request for round r >= 1 contains the beacon of round r, taken from
     the store, and nothing else; round 0 returns the head *)
  Theorem C01_serve_exact : forall ch r b,
    public_rand ch r = Some b ->
    In b ch /\ (r <> 0 -> b_round b = r) /\ (r = 0 -> Some b = hd_error ch).
  Proof.
    unfold public_rand, get_round. intros ch r b H.
    destruct (Z.eqb_spec r 0) as [->|Hr].
    - split; [|split; [congruence|auto]]. destruct ch; [discriminate|]. inversion H; subst. left; reflexivity.
    - apply find_some in H as [Hin Hb]. apply Z.eqb_eq in Hb. split; [exact Hin|]. split; [auto|congruence].
  Qed.

  (* hence what is served for a round r >= 1 from a valid chain verifies *)
  Theorem C01_served_verifies : forall ch r b,
    chain_ok C vrec ch -> b_round (last ch (mkB 0 empty_id empty_id)) = 0 ->
    1 <= r -> public_rand ch r = Some b -> verified vrec b.
  Proof.
    intros ch r b Hc Hl Hr H. destruct (C01_serve_exact ch r b H) as [Hin [Hrr _]].
    apply (chain_ok_in_verified ch b Hc Hin). intros ->. rewrite Hrr in Hl by lia. lia.
  Qed.

  (* the published randomness is the hash of the signature that is carried *)
  Theorem C01_randomness : forall (h256 : Z -> Z) b,
    rs_rand (to_response h256 b) = h256 (rs_sig (to_response h256 b)) /\
    rs_round (to_response h256 b) = b_round b /\ rs_sig (to_response h256 b) = b_sig b.
  Proof. intros; repeat split. Qed.
End C01.
Print Assumptions C01_store.
Print Assumptions C01_chain_stays_valid.
Print Assumptions C01_serve_exact.
Print Assumptions C01_served_verifies.
Print Assumptions C01_randomness.

(* Bootstrap of the in-memory store from the peers (storeCurrentFromPeerNetwork): whatever the
   peers answer, in whatever order, to the request for the current round and for the latest round
   (errors, beacons of any round, forged or foreign signatures, round 0), what is put into the
   store is the genesis beacon derived from the node's own group or a beacon that verifies under
   the group key; otherwise nothing is stored. *)
Theorem C01_bootstrap : forall (vrec : Z -> Z -> Z -> bool) genesis target ans_target ans_latest b,
  bootstrap vrec genesis target ans_target ans_latest = BPut b ->
  b = genesis \/ vrec (b_round b) (b_prev b) (b_sig b) = true.
Proof.
  intros vrec genesis target aT aL b. unfold bootstrap.
  destruct (target <? 2); [discriminate|].
  destruct (match first_answer aT with Some x => Some x | None => first_answer aL end) as [x|]; [|discriminate].
  destruct (b_round x =? 0); [intros H; inversion H; left; reflexivity|].
  destruct (vrec (b_round x) (b_prev x) (b_sig x)) eqn:E; [|discriminate].
  intros H; inversion H; subst. right. exact E.
Qed.
Print Assumptions C01_bootstrap.

(* HTTP relay (handler/http): for EVERY history of requests, watch-stream items (consecutive,
   skipping or repeated rounds) and stream failures, every answer a client receives is either
   "not found" or exactly the beacon of the round it asked for; no 200 answer is empty.  (On the
   original code waiters parked across a stream failure received the first beacon of the new
   stream whatever its round, and a skipped round produced an empty 200 body: both repaired by
   the fix "HTTP relay must not answer a waiting request with another round or an empty body".) *)
Theorem C01_http_waiters : forall es, Forall exact (snd (hrun hinit es)).
Proof. intros es. exact (all_answers_exact es hinit hinit_inv). Qed.
Print Assumptions C01_http_waiters.

Example C01_http_nonvacuous :
  snd (hrun hinit [HWatch 5; HReq 6 true; HReq 3 true; HFail; HWatch 8; HReq 9 true; HWatch 9])
  = [ABeacon 3 3; ANotFound 6; ABeacon 9 9].
Proof. vm_compute. reflexivity. Qed.

(* non-vacuity: with an oracle that rejects a forged sync beacon and accepts the honest one,
   the forged beacon is not stored and the honest one is *)
Example C01_nonvacuous :
  let C := mkCfg true 4 1000 2 partial_cache_store_limit in
  let vrec := fun r p s => (s =? r) && (p =? r - 1) in
  snd (run C (fun _ => 1) (fun _ _ _ _ => true) (fun _ _ _ _ _ => None) vrec (fun _ r _ => 500 + r)
           (init 1008 0 (mkG 0 2 [0; 1; 2] 0))
           [ETick 3 (Some [mkB 1 0 99]); ETick 3 (Some [mkB 1 0 1; mkB 2 1 2])])
  = [[OEmit 1 0 501 1008; OSyncReq 3]; [OEmit 1 0 501 1008; OSyncReq 3; OPut (mkB 1 0 1); OPut (mkB 2 1 2)]].
Proof. vm_compute. reflexivity. Qed.
