(* C06 — A completed DKG leaves all nodes with one group and matching key shares.
   Property theorems only; proofs are in Proofs/DKGExecProofs.v.  Kyber's Pedersen DKG and the
   threshold signature scheme are black boxes: their contracts ([dkg_contract],
   [recover_validity]) are explicit premises of the closed theorems.  The number of rounds
   until the transition is the generated Gen/Consts.v constant (read from
   internal/dkg/execution.go on every run). *)
From Coq Require Import ZArith List Bool Lia Sorting.Permutation Sorting.Sorted.
From DV Require Import Model.Time Model.DKGExec Proofs.TimeProofs Proofs.DKGExecProofs Gen.Consts.
Import ListNotations.
Open Scope Z_scope.

(* obligations tied to the source: constants in the range the proofs need *)
Theorem C06_consts : time_buffer_bits = 36 /\ 0 <= rounds_until_transition <= 2 ^ 20.
Proof. split; [reflexivity|split; vm_compute; discriminate]. Qed.

(* ---- canonical participant order ---- *)

(* whatever permutation the (unstable, in-place) sort.Slice produces, with pairwise distinct
   keys it is the one list [sort_by_key input]: sorted + permutation + distinct keys => unique *)
Theorem C06_sorted_unique : forall input output,
  NoDup (map p_key input) -> sorted_by_key input output -> output = sort_by_key input.
Proof. exact sorted_by_key_functional. Qed.
Print Assumptions C06_sorted_unique.

Theorem C06_sort_is_sorted_permutation : forall input, sorted_by_key input (sort_by_key input).
Proof. exact sort_by_key_is_sorted_by_key. Qed.
Print Assumptions C06_sort_is_sorted_permutation.

(* ---- order independence ---- *)

(* Two nodes whose stored Remaining ++ Joining are permutations of each other (pairwise distinct
   keys), with the same scalar terms and the same black-box outcome (commits; QUAL possibly in
   another order): the groups are equal up to the listing order of the nodes, have equal
   group-hash inputs (hence equal hashes), and are identical when the seed is derived (epoch 1)
   or QUAL is listed in the same order.  For all n and all permutations. *)
Theorem C06_order_independent : forall H defsch s1 s2 commits qual1 qual2 tt g1,
  Permutation (all_participants s1) (all_participants s2) ->
  NoDup (map p_key (all_participants s1)) -> same_terms s1 s2 ->
  Permutation qual1 qual2 -> NoDup qual1 ->
  as_group H defsch s1 commits qual1 tt = Ok g1 ->
  exists g2, as_group H defsch s2 commits qual2 tt = Ok g2 /\
    Permutation (g_nodes g1) (g_nodes g2) /\
    g_id g1 = g_id g2 /\ g_threshold g1 = g_threshold g2 /\ g_period g1 = g_period g2 /\
    g_scheme g1 = g_scheme g2 /\ g_catchup g1 = g_catchup g2 /\
    g_genesis_time g1 = g_genesis_time g2 /\ g_genesis_seed g1 = g_genesis_seed g2 /\
    g_transition_time g1 = g_transition_time g2 /\ g_public g1 = g_public g2 /\
    group_hash_input g1 = group_hash_input g2 /\
    (st_genesis_seed s1 = [] -> g1 = g2).
Proof. exact as_group_qual_order. Qed.
Print Assumptions C06_order_independent.

Theorem C06_order_independent_same_qual : forall H defsch s1 s2 commits qual tt,
  Permutation (all_participants s1) (all_participants s2) ->
  NoDup (map p_key (all_participants s1)) -> same_terms s1 s2 ->
  as_group H defsch s1 commits qual tt = as_group H defsch s2 commits qual tt.
Proof. exact as_group_order_independent. Qed.
Print Assumptions C06_order_independent_same_qual.

(* the DKG indices themselves do not depend on the listing order *)
Theorem C06_indices_order_independent : forall s1 s2,
  Permutation (all_participants s1) (all_participants s2) ->
  NoDup (map p_key (all_participants s1)) -> dkg_nodes s1 = dkg_nodes s2.
Proof. intros s1 s2 Hp Hnd. unfold dkg_nodes. rewrite (sorted_participants_perm s1 s2 Hp Hnd). reflexivity. Qed.
Print Assumptions C06_indices_order_independent.

(* ---- index alignment, shares, threshold signing ---- *)

(* a node listed in the final group with Index i carries the key (address, signature) of DKG
   participant i, and i is in QUAL *)
Theorem C06_index_alignment : forall H defsch st commits qual now g nn nd,
  finish_dkg H defsch time_buffer_bits rounds_until_transition st commits qual now = Ok g ->
  dkg_nodes st = Ok nn -> In nd (g_nodes g) ->
  nth_z nn (n_index nd) = Some (n_index nd, n_key nd) /\ In (n_index nd) qual /\
  exists p, nth_z (sorted_participants st) (n_index nd) = Some p /\
            n_key nd = p_key p /\ n_addr nd = p_addr p /\ n_sig nd = p_sig p.
Proof. intros H defsch st commits qual now g nn nd. apply finish_dkg_alignment. Qed.
Print Assumptions C06_index_alignment.

(* with the black-box contract, the share delivered to the holder of a group member's key lies
   on the group's public polynomial at that member's own group index *)
Theorem C06_share_on_polynomial :
  forall (scalar point : Type) (pub_of : scalar -> point) (eval : list bytes -> Z -> point)
         H defsch st commits qual now g (share_of : bytes -> scalar) nd,
  dkg_contract scalar point pub_of eval st qual commits share_of ->
  finish_dkg H defsch time_buffer_bits rounds_until_transition st commits qual now = Ok g ->
  In nd (g_nodes g) ->
  pub_of (share_of (n_key nd)) = eval (g_public g) (n_index nd).
Proof. intros. eapply finish_dkg_share_on_polynomial; eassumption. Qed.
Print Assumptions C06_share_on_polynomial.

(* any set of members with pairwise distinct indices, at least as many as the polynomial has
   coefficients, signs a message that verifies under commits[0] *)
Theorem C06_threshold_signing :
  forall (scalar point msg psig sig : Type) (pub_of : scalar -> point)
         (eval : list bytes -> Z -> point) (sign_part : Z -> scalar -> msg -> psig)
         (recover : list bytes -> msg -> list psig -> Z -> option sig)
         (vfy : bytes -> msg -> sig -> bool)
         H defsch st commits qual now g (share_of : bytes -> scalar) m signers,
  recover_validity scalar point msg psig sig pub_of eval sign_part recover vfy ->
  dkg_contract scalar point pub_of eval st qual commits share_of ->
  finish_dkg H defsch time_buffer_bits rounds_until_transition st commits qual now = Ok g ->
  incl signers (g_nodes g) -> NoDup (map n_index signers) ->
  (length (g_public g) <= length signers)%nat ->
  exists sg,
    recover (g_public g) m
            (map (fun nd => sign_part (n_index nd) (share_of (n_key nd)) m) signers)
            (Z.of_nat (length (g_public g))) = Some sg /\
    vfy (hd [] (g_public g)) m sg = true.
Proof. intros. eapply finish_dkg_threshold_signing; eassumption. Qed.
Print Assumptions C06_threshold_signing.

(* ---- every other field is a copy of the signed proposal terms ---- *)

Theorem C06_terms_agree : forall H defsch st commits idxs tt g,
  as_group H defsch st commits idxs tt = Ok g ->
  g_id g = st_beacon_id st /\ g_threshold g = st_threshold st /\ g_period g = st_period st /\
  g_scheme g = eff_scheme defsch st /\ g_catchup g = st_catchup st /\
  g_genesis_time g = st_genesis_time st /\ g_transition_time g = tt /\ g_public g = commits /\
  (st_genesis_seed st <> [] -> g_genesis_seed g = st_genesis_seed st) /\
  (st_genesis_seed st = [] -> exists nodes,
      g_genesis_seed g = H (group_hash_input (pre_seed_group defsch st commits nodes tt)) /\
      g_nodes g = sort_nodes_by_index nodes).
Proof.
  intros H defsch st commits idxs tt g Hg. apply as_group_inv in Hg.
  destruct Hg as [_ [nodes (_ & E1 & E2 & E3 & E4 & E5 & E6 & E7 & E8 & Hs)]].
  repeat (split; [assumption|]).
  destruct Hs as [(Hne & Es & _)|(He & Es & En)]; split; intros; try contradiction; auto.
  exists nodes. auto.
Qed.
Print Assumptions C06_terms_agree.

(* nothing is taken from the previous epoch's group, the epoch number or the Remaining/Joining
   split: replacing them leaves the group unchanged *)
Theorem C06_previous_group_not_read : forall H defsch st commits idxs tt fg ep,
  as_group H defsch (mkS (st_beacon_id st) ep (st_threshold st) (st_scheme st) (st_scheme_ok st)
                         (st_genesis_time st) (st_genesis_seed st) (st_catchup st) (st_period st)
                         (st_remaining st) (st_joining st) fg) commits idxs tt
  = as_group H defsch st commits idxs tt.
Proof. exact as_group_frame. Qed.
Print Assumptions C06_previous_group_not_read.

(* ---- transition time (F15) ---- *)

Definition in_domain (st : dstate) (now : Z) : Prop :=
  dom_p (st_period st) /\ dom_g (st_genesis_time st) /\ dom_t (st_genesis_time st) now.

(* the statement as the property wants it: any two completion instants give the same value *)
Definition C06_transition_agree_full : Prop := forall st now1 now2,
  in_domain st now1 -> in_domain st now2 ->
  transition_time time_buffer_bits rounds_until_transition now1 st =
  transition_time time_buffer_bits rounds_until_transition now2 st.

(* refuted by the faithful model: a resharing (epoch 2, period 30 s) that one node completes at
   second 59 of the chain and another at second 60 *)
Theorem C06_transition_agree_refuted : ~ C06_transition_agree_full.
Proof.
  intros Hf.
  specialize (Hf (mkS [] 2 2 [] true 1000 [1] 15 30 [] [] None) 1059 1060).
  assert (D : forall now, 1000 <= now <= 2000 -> in_domain (mkS [] 2 2 [] true 1000 [1] 15 30 [] [] None) now).
  { intros now Hn. unfold in_domain, dom_p, dom_g, dom_t; cbn. lia. }
  specialize (Hf (D 1059 ltac:(lia)) (D 1060 ltac:(lia))). vm_compute in Hf. discriminate.
Qed.
Print Assumptions C06_transition_agree_refuted.

(* what does hold (carve-out: the two instants lie in the same round, or it is the first epoch):
   instants bracketed by the same round give the same transition time *)
Theorem C06_transition_time : forall st now1 now2 r,
  in_domain st now1 -> in_domain st now2 -> 1 <= r -> r + 1 < two64 ->
  time_of_round time_buffer_bits (st_period st) (st_genesis_time st) r <= now1
     < time_of_round time_buffer_bits (st_period st) (st_genesis_time st) (r + 1) ->
  time_of_round time_buffer_bits (st_period st) (st_genesis_time st) r <= now2
     < time_of_round time_buffer_bits (st_period st) (st_genesis_time st) (r + 1) ->
  transition_time time_buffer_bits rounds_until_transition now1 st =
  transition_time time_buffer_bits rounds_until_transition now2 st.
Proof.
  intros st now1 now2 r (Hp1 & Hg1 & Ht1) (_ & _ & Ht2) Hr1 Hr2 B1 B2.
  apply transition_time_same_round.
  rewrite <- (current_round_unique time_buffer_bits now1 _ _ r) by (try reflexivity; assumption).
  rewrite <- (current_round_unique time_buffer_bits now2 _ _ r) by (try reflexivity; assumption).
  reflexivity.
Qed.
Print Assumptions C06_transition_time.

Theorem C06_transition_time_first_epoch : forall st now1 now2, st_epoch st = 1 ->
  transition_time time_buffer_bits rounds_until_transition now1 st =
  transition_time time_buffer_bits rounds_until_transition now2 st.
Proof. intros. rewrite !transition_time_epoch1 by assumption. reflexivity. Qed.
Print Assumptions C06_transition_time_first_epoch.

(* exactly when two nodes disagree: a resharing whose completion instants straddle a round
   boundary; the transition times then differ by one period per boundary crossed *)
Theorem C06_transition_skew : forall st now1 now2,
  in_domain st now1 -> in_domain st now2 -> st_epoch st <> 1 ->
  (transition_time time_buffer_bits rounds_until_transition now1 st <>
   transition_time time_buffer_bits rounds_until_transition now2 st
   <-> current_round now1 (st_period st) (st_genesis_time st) <>
       current_round now2 (st_period st) (st_genesis_time st)) /\
  transition_time time_buffer_bits rounds_until_transition now2 st -
  transition_time time_buffer_bits rounds_until_transition now1 st =
  (current_round now2 (st_period st) (st_genesis_time st) -
   current_round now1 (st_period st) (st_genesis_time st)) * st_period st.
Proof.
  intros st now1 now2 (Hp & Hg & H1) (_ & _ & H2) He.
  destruct C06_consts as [Eb Hr]. rewrite Eb. split.
  - apply transition_skew_iff; assumption.
  - apply transition_skew_amount; assumption.
Qed.
Print Assumptions C06_transition_skew.

(* ---- the whole statement for two nodes completing the same DKG ---- *)

Theorem C06_agreement : forall H defsch s1 s2 commits q1 q2 now1 now2 g1,
  Permutation (all_participants s1) (all_participants s2) ->
  NoDup (map p_key (all_participants s1)) -> same_terms s1 s2 -> st_epoch s1 = st_epoch s2 ->
  Permutation q1 q2 -> NoDup q1 ->
  same_round_or_first s1 now1 now2 ->       (* the carve-out of C06_transition_agree_refuted *)
  finish_dkg H defsch time_buffer_bits rounds_until_transition s1 commits q1 now1 = Ok g1 ->
  exists g2, finish_dkg H defsch time_buffer_bits rounds_until_transition s2 commits q2 now2 = Ok g2 /\
    Permutation (g_nodes g1) (g_nodes g2) /\
    g_id g1 = g_id g2 /\ g_threshold g1 = g_threshold g2 /\ g_period g1 = g_period g2 /\
    g_scheme g1 = g_scheme g2 /\ g_catchup g1 = g_catchup g2 /\
    g_genesis_time g1 = g_genesis_time g2 /\ g_genesis_seed g1 = g_genesis_seed g2 /\
    g_transition_time g1 = g_transition_time g2 /\ g_public g1 = g_public g2 /\
    group_hash_input g1 = group_hash_input g2 /\
    (st_genesis_seed s1 = [] -> g1 = g2).
Proof. intros H defsch s1 s2 commits q1 q2 now1 now2 g1. apply finish_dkg_agreement. Qed.
Print Assumptions C06_agreement.

(* ---- aliasing of the in-place sort (F12, dropped as a defect) ---- *)

Theorem C06_sort_in_place_is_permutation : forall rem join out,
  sorted_by_key (rem ++ join) out ->
  Permutation rem (remaining_after_sort rem join out) /\
  (NoDup (map p_key (rem ++ join)) ->
   sort_by_key (remaining_after_sort rem join out ++ join) = sort_by_key (rem ++ join)).
Proof.
  intros rem join out Hs. split; [eapply sort_in_place_is_permutation; exact Hs|].
  intros Hnd. apply sort_in_place_harmless; assumption.
Qed.
Print Assumptions C06_sort_in_place_is_permutation.

(* ---- echo broadcast: delivery through direct send or re-send ---- *)

(* With the loop shapes the engine reads from internal/dkg/broadcast.go on every run
   ([shape_ok], the DEcho correspondence case): every participant other than the node itself is a
   target both of the node's own bundles and of its re-send of any bundle it sees for the first
   time.  Hence a bundle received by ONE node R is relayed to EVERY other participant S, whatever
   happened to the origin's direct transmission to S. *)
Theorem C06_echo_delivery : forall s sorted R S,
  shape_ok s = true -> In S sorted -> p_addr S <> p_addr R ->
  In S (echo_targets s sorted (p_addr R)) /\ In S (direct_targets s sorted (p_addr R)).
Proof. exact echo_delivery. Qed.
Print Assumptions C06_echo_delivery.

(* and the obligation is needed: a re-send loop that stops one sender short never reaches the
   participant with the largest key *)
Theorem C06_echo_needs_all_senders :
  exists sorted R S, In S sorted /\ p_addr S <> p_addr R /\
    ~ In S (echo_targets (mkD true (AllButLast 1) AllSenders) sorted (p_addr R)).
Proof.
  exists [mkP [1] [1] [] true; mkP [2] [2] [] true; mkP [3] [3] [] true],
         (mkP [2] [2] [] true), (mkP [3] [3] [] true).
  split; [right; right; left; reflexivity|]. split; [discriminate|].
  vm_compute. intros [H|[]]. discriminate.
Qed.
Print Assumptions C06_echo_needs_all_senders.

(* ---- phase duration ---- *)

(* With the phaser built from config.TimeBetweenDKGPhases (read from the source on every run,
   [phaser_ok], the DPhaser correspondence case) every bundle that arrives within the configured
   phase duration is processed in its phase, whatever the kick-off grace period is. *)
Theorem C06_phase_window : forall src c delay,
  phaser_ok src = true -> 0 <= delay < t_phase c -> arrives_in_phase src c delay = true.
Proof. exact phase_window. Qed.
Print Assumptions C06_phase_window.

(* and the obligation is needed: a phaser built from the grace period (drand's defaults: 5 s and
   10 s) drops a bundle that arrives after 7 s of a 10 s phase *)
Theorem C06_phase_needs_configured_duration :
  exists c delay, 0 <= delay < t_phase c /\ arrives_in_phase PhKickoffGracePeriod c delay = false.
Proof. exists (mkT 10 5), 7. split; [cbn; lia|reflexivity]. Qed.
Print Assumptions C06_phase_needs_configured_duration.

(* ---- non-vacuity ---- *)

Definition ex_pA := mkP [97] [9; 1] [1] true.
Definition ex_pB := mkP [98] [3; 200] [2] true.
Definition ex_pC := mkP [99] [3] [3] true.
Definition ex_s1 := mkS [100] 2 2 [] true 1000 [7; 7] 15 30 [ex_pA; ex_pB] [ex_pC] None.
Definition ex_s2 := mkS [100] 2 2 [] true 1000 [7; 7] 15 30 [ex_pC] [ex_pB; ex_pA] None.
Definition ex_H (h : hash_input) : bytes := [Z.of_nat (length (h_nodes h)); h_threshold h].

(* premises of C06_order_independent / C06_agreement are met by concrete states whose lists are
   ordered differently, with QUAL seen in different orders, and the result is a real group *)
Example C06_nonvacuous_order :
  Permutation (all_participants ex_s1) (all_participants ex_s2) /\
  NoDup (map p_key (all_participants ex_s1)) /\ same_terms ex_s1 ex_s2 /\
  Permutation [2; 0; 1] [0; 1; 2] /\ NoDup [2; 0; 1] /\
  same_round_or_first ex_s1 1031 1059 /\
  dkg_nodes ex_s1 = Ok [(0, [3]); (1, [3; 200]); (2, [9; 1])] /\
  finish_dkg ex_H [112] time_buffer_bits rounds_until_transition ex_s1 [[5]; [6]] [2; 0; 1] 1031 =
    Ok (mkG [100] 2 30 [112] 15 1000 [7; 7] 1330
            [mkN 2 [9; 1] [97] [1]; mkN 0 [3] [99] [3]; mkN 1 [3; 200] [98] [2]] [[5]; [6]]) /\
  finish_dkg ex_H [112] time_buffer_bits rounds_until_transition ex_s2 [[5]; [6]] [0; 1; 2] 1059 =
    Ok (mkG [100] 2 30 [112] 15 1000 [7; 7] 1330
            [mkN 0 [3] [99] [3]; mkN 1 [3; 200] [98] [2]; mkN 2 [9; 1] [97] [1]] [[5]; [6]]).
Proof.
  split.
  { cbn. apply Permutation_sym.
    apply (perm_trans (l' := [ex_pB; ex_pC; ex_pA])); [apply perm_swap|].
    apply (perm_trans (l' := [ex_pB; ex_pA; ex_pC])); [apply perm_skip, perm_swap|apply perm_swap]. }
  split.
  { cbn. repeat constructor; cbn; intuition discriminate. }
  split; [repeat split|].
  split.
  { apply (perm_trans (l' := [0; 2; 1])); [apply perm_swap|apply perm_skip, perm_swap]. }
  split.
  { repeat constructor; cbn; intuition discriminate. }
  split; [right; vm_compute; reflexivity|].
  repeat split; vm_compute; reflexivity.
Qed.

(* epoch 1: seed derived from the group hash, node list sorted by index whatever QUAL's order *)
Example C06_nonvacuous_first_epoch :
  finish_dkg ex_H [112] time_buffer_bits rounds_until_transition
    (mkS [100] 1 2 [120] true 1000 [] 15 30 [] [ex_pA; ex_pB; ex_pC] None) [[5]; [6]] [2; 0] 5 =
  Ok (mkG [100] 2 30 [120] 15 1000 [2; 2] 1000 [mkN 0 [3] [99] [3]; mkN 2 [9; 1] [97] [1]] [[5]; [6]]).
Proof. vm_compute. reflexivity. Qed.

(* the skew premise is reachable: same state, two instants one second apart *)
Example C06_nonvacuous_skew :
  in_domain ex_s1 1059 /\ in_domain ex_s1 1060 /\ st_epoch ex_s1 <> 1 /\
  transition_time time_buffer_bits rounds_until_transition 1059 ex_s1 = 1330 /\
  transition_time time_buffer_bits rounds_until_transition 1060 ex_s1 = 1360.
Proof.
  unfold in_domain, dom_p, dom_g, dom_t. cbn [ex_s1 st_period st_genesis_time st_epoch].
  repeat split; try lia; try (vm_compute; reflexivity); try (vm_compute; discriminate).
Qed.

(* the interface hypotheses of C06_threshold_signing are satisfiable (symbolic instance: a
   signature is the message, a share is its own public image) and its premises are met by the
   group above *)
Example C06_nonvacuous_signing :
  let pub_of := fun s : Z => s in
  let eval := fun (c : list bytes) (i : Z) => Z.of_nat (length c) * 1000 + i in
  let sign_part := fun (i s m : Z) => (i, s, m) in
  let recover := fun (c : list bytes) (m : Z) (ps : list (Z * Z * Z)) (t : Z) =>
                   if Z.of_nat (length ps) >=? t then Some m else None in
  let vfy := fun (k : bytes) (m sg : Z) => m =? sg in
  let share_of := fun k : bytes =>
       if bytes_eqb k [3] then 2000 else if bytes_eqb k [3; 200] then 2001 else 2002 in
  recover_validity Z Z Z (Z * Z * Z) Z pub_of eval sign_part recover vfy /\
  dkg_contract Z Z pub_of eval ex_s1 [0; 1; 2] [[5]; [6]] share_of /\
  exists g, finish_dkg ex_H [112] time_buffer_bits rounds_until_transition ex_s1 [[5]; [6]] [0; 1; 2] 1031 = Ok g /\
            (length (g_public g) <= length (g_nodes g))%nat /\ NoDup (map n_index (g_nodes g)).
Proof.
  cbv zeta. split; [|split].
  - intros commits m shares _ Hlen _. exists m. rewrite map_length.
    destruct (Z.geb_spec (Z.of_nat (length shares)) (Z.of_nat (length commits))); [|lia].
    split; [reflexivity|apply Z.eqb_refl].
  - intros nn i k Hnn Hq Hn. vm_compute in Hnn. inversion Hnn; subst nn; clear Hnn.
    destruct Hq as [<-|[<-|[<-|[]]]]; vm_compute in Hn; inversion Hn; subst; vm_compute; reflexivity.
  - eexists. split; [vm_compute; reflexivity|]. cbn. split; [lia|].
    repeat constructor; cbn; intuition discriminate.
Qed.
