(* C09 — DKG control messages are accepted only from the member they claim to be from.
   Property theorems only; proofs are in Proofs/DKGSignProofs.v.  [verify] is an abstract signature
   check (AuthScheme.Verify on the unmarshalled key); joiner_ok / key_ok are the identity and key
   oracles of Model/DKGState.v.  Nothing is assumed about them: the theorems say WHICH key, WHICH
   message bytes and WHICH sender the code checks. *)
From Coq Require Import ZArith List Bool.
From DV Require Import Gen.DKGTable Model.DKGState Model.DKGSign Proofs.DKGStateProofs Proofs.DKGSignProofs.
Import ListNotations.
Open Scope Z_scope.

Section C09.
  Variable verify : bytes -> bytes -> bytes -> bool.
  Variable joiner_ok : bytes -> participant -> bool.
  Variable key_ok : bytes -> bool.
  Variable me : participant.
  Variable B : bytes.
  Notation pkstep := (ppacket_step verify joiner_ok key_ok me B).

  (* C09_signed_by_named: a gossip packet changes the store only if (i) its metadata signature
     verifies, on the bytes message_for_signing computes from the packet and the terms of the state
     BEING APPLIED, under the key which those terms list (Remaining ++ Joining) for metadata.Address,
     and (ii) the sender is entitled: the named leader for proposals and aborts; the acceptor /
     rejector itself, a remaining member; the leader for execute (also for nodes listed as leaving,
     see C09_execute_leader). *)
  Theorem C09_signed_by_named : forall now s p s' o,
    pkstep now s p = (s', o) -> s' <> s ->
    exists md next signer,
      gp_md p = Some md /\ current s' = Some next
      /\ find_by_addr (st_remaining next ++ st_joining next) (md_addr md) = Some signer
      /\ key_ok (p_key signer) = true
      /\ verify (p_key signer) (message_for_signing (md_beacon md) (gp_body p) (terms_from_state next)) (md_sig md) = true
      /\ role_ok (effective B s) (gp_body p) md next.
  Proof. intros; unfold ppacket_step in *; eapply signed_by_named; eassumption. Qed.

  (* operator commands never consult a signature; only packets do (commands are local) *)

  (* C09_terms_covered: under unambiguous framing (no newline inside strings, all participant
     signatures of the scheme's fixed length L, uint32 integers, representable instants) the signed
     bytes determine every term that is written *)
  Theorem C09_terms_covered : forall L beacon body t1 t2, wf_terms L t1 -> wf_terms L t2 ->
    message_for_signing beacon body t1 = message_for_signing beacon body t2 -> written t1 = written t2.
  Proof.
    intros L beacon body t1 t2 W1 W2 H. unfold message_for_signing in H.
    do 4 apply app_inv_head in H. eapply msg_terms_injective; eassumption.
  Qed.

  (* C09_unsigned_fields: the terms that are NOT written - every participant's KEY and the genesis
     seed: two term sets that agree on [written] give the same bytes *)
  Theorem C09_unsigned_fields : forall beacon body t1 t2,
    written t1 = written t2 -> message_for_signing beacon body t1 = message_for_signing beacon body t2.
  Proof. intros beacon body t1 t2 H. unfold message_for_signing. rewrite (msg_terms_only_written _ _ H). reflexivity. Qed.

  (* C09_fresh_caveat: a node without any group (base state Fresh) necessarily takes keys from the
     packet; what IS guaranteed: every joiner identity is validly self-signed for the proposed
     scheme, the sender is the named leader, and the signature verifies under the key the packet
     lists for the leader's address *)
  Theorem C09_fresh_caveat : forall now s p s' o t,
    pkstep now s p = (s', o) -> s' <> s -> gp_body p = PProposal t -> effective B s = fresh B ->
    forallb (joiner_ok (t_scheme t)) (t_joining t) = true
    /\ exists md l signer, gp_md p = Some md /\ t_leader t = Some l /\ p_addr l = md_addr md
         /\ find_by_addr (filter non_empty (t_remaining t) ++ filter non_empty (t_joining t)) (md_addr md) = Some signer
         /\ verify (p_key signer)
              (message_for_signing (md_beacon md) (gp_body p)
                 (terms_from_state (new_state_from (fresh B) t Proposed (t_genesis_seed t)))) (md_sig md) = true.
  Proof.
    intros now s p s' o t H N Hb E. unfold ppacket_step in H.
    destruct (packet_accept_inv _ _ _ _ _ _ _ _ _ _ H N) as (md & next & Hmd & HB & A & V & C & F).
    rewrite Hb, E in A. simpl in A. destruct (proposed_inv _ _ _ _ _ _ _ A) as [VP ->].
    split; [eapply validate_proposal_joiners; eassumption|].
    destruct (verify_message_ok _ _ _ _ _ Hmd V) as (signer & Fd & K & Vf).
    pose proof (apply_role joiner_ok me now (fresh B) (PProposal t) md _ A) as [l [L1 L2]].
    exists md, l, signer. repeat split; auto.
  Qed.

  (* members: for a node with a completed epoch the (address, key) pairs of remaining+leaving must
     equal the group's, and packets other than proposals are checked against the keys already stored
     in the node's own state *)
  Theorem C09_partial_addresses : forall now s p s' o t g,
    pkstep now s p = (s', o) -> s' <> s -> gp_body p = PProposal t ->
    st_state (effective B s) <> Fresh -> t_epoch t <> 1 -> st_final_group (effective B s) = Some g ->
    contains_all_ak (g_nodes g) (t_remaining t ++ t_leaving t) = true
    /\ contains_all_ak (t_remaining t ++ t_leaving t) (g_nodes g) = true.
  Proof.
    intros now s p s' o t g H N Hb NF E G. unfold ppacket_step in H.
    destruct (packet_accept_inv _ _ _ _ _ _ _ _ _ _ H N) as (md & next & Hmd & HB & A & V & C & F).
    rewrite Hb in A. simpl in A. destruct (proposed_inv _ _ _ _ _ _ _ A) as [VP _].
    eapply validate_proposal_addresses; eassumption.
  Qed.

  (* C09_members_authenticate_proposals (full statement for proposals, proved since the F7 fix): a
     node whose base state carries a group (state not Fresh) accepts a reshare proposal only if its
     signature verifies under the key RECORDED IN THAT GROUP for the sender's address (group
     addresses being distinct), not under a key supplied by the packet *)
  Theorem C09_members_authenticate_proposals : forall now s p s' o t g md n,
    pkstep now s p = (s', o) -> s' <> s -> gp_md p = Some md -> gp_body p = PProposal t ->
    st_state (effective B s) <> Fresh -> t_epoch t <> 1 -> st_final_group (effective B s) = Some g ->
    unique_keys g -> In n (g_nodes g) -> p_addr n = md_addr md ->
    exists next, current s' = Some next
      /\ verify (p_key n) (message_for_signing (md_beacon md) (gp_body p) (terms_from_state next)) (md_sig md) = true.
  Proof. intros; unfold ppacket_step in *; eapply member_proposal_keys; eassumption. Qed.

  (* C09_partial: what holds for EVERY accepted packet at a node with a finished record: the key used
     is the one the applied terms list for the sender; for proposals those (address, key) pairs are
     the group's; for the other packets they are the ones stored in the node's own state *)
  Theorem C09_partial : forall now s p s' o f g md,
    inv s -> finished s = Some f -> st_final_group f = Some g ->
    pkstep now s p = (s', o) -> s' <> s -> gp_md p = Some md ->
    exists next signer, current s' = Some next
      /\ find_by_addr (st_remaining next ++ st_joining next) (md_addr md) = Some signer
      /\ verify (p_key signer) (message_for_signing (md_beacon md) (gp_body p) (terms_from_state next)) (md_sig md) = true
      /\ (forall t, gp_body p = PProposal t -> effective B s = f -> t_epoch t <> 1 ->
            contains_all_ak (g_nodes g) (t_remaining t ++ t_leaving t) = true
            /\ contains_all_ak (t_remaining t ++ t_leaving t) (g_nodes g) = true)
      /\ ((forall t, gp_body p <> PProposal t) ->
            st_remaining next = st_remaining (effective B s) /\ st_joining next = st_joining (effective B s)).
  Proof.
    intros now s p s' o f g md I F G H N Hmd. unfold ppacket_step in H.
    destruct (signed_by_named _ _ _ _ _ _ _ _ _ _ H N) as (md' & next & signer & Hmd' & C & Fd & K & V & R).
    rewrite Hmd in Hmd'; inversion Hmd'; subst md'.
    exists next, signer. repeat split; auto.
    - destruct (packet_accept_inv _ _ _ _ _ _ _ _ _ _ H N) as (md2 & next2 & _ & _ & A & _ & _ & _).
      rewrite H0, H1 in A. simpl in A. destruct (proposed_inv _ _ _ _ _ _ _ A) as [VP _].
      destruct I as [I1 _]. destruct (I1 f F) as [S _].
      eapply validate_proposal_addresses; try eassumption. rewrite S; discriminate.
    - destruct (packet_accept_inv _ _ _ _ _ _ _ _ _ _ H N) as (md2 & next2 & _ & _ & A & _ & _ & _).
      rewrite H0, H1 in A. simpl in A. destruct (proposed_inv _ _ _ _ _ _ _ A) as [VP _].
      destruct I as [I1 _]. destruct (I1 f F) as [S _].
      eapply validate_proposal_addresses; try eassumption. rewrite S; discriminate.
    - destruct (packet_accept_inv _ _ _ _ _ _ _ _ _ _ H N) as (md2 & next2 & _ & _ & A & _ & C2 & _).
      assert (next2 = next) by congruence. subst next2.
      eapply non_proposal_keeps_lists; eassumption.
    - destruct (packet_accept_inv _ _ _ _ _ _ _ _ _ _ H N) as (md2 & next2 & _ & _ & A & _ & C2 & _).
      assert (next2 = next) by congruence. subst next2.
      eapply non_proposal_keeps_lists; eassumption.
  Qed.

  (* C09_remaining_entry_takes_precedence: a joining-list entry that re-uses the ADDRESS of a remaining
     member (a validly self-signed "shadow": self-signatures do not cover the address) can never be
     the key a packet is checked against: whenever the applied terms list a remaining member with the
     sender's address, the signature verifies under the key of an entry of the REMAINING list *)
  Theorem C09_remaining_entry_takes_precedence : forall p md t,
    gp_md p = Some md -> has_addr (t_remaining t) (md_addr md) = true ->
    verify_message verify key_ok p t = None ->
    exists signer, In signer (t_remaining t) /\ p_addr signer = md_addr md
      /\ verify (p_key signer) (message_for_signing (md_beacon md) (gp_body p) t) (md_sig md) = true.
  Proof. intros; eapply remaining_entry_takes_precedence; eassumption. Qed.

  (* C09_accepted_joiners_self_signed: whatever the node's state, an accepted proposal packet stores
     only joining entries that are validly self-signed (under their OWN stored key) for the stored
     scheme - every entry of the list, not just some: the key of a joiner is thereby tied to the
     leader-signed (address, self-signature) pair *)
  Theorem C09_accepted_joiners_self_signed : forall now s p s' o t,
    pkstep now s p = (s', o) -> s' <> s -> gp_body p = PProposal t ->
    exists next, current s' = Some next
      /\ (forall j, In j (st_joining next) -> joiner_ok (st_scheme next) j = true)
      /\ (forall j, In j (t_joining t) -> joiner_ok (t_scheme t) j = true).
  Proof. intros; unfold ppacket_step in *; eapply accepted_joiners_self_signed; eassumption. Qed.

  Theorem C09_partial_stored_keys : forall now s p s' o,
    pkstep now s p = (s', o) -> s' <> s -> (forall t, gp_body p <> PProposal t) ->
    exists next, current s' = Some next
      /\ st_remaining next = st_remaining (effective B s) /\ st_joining next = st_joining (effective B s).
  Proof.
    intros now s p s' o H N NP. unfold ppacket_step in H.
    destruct (packet_accept_inv _ _ _ _ _ _ _ _ _ _ H N) as (md & next & Hmd & HB & A & V & C & F).
    exists next. split; auto. eapply non_proposal_keeps_lists; eassumption.
  Qed.
End C09.

Print Assumptions C09_signed_by_named.
Print Assumptions C09_terms_covered.
Print Assumptions C09_unsigned_fields.
Print Assumptions C09_fresh_caveat.
Print Assumptions C09_members_authenticate_proposals.
Print Assumptions C09_partial.
Print Assumptions C09_partial_addresses.
Print Assumptions C09_remaining_entry_takes_precedence.
Print Assumptions C09_accepted_joiners_self_signed.
Print Assumptions C09_partial_stored_keys.

(* ---------- concrete witnesses ---------- *)
(* a symbolic signature scheme for the witnesses: keys are 4 bytes, a signature by key k is k
   followed by a nonce *)
Definition sym_verify (pk m s : bytes) : bool := bytes_eqb (firstn 4 s) pk.
Definition all_j (_ : bytes) (_ : participant) : bool := true.
Definition all_k (_ : bytes) : bool := true.
Definition w_sch : bytes := hd [] known_schemes.
Definition w_B : bytes := [100].
Definition w_a : participant := mkP [97] [1; 1; 1; 1] [31].
Definition w_b : participant := mkP [98] [2; 2; 2; 2] [32].
Definition w_c : participant := mkP [99] [3; 3; 3; 3] [33].
Definition w_x_as_a : participant := mkP [97] [9; 9; 9; 9] [39].     (* address of a, key of the attacker *)
Definition w_step := pstep sym_verify all_j all_k w_b w_B.
Definition w_run := prun sym_verify all_j all_k w_b w_B.
Definition w_pkt (addr key : bytes) (nonce : Z) (body : pkt) : Z * event :=
  (0, EvPacket (mkGp (Some (mkMd w_B addr (key ++ [nonce]))) body)).
Definition w_cmd (c : cmd) : Z * event := (0, EvCommand (mkCmd (Some w_B) c [7; 7; 7; 7] false)).
Definition w_terms1 : terms := mkT w_B 2 1 1000 (Some w_a) 5 30 w_sch 0 [] [w_a; w_b; w_c] [] [].
Definition w_group : group := mkG [w_a; w_b; w_c] 2 0 [9].
(* node b takes part in epoch 1 led by a, and completes it *)
Definition w_epoch1 : list (Z * event) :=
  [w_pkt [97] [1; 1; 1; 1] 1 (PProposal w_terms1); w_cmd (CJoin JNone);
   w_pkt [97] [1; 1; 1; 1] 2 (PExecute 0); (0, EvFinish (Some (w_group, [1])))].
Definition w_s1 : store := Eval vm_compute in w_run init_store w_epoch1.

(* F7: the attacker proposes epoch 2 under a's ADDRESS with its own KEY, signed with its own key *)
Definition w_terms_f7 : terms := mkT w_B 2 2 1000 (Some w_x_as_a) 5 30 w_sch 0 [9] [] [w_x_as_a; w_b; w_c] [].
Definition w_f7 : Z * event := w_pkt [97] [9; 9; 9; 9] 1 (PProposal w_terms_f7).

(* regression witness for F7 (the full statement used to be refuted by it): the forged proposal is
   refused and the store is unchanged, while the same proposal with a's real key, signed by a, is
   accepted *)
Definition w_terms_ok : terms := mkT w_B 2 2 1000 (Some w_a) 5 30 w_sch 0 [9] [] [w_a; w_b; w_c] [].
Example C09_f7_witness :
  (st_state (get_current w_B w_s1), st_epoch (get_current w_B w_s1)) = (Complete, 1)
  /\ w_step w_s1 w_f7 = (w_s1, Rej ERemainingAndLeavingMustExist)
  /\ (let '(s', o) := w_step w_s1 (w_pkt [97] [1; 1; 1; 1] 5 (PProposal w_terms_ok)) in
      (o, st_state (get_current w_B s'), st_epoch (get_current w_B s'))) = (OK, Proposed, 2).
Proof. vm_compute. repeat split; reflexivity. Qed.

(* the role rule for Execute holds in full since the leader check was moved before the leaver's
   shortcut in DBState.Executing (fixed: it used to be refuted for nodes listed as leaving) *)
Theorem C09_execute_leader :
  forall verify joiner_ok key_ok me B s now p s' o md time,
    ppacket_step verify joiner_ok key_ok me B now s p = (s', o) -> s' <> s ->
    gp_md p = Some md -> gp_body p = PExecute time ->
    exists l, st_leader (effective B s) = Some l /\ md_addr md = p_addr l.
Proof.
  intros verify joiner_ok key_ok me B s now p s' o md time H N Hmd Hb. unfold ppacket_step in H.
  destruct (signed_by_named _ _ _ _ _ _ _ _ _ _ H N) as (md' & next & signer & Hmd' & _ & _ & _ & _ & R).
  rewrite Hmd in Hmd'; inversion Hmd'; subst md'. rewrite Hb in R. exact R.
Qed.
Print Assumptions C09_execute_leader.

(* regression witness (kept from the time the statement was refuted): epoch 2 led by a with c
   leaving; at node c the proposal is accepted, then b (a remaining member, not the leader) sends
   Execute signed with b's key: refused, c stays Proposed; the leader's Execute moves c to Left *)
Definition w_terms2 : terms := mkT w_B 2 2 1000 (Some w_a) 5 30 w_sch 0 [9] [] [w_a; w_b] [w_c].
Definition w_run_c := prun sym_verify all_j all_k w_c w_B.
Definition w_step_c := pstep sym_verify all_j all_k w_c w_B.
Definition w_s1c : store := Eval vm_compute in w_run_c init_store w_epoch1.
Definition w_s2c : store := Eval vm_compute in w_run_c w_s1c [w_pkt [97] [1; 1; 1; 1] 3 (PProposal w_terms2)].
Definition w_exec_by_b : Z * event := w_pkt [98] [2; 2; 2; 2] 1 (PExecute 0).
Definition w_exec_by_a : Z * event := w_pkt [97] [1; 1; 1; 1] 4 (PExecute 0).

Example C09_execute_witness :
  st_state (get_current w_B w_s2c) = Proposed
  /\ (let '(s', o) := w_step_c w_s2c w_exec_by_b in (o, st_state (get_current w_B s'))) = (Rej EOnlyLeaderCanExecute, Proposed)
  /\ (let '(s', o) := w_step_c w_s2c w_exec_by_a in (o, st_state (get_current w_B s'))) = (OK, Left).
Proof. vm_compute. repeat split; reflexivity. Qed.

(* shadow joiner (regression example): the epoch-2 terms re-use a's address in the joining list under
   the attacker's key; a proposal claiming a but signed with the planted key is refused, a's own is
   accepted *)
Definition w_terms_shadow : terms :=
  mkT w_B 3 2 1000 (Some w_a) 5 30 w_sch 0 [9] [w_x_as_a] [w_a; w_b; w_c] [].
Example C09_shadow_witness :
  snd (w_step w_s1 (w_pkt [97] [9; 9; 9; 9] 2 (PProposal w_terms_shadow))) = Rej ESigInvalid
  /\ snd (w_step w_s1 (w_pkt [97] [1; 1; 1; 1] 6 (PProposal w_terms_shadow))) = OK.
Proof. vm_compute. split; reflexivity. Qed.

(* joiner-key swap (regression example): with an identity oracle that accepts exactly the genuine
   entries, replacing the key of the FIRST of three joiners (address and self-signature kept) is
   refused although the last joiner is fine *)
Definition genuine_j (_ : bytes) (p : participant) : bool :=
  existsb (equal_participant p) [w_a; w_b; w_c].
Definition w_terms1_swapped : terms :=
  mkT w_B 2 1 1000 (Some w_a) 5 30 w_sch 0 [] [w_a; mkP [98] [9; 9; 9; 9] [32]; w_c] [] [].
Example C09_joiner_key_swap_witness :
  snd (pstep sym_verify genuine_j all_k w_b w_B init_store (w_pkt [97] [1; 1; 1; 1] 1 (PProposal w_terms1))) = OK
  /\ snd (pstep sym_verify genuine_j all_k w_b w_B init_store (w_pkt [97] [1; 1; 1; 1] 1 (PProposal w_terms1_swapped)))
     = Rej EInvalidKeyScheme.
Proof. vm_compute. split; reflexivity. Qed.

(* framing caveat: without the fixed-length assumption the bytes do NOT determine the terms - a
   signer can produce one signature for two different participant lists *)
Example C09_framing_caveat :
  let sig_long := [1; 2] ++ [nl] ++ s_remainer ++ [98] ++ [nl] ++ s_sig ++ [3; 4] in
  let t1 := mkT w_B 2 2 1000 (Some w_a) 5 30 w_sch 0 [] [] [mkP [97] [1] sig_long] [] in
  let t2 := mkT w_B 2 2 1000 (Some w_a) 5 30 w_sch 0 [] [] [mkP [97] [1] [1; 2]; mkP [98] [2] [3; 4]] [] in
  msg_terms t1 = msg_terms t2 /\ written t1 <> written t2.
Proof. split; [vm_compute; reflexivity|vm_compute; discriminate]. Qed.

(* non-vacuity, with a symbolic scheme whose signatures depend on the message (signature by key k
   on m = k ++ m): the honestly signed proposal is accepted; the same signature on terms with an
   altered threshold, or presented under another sender, is refused; so is a signature by another key *)
Definition sym2_verify (pk m s : bytes) : bool := bytes_eqb s (pk ++ m).
Definition w_stored1 : terms := terms_from_state (new_state_from (fresh w_B) w_terms1 Proposed []).
Definition w_sig1 (key : bytes) : bytes := key ++ message_for_signing w_B (PProposal w_terms1) w_stored1.
Definition w_terms1_thr3 : terms := mkT w_B 3 1 1000 (Some w_a) 5 30 w_sch 0 [] [w_a; w_b; w_c] [] [].
Definition w_try (addr sig : bytes) (t : terms) : outcome :=
  snd (pstep sym2_verify all_j all_k w_b w_B init_store (0, EvPacket (mkGp (Some (mkMd w_B addr sig)) (PProposal t)))).
Example C09_nonvacuous :
  w_try [97] (w_sig1 [1; 1; 1; 1]) w_terms1 = OK
  /\ w_try [97] (w_sig1 [1; 1; 1; 1]) w_terms1_thr3 = Rej ESigInvalid
  /\ w_try [98] (w_sig1 [1; 1; 1; 1]) w_terms1 = Rej ECannotProposeAsNonLeader
  /\ w_try [97] (w_sig1 [2; 2; 2; 2]) w_terms1 = Rej ESigInvalid
  /\ map (fun s => st_state (get_current w_B s)) (trace all_j all_k (verify_message sym_verify all_k) w_b w_B init_store w_epoch1)
     = [Proposed; Joined; Executing; Complete].
Proof. vm_compute. repeat split; reflexivity. Qed.
