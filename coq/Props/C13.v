(* C13 - A crash at any point leaves a restartable, self-consistent node.
   Property theorems only; proofs are in Proofs/CrashProofs.v. The order / transaction structure of
   the persistence calls comes from Gen/CrashShape.v, regenerated from the Go sources on every
   run; the theorems about histories are stated over runs built from that shape. *)
From Coq Require Import ZArith List Bool.
From DV Require Import Model.Crash Proofs.CrashProofs Gen.CrashShape Gen.SaveFlags.
Import ListNotations.
Open Scope Z_scope.

(* obligation tied to the source: SaveCurrent is one transaction on the staged bucket; SaveFinished
   is ONE transaction writing the finished and the staged bucket; storeDKGOutput saves the group
   file, then the share file; Reset removes the group, then the share; executeAndFinishDKG commits
   the database before handing the result over; a beacon Put is one transaction with one Put;
   key.Save writes a temporary file completely and renames it over the target; callbackStore.Put writes through the
   underlying store first (an error returns at once) and only then hands the beacon to the callbacks. *)
Theorem C13_shape_obligation : crash_shape = expected_shape.
Proof. reflexivity. Qed.
Print Assumptions C13_shape_obligation.

(* obligation tied to the source (key.Save and its two writers): a target that is absent or a
   regular file - the group file, the share file and the key pair files of the node folder are
   nothing else - is written aside completely (Encode, Sync, Close) and renamed into place; the
   writer that truncates its target in place is reachable only for a target that exists and is NOT
   a regular file (symlink, device such as /dev/stdout, pipe: `--out` of the CLI), which is not
   part of the node folder this model is about *)
Theorem C13_key_files_replaced_atomically :
  save_in_place = false /\ save_atomic_rename = true /\ save_in_place_only_non_regular = true /\
  sh_save_in_place crash_shape = save_in_place.
Proof. repeat split; reflexivity. Qed.
Print Assumptions C13_key_files_replaced_atomically.

(* ---------------- chain store ---------------- *)

(* for every recovered (gap-free) chain database, every list of attempted Puts in the following
   lifetime and every crash point k: the database is again a gap-free chain from round 0, it
   extends the previous one, and it contains exactly the beacons whose transaction completed
   (so in particular every beacon that was served, since serving reads the database) *)
Theorem C13_chain : forall chained s bs k,
  gapfree (chain s) = true ->
  let run := lifetime_ops chained (chain s) bs in
  let s' := crash (CAfter k) run s in
  gapfree (chain s') = true /\
  chain s' = chain s ++ beacons_of (firstn k run) /\
  cur s' = cur s /\ fin s' = fin s /\ gfile s' = gfile s /\ sfile s' = sfile s.
Proof. exact chain_crash_safe. Qed.
Print Assumptions C13_chain.

(* any number of lifetimes, each ended by a crash anywhere *)
Theorem C13_chain_restarts : forall chained ls s,
  gapfree (chain s) = true ->
  gapfree (chain (lifetimes chained s ls)) = true /\
  exists suffix, chain (lifetimes chained s ls) = chain s ++ suffix.
Proof. exact chain_lifetimes_safe. Qed.
Print Assumptions C13_chain_restarts.

(* chained scheme: the previous-signature links survive as well *)
Theorem C13_chain_linked : forall s bs k,
  gapfree (chain s) = true -> linked (chain s) = true ->
  linked (chain (crash (CAfter k) (lifetime_ops true (chain s) bs) s)) = true.
Proof. exact chain_crash_linked. Qed.
Print Assumptions C13_chain_linked.

(* "containing every beacon it had already served": beacons leave the node through the callbacks
   of the callback store (PublicRandStream, SyncChain, the node's own hooks). For every chain
   database a lifetime starts from, every list of Puts offered to the store stack and every crash
   point k between the visible events (committed write / hand-over to the callbacks): every beacon
   already handed to a callback is in the database the restart finds - stated over the order of
   callbackStore.Put read from the source *)
Theorem C13_served_persisted : forall chained c0 last bs k,
  served_persisted c0
    (firstn k (cb_attempts (sh_cb_write_first crash_shape) chained last bs)) = true.
Proof. rewrite C13_shape_obligation. exact served_persisted_write_first. Qed.
Print Assumptions C13_served_persisted.

(* and those writes are exactly the transactions C13_chain speaks about *)
Theorem C13_served_writes_are_chain_txs : forall chained bs last,
  written (cb_attempts (sh_cb_write_first crash_shape) chained last bs) =
  beacons_of (attempt_ops chained last bs).
Proof. rewrite C13_shape_obligation. exact cb_written_is_attempt_ops. Qed.
Print Assumptions C13_served_writes_are_chain_txs.

(* the obligation is not idle: with the dispatch first, a crash between the hand-over and the
   commit leaves a served beacon that no restart finds *)
Example C13_dispatch_first_loses_served_beacon :
  served_persisted [mkB 0 0 0] (firstn 1 (cb_attempts false true (mkB 0 0 0) [mkB 1 11 0])) = false /\
  served_persisted [mkB 0 0 0] (firstn 2 (cb_attempts true true (mkB 0 0 0) [mkB 1 11 0])) = true /\
  served (firstn 2 (cb_attempts true true (mkB 0 0 0) [mkB 1 11 0])) = [mkB 1 11 0].
Proof. vm_compute. repeat split; reflexivity. Qed.

(* ---------------- DKG database ---------------- *)

(* for every history and every crash point, dkg.db holds exactly what it holds after some whole
   number of events: no crash point exposes a half-applied SaveFinished *)
Theorem C13_dkgdb_atomic : forall evs s cp,
  exists j, (j <= length evs)%nat /\
    dk (crash cp (expand_all crash_shape evs) s) = dkg_after (dk s) (firstn j evs).
Proof.
  rewrite C13_shape_obligation. intros evs s [k|k].
  - apply dkgdb_event_atomic.
  - rewrite dk_crash_torn. apply dkgdb_event_atomic.
Qed.
Print Assumptions C13_dkgdb_atomic.

(* for every well-formed history and every crash point (torn ones included): the completed record
   is absent or one whole epoch (status Complete, its own group and share), and the staged record
   is that same record or a state staged on top of it (next epoch, carrying the completed epoch's
   group and share) - never older than the completed record *)
Theorem C13_dkgdb : forall evs cp,
  wf_hist 0 false evs = true ->
  let s := crash cp (expand_all crash_shape evs) empty_state in
  (fin s = None \/ exists r, fin s = Some r /\ complete_rec r = true) /\
  (cur s = fin s \/
   exists r, cur s = Some r /\ d_status r <> st_complete /\
     match fin s with
     | None => d_epoch r = 1 /\ d_group r = 0 /\ d_share r = 0
     | Some f => d_epoch r = d_epoch f + 1 /\ d_group r = d_epoch f /\ d_share r = d_epoch f
     end).
Proof. rewrite C13_shape_obligation. exact dkgdb_whole. Qed.
Print Assumptions C13_dkgdb.

(* ---------------- database + group file + share file ---------------- *)

(* the statement of the property: after a crash ANYWHERE the group file and the share belong to
   one and the same epoch, namely the latest epoch dkg.db records as completed, and the node
   restarts without repair *)
Definition C13_files_full : Prop :=
  forall evs cp, wf_hist 0 false evs = true ->
    files_consistent (crash cp (expand_all crash_shape evs) empty_state) = true.

Definition r1 : drec := mkD 1 st_complete 1 1.
Definition r2 : drec := mkD 2 st_complete 2 2.
Definition staged2 : drec := mkD 2 6 1 1.            (* Executing, epoch 2, on top of epoch 1 *)
Definition left2 : drec := mkD 2 st_left 1 1.
Definition reshare_hist : list event := [EvComplete r1; EvStage staged2; EvComplete r2].
(* operations of reshare_hist: 0 db(e1) 1-3 group: temp create, temp write, rename 4-6 share: same
   7 db(staged) 8 db(e2) 9-11 group 12-14 share *)

(* the faithful model REFUTES it. Witness (i): crash right after SaveFinished of the resharing *)
Theorem C13_files_refuted : ~ C13_files_full.
Proof.
  intro H. specialize (H reshare_hist (CAfter 9) eq_refl). vm_compute in H. discriminate.
Qed.
Print Assumptions C13_files_refuted.

(* the two remaining crash classes, each with its witness and what the restart does *)
Theorem C13_witness_db_ahead :                       (* (i) database says e+1, files are e *)
  let s := crash (CAfter 9) (expand_all crash_shape reshare_hist) empty_state in
  class_db_ahead s = true /\ files_consistent s = false /\
  fin s = Some r2 /\ node_restart s = RRunning 1 1 /\
  (* first DKG: record present, no files at all: the restart fails with ErrDKGNotStarted *)
  let s1 := crash (CAfter 1) (expand_all crash_shape [EvComplete r1]) empty_state in
  class_db_ahead s1 = true /\ node_restart s1 = RFailNoGroup.
Proof. vm_compute. repeat split; reflexivity. Qed.
Print Assumptions C13_witness_db_ahead.

Theorem C13_witness_epoch_mismatch :                 (* (ii) group e+1 with share e, silently running *)
  let s := crash (CAfter 12) (expand_all crash_shape reshare_hist) empty_state in
  class_epoch_mismatch s = true /\ files_consistent s = false /\ node_restart s = RRunning 2 1.
Proof. vm_compute. repeat split; reflexivity. Qed.
Print Assumptions C13_witness_epoch_mismatch.

(* (iii) is gone: key.Save writes the text aside and renames it into place. For every history
   (well-formed or not) and every crash point - torn writes of the temporary file included - the
   group file and the share are each absent or a COMPLETE text: never empty, never cut *)
Theorem C13_no_torn_key_file : forall evs cp,
  class_torn (crash cp (expand_all crash_shape evs) empty_state) = false /\
  clean_state (crash cp (expand_all crash_shape evs) empty_state) = true.
Proof. rewrite C13_shape_obligation. exact no_torn_key_file. Qed.
Print Assumptions C13_no_torn_key_file.

(* a leaving node that dies inside Reset: the group file goes first, so the node is left exactly as
   a completed Reset leaves it as far as any loader can tell (no group file = left) *)
Example C13_leaver_reset_crash_consistent :
  let run := expand_all crash_shape [EvComplete r1; EvStage left2; EvLeave] in
  (* operations 8 and 9 are the two removals: crash before, between and after them *)
  forallb (fun k => files_consistent (crash (CAfter k) run empty_state) &&
                    negb (class_half_reset (crash (CAfter k) run empty_state))) [8; 9; 10]%nat = true /\
  gfile (crash (CAfter 9) run empty_state) = FAbsent /\
  sfile (crash (CAfter 9) run empty_state) = FFull 1 /\
  (* the half-done Reset restarts exactly like the completed one *)
  node_restart (crash (CAfter 9) run empty_state) = node_restart (crash (CAfter 10) run empty_state).
Proof. vm_compute. repeat split; reflexivity. Qed.

(* regression: the witnesses of the two repaired findings, on the shape the code had before
   (key.Save in place, Reset removing the share first) *)
Example C13_regression_torn_and_half_reset :
  let run := expand_all pre_fix_shape reshare_hist in
  let t := crash (CTorn 8) run empty_state in
  let e := crash (CAfter 8) run empty_state in
  let sh := crash (CTorn 10) run empty_state in
  class_torn t = true /\ node_restart t = RFailNoGroup /\
  class_torn e = true /\ node_restart e = RFailNoGroup /\
  class_torn sh = true /\ node_restart sh = RFailShare /\
  let l := crash (CAfter 7) (expand_all pre_fix_shape [EvComplete r1; EvStage left2; EvLeave]) empty_state in
  class_half_reset l = true /\ files_consistent l = false /\ node_restart l = RFailShare /\
  crash_shape <> pre_fix_shape.
Proof. vm_compute. repeat split; try reflexivity. discriminate. Qed.

(* what does hold, with the carve-out spelled out: at every event boundary (i.e. for every crash
   point that is not strictly inside the persistence sequence of one DKG completion or one key
   store reset) the triple is consistent and the node restarts *)
Theorem C13_files_partial : forall evs j,
  wf_hist 0 false evs = true ->
  files_consistent (apply_ops empty_state (expand_all crash_shape (firstn j evs))) = true.
Proof.
  rewrite C13_shape_obligation. intros evs j W.
  apply (files_consistent_at_boundaries (firstn j evs) 0 false empty_state).
  - apply wf_hist_firstn, W.
  - apply files_inv_empty.
Qed.
Print Assumptions C13_files_partial.

(* and the carve-out is exactly the two named classes: every crash point of every well-formed
   history (torn writes included) is either consistent or falls in class (i) or (ii) *)
Theorem C13_files_classified : forall evs cp,
  wf_hist 0 false evs = true ->
  classified (crash cp (expand_all crash_shape evs) empty_state) = true.
Proof.
  rewrite C13_shape_obligation. intros evs cp W.
  apply (files_classified evs 0 false empty_state cp W files_inv_empty).
Qed.
Print Assumptions C13_files_classified.

(* storeDKGOutput makes no destructive key-store call: its calls, as read from the source, are Saves only *)
Theorem C13_store_output_non_destructive : store_output_non_destructive crash_shape = true.
Proof. reflexivity. Qed.
Print Assumptions C13_store_output_non_destructive.

(* for the write order of the real code no crash point of any well-formed history removes a file
   of the previous epoch before the node has left: once an epoch >= 2 is recorded as completed,
   both key files exist (possibly being rewritten in place - the recorded classes (ii)/(iii)) *)
Theorem C13_previous_pair_never_removed : forall evs cp,
  wf_hist 0 false evs = true ->
  class_prev_destroyed (crash cp (expand_all crash_shape evs) empty_state) = false.
Proof.
  rewrite C13_shape_obligation. intros evs cp W.
  apply (prev_pair_never_destroyed evs 0 false empty_state cp W files_inv_empty).
Qed.
Print Assumptions C13_previous_pair_never_removed.

(* the obligation is not idle: with a Reset in front of the Saves, a crash right after it (or
   between its two removals) leaves nothing of the previous epoch and the restart fails *)
Example C13_reset_before_saves_destroys_previous_pair :
  let sh := mkShape [[BCurrent]] [[BFinished; BCurrent]] [KReset; KSave KGroup; KSave KShare] [KShare; KGroup] true [[1]] true true in
  let run := expand_all sh reshare_hist in
  store_output_non_destructive sh = false /\
  class_prev_destroyed (crash (CAfter 11) run empty_state) = true /\
  node_restart (crash (CAfter 11) run empty_state) = RFailNoGroup /\
  class_prev_destroyed (crash (CAfter 10) run empty_state) = true /\
  node_restart (crash (CAfter 10) run empty_state) = RFailShare /\
  class_prev_destroyed (crash (CAfter 9) run empty_state) = false.
Proof. vm_compute. repeat split; reflexivity. Qed.

(* ---------------- non-vacuity ---------------- *)

Example C13_nonvacuous :
  wf_hist 0 false reshare_hist = true /\
  wf_hist 0 false [EvComplete r1; EvStage left2; EvLeave] = true /\
  (* the complete run of the history ends consistent, on epoch 2 *)
  files_consistent (apply_ops empty_state (expand_all crash_shape reshare_hist)) = true /\
  node_restart (apply_ops empty_state (expand_all crash_shape reshare_hist)) = RRunning 2 2 /\
  (* a chain of 3 rounds, a lifetime that attempts a duplicate, a gap and two good beacons, cut
     after the first transaction *)
  (let s := mkS [mkB 0 0 0; mkB 1 11 0; mkB 2 12 11] None None FAbsent FAbsent in
   gapfree (chain s) = true /\ linked (chain s) = true /\
   map b_round (chain (crash (CAfter 1)
     (lifetime_ops true (chain s) [mkB 2 12 11; mkB 5 15 14; mkB 3 13 12; mkB 4 14 13]) s)) = [0; 1; 2; 3] /\
   length (lifetime_ops true (chain s) [mkB 2 12 11; mkB 5 15 14; mkB 3 13 12; mkB 4 14 13]) = 2%nat).
Proof. vm_compute. repeat split; reflexivity. Qed.
