(* C07 — Resharing keeps the chain's identity and continuity.
   Models: Model/Reshare.v (validateGroupTransition, chain info; tied by the reshare engine),
   Model/Node.v (TransitionNewGroup, vault switch, partial acceptance; tied by the node engine,
   whose scenarios include transitions to groups of other sizes and thresholds with partials
   signed by shares of either epoch).  Proofs in Proofs/ReshareProofs.v and Proofs/NodeProofs.v. *)
From Coq Require Import ZArith List Bool Lia.
From DV Require Import Model.Time Model.Node Model.Reshare Proofs.NodeProofs Proofs.ReshareProofs Gen.Consts.
Import ListNotations.
Open Scope Z_scope.

(* Identity: over ANY history of resharing attempts (successful outputs of any shape, outputs
   that fail validation, failed / aborted / timed-out ceremonies, in any order and number), what
   clients pin -- period, genesis time, distributed public key, genesis seed, canonical beacon id
   and scheme -- never changes, provided each ceremony's output keeps the key and the scheme
   (kyber's resharing keeps the constant term: the old share and public coefficients are fed to
   it; the leader's proposal copies the scheme; both are premises, not theorems, see DESIGN). *)
Theorem C07_identity : forall es cur, history_ok cur es ->
  chain_info (fold_left reshare_step es cur) = chain_info cur.
Proof. exact identity_preserved. Qed.
Print Assumptions C07_identity.

(* a resharing output that changes genesis time, period, id or seed, or whose transition time
   is already past, is never adopted *)
Theorem C07_bad_output_ignored : forall cur g now,
  (gi_genesis g <> gi_genesis cur \/ gi_period g <> gi_period cur \/
   canon_id (gi_id g) <> canon_id (gi_id cur) \/ gi_seed g <> gi_seed cur \/ gi_transition g < now) ->
  reshare_step cur (ROutput g now) = cur.
Proof. exact bad_output_ignored. Qed.
Print Assumptions C07_bad_output_ignored.

(* A node that joins through a RESHARING (epoch >= 2: the chain is running) always starts its
   beacon loop, in catch-up mode, whenever the output arrives and whether or not the node has a
   finished key generation of its own on record: no halted round for want of the joiners.  Only
   after the INITIAL key generation is the beacon started from scratch, and that start refuses
   once the genesis time has passed.  (Model/Reshare.v join_runs; compared with a real fresh
   BeaconProcess handed such outputs through onDKGCompleted by the reshareapply engine.) *)
Theorem C07_joiner_of_resharing_starts : forall epoch genesis now,
  2 <= epoch -> join_runs epoch genesis now = true.
Proof.
  intros epoch genesis now H. unfold join_runs, join_mode.
  destruct (epoch =? 1) eqn:E; [apply Z.eqb_eq in E; lia|reflexivity].
Qed.
Theorem C07_initial_start_needs_future_genesis : forall genesis now,
  join_runs 1 genesis now = true <-> now <= genesis.
Proof. intros genesis now. unfold join_runs, join_mode. cbn. apply Z.leb_le. Qed.
Print Assumptions C07_joiner_of_resharing_starts.
Print Assumptions C07_initial_start_needs_future_genesis.

(* the scheme and the key are NOT compared by validateGroupTransition (observation: a Byzantine
   leader is outside C07's quantifier; remaining members' dkg validation is C08/C09) *)
Example C07_scheme_unchecked :
  validate_transition (Some (mkGI 1 3 1 5 7 0 0 2 [])) (Some (mkGI 1 3 1 5 8 1 100 2 [])) 50 = VtOk.
Proof. reflexivity. Qed.

Section C07_node.
  Variable C : cfg.
  Variable idx_of : Z -> Z.
  Variable vpart : Z -> Z -> Z -> Z -> bool.
  Variable recov : Z -> Z -> Z -> list Z -> Z -> option Z.
  Variable vrec : Z -> Z -> Z -> bool.
  Variable own_psig : Z -> Z -> Z -> Z.
  Hypothesis vrec_unchained : c_chained C = false -> forall r p p' s, vrec r p s = vrec r p' s.

  (* Continuity: across any number of transitions (and everything else that can happen), the
     chain is only ever extended by one verified, linked round at a time: no gap, no fork
     (fork-freedom between nodes is C02_net_agree, whose event lists include transitions). *)
  Theorem C07_continuity : forall s es s' os,
    s_chain s <> [] -> chain_ok C vrec (s_chain s) ->
    run C idx_of vpart recov vrec own_psig s es = (s', os) ->
    chain_ok C vrec (s_chain s') /\ exists added, s_chain s' = added ++ s_chain s.
  Proof. exact (chain_gapfree_appendonly C idx_of vpart recov vrec own_psig vrec_unchained). Qed.

  (* The vault switches exactly when the last pre-transition round is stored: apart from an
     explicit TransitionNewGroup or a restart (which reloads the latest group from disk), the
     live group after a step is [settle] of the beacons stored by that step -- the pending group
     once a stored round has reached the target, the old group before. *)
  Theorem C07_switch_exact : forall s e s' o,
    (forall t g, e <> ETransition t g) -> (forall sy, e <> ERestart sy) ->
    step C idx_of vpart recov vrec own_psig s e = (s', o) ->
    (s_grp s', s_pending s') = settle (s_grp s) (s_pending s) (proj_puts o).
  Proof. exact (step_tracks C idx_of vpart recov vrec own_psig). Qed.

  (* a failed or aborted resharing (no TransitionNewGroup) leaves the old group in place whatever
     else happens *)
  Theorem C07_failed_keeps_old : forall s e s' o,
    s_pending s = None -> (forall t g, e <> ETransition t g) -> (forall sy, e <> ERestart sy) ->
    step C idx_of vpart recov vrec own_psig s e = (s', o) -> s_grp s' = s_grp s /\ s_pending s' = None.
  Proof.
    intros s e s' o Hp Ht Hr H. pose proof (step_tracks C idx_of vpart recov vrec own_psig s e s' o Ht Hr H) as T.
    unfold tracks, gp in T. rewrite Hp in T.
    assert (forall g l, settle g None l = (g, None)) by (intros g l; induction l; simpl; auto).
    rewrite H0 in T. inversion T; auto.
  Qed.

  (* From the switch on only shares of the live (new) group count: whatever ProcessPartialBeacon
     lets through verifies against the live group's polynomial and comes from an index of the
     live group; a partial made with a share of the previous group (a remaining member's old
     share or a leaver's) is refused unless it happens to verify under the new polynomial. *)
  Theorem C07_only_live_shares : forall s r p sg s' o,
    process_partial C idx_of vpart recov vrec s r p sg = (s', o) -> ~ In OReject o ->
    b_round (head s) < r ->
    memb (idx_of sg) (g_members (s_grp s)) = true /\ vpart (g_poly (s_grp s)) r p sg = true.
  Proof.
    intros s r p sg s' o H Hn Hr.
    destruct (process_partial_filter C idx_of vpart recov vrec s r p sg s' o H Hn Hr) as [_ [_ [A [_ B]]]]. auto.
  Qed.
End C07_node.
Print Assumptions C07_continuity.
Print Assumptions C07_switch_exact.
Print Assumptions C07_failed_keeps_old.
Print Assumptions C07_only_live_shares.

(* non-vacuity: a transition to a (3,3) group at round 2: the partial of the old share is
   accepted before round 1 is stored and refused afterwards *)
Definition y_C := mkCfg true 3 1000 2 partial_cache_store_limit.
Definition y_vpart (P r _ sg : Z) := ((sg / 1000) mod 1000 =? r) && ((sg mod 10) =? P).
Definition y_run es :=
  snd (run y_C (fun sg => sg / 1000000) y_vpart
           (fun P r _ sigs t => if t <=? Z.of_nat (length sigs) then Some r else None)
           (fun r _ s => s =? r) (fun P r _ => 0 * 1000000 + r * 1000 + P)
           (init 1000 0 (mkG 0 2 [0; 1; 2] 0)) es).
Example C07_nonvacuous :
  y_run [ETransition 1 (mkG 1 3 [0; 1; 2] 0); ETick 1 None; EPart 1 0 1001000; EPart 2 1 1002000; EPart 2 1 1002001]
  = [[]; [OEmit 1 0 1000 1000]; [OPut (mkB 1 0 1)]; [OReject]; []].
Proof. vm_compute. reflexivity. Qed.

(* ---------- system level, over the composed model Model/Net.v (see Props/C04.v for the model) ----------
   Resharing in the composed system: any honest node may at any time be handed a new group of
   another sharing (ETransition: own threshold, own adversarial indices, fewer than that
   threshold), and switches when a round at or beyond the target is stored.  In every reachable
   state every honest chain is still ONE valid chain from the ONE genesis (gap-free, linked,
   every beacon verifying under the unchanged group key) -- and by C02_system_agree all honest
   chains agree, whichever nodes have switched and whichever have not; by C03_system_threshold
   every beacon was contributed by a threshold of ONE sharing, never a mix of two epochs. *)
From Coq Require Import ZArith List Bool Lia.
From DV Require Import Model.Time Model.Node Model.Net Proofs.TimeProofs Proofs.NodeProofs Proofs.NetProofs Gen.Consts.
Import ListNotations.
Open Scope Z_scope.
Section C07_system.
  Variable C : cfg.
  Variable idx_of : Z -> Z.
  Variable vpart : Z -> Z -> Z -> Z -> bool.
  Variable recov : Z -> Z -> Z -> list Z -> Z -> option Z.
  Variable vrec : Z -> Z -> Z -> bool.
  Variable own_of : Z -> Z -> Z -> Z -> Z.
  Hypothesis vrec_unchained : c_chained C = false -> forall r p p' s, vrec r p s = vrec r p' s.
  Hypothesis recov_sound : forall P r p sigs t s, recov P r p sigs t = Some s ->
    exists I, incl I sigs /\ NoDup (map idx_of I) /\ t <= Z.of_nat (length I) /\
              forall x, In x I -> vpart P r p x = true.
  Hypothesis Hp : dom_p (c_period C).
  Hypothesis Hg : dom_g (c_genesis C).
  Variable thr_of : Z -> Z.
  Variable F_of : Z -> list Z.
  Hypothesis F_small : forall P, Z.of_nat (length (F_of P)) < thr_of P.
  Variable gen : beacon.
  Hypothesis gen_round : b_round gen = 0.

  Theorem C07_system_continuity : forall y0 gs,
    sys_inv C idx_of vpart vrec thr_of F_of gen y0 ->
    gadm_run C idx_of vpart recov vrec own_of thr_of F_of y0 gs ->
    let y := grun C idx_of vpart recov vrec own_of y0 gs in
    forall s, In s (y_nodes y) ->
      chain_ok C vrec (s_chain s) /\ genesis_of (s_chain s) = gen /\ grp_ok thr_of s.
  Proof.
    exact (run_continuity C idx_of vpart recov vrec own_of vrec_unchained recov_sound Hp Hg thr_of F_of gen).
  Qed.
End C07_system.
Print Assumptions C07_system_continuity.

(* non-vacuity: a (4,3) group reshared to a (3,2) group of another sharing (poly 1); the nodes are
   handed the new group before round 1 is stored, switch when it is, and round 2 is produced with
   the NEW threshold (own partial + one other) -- an admissible run of the system model *)
Definition c7_C := mkCfg true 4 1000 2 partial_cache_store_limit.
Definition c7_idx (sg : Z) := sg / 100.
Definition c7_vpart (_ r p sg : Z) := (sg mod 100 =? r) && (p =? r - 1).
Definition c7_recov (_ r p : Z) (sigs : list Z) (t : Z) :=
  if t <=? Z.of_nat (length (nodup Z.eq_dec (map c7_idx (filter (fun sg => sg mod 100 =? r) sigs)))) then Some r else None.
Definition c7_vrec (r p s : Z) := (s =? r) && (p =? r - 1).
Definition c7_own (me _ r _ : Z) := me * 100 + r.
Definition c7_thr (P : Z) := if P =? 0 then 3 else 2.
Definition c7_init := init_sys (mkB 0 (-1) 0) 1000 [mkG 0 3 [0; 1; 2; 3] 0; mkG 0 3 [0; 1; 2; 3] 1; mkG 0 3 [0; 1; 2; 3] 2].
Definition c7_events : list gevent :=
  [GNode 0 (ETransition 1 (mkG 1 2 [0; 1; 2] 0)); GNode 1 (ETransition 1 (mkG 1 2 [0; 1; 2] 1));
   GNode 2 (ETransition 1 (mkG 1 2 [0; 1; 2] 2));
   GNode 0 (ETick 1 None); GNode 1 (ETick 1 None); GNode 2 (ETick 1 None);
   GDeliver 0 (1, 0, 101); GDeliver 0 (1, 0, 201); GDeliver 1 (1, 0, 1); GDeliver 1 (1, 0, 201);
   GDeliver 2 (1, 0, 1); GDeliver 2 (1, 0, 101);
   GClock 4; GNode 0 (ETick 2 None); GNode 1 (ETick 2 None); GNode 2 (ETick 2 None);
   GDeliver 0 (2, 1, 102); GDeliver 1 (2, 1, 2); GDeliver 2 (2, 1, 2)].
Example C07_system_nonvacuous :
  gadm_run c7_C c7_idx c7_vpart c7_recov c7_vrec c7_own c7_thr (fun _ => [3]) c7_init c7_events /\
  map (fun s => (b_round (head s), g_poly (s_grp s)))
      (y_nodes (grun c7_C c7_idx c7_vpart c7_recov c7_vrec c7_own c7_init c7_events)) = [(2, 1); (2, 1); (2, 1)].
Proof.
  split; [|vm_compute; reflexivity].
  unfold c7_events, gadm_run, gadm, ev_ok, stream_ok, okgrp.
  repeat match goal with
  | |- _ /\ _ => split
  | |- forall bs, None = Some bs -> _ => intros ? Hx; discriminate Hx
  | |- True => exact I
  end; try (vm_compute; tauto); try (vm_compute; intuition congruence).
Qed.
