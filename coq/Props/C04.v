(* C04 — Unpredictability: no honest partial for a round before that round's time.
   Node-local theorems over Model/Node.v (tied to the real beacon.Handler by the node engine);
   proofs in Proofs/NodeProofs.v. The acceptance tolerance and the store window constant come
   from the generated Gen/Consts.v. *)
From Coq Require Import ZArith List Bool Lia.
From DV Require Import Model.Time Model.Node Proofs.TimeProofs Proofs.NodeProofs Proofs.NetTime Gen.Consts.
Import ListNotations.
Open Scope Z_scope.

(* (round, clock) of every partial released along a run *)
Definition proj_emits_all (os : list (list out)) : list (Z * Z) :=
  flat_map (fun x => match x with OEmit r _ _ n => [(r, n)] | _ => [] end) (concat os).

Section C04.
  Variable C : cfg.
  Variable idx_of : Z -> Z.
  Variable vpart : Z -> Z -> Z -> Z -> bool.
  Variable recov : Z -> Z -> Z -> list Z -> Z -> option Z.
  Variable vrec : Z -> Z -> Z -> bool.
  Variable own_psig : Z -> Z -> Z -> Z.

  (* It refuses partials for rounds more than one round ahead of its clock: in every state, for
     every packet (any signer, any bytes), a round beyond next_round(now) is rejected and
     nothing changes. *)
  Theorem C04_accept : forall s r p sg,
    fst (next_round (s_now s) (c_period C) (c_genesis C)) < r ->
    process_partial C idx_of vpart recov vrec s r p sg = (s, [OReject]).
  Proof. exact (future_partial_rejected C idx_of vpart recov vrec). Qed.

  (* Every partial the node releases -- on a tick of ANY round (also a stale one, consumed after a
     stall longer than a period), by a woken catch-up sleeper, after a restart, across a group
     transition, with a chain behind, level with or AHEAD of its clock -- is for a round that is at
     most the current round of the node's own clock at the moment of release: for EVERY state and
     EVERY event list, without any premise.  (Before the fix: commit recorded in
     known_findings.txt this needed "the stored head is not ahead of the own clock when a tick is
     handled and ticks are not stale", and the unconditional statement was refuted; the witnesses
     are kept below as regression examples.) *)
  Theorem C04_emissions_never_early :
    forall es s s' os,
      run C idx_of vpart recov vrec own_psig s es = (s', os) ->
      forall r p sg n, In (OEmit r p sg n) (all_outs os) ->
        r <= current_round n (c_period C) (c_genesis C).
  Proof. exact (run_emits_timely C idx_of vpart recov vrec own_psig). Qed.

  (* one step, any state *)
  Theorem C04_step_never_early : forall s e s' o,
    step C idx_of vpart recov vrec own_psig s e = (s', o) ->
    forall r p sg n, In (OEmit r p sg n) o -> r <= current_round n (c_period C) (c_genesis C).
  Proof. exact (step_emits_timely C idx_of vpart recov vrec own_psig). Qed.
End C04.
Print Assumptions C04_accept.
Print Assumptions C04_emissions_never_early.
Print Assumptions C04_step_never_early.

(* a round at or below the clock's current round has a scheduled time at or before the clock *)
Theorem C04_round_le_current_is_timely : forall now p g r,
  dom_p p -> dom_g g -> dom_t g now -> 1 <= r <= current_round now p g ->
  time_of_round time_buffer_bits p g r <= now.
Proof. intros now p g r. exact (round_le_current_timely time_buffer_bits now p g r eq_refl). Qed.
Print Assumptions C04_round_le_current_is_timely.

(* Once genesis has passed on the node's own clock, "at most the current round" IS "the round's
   time has come": every partial released by a step taken at a clock reading n >= genesis is for a
   round whose scheduled time is at or before n. *)
Theorem C04_emission_time_has_come :
  forall (C : cfg) idx_of vpart recov vrec own_psig s e s' o,
    step C idx_of vpart recov vrec own_psig s e = (s', o) ->
    forall r p sg n, In (OEmit r p sg n) o -> 1 <= r ->
      dom_p (c_period C) -> dom_g (c_genesis C) -> dom_t (c_genesis C) n ->
      time_of_round time_buffer_bits (c_period C) (c_genesis C) r <= n.
Proof.
  intros C idx_of vpart recov vrec own_psig s e s' o Hs r p sg n Hin Hr Hp Hg Ht.
  apply C04_round_le_current_is_timely; try assumption. split; [exact Hr|].
  exact (C04_step_never_early C idx_of vpart recov vrec own_psig s e s' o Hs r p sg n Hin).
Qed.
Print Assumptions C04_emission_time_has_come.

(* ... and along EVERY run: each partial released at a clock reading n at or after genesis is for a
   round whose scheduled time is at or before n (the reading is carried by the emission itself). *)
Theorem C04_run_emission_times_have_come :
  forall (C : cfg) idx_of vpart recov vrec own_psig es s s' os,
    run C idx_of vpart recov vrec own_psig s es = (s', os) ->
    dom_p (c_period C) -> dom_g (c_genesis C) ->
    forall r p sg n, In (OEmit r p sg n) (all_outs os) -> 1 <= r -> dom_t (c_genesis C) n ->
      time_of_round time_buffer_bits (c_period C) (c_genesis C) r <= n.
Proof.
  intros C idx_of vpart recov vrec own_psig es s s' os Hrun Hp Hg r p sg n Hin Hr Ht.
  apply C04_round_le_current_is_timely; try assumption. split; [exact Hr|].
  exact (C04_emissions_never_early C idx_of vpart recov vrec own_psig es s s' os Hrun r p sg n Hin).
Qed.
Print Assumptions C04_run_emission_times_have_come.

(* Before genesis nothing is signed because no tick reaches the handler: Model/Ticker.v
   (internal/chain/beacon/ticker.go).  A tick is stamped with a reading of the node's own clock
   and goes only to channels whose start time is not after the stamp; the handler registers its
   channel at genesis (Start) or at the time of the next round (Catchup).  For EVERY run of the
   ticker -- the clock may stall or jump forward, the timers that wake the ticker need not be in
   step with it, ticks may be consumed late -- a tick delivered to the handler carries a time
   between genesis and the clock reading at delivery, its round is the current round of that
   time, and that round's scheduled time is not after the clock.  (Tied to the real ticker by the
   ticker engine: hook VerifTickerAt, fake clock whose wall time can stall while its timers run.) *)
From DV Require Import Model.Ticker Proofs.TickerProofs.
Theorem C04_handler_ticks_timely : forall p g es s s' out,
  dom_p p -> dom_g g ->
  krun p g s es = (s', out) -> chans_ok (fun a => g <= a) s es ->
  forall d now, In (d, now) out -> now - g <= 2 ^ 50 ->
    g <= tk_time d /\ tk_time d <= now /\ 1 <= tk_round d /\
    time_of_round time_buffer_bits p g (tk_round d) <= now.
Proof. exact handler_ticks_timely. Qed.
Print Assumptions C04_handler_ticks_timely.

(* non-vacuity: period 3, genesis 1000, the handler's channel starts at genesis.  The timer armed
   for genesis fires while the node's clock, which stalled for 2 s, still reads 998: nothing is
   delivered.  The next tick is consumed at 1001 and announces round 1; a tick stamped 1004 and
   consumed late, at 1009, announces round 2 with its own stamp. *)
Example C04_ticker_nonvacuous :
  snd (krun 3 1000 (mkTk 990 [1000]) [KClock 998; KFire 1000; KClock 1001; KFire 1001; KClock 1009; KFire 1004])
  = [(mkTick 0 1 1001, 1001); (mkTick 0 2 1004, 1009)].
Proof. vm_compute. reflexivity. Qed.

(* System level: with FEWER than a threshold of corrupted or fast-clocked members (the set F), in
   every reachable state of the abstract network (any schedule of clock advances, adversarial
   partials for any round at any time, honest partials signed under the node-local rule proved
   above, and Recover events that need partials of t distinct members) no beacon of a future
   round exists anywhere and no honest accurately-clocked member has signed a round before its
   time.  In particular no honest head is ever ahead of the clock, which is the premise of
   C04_emissions_not_early_partial.  The honest rule of this network (NHonest) is literally the
   disjunction that theorem gives: the signed round is at most the current round, unless the
   stored head (a beacon that exists) is ahead of the clock.  cr is any monotone current-round
   function (C16 gives monotonicity of the real one: current_round_mono). *)
Theorem C04_net_no_future_round : forall (cr : Z -> Z) (F : list Z) (t : Z),
  (forall a b, a <= b -> cr a <= cr b) -> Z.of_nat (length F) < t ->
  forall s s', inv cr F s -> reach cr F t s s' -> inv cr F s'.
Proof. intros cr F t Hm Hf s s'. exact (no_future_beacon cr Hm F t Hf s s'). Qed.
Print Assumptions C04_net_no_future_round.

Definition nv_cr (T : Z) := T / 4 + 1.
Definition nv0 := mkNet 0 [] [].
Definition nv1 := mkNet 0 [(7, 9)] [].
Definition nv2 := mkNet 4 [(7, 9)] [].
Definition nv3 := mkNet 4 [(7, 2); (7, 9)] [].
Definition nv4 := mkNet 4 [(1, 2); (7, 2); (7, 9)] [].
Definition nv5 := mkNet 4 [(1, 2); (7, 2); (7, 9)] [2].
Example C04_net_nonvacuous : inv nv_cr [7] nv0 /\ reach nv_cr [7] 2 nv0 nv5.
Proof.
  split; [split; intros; contradiction|].
  apply (RStep _ _ _ nv0 nv4 nv5); [apply (RStep _ _ _ nv0 nv3 nv4); [apply (RStep _ _ _ nv0 nv2 nv3);
    [apply (RStep _ _ _ nv0 nv1 nv2); [apply (RStep _ _ _ nv0 nv0 nv1); [apply RRefl|]|]|]|]|].
  - apply (NCorrupt _ _ _ nv0 7 9). left; reflexivity.
  - apply (NAdvance _ _ _ nv1 4). lia.
  - apply (NCorrupt _ _ _ nv2 7 2). left; reflexivity.
  - apply (NHonest _ _ _ nv3 1 2); [intros [E|[]]; discriminate|left; vm_compute; discriminate].
  - apply (NRecover _ _ 2 nv4 2 [1; 7]).
    + constructor; [intros [E|[]]; discriminate|constructor; [intros []|constructor]].
    + simpl. lia.
    + intros i [<-|[<-|[]]]; simpl; auto.
Qed.

(* Regression witnesses of the two ways the first sentence of the property used to fail on the
   faithful model of the unrepaired code (both replayed on the real Handler by the node engine:
   the fast-peer scenario and the stall scenario):
   (a) a threshold of OTHER members sign round cur+1 while the node's clock is still in round cur
       (accepted: one round of tolerance), the node stores cur+1, and the tick of round cur that is
       handled after that signed head+1 = cur+2;
   (b) the process stalls for more than a period: its ticker keeps one pending tick stamped with
       the time it was generated; when the process resumes the aggregator first stores the rounds
       whose partials the peers sent in time, then the run loop consumes the stale tick and signed
       head+1, a round whose time had not come.
   With the guard in broadcastNextPartial (sign only a round <= the current round of the own
   clock) both runs release nothing early. *)
Definition w_idx (sg : Z) := sg / 100.              (* partial id = 100*index + round *)
Definition w_vpart (_ r p sg : Z) := (sg mod 100 =? r).
Definition w_recov (_ r p : Z) (sigs : list Z) (t : Z) := if t <=? Z.of_nat (length sigs) then Some r else None.
Definition wit_cfg := mkCfg true 4 1000 2 partial_cache_store_limit.
Definition wit_events := [EPart 1 0 101; EPart 1 0 201; EPart 2 1 102; EPart 2 1 202; ETick 1 None].
Definition wit_run es :=
  run wit_cfg w_idx w_vpart w_recov (fun r p s => s =? r) (fun _ r _ => r)
      (init 1000 0 (mkG 0 2 [0; 1; 2] 0)) es.
(* (b): ticks 1 at 1000; stall; rounds 2 (1004) and 3 (1008) arrive from the peers; stale tick 2 *)
Definition wit_stall := [ETick 1 None; EPart 1 0 101; EClock 8; EPart 2 1 102; EPart 2 1 202;
                         EPart 3 2 103; EPart 3 2 203; ETick 2 None].

Example C04_fast_peers_witness_repaired :
  proj_emits_all (snd (wit_run wit_events)) = [] /\ b_round (head (fst (wit_run wit_events))) = 2.
Proof. vm_compute. split; reflexivity. Qed.
Example C04_stale_tick_witness_repaired :
  proj_emits_all (snd (wit_run wit_stall)) = [(1, 1000)] /\ b_round (head (fst (wit_run wit_stall))) = 3.
Proof. vm_compute. split; reflexivity. Qed.

(* non-vacuity: a normal tick at genesis releases the partial of round 1 *)
Example C04_nonvacuous :
  snd (step wit_cfg w_idx w_vpart w_recov (fun r p s => s =? r) (fun _ r _ => 500 + r)
            (init 1000 0 (mkG 0 2 [0; 1; 2] 0)) (ETick 1 None)) = [OEmit 1 0 501 1000].
Proof. vm_compute. reflexivity. Qed.

(* ---------- system level, over the composed model Model/Net.v ----------
   Several honest nodes, each running the node-local [step] that the correspondence compares with
   the real beacon.Handler; a wire holding every partial ever sent; the set of beacons that exist
   anywhere; an adversary that owns the network (delivers, replays, drops, injects, serves sync
   streams, assembles beacons) and the share indices in F, fewer than the threshold.  Symbolic
   unforgeability is the admissibility of its events ([gadm]): a valid partial of an index outside
   F can only be replayed, a verifying beacon can be served or assembled only if one of that round
   exists or a threshold of valid partials for it is on the wire.  Honest clocks are accurate
   (real time advances them together); a tick may carry ANY round (stale ticks included).  Resharing is
   included: a node may be handed a new group (ETransition) of another sharing, with its own
   threshold and its own set of adversarial indices, and switches when the target round is stored.
   In EVERY reachable state: no beacon of a future round exists anywhere, not even in the
   adversary's hands -- the next round's randomness is unknown before its time; no honest chain
   holds a future round; no valid partial of an index outside F is for a future round. *)
From DV Require Import Model.Net Proofs.NetProofs.
Section C04_system.
  Variable C : cfg.
  Variable idx_of : Z -> Z.
  Variable vpart : Z -> Z -> Z -> Z -> bool.
  Variable recov : Z -> Z -> Z -> list Z -> Z -> option Z.
  Variable vrec : Z -> Z -> Z -> bool.
  Variable own_of : Z -> Z -> Z -> Z -> Z.
  Hypothesis vrec_unchained : c_chained C = false -> forall r p p' s, vrec r p s = vrec r p' s.
  Hypothesis recov_sound : forall P r p sigs t s, recov P r p sigs t = Some s ->
    exists I, incl I sigs /\ NoDup (map idx_of I) /\ t <= Z.of_nat (length I) /\
              forall x, In x I -> vpart P r p x = true.
  Hypothesis Hp : dom_p (c_period C).
  Hypothesis Hg : dom_g (c_genesis C).
  Variable thr_of : Z -> Z.       (* threshold of the sharing a public polynomial identifies (one per epoch) *)
  Variable F_of : Z -> list Z.    (* the share indices of that sharing the adversary holds *)
  Hypothesis F_small : forall P, Z.of_nat (length (F_of P)) < thr_of P.
  Variable gen : beacon.
  Hypothesis gen_round : b_round gen = 0.

  Theorem C04_system_no_future_round : forall y0 gs,
    sys_inv C idx_of vpart vrec thr_of F_of gen y0 ->
    gadm_run C idx_of vpart recov vrec own_of thr_of F_of y0 gs ->
    let y := grun C idx_of vpart recov vrec own_of y0 gs in
    (forall b, In b (y_known y) -> b_round b <= cr C (y_time y)) /\
    (forall s, In s (y_nodes y) -> forall b, In b (s_chain s) -> b_round b <= cr C (y_time y)) /\
    (forall r p sg P, In (r, p, sg) (y_pool y) -> vpart P r p sg = true -> ~ In (idx_of sg) (F_of P) ->
       r <= cr C (y_time y)).
  Proof.
    exact (run_no_future C idx_of vpart recov vrec own_of vrec_unchained recov_sound Hp Hg thr_of F_of F_small gen gen_round).
  Qed.

  (* the initial state (every node holds the genesis beacon, nothing on the wire) satisfies the invariant *)
  Theorem C04_system_init : forall now gs, now_dom (c_genesis C) now ->
    (forall g, In g gs -> okgrp thr_of g) ->
    sys_inv C idx_of vpart vrec thr_of F_of gen (init_sys gen now gs).
  Proof. exact (init_inv C idx_of vpart vrec thr_of F_of gen). Qed.
End C04_system.
Print Assumptions C04_system_no_future_round.
Print Assumptions C04_system_init.

(* non-vacuity: three honest nodes (indices 0,1,2) of a (4,3) group, index 3 adversarial;
   partial id = 100*index + round.  The run below is admissible, reaches round 1 at every node,
   and its states are covered by the theorem. *)
Definition sy_C := mkCfg true 4 1000 2 partial_cache_store_limit.
Definition sy_idx (sg : Z) := sg / 100.
Definition sy_vpart (_ r p sg : Z) := (sg mod 100 =? r) && (p =? r - 1).
Definition sy_recov (_ r p : Z) (sigs : list Z) (t : Z) :=
  if t <=? Z.of_nat (length (nodup Z.eq_dec (map sy_idx (filter (fun sg => sg mod 100 =? r) sigs)))) then Some r else None.
Definition sy_vrec (r p s : Z) := (s =? r) && (p =? r - 1).
Definition sy_own (me _ r _ : Z) := me * 100 + r.
Definition sy_gen := mkB 0 (-1) 0.
Definition sy_init := init_sys sy_gen 1000 [mkG 0 3 [0; 1; 2; 3] 0; mkG 0 3 [0; 1; 2; 3] 1; mkG 0 3 [0; 1; 2; 3] 2].
Definition sy_events : list gevent :=
  [GNode 0 (ETick 1 None); GNode 1 (ETick 1 None); GNode 2 (ETick 1 None);
   GDeliver 0 (1, 0, 101); GDeliver 0 (1, 0, 201); GDeliver 1 (1, 0, 1); GDeliver 1 (1, 0, 201);
   GAdvPartial (1, 0, 301); GDeliver 2 (1, 0, 301); GDeliver 2 (1, 0, 1);
   GClock 4; GNode 0 (ETick 2 None)].
Example C04_system_nonvacuous :
  gadm_run sy_C sy_idx sy_vpart sy_recov sy_vrec sy_own (fun _ => 3) (fun _ => [3]) sy_init sy_events /\
  map (fun s => b_round (head s)) (y_nodes (grun sy_C sy_idx sy_vpart sy_recov sy_vrec sy_own sy_init sy_events)) = [1; 1; 1] /\
  y_time (grun sy_C sy_idx sy_vpart sy_recov sy_vrec sy_own sy_init sy_events) = 1004.
Proof.
  split; [|split; vm_compute; reflexivity].
  unfold sy_events, gadm_run, gadm, ev_ok, stream_ok.
  repeat match goal with
  | |- _ /\ _ => split
  | |- forall bs, None = Some bs -> _ => intros ? Hx; discriminate Hx
  | |- True => exact I
  end; try (vm_compute; tauto); try (vm_compute; intuition congruence).
Qed.
