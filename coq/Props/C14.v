(* C14 — No message from the network can crash or wedge a node.
   Property theorems only. Proofs: Proofs/LocksProofs.v (soundness of the lock-path checker),
   Proofs/RobustProofs.v. Tied to the source on every run through the generated
   Gen/LockPaths.v (lock events of every handler and what it calls), Gen/Interceptors.v
   (interceptor chains of the peer-facing gRPC server) and Gen/DKGTable.v. *)
From Coq Require Import ZArith List Bool.
From DV Require Import Model.Locks Model.Routing Model.Robust Proofs.LocksProofs Proofs.RobustProofs
  Gen.LockPaths Gen.Interceptors Gen.DKGTable.
Import ListNotations.
Open Scope Z_scope.

(* blocking channel sends that are accepted while a lock is held (by function#ordinal, as named
   in Gen/LockPaths.v); any other send under a lock fails the obligation *)
Definition allowed_send_names : list (list Z) := [
    [100; 107; 103; 46; 80; 114; 111; 99; 101; 115; 115; 46; 103; 111; 115; 115; 105; 112; 35; 48] (* dkg.Process.gossip#0: fresh channel with capacity len(recipients)+1, one send: cannot block *);
    [100; 107; 103; 46; 80; 114; 111; 99; 101; 115; 115; 46; 103; 111; 115; 115; 105; 112; 35; 49] (* dkg.Process.gossip#1: same channel *);
    [100; 107; 103; 46; 101; 99; 104; 111; 66; 114; 111; 97; 100; 99; 97; 115; 116; 46; 112; 97; 115; 115; 84; 111; 65; 112; 112; 108; 105; 99; 97; 116; 105; 111; 110; 35; 48] (* dkg.echoBroadcast.passToApplication#0: deal channel of capacity n under the broadcaster's own mutex; read by the running kyber protocol (observation: a full channel would block this execution's broadcaster only) *);
    [100; 107; 103; 46; 101; 99; 104; 111; 66; 114; 111; 97; 100; 99; 97; 115; 116; 46; 112; 97; 115; 115; 84; 111; 65; 112; 112; 108; 105; 99; 97; 116; 105; 111; 110; 35; 49] (* dkg.echoBroadcast.passToApplication#1: response channel, as above *);
    [100; 107; 103; 46; 101; 99; 104; 111; 66; 114; 111; 97; 100; 99; 97; 115; 116; 46; 112; 97; 115; 115; 84; 111; 65; 112; 112; 108; 105; 99; 97; 116; 105; 111; 110; 35; 50] (* dkg.echoBroadcast.passToApplication#2: justification channel, as above *);
    [98; 101; 97; 99; 111; 110; 46; 99; 97; 108; 108; 98; 97; 99; 107; 83; 116; 111; 114; 101; 46; 80; 117; 116; 35; 48] (* beacon.callbackStore.Put#0: per-callback job queue under the read lock: the stalled-consumer case is property C12's finding F5, not re-reported here *);
    [98; 101; 97; 99; 111; 110; 46; 99; 97; 108; 108; 98; 97; 99; 107; 83; 116; 111; 114; 101; 46; 65; 100; 100; 67; 97; 108; 108; 98; 97; 99; 107; 35; 48] (* beacon.callbackStore.AddCallback#0: same job queue (closing message) under the write lock: C12 / F5 *);
    [98; 101; 97; 99; 111; 110; 46; 99; 104; 97; 105; 110; 83; 116; 111; 114; 101; 46; 78; 101; 119; 86; 97; 108; 105; 100; 80; 97; 114; 116; 105; 97; 108; 35; 48] (* beacon.chainStore.NewValidPartial#0: aggregator queue, sent while BeaconProcess.PartialBeacon holds its state read lock; consumed by runAggregator (C12 covers the queue bounds) *)
].
Definition chan_allow : list Z :=
  map fst (filter (fun s => existsb (zlist_eqb (snd s)) allowed_send_names) send_sites).

(* channel classes (by element type) whose channels are closed under a mutex: every send to a
   channel of the class must be done while that mutex is held (read or write), every close under
   its write lock -- otherwise a close can fall between a send's lookup of the channel and the send,
   and the sender panics ("send on closed channel") in a goroutine no interceptor covers.
   beacon.cbPair: the per-follower job queues of the callback store (callbackStore.newJob), closed by
   AddCallback / RemoveCallback when a sync / stream follower re-requests or hangs up. *)
Definition guarded_classes : list (list Z * list Z) := [
  ([98; 101; 97; 99; 111; 110; 46; 99; 98; 80; 97; 105; 114] (* beacon.cbPair *),
   [98; 101; 97; 99; 111; 110; 46; 99; 97; 108; 108; 98; 97; 99; 107; 83; 116; 111; 114; 101; 46; 82; 87; 77; 117; 116; 101; 120] (* beacon.callbackStore.RWMutex *))
].
Definition mutex_id (name : list Z) : option Z :=
  match find (fun m => zlist_eqb (snd m) name) lock_mutexes with Some m => Some (fst m) | None => None end.
Definition guards_of (classes : list (Z * list Z)) : list (Z * Z) :=
  flat_map (fun sc =>
    flat_map (fun g =>
      if zlist_eqb (snd sc) (fst g)
      then match mutex_id (snd g) with Some m => [(fst sc, m)] | None => [] end
      else []) guarded_classes) classes.
Definition chan_policy : policy :=
  std_policy chan_allow (guards_of send_classes) (guards_of close_classes).
(* the guard table is about something: each class has a mutex, a send site and a close site in the
   regenerated tables (a refactoring that renames them breaks the obligation instead of emptying it) *)
Definition guards_present : bool :=
  forallb (fun g =>
    match mutex_id (snd g) with Some _ => true | None => false end &&
    existsb (fun sc => zlist_eqb (snd sc) (fst g)) send_classes &&
    existsb (fun sc => zlist_eqb (snd sc) (fst g)) close_classes) guarded_classes.

(* per-run obligation (T): on the event trees regenerated from the sources, with calls inlined to
   depth 8 over the generated call graph *)
Theorem C14_locks : paths_ok (flookup lock_funs) chan_policy 8 lock_entries = true /\ guards_present = true.
Proof. vm_compute. split; reflexivity. Qed.
Print Assumptions C14_locks.

(* hence, by the soundness lemma: every execution of every handler (any branch, any number of
   loop iterations, a panic at any panic-able dereference of a request parameter, calls of any
   depth) never blocks on a mutex it holds itself, never unlocks a mutex it does not hold, never
   does a non-listed blocking send under a lock, never sends to (closes) a channel of a guarded class
   without holding (write-holding) its mutex, and ends -- returning or panicking -- with no
   lock held *)
Theorem C14_no_self_deadlock_locks_released : forall f body fo,
  In f lock_entries -> flookup lock_funs f = Some body ->
  fexec (flookup lock_funs) chan_policy body [] fo ->
  no_self_deadlock fo /\ locks_released fo.
Proof. exact (paths_ok_sound lock_funs chan_policy 8 lock_entries (proj1 C14_locks)). Qed.
Print Assumptions C14_no_self_deadlock_locks_released.

(* the soundness lemma itself, for any generated table *)
Theorem C14_paths_ok_sound : forall fs allow n entries,
  paths_ok (flookup fs) allow n entries = true ->
  forall f body fo, In f entries -> flookup fs f = Some body ->
  fexec (flookup fs) allow body [] fo -> no_self_deadlock fo /\ locks_released fo.
Proof. exact paths_ok_sound. Qed.
Print Assumptions C14_paths_ok_sound.

(* per-run obligation (T): the panic-recovery interceptor is in both chains of the peer-facing
   gRPC server, and that server is the one carrying the Public, Protocol and DKGPublic services *)
Definition recovery_installed : bool :=
  chain_has [103; 105; 116; 104; 117; 98; 46; 99; 111; 109; 47; 103; 114; 112; 99; 45; 101; 99; 111; 115; 121; 115; 116; 101; 109; 47; 103; 111; 45; 103; 114; 112; 99; 45; 109; 105; 100; 100; 108; 101; 119; 97; 114; 101; 47; 114; 101; 99; 111; 118; 101; 114; 121; 46; 83; 116; 114; 101; 97; 109; 83; 101; 114; 118; 101; 114; 73; 110; 116; 101; 114; 99; 101; 112; 116; 111; 114] private_stream_chain &&
  chain_has [103; 105; 116; 104; 117; 98; 46; 99; 111; 109; 47; 103; 114; 112; 99; 45; 101; 99; 111; 115; 121; 115; 116; 101; 109; 47; 103; 111; 45; 103; 114; 112; 99; 45; 109; 105; 100; 100; 108; 101; 119; 97; 114; 101; 47; 114; 101; 99; 111; 118; 101; 114; 121; 46; 85; 110; 97; 114; 121; 83; 101; 114; 118; 101; 114; 73; 110; 116; 101; 114; 99; 101; 112; 116; 111; 114] private_unary_chain &&
  chain_has [80; 117; 98; 108; 105; 99] private_services &&
  chain_has [80; 114; 111; 116; 111; 99; 111; 108] private_services &&
  chain_has [68; 75; 71; 80; 117; 98; 108; 105; 99] private_services.
Theorem C14_recovery_installed : recovery_installed = true.
Proof. vm_compute. reflexivity. Qed.
Print Assumptions C14_recovery_installed.

(* request-level totality: for every gossip packet shape and every node state the decision is
   Answer or Reject, except exactly the enumerated nil-dereference cases *)
Theorem C14_total : forall g ns exec s,
  decide_packet_daemon g ns exec = EPanic s -> packet_panic_case g ns s.
Proof. exact packet_daemon_panic. Qed.
Print Assumptions C14_total.

(* for packets a remote party can put on the wire three sites remain: BroadcastDKG reached through
   Packet without inner packet / metadata, and an abort or an execute signal on a DKG record that
   names no leader *)
Theorem C14_total_wire : forall g ns exec s,
  gossip_wire g = true -> decide_packet_daemon g ns exec = EPanic s ->
  s = PS_bcast_nil_inner \/ s = PS_abort_nil_leader \/ s = PS_execute_nil_leader.
Proof. exact packet_daemon_panic_wire. Qed.
Print Assumptions C14_total_wire.

(* and on a node whose DKG record names a leader -- every record the state machine itself writes
   does, since Proposed refuses proposals without leader -- exactly one: the Dkg variant without
   inner packet / metadata *)
Theorem C14_total_wire_led : forall g ns exec s,
  gossip_wire g = true -> n_leader_set ns = true -> decide_packet_daemon g ns exec = EPanic s ->
  s = PS_bcast_nil_inner.
Proof. exact packet_daemon_panic_wire_led. Qed.
Print Assumptions C14_total_wire_led.

(* regression witnesses of two repaired panics: a proposal that names no leader, and a reshare
   proposal on a node without a group for its last epoch (a node that left), are refused in every
   state *)
Theorem C14_proposal_without_leader_refused : forall ns deep,
  decide_apply (VProposal TNilLeader) ns deep = Reject.
Proof. exact proposal_nil_leader_refused. Qed.
Print Assumptions C14_proposal_without_leader_refused.

Theorem C14_reshare_without_group_refused : forall ns deep,
  is_fresh (n_status ns) = false -> n_fg_set ns = false ->
  decide_apply (VProposal TReachesFinalGroup) ns deep = Reject.
Proof. exact proposal_without_group_refused. Qed.
Print Assumptions C14_reshare_without_group_refused.

(* the other endpoints never panic in the model: DKG broadcast through the daemon (for wire
   shapes), partial beacons (every length / index / round), routed endpoints (every metadata,
   including none), HTTP round parsing *)
Theorem C14_total_broadcast : forall d ex exec deep s,
  decide_bcast_daemon d ex exec deep = EPanic s -> dkg_wire d = false.
Proof. exact bcast_daemon_panic. Qed.
Print Assumptions C14_total_broadcast.

Theorem C14_total_partial : forall p b, decide_partial p b = Answer \/ decide_partial p b = Reject.
Proof. exact partial_total. Qed.
Print Assumptions C14_total_partial.

Theorem C14_total_routed : forall d m serves,
  decide_routed d m serves = Answer \/ decide_routed d m serves = Reject.
Proof. exact routed_total. Qed.
Print Assumptions C14_total_routed.

Theorem C14_http_round_range : forall s v, parse_uint64 s = Some v -> 0 <= v < 2 ^ 64.
Proof. exact parse_uint64_range. Qed.
Print Assumptions C14_http_round_range.

(* containment of the enumerated cases: every site sits in the frame of Process.Packet or
   Process.BroadcastDKG, which are entry points of the lock obligation above (so the panic
   releases every lock), and they are reached through the DKGPublic service of the server that
   has the recovery interceptor in both chains (so the caller gets an error) *)
Definition entry_checked (name : list Z) : bool :=
  existsb (fun e => zlist_eqb (snd e) name && existsb (Z.eqb (fst e)) lock_entries) lock_fun_names.
Theorem C14_contained : forall s : psite,
  entry_checked (site_entry s) = true /\ entry_checked site_entry_bcast = true /\
  chain_has site_service private_services = true /\ recovery_installed = true /\
  paths_ok (flookup lock_funs) chan_policy 8 lock_entries = true.
Proof. intro s. vm_compute. repeat split; reflexivity. Qed.
Print Assumptions C14_contained.

(* a request that is rejected (or panics) leaves the DKG state as it was *)
Theorem C14_state_unchanged_on_reject : forall g ns exec,
  packet_effect g ns exec = true -> decide_packet_daemon g ns exec = Answer.
Proof. exact effect_only_on_answer. Qed.
Print Assumptions C14_state_unchanged_on_reject.

(* non-vacuity: each enumerated case is reachable in the model; a well-formed packet is answered;
   the lock obligation is about non-trivial trees *)
Example C14_nonvacuous :
  let ns_fresh := mkN true false Fresh false false true false false in
  let ns_left := mkN true false Left true false false true false in
  let ns_left_noleader := mkN true false Left false false false true false in
  let ns_prop_noleader := mkN true false Proposed false false false true false in
  let meta := Some (mkGM [100] 8) in
  let nobody := fun _ : str => false in
  decide_packet_daemon (mkG false meta false (VDkg DInnerNil) false) ns_fresh nobody = EPanic PS_bcast_nil_inner /\
  decide_packet_daemon (mkG false meta false (VProposal TNil) false) ns_fresh nobody = EPanic PS_proposal_nil_terms /\
  decide_packet_daemon (mkG false meta false VAbort false) ns_left_noleader nobody = EPanic PS_abort_nil_leader /\
  decide_packet_daemon (mkG false meta false VExecute false) ns_prop_noleader nobody = EPanic PS_execute_nil_leader /\
  (* the repaired witnesses: refused, on the states where they used to panic *)
  decide_packet_daemon (mkG false meta false (VProposal TNilLeader) false) ns_fresh nobody = Reject /\
  decide_packet_daemon (mkG false meta false (VProposal TReachesFinalGroup) false) ns_left nobody = Reject /\
  decide_packet_daemon (mkG false meta false (VProposal TReachesFinalGroup) true) ns_fresh nobody = Answer /\
  decide_packet_daemon (mkG false None false VAbort false) ns_fresh nobody = Reject /\
  gossip_wire (mkG false meta false (VProposal TNilLeader) false) = true /\
  gossip_wire (mkG false meta false (VProposal TNil) false) = false /\
  decide_partial (mkP 5 98 true false false true) (mkB true 5 3 98) = Answer /\
  decide_partial (mkP 5 97 true false false true) (mkB true 5 3 98) = Reject /\
  (2 <= length lock_entries)%nat /\ (1 <= length chan_allow)%nat /\
  (2 <= length (guards_of send_classes))%nat /\ (2 <= length (guards_of close_classes))%nat.
Proof. vm_compute. repeat split; try reflexivity; repeat constructor. Qed.
