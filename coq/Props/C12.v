(* C12 — Remote parties cannot stall beacon storage or grow node state without bound.
   Property theorems only; proofs are in Proofs/CacheProofs.v and Proofs/CbStoreProofs.v.
   The three constants and the shape of the store window are regenerated from the Go sources on
   every run (Gen/Consts.v, Gen/AggWindow.v); the theorems are parametric in cap / Q / limit with
   the side condition 0 < cap (0 < Q) and are instantiated here with the generated values.

   Where the faithful model violates the statement the file carries the triple
   [_full] (Definition) / [_refuted] (concrete witness) / the proved statement with the carve-out
   (isolation on unchained schemes, non-blocking Put). *)
From Coq Require Import ZArith List Bool Lia.
From DV Require Import Model.Cache Proofs.CacheProofs Model.CbStore Proofs.CbStoreProofs
  Gen.Consts Gen.AggWindow Gen.StreamCalls.
Import ListNotations.
Open Scope Z_scope.

(* ---------- obligations tied to the source ---------- *)
Theorem C12_constants_positive :
  0 < max_partials_per_node /\ 0 < callback_worker_queue /\ 0 <= partial_cache_store_limit + agg_window_upper_extra.
Proof. repeat split; discriminate. Qed.

(* runAggregator: isNotInPast is strict, isNotTooFar is inclusive, both guard cache.Append, the
   cache is flushed on every stored beacon and before lastBeacon advances after an aggregation *)
(* "stream callback removes itself on error": every return of SyncChain after store.AddCallback is
   directly preceded by store.RemoveCallback(id) or passes on the error of the callback, which removed
   itself or was replaced (Gen/StreamCalls.v); the stream engine counts the callbacks left in the real
   callback store after streams that failed inside the hand-over *)
Theorem C12_sync_chain_exits_unregister : sync_chain_exits_unregister = true.
Proof. reflexivity. Qed.

Theorem C12_window_shape :
  (agg_window_lower_strict, agg_window_upper_inclusive, agg_window_guards_append,
   agg_flush_on_stored, agg_flush_before_head_advance) = (true, true, true, true, true).
Proof. reflexivity. Qed.

(* ================= (b) partial cache ================= *)

(* structure, for EVERY list of append/flush operations (any indices, rounds, prevs), every cap:
   unique round caches, none empty, and the ids recorded for a signer index (rcvd[idx], without
   repetition) are exactly the round caches that hold a partial of that index *)
Theorem C12_cache_wf : forall cap ops, wf (pc_run cap pc_init ops).
Proof. exact reachable_wf. Qed.
Print Assumptions C12_cache_wf.

(* bounds, for EVERY operation list (any number of signer indices, shared round caches, interleaved
   flushes) and every cap > 0: each index is in at most cap round caches and has at most cap
   recorded ids; at most cap x #indices round caches. getCache applies the per-signer check whenever
   the signer gets a new entry, also in a round cache created by another index, and the evicted id
   is recorded once (fixes of "shared round cache bypasses the cap" and of the duplicate id, see
   known_findings.txt "fixed: property=C12"). *)
Theorem C12_cache_bounded : forall cap ops, 0 < cap -> cache_bounds cap ops.
Proof. exact cache_bounded. Qed.
Print Assumptions C12_cache_bounded.

Theorem C12_cache_bounded_here : forall ops, cache_bounds max_partials_per_node ops.
Proof. intros ops. apply cache_bounded. reflexivity. Qed.
Print Assumptions C12_cache_bounded_here.

(* the eviction never meets a missing round cache (no "evicted round missing from cache" refusal) *)
Theorem C12_append_never_misses : forall cap ops idx id,
  snd (pc_append cap (pc_run cap pc_init ops) idx id) <> CErrEvictMissing.
Proof. exact append_never_misses. Qed.
Print Assumptions C12_append_never_misses.

(* regression: the two floods that used to break the bounds. Two signers signing the same 2cap+1
   ids (index 2 used to end in 2cap+1 round caches); one signer with 2cap+3 ids (rcvd used to reach
   2cap+1 with stale ids and the signer was then refused for ever) *)
Definition two_signer_flood (n : nat) : list cop :=
  flat_map (fun k => [CAppend 1 (5, [Z.of_nat k]); CAppend 2 (5, [Z.of_nat k])]) (seq 0 n).
Definition one_signer_flood (n : nat) : list cop :=
  map (fun k => CAppend 1 (5, [Z.of_nat k])) (seq 0 n).
Example C12_floods_repaired :
  (let c := pc_run max_partials_per_node pc_init (two_signer_flood (Z.to_nat (2 * max_partials_per_node + 1))) in
   Z.of_nat (live_count c 1) = max_partials_per_node /\ Z.of_nat (live_count c 2) = max_partials_per_node /\
   Z.of_nat (length (rounds c)) = max_partials_per_node /\ Z.of_nat (length (rcvd_of c 2)) = max_partials_per_node) /\
  (let c := pc_run max_partials_per_node pc_init (one_signer_flood (Z.to_nat (2 * max_partials_per_node + 3))) in
   Z.of_nat (length (rcvd_of c 1)) = max_partials_per_node /\ Z.of_nat (length (rounds c)) = max_partials_per_node /\
   snd (pc_step max_partials_per_node c (CAppend 1 (5, [7; 7]))) = COk).
Proof. vm_compute. repeat split; reflexivity. Qed.

(* store window: for every event list of the aggregator with non-decreasing stored rounds, every
   cached round r satisfies head < r <= head + limit + 1, so at most limit+1 distinct rounds *)
Theorem C12_cache_window : forall cap es h0, heads_mono h0 es ->
  let a := agg_run cap partial_cache_store_limit agg_window_upper_extra (mkAgg h0 pc_init) es in
  (forall id sigs, sigs_of (a_cache a) id = Some sigs ->
     a_head a < fst id <= a_head a + partial_cache_store_limit + agg_window_upper_extra) /\
  Z.of_nat (length (cached_rounds (a_cache a))) <= partial_cache_store_limit + agg_window_upper_extra.
Proof.
  intros cap es h0 M a.
  assert (I : in_window partial_cache_store_limit agg_window_upper_extra a).
  { apply window_run; auto. intros id s. unfold sigs_of; simpl. discriminate. }
  split; [exact I|]. apply window_distinct; auto.
  - apply (proj2 (proj2 C12_constants_positive)).
  - apply wf_agg_run. apply wf_init.
Qed.
Print Assumptions C12_cache_window.

(* isolation by index: one Append on behalf of signer A never removes an entry (j, id) with
   j <> A — in every state, whatever the scheme (eviction calls flushIndex(A) only and deletes a
   round cache only when it became empty) *)
Theorem C12_isolation_by_index : forall cap c A id j id', j <> A ->
  has_entry c j id' = true -> has_entry (fst (pc_append cap c A id)) j id' = true.
Proof.
  intros cap c A id j id' N H. destruct (pc_append cap c A id) as [c' e] eqn:E. simpl.
  eapply isolation_step; eauto.
Qed.
Print Assumptions C12_isolation_by_index.

(* isolation against floods by OTHER members. Packets are accepted when the partial verifies
   against the digest of (round, prev) of the packet; partials of the victim V come from V only
   (they can be replayed by anyone, under any packet fields); V signed at most cap ids. Then a
   cached partial of V is never removed by any packet, only by a flush covering its round. *)
Definition C12_isolation_full : Prop := forall k, isolation_stmt k.

Theorem C12_isolation_chained : isolation_stmt Chained.
Proof. exact isolation_chained. Qed.
Print Assumptions C12_isolation_chained.

(* refuted on the unchained schemes: the previous signature is not part of the signed message,
   so V's one valid partial for round 12 verifies under every previous signature; replaying it
   under cap junk values makes the node evict V's genuine entry *)
Definition victim_id : cid := (12, [17; 34; 51]).
Definition replay_flood (n : nat) : list nev :=
  NPacket (mkPkt 12 [17; 34; 51] (honest_sig Unchained 1 12 [17; 34; 51])) ::
  map (fun k => NPacket (mkPkt 12 [238; Z.of_nat k] (honest_sig Unchained 1 12 [17; 34; 51]))) (seq 0 n).

Definition victim_sig : psig := honest_sig Unchained 1 12 [17; 34; 51].
Definition junk_packet (k : nat) : packet := mkPkt 12 [238; Z.of_nat k] victim_sig.

Theorem C12_isolation_refuted : ~ C12_isolation_full.
Proof.
  intro H.
  pose (n := Z.to_nat max_partials_per_node).
  specialize (H Unchained max_partials_per_node 1 [victim_id] (replay_flood (n - 1))
                (NPacket (junk_packet (n - 1))) victim_id (proj1 C12_constants_positive)).
  assert (P1 : Z.of_nat (length [victim_id]) <= max_partials_per_node) by (vm_compute; discriminate).
  assert (P2 : forall p, In (NPacket p) (replay_flood (n - 1) ++ [NPacket (junk_packet (n - 1))]) ->
                         ps_signer (pk_sig p) = 1 -> In (pk_sig p) (genuine_sigs Unchained 1 [victim_id])).
  { intros p Hin _. left. apply in_app_or in Hin as [Hin|[Hin|[]]].
    - unfold replay_flood in Hin. destruct Hin as [Hin|Hin]; [inversion Hin; reflexivity|].
      apply in_map_iff in Hin as [k [E _]]. inversion E; reflexivity.
    - inversion Hin; reflexivity. }
  assert (P3 : has_entry (pc_run max_partials_per_node pc_init (cops_of Unchained (replay_flood (n - 1)))) 1 victim_id = true)
    by (vm_compute; reflexivity).
  assert (P4 : forall r, NPacket (junk_packet (n - 1)) = NFlush r -> r < fst victim_id) by (intros r E; discriminate).
  specialize (H P1 P2 P3 P4). revert H. vm_compute. discriminate.
Qed.
Print Assumptions C12_isolation_refuted.

(* pending partials in front of the aggregator: NewValidPartial hands a verified partial over with one
   blocking send on a channel of defaultPartialChanBuffer slots (obligation on the source). While the
   aggregator takes nothing out of it (it is held in a Put by a stalled stream consumer, see (a)), a
   member that sends any number of valid partials gets min(sent, capacity) of them pending and is then
   held in its call: the node's memory for them does not grow with what the member sends *)
Theorem C12_new_valid_partial_blocks : new_valid_partial_blocking_send = true /\ 0 < default_partial_chan_buffer.
Proof. split; reflexivity. Qed.

Theorem C12_pending_bounded : forall cap sent, 0 <= cap ->
  np_run cap 0 sent = Z.min (Z.of_nat sent) cap /\ np_run cap 0 sent <= cap.
Proof. intros cap sent H. split; [rewrite np_run_min by lia; reflexivity | apply np_run_le; lia]. Qed.
Print Assumptions C12_pending_bounded.

Example C12_pending_nonvacuous :
  np_run default_partial_chan_buffer 0 4 = 4 /\ np_run default_partial_chan_buffer 0 150 = default_partial_chan_buffer.
Proof. vm_compute. split; reflexivity. Qed.

(* ================= (a) callback store ================= *)

(* "Put never waits on a consumer", for arbitrarily long runs and all consumer behaviours *)
Definition C12_put_nonblocking_full : Prop :=
  forall Q es, 0 < Q -> forall i r, nth_error es i = Some (EPut r) -> In i (ret (cb_run Q es)).

(* one consumer that never returns from its first callback, then Q+2 beacons *)
Definition stall_script (Q : Z) : list ev :=
  EAdd 1 false :: map (fun k => EPut (Z.of_nat k + 1)) (seq 0 (Z.to_nat (Q + 2))).

Theorem C12_put_refuted : ~ C12_put_nonblocking_full.
Proof.
  intro H.
  specialize (H callback_worker_queue (stall_script callback_worker_queue) (proj1 (proj2 C12_constants_positive))
                (Z.to_nat (callback_worker_queue + 2)) (callback_worker_queue + 2)).
  assert (E : nth_error (stall_script callback_worker_queue) (Z.to_nat (callback_worker_queue + 2)) =
              Some (EPut (callback_worker_queue + 2))) by (vm_compute; reflexivity).
  specialize (H E). apply In_existsb_nat in H. revert H. vm_compute. discriminate.
Qed.
Print Assumptions C12_put_refuted.

(* the witness state: the (Q+2)-th Put holds the read lock, blocked on the consumer's full queue *)
Definition stalled_state : cbst := cb_run callback_worker_queue (stall_script callback_worker_queue).
Definition stalled_chan : chan := nth 0 (chans stalled_state) (mkCh 0 true [] WIdle false []).
Definition blocked_put : nat := Z.to_nat (callback_worker_queue + 2).

Lemma stalled_wedged : wedged_at callback_worker_queue stalled_state blocked_put 0 stalled_chan.
Proof.
  exists (callback_worker_queue + 2), 1, []. vm_compute.
  repeat split; try reflexivity; try discriminate.
Qed.

(* ... and it stays blocked for EVERY continuation in which that consumer does not return from
   its callback; meanwhile no AddCallback, RemoveCallback or Put of a round <> 0 returns either
   (only Puts of round 0, which skip the dispatch, and releases of other consumers do) *)
Theorem C12_put_blocked_while_stalled : forall es,
  Forall (not_release_of 0) es ->
  let s' := cb_run_from callback_worker_queue stalled_state (S blocked_put) es in
  ~ In blocked_put (ret s') /\
  (forall i e, nth_error es i = Some e -> In (S blocked_put + i)%nat (ret s') ->
     e = EPut 0 \/ exists kz, e = ERelease kz false).
Proof.
  intros es F s'.
  destruct (wedged_run callback_worker_queue blocked_put 0 stalled_chan es stalled_state (S blocked_put) stalled_wedged (fun _ => F)) as [_ R].
  split.
  - intro H. destruct (R _ H) as [H0|[i [e [E _]]]]; [|unfold blocked_put in *; lia].
    apply In_existsb_nat in H0. revert H0. vm_compute. discriminate.
  - intros i e Hn H. destruct (R _ H) as [H0|[i' [e' [E [Hn' He]]]]].
    + exfalso. assert (B : forall m, In m (ret stalled_state) -> (m < blocked_put)%nat).
      { apply forallb_ltb. vm_compute. reflexivity. }
      specialize (B _ H0). lia.
    + assert (i' = i) by lia. subst i'. rewrite Hn in Hn'. inversion Hn'; subst; auto.
Qed.
Print Assumptions C12_put_blocked_while_stalled.

(* disconnecting does not help once the Put is blocked: the consumer's Send fails, its callback
   calls RemoveCallback, which waits for the write lock behind the blocked Put, which waits for
   that very worker: for EVERY continuation the Put never returns *)
Definition dead_state : cbst := cb_step callback_worker_queue stalled_state (S blocked_put) (ERelease 0 true).
Definition dead_chan : chan := nth 0 (chans dead_state) (mkCh 0 true [] WIdle false []).

Lemma dead_wedged : wedged_at callback_worker_queue dead_state blocked_put 0 dead_chan.
Proof.
  exists (callback_worker_queue + 2), 1, []. vm_compute.
  repeat split; try reflexivity; try discriminate.
Qed.

Theorem C12_put_disconnect_too_late : forall es,
  ~ In blocked_put (ret (cb_run_from callback_worker_queue dead_state (S (S blocked_put)) es)).
Proof.
  intros es.
  assert (W : ch_w dead_chan = WInCb -> Forall (not_release_of 0) es) by (vm_compute; discriminate).
  destruct (wedged_run callback_worker_queue blocked_put 0 dead_chan es dead_state (S (S blocked_put)) dead_wedged W) as [_ R].
  intro H. destruct (R _ H) as [H0|[i [e [E _]]]]; [|unfold blocked_put in *; lia].
  apply In_existsb_nat in H0. revert H0. vm_compute. discriminate.
Qed.
Print Assumptions C12_put_disconnect_too_late.

(* proved: in every run with at most Q dispatched beacons (any number of consumers, reading, slow,
   stalled, disconnecting, reconnecting under the same id, any interleaving) no call ever blocks:
   every Put / AddCallback / RemoveCallback returns, nobody holds the lock at the end ... *)
Theorem C12_put_partial : forall Q es, 0 < Q -> Z.of_nat (count_puts es) <= Q ->
  let s := cb_run Q es in
  cur s = None /\ waitq s = [] /\
  (forall i e, nth_error es i = Some e -> is_call e = true -> In i (ret s)).
Proof. exact put_partial. Qed.
Print Assumptions C12_put_partial.

(* ... and every consumer registered when a Put returns has been handed that beacon (it is the
   last job of its log-then-queue), whatever the other consumers do *)
Theorem C12_put_others_served : forall Q es r, 0 < Q ->
  Z.of_nat (count_puts (es ++ [EPut r])) <= Q -> r <> 0 ->
  registered_has (cb_run Q (es ++ [EPut r])) r.
Proof. exact put_served. Qed.
Print Assumptions C12_put_others_served.

(* a consumer whose Send fails while nothing is blocked unregisters itself and later Puts do not
   depend on it: instance of C12_put_partial (the release with rm = true is an ordinary event) *)

(* ---------- non-vacuity ---------- *)
Example C12_window_nonvacuous :
  heads_mono 10 [APartial 1 (11, [1]); APartial 2 (14, [2]); APartial 2 (15, [2]); AAggregated 11 true; AStored 11; APartial 1 (15, [2])] /\
  let a := agg_run max_partials_per_node partial_cache_store_limit agg_window_upper_extra (mkAgg 10 pc_init)
             [APartial 1 (11, [1]); APartial 2 (14, [2]); APartial 2 (15, [2]); AAggregated 11 true; AStored 11; APartial 1 (15, [2])] in
  a_head a = 11 /\ map fst (rounds (a_cache a)) = [(14, [2]); (15, [2])].
Proof. split; [simpl; lia|]. vm_compute. split; reflexivity. Qed.

(* the chained isolation theorem has instances: V = 1 signs one id, member 2 floods *)
Example C12_isolation_nonvacuous :
  let es := [NPacket (mkPkt 12 [17] (honest_sig Chained 1 12 [17]));
             NPacket (mkPkt 12 [99] (honest_sig Chained 1 12 [17]))] in   (* the replay under a junk prev is invalid *)
  has_entry (pc_run max_partials_per_node pc_init (cops_of Chained es)) 1 (12, [17]) = true /\
  length (cops_of Chained es) = 1%nat.
Proof. vm_compute. split; reflexivity. Qed.

Example C12_put_partial_nonvacuous :
  let es := [EAdd 1 false; EAdd 2 true; EPut 1; EPut 2; ERelease 0 true; EPut 3] in
  Z.of_nat (count_puts es) <= callback_worker_queue /\
  map ch_log (chans (cb_run callback_worker_queue es)) =
    [[JBeacon 1; JBeacon 2]; [JBeacon 1; JBeacon 2; JBeacon 3]].
Proof. vm_compute. split; [discriminate | reflexivity]. Qed.

(* isolation by index has instances in which an eviction really happens: signer 1 is at the cap,
   its next id evicts its own oldest entry, signer 2's entry in that same round cache survives *)
Example C12_isolation_by_index_nonvacuous :
  let c := pc_run max_partials_per_node pc_init
             (CAppend 2 (5, [0]) :: one_signer_flood (Z.to_nat max_partials_per_node)) in
  has_entry c 1 (5, [0]) = true /\ has_entry c 2 (5, [0]) = true /\
  let c' := fst (pc_append max_partials_per_node c 1 (5, [7; 7])) in
  has_entry c' 1 (5, [0]) = false /\ has_entry c' 2 (5, [0]) = true.
Proof. vm_compute. repeat split; reflexivity. Qed.

(* the continuation hypotheses of C12_put_blocked_while_stalled are satisfiable by calls that then
   never return: AddCallback, RemoveCallback of the stalled consumer, another Put *)
Example C12_put_blocked_nonvacuous :
  Forall (not_release_of 0) [EAdd 2 true; ERemove 1; EPut 777; ERelease 1 false] /\
  ret (cb_run_from callback_worker_queue stalled_state (S blocked_put) [EAdd 2 true; ERemove 1; EPut 777]) = ret stalled_state.
Proof.
  split; [|vm_compute; reflexivity].
  repeat constructor; intros kz rm E; inversion E; vm_compute; discriminate.
Qed.

Example C12_put_served_nonvacuous :
  let es := [EAdd 1 false; EAdd 2 true; EPut 5] in
  registered_has (cb_run callback_worker_queue (es ++ [EPut 6])) 6 /\
  cbs (cb_run callback_worker_queue (es ++ [EPut 6])) = [(1, 0%nat); (2, 1%nat)].
Proof.
  split; [apply C12_put_others_served; [reflexivity | vm_compute; discriminate | discriminate] | vm_compute; reflexivity].
Qed.

(* The gRPC servers are created with a finite bound on concurrent streams per transport
   (internal/net/listener.go, grpc.MaxConcurrentStreams): extracted on every run; a removed option
   or a bound of 0 (= unlimited in grpc-go) is a T-break or fails this obligation. The callback
   store's follower count per remote transport is bounded by it. *)
Theorem C12_stream_cap : 0 < max_concurrent_streams <= 65536.
Proof. unfold max_concurrent_streams. lia. Qed.
Print Assumptions C12_stream_cap.
