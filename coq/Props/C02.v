(* C02 — One gap-free, append-only chain; honest nodes never disagree or rewrite.
   Property theorems only; proofs are in Proofs/StoreStackProofs.v, the model in
   Model/StoreStack.v (over the sorted-map specification of Model/Backends.v, to which the three
   back-ends are tied by C18).

   Vocabulary:
     k : bkind            the node's back-end (KBoltU, KBoltT, KMem cap); kind_ok k: cap >= 1
     chained, seed        the scheme is chained; the genesis seed
     sev                  an event: EPut b cancelled (Put on the stack by any writer),
                          ETry last b cancelled (chainStore.tryAppend), ESync b upTo cancelled
                          (tryNode's Put), ERestart; "cancelled" injects a failure of the base
                          store's Put (bolt; memdb ignores the context)
     sexec .. init evs    the stack after the events evs, from a store holding only genesis
     base_get k chained m r   what Get r answers on the base store
     st_log s             the beacons written to the base through the stack, in order
     chain_of seed log r  genesis for r = 0, else the beacon of round r in the log
   Every theorem quantifies over ALL event lists: any mix and interleaving of writers (each Put
   is one critical section under appendStore's mutex), failures and restarts.  The multi-node
   corollary is built from the per-node statements C02_node_chain / C02_nodes_agree. *)
From Coq Require Import ZArith List Bool.
From DV Require Import Model.Backends Model.StoreStack Proofs.BackendsProofs Proofs.StoreStackProofs.
Import ListNotations.
Open Scope Z_scope.

(* the invariant itself, for reuse by system-level proofs *)
Theorem C02_node_invariant : forall chained seed k evs, kind_ok k ->
  Inv chained seed k (sexec k chained seed (init_stack k chained seed) evs).
Proof. exact reach_inv. Qed.
Print Assumptions C02_node_invariant.

(* the base holds exactly the rounds lo..head (lo = 0 on bolt, the newest cap rounds on the
   ring), each equal to what was written through the stack; rounds 1..head were each written
   exactly once, in order; chained: prev(r) = sig(r-1); unchained: prev stripped *)
Theorem C02_gapfree : forall chained seed k evs, kind_ok k ->
  let s := sexec k chained seed (init_stack k chained seed) evs in
  let h := head s in
  exists lo, 0 <= lo <= h /\
    match k with KMem cap => lo = Z.max 0 (h - cap + 1) | _ => lo = 0 end /\
    keys (st_base s) = zseq lo (Z.to_nat (h - lo + 1)) /\
    (forall r, base_get k chained (st_base s) r <> None <-> lo <= r <= h) /\
    (forall r b, base_get k chained (st_base s) r = Some b ->
                 chain_of seed (st_log s) r = Some b /\ b_round b = r) /\
    map b_round (st_log s) = zseq 1 (Z.to_nat h) /\
    (chained = true -> forall r b b', 1 <= r ->
       base_get k chained (st_base s) r = Some b ->
       base_get k chained (st_base s) (r - 1) = Some b' -> b_prev b = b_sig b') /\
    (chained = false -> forall r b, 1 <= r ->
       base_get k chained (st_base s) r = Some b -> b_prev b = []).
Proof. exact gapfree. Qed.
Print Assumptions C02_gapfree.

(* the head never decreases and the written log only grows *)
Theorem C02_head_monotone : forall chained seed k evs evs', kind_ok k ->
  head (sexec k chained seed (init_stack k chained seed) evs) <=
  head (sexec k chained seed (init_stack k chained seed) (evs ++ evs')) /\
  exists suf, st_log (sexec k chained seed (init_stack k chained seed) (evs ++ evs')) =
              st_log (sexec k chained seed (init_stack k chained seed) evs) ++ suf.
Proof. exact head_monotone. Qed.
Print Assumptions C02_head_monotone.

(* a stored round is never replaced by a different value; it can only leave the ring's window *)
Theorem C02_no_rewrite : forall chained seed k evs evs' r b, kind_ok k ->
  base_get k chained (st_base (sexec k chained seed (init_stack k chained seed) evs)) r = Some b ->
  base_get k chained (st_base (sexec k chained seed (init_stack k chained seed) (evs ++ evs'))) r = Some b \/
  (base_get k chained (st_base (sexec k chained seed (init_stack k chained seed) (evs ++ evs'))) r = None /\
   exists cap, k = KMem cap /\
     r < head (sexec k chained seed (init_stack k chained seed) (evs ++ evs')) - cap + 1).
Proof. exact no_rewrite. Qed.
Print Assumptions C02_no_rewrite.

(* stop/start (genesis re-put on the raw store, wrappers rebuilt from Last) changes nothing *)
Theorem C02_restart_identity : forall chained seed k evs, kind_ok k ->
  restart k chained seed (sexec k chained seed (init_stack k chained seed) evs) =
  sexec k chained seed (init_stack k chained seed) evs.
Proof. intros. apply restart_id; [assumption|now apply reach_inv]. Qed.
Print Assumptions C02_restart_identity.

(* the aggregator: tryAppend says true only if the round is then stored with that signature
   (written now, or the race against an identical beacon was lost) *)
Theorem C02_tryappend : forall chained seed k evs l b c, kind_ok k ->
  let s := sexec k chained seed (init_stack k chained seed) evs in
  snd (try_append k chained s l b c) = true ->
  exists b', base_get k chained (st_base (fst (try_append k chained s l b c))) (b_round b) = Some b' /\
             b_sig b' = b_sig b.
Proof. exact try_append_true. Qed.
Print Assumptions C02_tryappend.

(* agreement: signatures are unique per message (deterministic threshold BLS), so two
   all-verified, downward-closed chains with the same genesis, linked (chained) or prev-stripped
   (unchained), agree bytewise on every common round; by induction on the round *)
Theorem C02_agree : forall (vfy : Z * list Z -> list Z -> bool),
  (forall m s1 s2, vfy m s1 = true -> vfy m s2 = true -> s1 = s2) ->
  forall chained g c1 c2, good_chain vfy chained g c1 -> good_chain vfy chained g c2 ->
  forall r b1 b2, c1 r = Some b1 -> c2 r = Some b2 -> b1 = b2.
Proof. exact chains_agree. Qed.
Print Assumptions C02_agree.

(* per node: if the writers only hand verified beacons to the stack, the written chain is good *)
Theorem C02_node_chain : forall (vfy : Z * list Z -> list Z -> bool) chained seed k evs, kind_ok k ->
  (forall e b, In e evs -> ev_beacon e = Some b -> verified vfy chained b) ->
  good_chain vfy chained (genesis seed)
    (chain_of seed (st_log (sexec k chained seed (init_stack k chained seed) evs))).
Proof. exact node_chain_good. Qed.
Print Assumptions C02_node_chain.

(* any two nodes of one chain, whatever their back-ends, histories, failures and restarts,
   hold byte-identical beacons for every round they both have *)
Theorem C02_nodes_agree : forall (vfy : Z * list Z -> list Z -> bool),
  (forall m s1 s2, vfy m s1 = true -> vfy m s2 = true -> s1 = s2) ->
  forall chained seed k1 evs1 k2 evs2 r b1 b2, kind_ok k1 -> kind_ok k2 ->
  (forall e b, In e evs1 -> ev_beacon e = Some b -> verified vfy chained b) ->
  (forall e b, In e evs2 -> ev_beacon e = Some b -> verified vfy chained b) ->
  base_get k1 chained (st_base (sexec k1 chained seed (init_stack k1 chained seed) evs1)) r = Some b1 ->
  base_get k2 chained (st_base (sexec k2 chained seed (init_stack k2 chained seed) evs2)) r = Some b2 ->
  b1 = b2.
Proof. exact nodes_agree. Qed.
Print Assumptions C02_nodes_agree.

(* ---- the ReSync path (CorrectPastBeacons -> insecureStore.Put) bypasses the stack.
        On trimmed bolt and on the ring, re-putting a stored round with the same signature
        changes nothing; on untrimmed bolt the whole beacon is replaced, so with an unchained
        scheme (previous signature not covered by the signature) the stored previous signature
        becomes whatever the peer sent (DESIGN section 6, F14). ---- *)
Theorem C02_resync_harmless : forall chained seed k evs r b b', kind_ok k -> k <> KBoltU ->
  let s := sexec k chained seed (init_stack k chained seed) evs in
  base_get k chained (st_base s) r = Some b -> b_round b' = r -> b_sig b' = b_sig b ->
  st_base (resync_put k s b') = st_base s.
Proof. exact resync_harmless. Qed.
Print Assumptions C02_resync_harmless.

Definition C02_resync_keeps_prev_full : Prop :=
  forall chained seed k evs r b b', kind_ok k ->
  let s := sexec k chained seed (init_stack k chained seed) evs in
  base_get k chained (st_base s) r = Some b -> b_round b' = r -> b_sig b' = b_sig b ->
  base_get k chained (st_base (resync_put k s b')) r = Some b.

Theorem C02_resync_keeps_prev_refuted : ~ C02_resync_keeps_prev_full.
Proof.
  intros H.
  specialize (H false [7] KBoltU
    [EPut (mkB 1 [] [1]) false; EPut (mkB 2 [] [2]) false; EPut (mkB 3 [] [3]) false]
    2 (mkB 2 [] [2]) (mkB 2 [102; 102] [2]) I eq_refl eq_refl eq_refl).
  vm_compute in H. discriminate H.
Qed.
Print Assumptions C02_resync_keeps_prev_refuted.

(* ---- non-vacuity ---- *)

(* a signature scheme meeting the uniqueness hypothesis: the signature of (round, prev) is the
   byte string round :: prev *)
Definition demo_vfy (m : Z * list Z) (s : list Z) : bool := bytes_eqb s (fst m :: snd m).

Example C02_demo_vfy_unique : forall m s1 s2, demo_vfy m s1 = true -> demo_vfy m s2 = true -> s1 = s2.
Proof.
  unfold demo_vfy. intros m s1 s2 H1 H2. apply bytes_eqb_eq in H1, H2. congruence.
Qed.

(* two writers racing on a chained node over trimmed bolt, with a lost race, a wrong previous
   signature, a gap, an injected base failure and a restart; another node on a ring of 10 *)
Definition demo_evs : list sev :=
  [ EPut (mkB 1 [7] [1; 7]) false;
    ETry (mkB 0 [] [7]) (mkB 1 [7] [1; 7]) false;          (* lost race: already stored *)
    EPut (mkB 2 [9; 9] [2; 9; 9]) false;                    (* wrong previous signature *)
    EPut (mkB 3 [1; 7] [3; 1; 7]) false;                    (* gap *)
    EPut (mkB 2 [1; 7] [2; 1; 7]) true;                     (* base store fails *)
    ERestart;
    ETry (mkB 1 [7] [1; 7]) (mkB 2 [1; 7] [2; 1; 7]) false;
    ESync (mkB 2 [1; 7] [2; 1; 7]) 2 false ].

Example C02_nonvacuous_run :
  kind_ok KBoltT /\ kind_ok (KMem 10) /\
  map fst (srun KBoltT true [7] (init_stack KBoltT true [7]) demo_evs) =
    [ResPut RStored; ResTry true; ResPut RPrev; ResPut RRound; ResPut RInner; ResDone; ResTry true;
     ResSync (SyncReturn true)] /\
  base_scan KBoltT true (st_base (sexec KBoltT true [7] (init_stack KBoltT true [7]) demo_evs)) =
    [mkB 0 [] [7]; mkB 1 [7] [1; 7]; mkB 2 [1; 7] [2; 1; 7]] /\
  base_get (KMem 10) true (st_base (sexec (KMem 10) true [7] (init_stack (KMem 10) true [7]) demo_evs)) 2 =
    Some (mkB 2 [1; 7] [2; 1; 7]).
Proof.
  split; [exact I|]. split; [vm_compute; discriminate|].
  split; [vm_compute; reflexivity|]. split; vm_compute; reflexivity.
Qed.

(* two nodes whose writers hand over verified beacons only (premise of C02_nodes_agree) *)
Definition v1 := mkB 1 [7] [1; 7].
Definition v2 := mkB 2 [1; 7] [2; 1; 7].
Definition v3 := mkB 3 [2; 1; 7] [3; 2; 1; 7].
Definition evs_a : list sev := [EPut v1 false; ETry v1 v2 false; EPut v2 false; ERestart; EPut v3 true; EPut v3 false].
Definition evs_b : list sev := [ESync v1 2 false; ESync v2 2 false].

Example C02_nonvacuous_agree :
  (forall e b, In e evs_a -> ev_beacon e = Some b -> verified demo_vfy true b) /\
  (forall e b, In e evs_b -> ev_beacon e = Some b -> verified demo_vfy true b) /\
  base_get KBoltT true (st_base (sexec KBoltT true [7] (init_stack KBoltT true [7]) evs_a)) 2 = Some v2 /\
  base_get (KMem 10) true (st_base (sexec (KMem 10) true [7] (init_stack (KMem 10) true [7]) evs_b)) 2 = Some v2 /\
  head (sexec KBoltT true [7] (init_stack KBoltT true [7]) evs_a) = 3.
Proof.
  split; [|split; [|split; [vm_compute; reflexivity|split; vm_compute; reflexivity]]].
  - intros e b Hin He. unfold evs_a in Hin. simpl in Hin.
    repeat (destruct Hin as [<-|Hin]; [simpl in He; try discriminate He; injection He as <-; vm_compute; reflexivity|]).
    destruct Hin.
  - intros e b Hin He. unfold evs_b in Hin. simpl in Hin.
    repeat (destruct Hin as [<-|Hin]; [simpl in He; try discriminate He; injection He as <-; vm_compute; reflexivity|]).
    destruct Hin.
Qed.

(* ---- whole node, any two nodes: aggregation path, sync path, restarts, transitions ---- *)
From Coq Require Import Lia.
From DV Require Import Model.Node Proofs.NodeProofs.

(* Any two honest nodes of the same chain -- each running the full node-local protocol of
   Model/Node.v on its OWN arbitrary event list (partials from anyone, sync streams of any
   content, ticks, stops, restarts, group transitions; different group views, shares and clocks)
   -- hold identical beacons for every round they both have.  Needs only that signatures are
   unique per message (deterministic threshold BLS) and that unchained digests ignore the
   previous signature. *)
Theorem C02_net_agree :
  forall (C : cfg) (vrec : Z -> Z -> Z -> bool)
         idx1 vpart1 recov1 own1 idx2 vpart2 recov2 own2,
    (c_chained C = false -> forall r p p' s, vrec r p s = vrec r p' s) ->
    (forall r p s1 s2, vrec r p s1 = true -> vrec r p s2 = true -> s1 = s2) ->
    forall g s1 s2 es1 es2 s1' os1 s2' os2,
      s_chain s1 = [g] -> s_chain s2 = [g] ->
      run C idx1 vpart1 recov1 vrec own1 s1 es1 = (s1', os1) ->
      run C idx2 vpart2 recov2 vrec own2 s2 es2 = (s2', os2) ->
      forall b1 b2, In b1 (s_chain s1') -> In b2 (s_chain s2') -> b_round b1 = b_round b2 -> b1 = b2.
Proof.
  intros C vrec idx1 vpart1 recov1 own1 idx2 vpart2 recov2 own2 Hun Huq g s1 s2 es1 es2 s1' os1 s2' os2
         Hg1 Hg2 Hr1 Hr2 b1 b2 Hi1 Hi2 Hr.
  assert (Hok : forall s, s_chain s = [g] -> s_chain s <> [] /\ chain_ok C vrec (s_chain s))
    by (intros s ->; split; [discriminate|simpl; auto]).
  destruct (Hok s1 Hg1) as [N1 K1]. destruct (Hok s2 Hg2) as [N2 K2].
  destruct (chain_gapfree_appendonly C idx1 vpart1 recov1 vrec own1 Hun s1 es1 s1' os1 N1 K1 Hr1) as [C1 [a1 E1]].
  destruct (chain_gapfree_appendonly C idx2 vpart2 recov2 vrec own2 Hun s2 es2 s2' os2 N2 K2 Hr2) as [C2 [a2 E2]].
  assert (G1 : genesis_of (s_chain s1') = g).
  { unfold genesis_of. rewrite E1, Hg1. apply last_last. }
  assert (G2 : genesis_of (s_chain s2') = g).
  { unfold genesis_of. rewrite E2, Hg2. apply last_last. }
  assert (Hge : b_round g <= b_round b1).
  { rewrite <- G1. apply (chain_ok_rounds C vrec); assumption. }
  eapply (chains_agree C vrec Huq (s_chain s1') (s_chain s2') C1 C2) with (n := Z.to_nat (b_round b1 - b_round g));
    try eassumption.
  - rewrite E1, Hg1. destruct a1; discriminate.
  - rewrite E2, Hg2. destruct a2; discriminate.
  - congruence.
  - rewrite G1. lia.
  - lia.
Qed.
Print Assumptions C02_net_agree.

Open Scope Z_scope.

(* ---------- system level, over the composed model Model/Net.v (see Props/C04.v for the model) ---------- *)
From DV Require Import Model.Net Proofs.TimeProofs Proofs.NetProofs.
Section C02_system.
  Variable C : cfg.
  Variable idx_of : Z -> Z.
  Variable vpart : Z -> Z -> Z -> Z -> bool.
  Variable recov : Z -> Z -> Z -> list Z -> Z -> option Z.
  Variable vrec : Z -> Z -> Z -> bool.
  Variable own_of : Z -> Z -> Z -> Z -> Z.
  Hypothesis vrec_unchained : c_chained C = false -> forall r p p' s, vrec r p s = vrec r p' s.
  Hypothesis recov_sound : forall P r p sigs t s, recov P r p sigs t = Some s ->
    exists I, incl I sigs /\ NoDup (map idx_of I) /\ t <= Z.of_nat (length I) /\
              forall x, In x I -> vpart P r p x = true.
  Hypothesis Hp : dom_p (c_period C).
  Hypothesis Hg : dom_g (c_genesis C).
  Variable thr_of : Z -> Z.       (* threshold of the sharing a public polynomial identifies (one per epoch) *)
  Variable F_of : Z -> list Z.    (* the share indices of that sharing the adversary holds *)
  Hypothesis F_small : forall P, Z.of_nat (length (F_of P)) < thr_of P.
  Variable gen : beacon.
  Hypothesis gen_round : b_round gen = 0.
  Hypothesis vrec_unique : forall r p s1 s2, vrec r p s1 = true -> vrec r p s2 = true -> s1 = s2.

  (* In every reachable state of the system, any two honest nodes hold the same beacon (round,
     previous signature, signature) for every round both hold -- whatever the adversary delivered,
     injected or served to either of them. *)
  Theorem C02_system_agree : forall y0 gs,
    sys_inv C idx_of vpart vrec thr_of F_of gen y0 ->
    gadm_run C idx_of vpart recov vrec own_of thr_of F_of y0 gs ->
    let y := grun C idx_of vpart recov vrec own_of y0 gs in
    forall s1 s2, In s1 (y_nodes y) -> In s2 (y_nodes y) ->
    forall b1 b2, In b1 (s_chain s1) -> In b2 (s_chain s2) -> b_round b1 = b_round b2 -> b1 = b2.
  Proof.
    exact (run_agree C idx_of vpart recov vrec own_of vrec_unchained recov_sound Hp Hg thr_of F_of gen gen_round vrec_unique).
  Qed.
End C02_system.
Print Assumptions C02_system_agree.

(* ---- the append store's Put is one critical section (per-run obligation over the sources) ----
   The theorems above treat a Put on the store stack as one atomic step. In the code two writers
   (the aggregator through tryAppend, a sync through tryNode) call appendStore.Put concurrently;
   the round check against the cached head, the write to the stores below and the update of the
   head are atomic because the whole body runs under the append store's mutex. That is read from
   the source on every run (Gen/LockPaths.v, the event trees of C14): the function exists, calls
   the store below, and makes every call with beacon.appendStore.Mutex held. The stack engine's
   racing-writers history checks the same thing on the running code. *)
From DV Require Import Model.Locks Model.Atomic Gen.LockPaths.

Definition name_append_put : list Z :=
  [98; 101; 97; 99; 111; 110; 46; 97; 112; 112; 101; 110; 100; 83; 116; 111; 114; 101; 46; 80; 117; 116] (* beacon.appendStore.Put *).
Definition name_append_mutex : list Z :=
  [98; 101; 97; 99; 111; 110; 46; 97; 112; 112; 101; 110; 100; 83; 116; 111; 114; 101; 46; 77; 117; 116; 101; 120] (* beacon.appendStore.Mutex *).

Theorem C02_append_put_is_one_critical_section :
  critical_section lock_funs lock_fun_names lock_mutexes name_append_put name_append_mutex = true.
Proof. vm_compute. reflexivity. Qed.
Print Assumptions C02_append_put_is_one_critical_section.

(* regression shape (eighth-round seeded change): head copied under the lock, lock released, then
   the checks and the write: the call is no longer inside the critical section *)
Example C02_checks_outside_the_lock_rejected :
  fst (calls_locked 3 false (PSeq (POp (OLock 3)) (PSeq (POp (OUnlock 3)) (PCall 5)))) = false /\
  fst (calls_locked 3 false (PSeq (POp (OLock 3)) (PSeq (PDefer [OUnlock 3]) (PCall 5)))) = true.
Proof. split; reflexivity. Qed.
