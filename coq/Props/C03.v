(* C03 — No beacon without a threshold of valid partials from distinct members.
   Node-local theorems over Model/Node.v; proofs in Proofs/NodeProofs.v.  [recov] stands for
   kyber's tbls.Recover; its soundness (it returns a signature only when at least t of the
   listed partials have pairwise distinct indices and each passes VerifyPartial against the
   public polynomial for exactly that message) is the hypothesis [recov_sound], read off
   kyber v1.3.2 sign/tbls/tbls.go and validated on every run by the correspondence. *)
From Coq Require Import ZArith List Bool Lia.
From DV Require Import Model.Time Model.Node Proofs.NodeProofs Proofs.NetTime Gen.Consts.
Import ListNotations.
Open Scope Z_scope.

Section C03.
  Variable C : cfg.
  Variable idx_of : Z -> Z.
  Variable vpart : Z -> Z -> Z -> Z -> bool.
  Variable recov : Z -> Z -> Z -> list Z -> Z -> option Z.
  Variable vrec : Z -> Z -> Z -> bool.
  Variable own_psig : Z -> Z -> Z -> Z.
  Hypothesis vrec_unchained : c_chained C = false -> forall r p p' s, vrec r p s = vrec r p' s.
  Hypothesis recov_sound : forall P r p sigs t s, recov P r p sigs t = Some s ->
    exists I, incl I sigs /\ NoDup (map idx_of I) /\ t <= Z.of_nat (length I) /\
              forall x, In x I -> vpart P r p x = true.

  (* Whenever the aggregator creates (stores) a beacon for (round r, previous signature p), the
     cache entry for EXACTLY (r, p) holds partial signatures with at least the live threshold of
     pairwise distinct signer indices, each of which verifies against the live group's public
     polynomial for exactly that message; and the beacon is the successor of the stored head.
     Partials that are invalid, duplicated (same index), or signed for another round or previous
     signature therefore never count. *)
  Theorem C03_local : forall s r p sg s' b o1 o2,
    agg_partial C idx_of recov vrec s r p sg = (s', o1 ++ OPut b :: o2) ->
    exists e I, cache_find (agg_cache idx_of s r p sg) r p = Some e /\
      incl I (map snd (ce_sigs e)) /\ NoDup (map idx_of I) /\
      g_thr (s_grp s) <= Z.of_nat (length I) /\
      (forall x, In x I -> vpart (g_poly (s_grp s)) r p x = true) /\
      b_round b = r /\ b_round b = b_round (head s) + 1.
  Proof. exact (agg_put_has_threshold C idx_of vpart recov vrec vrec_unchained recov_sound). Qed.

  (* What ProcessPartialBeacon lets through to the aggregator: only a partial whose index belongs
     to the live group, is not the node's own index (a replay of its own partial is refused),
     is at most one round ahead of the clock, and verifies against the live polynomial. *)
  Theorem C03_filter : forall s r p sg s' o,
    process_partial C idx_of vpart recov vrec s r p sg = (s', o) -> ~ In OReject o ->
    b_round (head s) < r ->
    r <= fst (next_round (s_now s) (c_period C) (c_genesis C)) /\
    0 <= idx_of sg /\ memb (idx_of sg) (g_members (s_grp s)) = true /\
    idx_of sg <> g_me (s_grp s) /\ vpart (g_poly (s_grp s)) r p sg = true.
  Proof. exact (process_partial_filter C idx_of vpart recov vrec). Qed.
End C03.
Print Assumptions C03_local.
Print Assumptions C03_filter.

(* System level (abstract network of Proofs/NetTime.v: a full signature for round r comes into
   existence only through a Recover event over partials of t distinct members -- symbolic
   unforgeability of threshold BLS): every beacon that exists anywhere, in any reachable state,
   was preceded by partials of at least t distinct members for exactly its round; with fewer
   than t contributing members none is ever produced. *)
Theorem C03_net : forall (cr : Z -> Z) (F : list Z) (t : Z) s s',
  (forall r, In r (n_beacons s) -> contributed t s r) -> reach cr F t s s' ->
  forall r, In r (n_beacons s') -> contributed t s' r.
Proof. intros cr F t s s'. exact (beacon_has_threshold cr F t s s'). Qed.
Print Assumptions C03_net.

(* non-vacuity, (n,t) = (4,3): with exactly 3 distinct valid contributors (the node's own
   partial and two members) the beacon is produced; with 2 it is not; a duplicate and a
   partial from a non-member index do not count *)
Definition ex_C := mkCfg true 4 1000 2 partial_cache_store_limit.
Definition ex_idx (sg : Z) := sg / 100.              (* partial id = 100*index + tag *)
Definition ex_vpart (_ r p sg : Z) := (sg mod 100 =? r).
Definition ex_recov (_ r p : Z) (sigs : list Z) (t : Z) :=
  if t <=? Z.of_nat (length (nodup Z.eq_dec (map ex_idx (filter (fun sg => sg mod 100 =? r) sigs)))) then Some r else None.
Definition ex_run es :=
  snd (run ex_C ex_idx ex_vpart ex_recov (fun r p s => s =? r) (fun _ r _ => 0 * 100 + r)
           (init 1000 0 (mkG 0 3 [0; 1; 2; 3] 0)) es).
Example C03_three_contributors_produce :
  ex_run [ETick 1 None; EPart 1 0 101; EPart 1 0 201] = [[OEmit 1 0 1 1000]; []; [OPut (mkB 1 0 1)]].
Proof. vm_compute. reflexivity. Qed.
Example C03_two_contributors_do_not :
  ex_run [ETick 1 None; EPart 1 0 101; EPart 1 0 101; EPart 1 0 501; EPart 1 0 1]
  = [[OEmit 1 0 1 1000]; []; []; [OReject]; [OReject]].
Proof. vm_compute. reflexivity. Qed.

(* ---------- system level, over the composed model Model/Net.v (see Props/C04.v for the model) ---------- *)
From DV Require Import Model.Net Proofs.TimeProofs Proofs.NetProofs.
Section C03_system.
  Variable C : cfg.
  Variable idx_of : Z -> Z.
  Variable vpart : Z -> Z -> Z -> Z -> bool.
  Variable recov : Z -> Z -> Z -> list Z -> Z -> option Z.
  Variable vrec : Z -> Z -> Z -> bool.
  Variable own_of : Z -> Z -> Z -> Z -> Z.
  Hypothesis vrec_unchained : c_chained C = false -> forall r p p' s, vrec r p s = vrec r p' s.
  Hypothesis recov_sound : forall P r p sigs t s, recov P r p sigs t = Some s ->
    exists I, incl I sigs /\ NoDup (map idx_of I) /\ t <= Z.of_nat (length I) /\
              forall x, In x I -> vpart P r p x = true.
  Hypothesis Hp : dom_p (c_period C).
  Hypothesis Hg : dom_g (c_genesis C).
  Variable thr_of : Z -> Z.       (* threshold of the sharing a public polynomial identifies (one per epoch) *)
  Variable F_of : Z -> list Z.    (* the share indices of that sharing the adversary holds *)
  Hypothesis F_small : forall P, Z.of_nat (length (F_of P)) < thr_of P.
  Variable gen : beacon.
  Hypothesis gen_round : b_round gen = 0.

  (* In every reachable state of the system (any number of honest nodes, the adversary owning the
     network and the share indices in F, |F| < t), every beacon in every honest chain beyond
     genesis had, for exactly its round and one previous signature, valid partials of ONE sharing P
     (never a mix of shares of two epochs) of at least that sharing's threshold of pairwise distinct
     indices on the wire, at least thr - |F| of them from indices the adversary does not hold: with fewer than t contributing members no beacon exists in any honest store. *)
  Theorem C03_system_threshold : forall y0 gs,
    sys_inv C idx_of vpart vrec thr_of F_of gen y0 ->
    gadm_run C idx_of vpart recov vrec own_of thr_of F_of y0 gs ->
    let y := grun C idx_of vpart recov vrec own_of y0 gs in
    forall s, In s (y_nodes y) -> forall b, In b (s_chain s) -> b <> gen ->
    exists P p I, NoDup (map idx_of I) /\ thr_of P <= Z.of_nat (length I) /\
      (forall x, In x I -> In (b_round b, p, x) (y_pool y) /\ vpart P (b_round b) p x = true) /\
      thr_of P - Z.of_nat (length (F_of P)) <= Z.of_nat (length (filter (honest_sig idx_of F_of P) I)).
  Proof.
    exact (run_threshold C idx_of vpart recov vrec own_of vrec_unchained recov_sound Hp Hg thr_of F_of gen).
  Qed.
End C03_system.
Print Assumptions C03_system_threshold.
