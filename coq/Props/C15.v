(* C15 - Private keys and shares never leave the node; the files that hold them are created
   readable by their owner only.
   Property theorems only; proofs are in Proofs/SecrecyProofs.v. The file-mode constants come
   from Gen/Consts.v and the table of output-field sources from Gen/Exposure.v, both regenerated
   from the Go sources on every run. *)
From Coq Require Import ZArith List Bool String.
From DV Require Import Model.Secrecy Proofs.SecrecyProofs Gen.Consts Gen.SaveFlags Gen.Exposure.
Import ListNotations.
Open Scope Z_scope.

(* ---------------- file modes ---------------- *)

(* obligation tied to the source: neither rwFilePermission (fs.go) nor the DKG database's
   BoltStoreOpenPerm (dkg/store.go) has a group/other bit. Fails when either constant regresses
   (e.g. BoltStoreOpenPerm = 0660). *)
Theorem C15_secret_perm_constants :
  owner_only fs_rw_file_perm /\ owner_only dkg_bolt_open_perm.
Proof. split; vm_compute; reflexivity. Qed.
Print Assumptions C15_secret_perm_constants.

(* obligation tied to the source: the private key file and the share file are written through
   key.Save(..., secure = true), i.e. fs.CreateSecureFile (call sites read from key/store.go) *)
Theorem C15_secret_files_saved_secure :
  save_secure FKeyPrivate = true /\ save_secure FShare = true.
Proof. split; reflexivity. Qed.
Print Assumptions C15_secret_files_saved_secure.

(* obligation tied to the source (key.Save): the path handed to fs.CreateSecureFile is the very file
   the encoder writes into and the file that ends up at the target - since the fix of C13's torn
   files that is the temporary file, renamed over the target after Sync and Close; the mode of a
   file travels with it through rename(2). So the file life modelled by [secure_file_trace]
   (create/truncate, chmod, reopen, write) is the life of the file that holds the secret, with
   [st] = whatever a dead earlier Save left at the temporary path. *)
Theorem C15_secure_mode_precedes_content :
  save_secure_on_written_file = true /\ (save_in_place = true \/ save_atomic_rename = true).
Proof. split; [reflexivity | first [left; reflexivity | right; reflexivity]]. Qed.
Print Assumptions C15_secure_mode_precedes_content.

(* for EVERY umask (any integer) and every file that holds the long-term key or a share
   (drand_id.private, dist_key.private, dkg.db), created by the code as it is, the file has no
   group/other permission bit at any moment content is written to it *)
Theorem C15_modes : forall f umask, file_secret f = true ->
  Forall owner_only
    (modes_at_writes umask None
       (file_trace fs_rw_file_perm dkg_bolt_open_perm chain_bolt_open_perm save_secure f)).
Proof.
  intros f umask. apply secret_files_owner_only;
    first [apply C15_secret_perm_constants | apply C15_secret_files_saved_secure].
Qed.
Print Assumptions C15_modes.

(* the two TOML files are chmod-ed before their content is written, so this also holds when the
   file already exists with any mode, and the final mode is exactly rwFilePermission *)
Theorem C15_modes_key_files_any_prior_state : forall umask st,
  Forall owner_only (modes_at_writes umask st (secure_file_trace fs_rw_file_perm)) /\
  final_mode umask st (secure_file_trace fs_rw_file_perm) = Some fs_rw_file_perm.
Proof.
  intros; split; [apply secure_trace_owner_only, C15_secret_perm_constants | apply secure_trace_final].
Qed.
Print Assumptions C15_modes_key_files_any_prior_state.

(* the mode of a freshly created dkg.db, for every umask: the open perm with the umask's bits removed *)
Theorem C15_dkgdb_mode : forall umask,
  modes_at_writes umask None (bolt_trace dkg_bolt_open_perm) = [create_mode dkg_bolt_open_perm umask] /\
  forall i, 0 <= i ->
    Z.testbit (create_mode dkg_bolt_open_perm umask) i =
    Z.testbit dkg_bolt_open_perm i && negb (Z.testbit umask i).
Proof. intros; split; [reflexivity | intros; apply create_mode_testbit; assumption]. Qed.
Print Assumptions C15_dkgdb_mode.

(* the statement is tight: an open perm WITH a group/other bit yields a group/other-accessible
   file under umask 0 - this is what the chain database does on purpose (0660); it holds beacons
   only (public data), so it is outside the property *)
Theorem C15_chain_db_is_public_data :
  file_secret FChainDb = false /\
  ~ Forall owner_only (modes_at_writes 0 None
      (file_trace fs_rw_file_perm dkg_bolt_open_perm chain_bolt_open_perm save_secure FChainDb)).
Proof.
  split; [reflexivity|]. apply bolt_trace_perm_needed. vm_compute. discriminate.
Qed.
Print Assumptions C15_chain_db_is_public_data.

(* limit of the mechanism, stated so that it is not overlooked: bolt.Open never changes the mode
   of an EXISTING file, so a dkg.db created by an older binary keeps the mode it had *)
Theorem C15_dkgdb_existing_file_keeps_mode : forall umask m,
  modes_at_writes umask (Some m) (bolt_trace dkg_bolt_open_perm) = [m].
Proof. intros; apply bolt_trace_existing_keeps_mode. Qed.
Print Assumptions C15_dkgdb_existing_file_keeps_mode.

(* ---------------- noninterference ---------------- *)

(* per-run obligation over the generated table: no field of any response, packet, stream item or
   log record built in the anchored files has a source rooted at a secret (or an unrecognised
   source) *)
Theorem C15_exposure_obligation : exposure_ok exposure = true.
Proof. vm_compute. reflexivity. Qed.
Print Assumptions C15_exposure_obligation.

(* for all interpretations of the crypto operations, constants and field combinators, all
   requests and all pairs of node states with the same public part: every modelled output is
   equal, except inside the fields computed by a crypto operation over the secrets
   (sign, partial_sign, pk_of, commit), which [output] blanks *)
Theorem C15_noninterference : forall (S : sem) (s1 s2 : state) (r : store),
  (forall p, pub s1 p = pub s2 p) ->
  forall c, In c exposure -> output S s1 r c = output S s2 r c.
Proof. exact (exposure_sound exposure C15_exposure_obligation). Qed.
Print Assumptions C15_noninterference.

(* the checker is tight: whatever field it rejects (and that is not a crypto-op field) does
   distinguish two states with the same public part, for some interpretation *)
Theorem C15_rejected_field_leaks : forall c f,
  field_ok f = false -> is_crypto_field f = false ->
  exists S s1 s2 r, (forall p, pub s1 p = pub s2 p) /\
    eval_field S s1 r c f <> eval_field S s2 r c f.
Proof. exact rejected_field_leaks. Qed.
Print Assumptions C15_rejected_field_leaks.

(* ---------------- non-vacuity ---------------- *)

Open Scope string_scope.
Definition has_ctor (n : string) : bool :=
  existsb (fun c : ctor => String.eqb (fst c) n) exposure.

(* the table is not empty, contains the anchored constructors, contains crypto-op fields (the
   signature of gossip metadata and the partial signature), and the premise of the
   noninterference theorem is met by two states that differ in their secret part only *)
Example C15_nonvacuous :
  (100 <=? count_fields exposure)%Z = true /\
  (2 <=? count_crypto_fields exposure)%Z = true /\
  has_ctor "core.BeaconProcess.PublicKey:PublicKeyResponse#1" = true /\
  has_ctor "core.BeaconProcess.GetIdentity:IdentityResponse#1" = true /\
  has_ctor "dkg.Process.DKGStatus:DKGEntry#2" = true /\
  has_ctor "dkg.Process.signMessage:GossipMetadata#1" = true /\
  has_ctor "beacon.Handler.broadcastNextPartial:PartialBeaconPacket#1" = true /\
  (let s1 := {| pub := fun _ => [1%Z]; sec := fun _ => [2%Z] |} in
   let s2 := {| pub := fun _ => [1%Z]; sec := fun _ => [3%Z] |} in
   (forall p, pub s1 p = pub s2 p) /\ sec s1 [] <> sec s2 []) /\
  (* a field rooted at the private key is rejected by the checker *)
  exposure_ok [("x", [("Key", [SSec ["bp"; "priv"; "Key"]])])] = false /\
  (* modes: umask 022 and 000 *)
  modes_at_writes 18 None (bolt_trace dkg_bolt_open_perm) = [384%Z] /\
  modes_at_writes 0 None (bolt_trace chain_bolt_open_perm) = [432%Z] /\
  modes_at_writes 0 (Some 420%Z) (secure_file_trace fs_rw_file_perm) = [384%Z] /\
  (* and the 0660 value the DKG database used to have fails the obligation *)
  ~ owner_only 432.
Proof.
  repeat split; try (vm_compute; reflexivity); try (vm_compute; discriminate).
Qed.
