(* C08 — DKG state moves only along legal transitions; failures keep the last good epoch.
   Property theorems only; proofs are in Proofs/DKGStateProofs.v.  Every theorem is stated for an
   ARBITRARY signature/identity oracle (joiner_ok, key_ok, verify_message), node identity [me],
   beacon id [B], and for ALL histories: lists of (now, event) where the events are operator
   commands, gossip packets and execution outcomes, valid or not, with an arbitrary clock.
   The transition relation [valid_change], [terminal_states], [proposal_phase_states] come from
   the generated Gen/DKGTable.v (re-read from state_machine.go on every run). *)
From Coq Require Import ZArith List Bool.
From DV Require Import Gen.DKGTable Model.DKGState Proofs.DKGStateProofs.
Import ListNotations.
Open Scope Z_scope.

(* ---------- obligations on the generated tables (fail when the source table changes shape) ---------- *)
Theorem C08_only_executing_completes : forall a, valid_change a Complete = true -> a = Executing.
Proof. exact vc_to_complete. Qed.
Print Assumptions C08_only_executing_completes.

Theorem C08_only_executing_fails : forall a, valid_change a Failed = true -> a = Executing.
Proof. exact vc_to_failed. Qed.
Print Assumptions C08_only_executing_fails.

Theorem C08_terminal_states : forall a, is_terminal a = true <-> (a = Aborted \/ a = TimedOut \/ a = Failed).
Proof. exact is_terminal_iff. Qed.
Print Assumptions C08_terminal_states.

Theorem C08_completed_state_only_proposes : forall b, valid_change Complete b = true -> b = Proposing \/ b = Proposed.
Proof. exact vc_from_complete. Qed.
Print Assumptions C08_completed_state_only_proposes.

Section C08.
  Variable joiner_ok : bytes -> participant -> bool.
  Variable key_ok : bytes -> bool.
  Variable verify_message : gpacket -> terms -> option err.
  Variable me : participant.
  Variable B : bytes.
  Notation pstep := (step joiner_ok key_ok verify_message me B).
  Notation ptrace := (trace joiner_ok key_ok verify_message me B).

  (* C08_legal: along every history, current.State stays, or moves along an edge of the generated
     valid_change, or - when the state was Aborted/TimedOut/Failed - along an edge that leaves the
     finished record's state (Complete) or Fresh when there is none (the fallback rule). *)
  Theorem C08_legal : forall h s0, inv s0 -> chain (legal_edge B) s0 (ptrace s0 h).
  Proof. intros h s0 I. apply chain_steps; auto. intros; apply step_legal_edge; assumption. Qed.

  Theorem C08_legal_from_start : forall h, chain (legal_edge B) init_store (ptrace init_store h).
  Proof. intros; apply C08_legal. apply inv_init. Qed.

  (* C08_finished_monotone: the finished record changes only when an execution completes from state
     Executing; the new record is Complete, equals the new current record, holds a group and a share,
     and its epoch is strictly larger than the replaced record's. *)
  Theorem C08_finished_monotone : forall h s0, inv s0 -> chain (finished_edge B) s0 (ptrace s0 h).
  Proof. intros h s0 I. apply chain_steps; auto. intros; apply step_finished_edge; assumption. Qed.

  (* ... and the group and share stored are exactly the outputs of that execution *)
  Theorem C08_finished_is_output : forall s ev s' o, inv s -> pstep s ev = (s', o) ->
    finished s' = finished s
    \/ (exists g sh d, snd ev = EvFinish (Some (g, sh)) /\ o = OK /\ finished s' = Some d /\ current s' = Some d
          /\ st_state d = Complete /\ st_final_group d = Some g /\ st_key_share d = Some sh
          /\ st_state (get_current B s) = Executing /\ st_epoch d = st_epoch (get_current B s)
          /\ (forall f, finished s = Some f -> st_epoch f < st_epoch d)).
  Proof. intros; eapply step_finished; eassumption. Qed.

  (* every rejected command / packet / execution outcome leaves BOTH buckets unchanged. The two
     save-then-fail paths of the code are excluded by name: a proposal command that was stored and
     then failed to gossip (EGossip) and an Execute whose kyber set-up failed after the state was
     stored (EExecSetup); they are covered by the next theorem. *)
  Theorem C08_rejected_unchanged : forall s ev s' e,
    pstep s ev = (s', Rej e) -> e <> EGossip -> e <> EExecSetup -> s' = s.
  Proof. intros; eapply step_rejected; eassumption. Qed.

  Theorem C08_rejected_keeps_finished : forall s ev s' e, inv s -> pstep s ev = (s', Rej e) -> finished s' = finished s.
  Proof. intros; eapply step_rejected_finished; eassumption. Qed.

  (* aborted, timed-out and failed attempts leave the finished record unchanged *)
  Theorem C08_terminal_keeps_finished : forall s ev s' o, inv s -> pstep s ev = (s', o) ->
    is_terminal (st_state (get_current B s')) = true -> finished s' = finished s.
  Proof. intros; eapply step_terminal_finished; eassumption. Qed.

  (* C08_retry (1): after abort / timeout / failure the node answers every later command and packet
     exactly like a node whose current record is the last completed one (Fresh if none) *)
  Theorem C08_retry_equivalent_packet : forall now s p, inv s -> is_terminal (st_state (get_current B s)) = true ->
    same_result s (rolled_back s) (packet_step joiner_ok key_ok verify_message me B now s p)
                                  (packet_step joiner_ok key_ok verify_message me B now (rolled_back s) p).
  Proof. intros; apply packet_retry; assumption. Qed.

  Theorem C08_retry_equivalent_command : forall now s c, inv s -> is_terminal (st_state (get_current B s)) = true ->
    same_result s (rolled_back s) (command_step joiner_ok key_ok me B now s c)
                                  (command_step joiner_ok key_ok me B now (rolled_back s) c).
  Proof. intros; apply command_retry; assumption. Qed.

  (* C08_retry (2): ... and a well-formed proposal for finished.Epoch + 1 is then accepted *)
  Theorem C08_retry : forall now s f g t l p md,
    inv s -> is_terminal (st_state (get_current B s)) = true -> finished s = Some f ->
    st_final_group f = Some g ->
    gp_md p = Some md -> gp_body p = PProposal t -> t_leader t = Some l ->
    4 <= len (md_sig md) -> mem_bytes (md_sig md) (seen s) = false -> md_beacon md = B ->
    p_addr l = md_addr md -> good_reshare joiner_ok now f g t l ->
    contains (t_joining t) me || contains (t_remaining t) me || contains (t_leaving t) me = true ->
    verify_message p (terms_from_state (new_state_from f t Proposed (t_genesis_seed t))) = None ->
    exists s', packet_step joiner_ok key_ok verify_message me B now s p = (s', OK)
      /\ current s' = Some (new_state_from f t Proposed (t_genesis_seed t)) /\ finished s' = Some f.
  Proof.
    intros now s f g t l p md I T F G Hmd Hb L Hlen Hseen Hbe Hl GR Hme Hv.
    destruct (fallback_base B s I T) as [[f' [F' [E S]]] | [F' _]]; [|congruence].
    assert (Q : f' = f) by congruence. rewrite Q in E, S. clear Q F' f'.
    destruct (good_proposal_accepted joiner_ok key_ok verify_message me B now s f g t l p md E S G Hmd Hb L Hlen Hseen Hbe Hl GR Hme Hv)
      as [s' [H1 [H2 H3]]].
    exists s'; repeat split; auto. congruence.
  Qed.

  (* C08_epoch_monotone_members: a node with a finished record whose current epoch is the finished
     epoch or the next one keeps that relation, and its current epoch never decreases, along every
     history that does not take it through state Left (the only non-Fresh state from which the code
     accepts an epoch jump). *)
  Theorem C08_epoch_monotone_members : forall h s0, inv s0 -> tight s0 ->
    never_left B s0 (ptrace s0 h) -> chain (member_edge B) s0 (ptrace s0 h).
  Proof. intros; apply members_chain; assumption. Qed.

  (* the finished epoch itself never decreases, for every node and history (from finished_edge) *)
  Theorem C08_finished_epoch_monotone : forall s ev s' o f f', inv s -> pstep s ev = (s', o) ->
    finished s = Some f -> finished s' = Some f' -> st_epoch f <= st_epoch f'.
  Proof.
    intros s ev s' o f f' I H F F'.
    destruct (step_finished _ _ _ _ _ _ _ _ _ I H) as [Q|(g & sh & d & _ & _ & Fd & _ & _ & _ & _ & _ & _ & L)].
    - rewrite Q, F in F'; inversion F'; subst; apply Z.le_refl.
    - rewrite Fd in F'; inversion F'; subst. specialize (L f F). apply Z.lt_le_incl; assumption.
  Qed.

  (* C08_epoch_partial: for ALL nodes, current.Epoch decreases only through the fallback after an
     abort/timeout/failure, and then the new epoch is above the epoch of the state fallen back to *)
  Theorem C08_epoch_partial : forall h s0, inv s0 -> chain (epoch_edge B) s0 (ptrace s0 h).
  Proof. intros h s0 I. apply chain_steps; auto. intros; apply step_epoch_edge; assumption. Qed.

  (* ---------- C08_reject: one lemma per rejection rule (on ValidateProposal, for the base state d
     the node applies the proposal to), and their lifting to the packet / command entry points ---- *)
  Notation vp := (validate_proposal joiner_ok).
  Theorem C08_reject_stale_epoch : forall now d t, t_epoch t < st_epoch d -> vp now d (Some t) <> None.
  Proof. exact (reject_stale_epoch joiner_ok). Qed.
  Theorem C08_reject_same_epoch : forall now d t, t_epoch t = st_epoch d -> is_terminal (st_state d) = false -> vp now d (Some t) <> None.
  Proof. exact (reject_same_epoch joiner_ok). Qed.
  Theorem C08_reject_epoch_skip : forall now d t, u32_succ (st_epoch d) < t_epoch t -> st_state d <> Left -> st_state d <> Fresh -> vp now d (Some t) <> None.
  Proof. exact (reject_epoch_skip joiner_ok). Qed.
  Theorem C08_reject_nil_terms : forall now d, vp now d None = Some EMissingTerms.
  Proof. exact (reject_nil_terms joiner_ok). Qed.
  Theorem C08_reject_wrong_beacon : forall now d t, st_beacon d <> t_beacon t -> vp now d (Some t) <> None.
  Proof. exact (reject_wrong_beacon joiner_ok). Qed.
  Theorem C08_reject_unknown_scheme : forall now d t, scheme_known (t_scheme t) = false -> vp now d (Some t) <> None.
  Proof. exact (reject_unknown_scheme joiner_ok). Qed.
  Theorem C08_reject_bad_joiner_signature : forall now d t j, In j (t_joining t) -> joiner_ok (t_scheme t) j = false -> vp now d (Some t) <> None.
  Proof. exact (reject_bad_joiner_signature joiner_ok). Qed.
  Theorem C08_reject_expired : forall now d t, t_timeout t < now -> vp now d (Some t) <> None.
  Proof. exact (reject_expired joiner_ok). Qed.
  Theorem C08_reject_threshold_above_node_count : forall now d t,
    len (t_joining t) + len (t_remaining t) < t_threshold t -> vp now d (Some t) <> None.
  Proof. exact (reject_threshold_above_node_count joiner_ok). Qed.
  Theorem C08_reject_threshold_below_minimum : forall now d t,
    t_threshold t < minimum_t (len (t_joining t) + len (t_remaining t)) -> vp now d (Some t) <> None.
  Proof. exact (reject_threshold_below_minimum joiner_ok). Qed.
  (* the membership and genesis rules are applied by the code only when the base state is not Fresh;
     members are identified by address AND key (has_addr_key), so a substituted key counts as an
     invented / dropped member *)
  Theorem C08_reject_dropped_member : forall now d t g n, st_state d <> Fresh -> t_epoch t <> 1 ->
    st_final_group d = Some g -> In n (g_nodes g) -> has_addr_key (t_remaining t ++ t_leaving t) n = false ->
    vp now d (Some t) <> None.
  Proof. exact (reject_dropped_member joiner_ok). Qed.
  Theorem C08_reject_invented_member : forall now d t g n, st_state d <> Fresh -> t_epoch t <> 1 ->
    st_final_group d = Some g -> In n (t_remaining t ++ t_leaving t) -> has_addr_key (g_nodes g) n = false ->
    vp now d (Some t) <> None.
  Proof. exact (reject_invented_member joiner_ok). Qed.
  Theorem C08_reject_genesis_time_change : forall now d t, st_state d <> Fresh -> t_epoch t <> 1 ->
    unix (t_genesis_time t) <> unix (st_genesis_time d) -> vp now d (Some t) <> None.
  Proof. exact (reject_genesis_time_change joiner_ok). Qed.
  Theorem C08_reject_genesis_seed_change : forall now d t, st_state d <> Fresh -> t_epoch t <> 1 ->
    t_genesis_seed t <> st_genesis_seed d -> vp now d (Some t) <> None.
  Proof. exact (reject_genesis_seed_change joiner_ok). Qed.

  (* lifting: what ValidateProposal refuses leaves the store untouched, at both entry points *)
  Theorem C08_reject_packet : forall now s p t,
    gp_body p = PProposal t -> vp now (effective B s) (Some t) <> None ->
    fst (packet_step joiner_ok key_ok verify_message me B now s p) = s.
  Proof. intros; eapply proposal_packet_refused; eassumption. Qed.

  (* malformed: a proposal without the leader field is refused with an error (it used to panic) *)
  Theorem C08_reject_no_leader : forall now s p t,
    gp_body p = PProposal t -> t_leader t = None ->
    fst (packet_step joiner_ok key_ok verify_message me B now s p) = s.
  Proof. intros; eapply proposal_without_leader_refused; eassumption. Qed.

  Theorem C08_reject_command : forall now s c o,
    c_body c = CResharing o ->
    vp now (effective B s)
      (Some (mkT B (po_threshold o) (u32_succ (st_epoch (effective B s))) (po_timeout o) (Some me) (po_catchup o)
                 (st_period (effective B s)) (st_scheme (effective B s)) (st_genesis_time (effective B s))
                 (st_genesis_seed (effective B s)) (po_joining o) (po_remaining o) (po_leaving o))) <> None ->
    fst (command_step joiner_ok key_ok me B now s c) = s.
  Proof. intros; eapply reshare_command_refused; eassumption. Qed.

  (* F13b (fixed): a base state that is not Fresh and has no FinalGroup (Left reached from Proposed)
     refuses every reshare proposal with ErrMissingPreviousGroup instead of dereferencing nil *)
  Theorem C08_reject_no_previous_group : forall now d t,
    st_state d <> Fresh -> st_final_group d = None -> t_epoch t <> 1 -> vp now d (Some t) <> None.
  Proof. exact (left_state_refuses joiner_ok). Qed.

  Theorem C08_left_state_error : forall now d t,
    st_state d <> Fresh -> st_final_group d = None -> t_epoch t <> 1 ->
    validate_for_all_dkgs joiner_ok now d (Some t) = None -> validate_reshare_terms d t = None ->
    unix (t_genesis_time t) = unix (st_genesis_time d) -> t_genesis_seed t = st_genesis_seed d ->
    vp now d (Some t) = Some EMissingPreviousGroup.
  Proof. exact (left_state_error joiner_ok). Qed.
End C08.

Print Assumptions C08_legal.
Print Assumptions C08_legal_from_start.
Print Assumptions C08_finished_monotone.
Print Assumptions C08_finished_is_output.
Print Assumptions C08_rejected_unchanged.
Print Assumptions C08_rejected_keeps_finished.
Print Assumptions C08_terminal_keeps_finished.
Print Assumptions C08_retry_equivalent_packet.
Print Assumptions C08_retry_equivalent_command.
Print Assumptions C08_retry.
Print Assumptions C08_epoch_monotone_members.
Print Assumptions C08_finished_epoch_monotone.
Print Assumptions C08_epoch_partial.
Print Assumptions C08_reject_stale_epoch.
Print Assumptions C08_reject_same_epoch.
Print Assumptions C08_reject_epoch_skip.
Print Assumptions C08_reject_nil_terms.
Print Assumptions C08_reject_wrong_beacon.
Print Assumptions C08_reject_unknown_scheme.
Print Assumptions C08_reject_bad_joiner_signature.
Print Assumptions C08_reject_expired.
Print Assumptions C08_reject_threshold_above_node_count.
Print Assumptions C08_reject_threshold_below_minimum.
Print Assumptions C08_reject_dropped_member.
Print Assumptions C08_reject_invented_member.
Print Assumptions C08_reject_genesis_time_change.
Print Assumptions C08_reject_genesis_seed_change.
Print Assumptions C08_reject_packet.
Print Assumptions C08_reject_no_leader.
Print Assumptions C08_reject_command.
Print Assumptions C08_reject_no_previous_group.
Print Assumptions C08_left_state_error.

(* ---------- concrete witnesses (non-vacuity, and the refuted full statement) ---------- *)
Definition w_sch : bytes := hd [] known_schemes.
Definition w_B : bytes := [100].
Definition w_me : participant := mkP [49] [11] [21].
Definition w_x : participant := mkP [50] [12] [22].
Definition w_y : participant := mkP [51] [13] [23].
Definition all_ok_j (_ : bytes) (_ : participant) : bool := true.
Definition all_ok_k (_ : bytes) : bool := true.
Definition all_ok_v (_ : gpacket) (_ : terms) : option err := None.
Definition w_step := step all_ok_j all_ok_k all_ok_v w_me w_B.
Definition w_run := run all_ok_j all_ok_k all_ok_v w_me w_B.

(* a reshare-style proposal led by x with me joining, at the given epoch *)
Definition w_terms (epoch : Z) : terms :=
  mkT w_B 2 epoch 1000 (Some w_x) 5 30 w_sch 0 [9] [w_me] [w_x] [].
Definition w_pkt (body : pkt) (sig : Z) : Z * event :=
  (0, EvPacket (mkGp (Some (mkMd w_B (p_addr w_x) [1; 2; 3; sig])) body)).

(* C08_epoch_full: "its epoch never decreases", for all nodes and histories *)
Definition C08_epoch_full : Prop :=
  forall joiner_ok key_ok verify_message me B h,
    chain (fun s s' => st_epoch (get_current B s) <= st_epoch (get_current B s'))
          init_store (trace joiner_ok key_ok verify_message me B init_store h).

(* refuted by the faithful model (F13a): a node without a finished record accepts epoch 7, is
   aborted by that proposal's leader, falls back to Fresh and accepts epoch 3 *)
Definition w_fresh_history : list (Z * event) :=
  [w_pkt (PProposal (w_terms 7)) 4; w_pkt (PAbort [110]) 5; w_pkt (PProposal (w_terms 3)) 6].

Theorem C08_epoch_refuted : ~ C08_epoch_full.
Proof.
  intros H. specialize (H all_ok_j all_ok_k all_ok_v w_me w_B w_fresh_history).
  vm_compute in H. destruct H as [_ [_ [H _]]]. apply H. reflexivity.
Qed.
Print Assumptions C08_epoch_refuted.

Example C08_epoch_witness_trace :
  map (fun s => (st_state (get_current w_B s), st_epoch (get_current w_B s)))
      (trace all_ok_j all_ok_k all_ok_v w_me w_B init_store w_fresh_history)
  = [(Proposed, 7); (Aborted, 7); (Proposed, 3)].
Proof. vm_compute. reflexivity. Qed.

(* the carve-out "never through Left" of C08_epoch_monotone_members is needed: a member whose leader
   lists it as leaving AND joining keeps the group file as FinalGroup when the execute moves it to
   Left, accepts a proposal ten epochs ahead, is aborted, and falls back to epoch 1 + 1 *)
Definition w_terms_lj (epoch : Z) (joining : list participant) : terms :=
  mkT w_B 2 epoch 1000 (Some w_x) 5 30 w_sch 0 [9] joining [w_x; w_y] [w_me].
Definition w_g1' : group := mkG [w_x; w_y; w_me] 2 0 [9].
Definition w_fin1' : dbstate :=
  mkS w_B 1 Complete 2 1000 w_sch 0 [9] 5 30 (Some w_x) [] [w_x; w_y; w_me] [] [] [] (Some w_g1') (Some [1]).
Example C08_member_left_jump_witness :
  let s0 := mkStore (Some w_fin1') (Some w_fin1') [] in
  let h := [w_pkt (PProposal (w_terms_lj 2 [w_me])) 4; (0, EvCommand (mkCmd (Some w_B) (CJoin (JGroup w_g1')) [7; 7; 7; 7] false));
            w_pkt (PExecute 0) 5; w_pkt (PProposal (w_terms_lj 11 [])) 6; w_pkt (PAbort [110]) 7;
            w_pkt (PProposal (w_terms_lj 2 [])) 8] in
  inv s0 /\ tight s0
  /\ map (fun s => (st_state (get_current w_B s), st_epoch (get_current w_B s)))
         (trace all_ok_j all_ok_k all_ok_v w_me w_B s0 h)
     = [(Proposed, 2); (Joined, 2); (Left, 2); (Proposed, 11); (Aborted, 11); (Proposed, 2)].
Proof.
  split; [|split].
  - split; simpl.
    + intros f F; inversion F; subst. repeat split; try discriminate. exists w_fin1'; auto.
    + intros c C; inversion C; subst. split; [discriminate|auto].
  - exists w_fin1', w_fin1'. repeat split; auto.
  - vm_compute. reflexivity.
Qed.

(* regression witness of the former Left panic: Proposed (leaving) -> Execute packet -> Left -> the
   next proposal is refused with an error and the store is unchanged *)
Definition w_terms_leaving (epoch : Z) : terms :=
  mkT w_B 1 epoch 1000 (Some w_x) 5 30 w_sch 0 [9] [] [w_x] [w_me].
Example C08_left_state_witness :
  let h := [w_pkt (PProposal (w_terms_leaving 2)) 4; w_pkt (PExecute 0) 5; w_pkt (PProposal (w_terms_leaving 3)) 6] in
  map (fun s => st_state (get_current w_B s)) (trace all_ok_j all_ok_k all_ok_v w_me w_B init_store h) = [Proposed; Left; Left]
  /\ snd (w_step (w_run init_store [w_pkt (PProposal (w_terms_leaving 2)) 4; w_pkt (PExecute 0) 5])
                 (w_pkt (PProposal (w_terms_leaving 3)) 6)) = Rej EMissingPreviousGroup.
Proof. vm_compute. split; reflexivity. Qed.

(* non-vacuity of the main theorems: genesis by x with me joining, join, execute, completion; a
   reshare proposal, abort, and the retry at the same epoch is accepted; the finished record is
   kept throughout *)
Definition w_group : group := mkG [w_x; w_me] 2 0 [9].
Definition w_terms1 : terms := mkT w_B 2 1 1000 (Some w_x) 5 30 w_sch 0 [] [w_x; w_me] [] [].
Definition w_terms2 : terms := mkT w_B 2 2 1000 (Some w_x) 5 30 w_sch 0 [9] [] [w_x; w_me] [].
Definition w_cmd (c : cmd) : Z * event := (0, EvCommand (mkCmd (Some w_B) c [7; 7; 7; 7] false)).
Definition w_history : list (Z * event) :=
  [w_pkt (PProposal w_terms1) 4; w_cmd (CJoin JNone); w_pkt (PExecute 0) 5; (0, EvFinish (Some (w_group, [1])));
   w_pkt (PProposal w_terms2) 6; w_pkt (PAbort [110]) 7; w_pkt (PProposal w_terms2) 8].
Example C08_nonvacuous :
  map (fun s => (st_state (get_current w_B s), st_epoch (get_current w_B s),
                 match finished s with Some f => st_epoch f | None => -1 end))
      (trace all_ok_j all_ok_k all_ok_v w_me w_B init_store w_history)
  = [(Proposed, 1, -1); (Joined, 1, -1); (Executing, 1, -1); (Complete, 1, 1);
     (Proposed, 2, 1); (Aborted, 2, 1); (Proposed, 2, 1)].
Proof. vm_compute. reflexivity. Qed.

(* the premises of C08_retry and C08_epoch_monotone_members are met by that history's states *)
Example C08_retry_nonvacuous :
  let s := w_run init_store (firstn 6 w_history) in
  is_terminal (st_state (get_current w_B s)) = true /\ tight s
  /\ exists f, finished s = Some f /\ good_reshare all_ok_j 0 f w_group w_terms2 w_x.
Proof.
  split; [vm_compute; reflexivity|]. split.
  - eexists; eexists. vm_compute. repeat split; try reflexivity. right; reflexivity.
  - eexists. split; [vm_compute; reflexivity|]. vm_compute. repeat split; try reflexivity; try discriminate.
Qed.
