(* C11 — A beacon stream delivers every round once, in order, from the requested round.
   Property theorems only; proofs are in Proofs/StreamProofs.v. The model (Model/Stream.v) is the
   server side of SyncChain over the callback store, with bolt's cursor as a snapshot and memdb's
   cursor as a live index; PublicRandStream reuses the routine (obligation on the generated
   Gen/StreamCalls.v).

   The statement quantifies over ALL schedules: any list of events (appends, stream starts with any
   connection id and start round, Send completions with success or failure, registrations), hence
   any number of concurrent streams and reconnects. *)
From Coq Require Import ZArith List Bool Lia.
From DV Require Import Model.Stream Proofs.StreamProofs Gen.StreamCalls.
Import ListNotations.
Open Scope Z_scope.

(* obligation tied to the source: the public stream hands the beacon's callback store to SyncChain *)
Theorem C11_public_stream_reuses_sync_chain : public_rand_stream_calls_sync_chain = true.
Proof. reflexivity. Qed.

(* the full statement: on both back-ends, for every schedule, what a stream has sent is a prefix of
   the stored beacons from its start position (no round skipped or repeated, each equal to the
   stored one) *)
Definition C11_full : Prop :=
  forall bk g es k s, nth_error (streams (ss_run bk (ss_init g) es)) k = Some s ->
    lprefix (s_sent s) (skipn (s_base s) (store (ss_run bk (ss_init g) es))).

(* refuted: store 0..3, stream from 1; the scan sends 1, 2, 3 and ends; round 4 is appended before
   AddCallback runs; then 5 and 6 arrive through the callback: sent 1 2 3 5 6 *)
Definition handover_witness : list sev :=
  [SPut 11; SPut 12; SPut 13; SStart 1 1; SAck 0 true; SAck 0 true; SAck 0 true;
   SPut 14; SRegister 0; SPut 15; SPut 16; SAck 0 true; SAck 0 true].

Theorem C11_refuted : ~ C11_full.
Proof.
  intro H.
  assert (E : nth_error (streams (ss_run Mem (ss_init 10) handover_witness)) 0 =
              Some (nth 0 (streams (ss_run Mem (ss_init 10) handover_witness)) (mkS 0 0 PWaitReg [] 0 [] [] None)))
    by (vm_compute; reflexivity).
  specialize (H Mem 10 handover_witness 0%nat _ E). apply lprefix_is_prefix in H. revert H. vm_compute. discriminate.
Qed.
Print Assumptions C11_refuted.

Example C11_witness_sent :
  map fst (s_sent (nth 0 (streams (ss_run Mem (ss_init 10) handover_witness)) (mkS 0 0 PWaitReg [] 0 [] [] None))) = [1; 2; 3; 5; 6] /\
  map fst (s_sent (nth 0 (streams (ss_run Bolt (ss_init 10) handover_witness)) (mkS 0 0 PWaitReg [] 0 [] [] None))) = [1; 2; 3; 5; 6] /\
  (* on bolt the window is wider: an append during the scan is lost as well (the scan reads a snapshot) *)
  map fst (s_sent (nth 0 (streams (ss_run Bolt (ss_init 10)
     [SPut 11; SPut 12; SPut 13; SStart 1 1; SPut 14; SAck 0 true; SAck 0 true; SAck 0 true; SRegister 0; SPut 15; SAck 0 true]))
     (mkS 0 0 PWaitReg [] 0 [] [] None))) = [1; 2; 3; 5] /\
  map fst (s_sent (nth 0 (streams (ss_run Mem (ss_init 10)
     [SPut 11; SPut 12; SPut 13; SStart 1 1; SPut 14; SAck 0 true; SAck 0 true; SAck 0 true; SAck 0 true; SRegister 0; SPut 15; SAck 0 true]))
     (mkS 0 0 PWaitReg [] 0 [] [] None))) = [1; 2; 3; 4; 5].
Proof. vm_compute. repeat split; reflexivity. Qed.

(* proved, for every schedule on both back-ends, any number of streams and reconnects:
   if no beacon was appended between a stream's snapshot / last scan read and its AddCallback
   ([s_missed s] collects exactly those appends), then what it has sent is a prefix of the stored
   beacons from its start position ... *)
Theorem C11_contiguous_no_window : forall bk g es k s,
  nth_error (streams (ss_run bk (ss_init g) es)) k = Some s -> s_missed s = [] ->
  lprefix (s_sent s) (skipn (s_base s) (store (ss_run bk (ss_init g) es))).
Proof. exact stream_contiguous. Qed.
Print Assumptions C11_contiguous_no_window.

(* ... that is: the i-th beacon sent has round start+i and is the stored beacon of that round;
   the start position is the requested round (unless the request was for round 0 = "from now on",
   or was refused because it lies beyond the head) *)
Theorem C11_contiguous_rounds : forall bk g es k s,
  nth_error (streams (ss_run bk (ss_init g) es)) k = Some s -> s_missed s = [] ->
  forall i b, nth_error (s_sent s) i = Some b ->
    fst b = Z.of_nat (s_base s + i) /\
    nth_error (store (ss_run bk (ss_init g) es)) (s_base s + i) = Some b.
Proof. exact stream_contiguous_rounds. Qed.
Print Assumptions C11_contiguous_rounds.

Theorem C11_start_round : forall bk g es k s,
  nth_error (streams (ss_run bk (ss_init g) es)) k = Some s ->
  s_from s = 0 \/ s_phase s = PDone SErrNoBeacon \/ s_base s = Z.to_nat (s_from s).
Proof. exact stream_base. Qed.
Print Assumptions C11_start_round.

(* exact characterisation, without any carve-out: what a stream sends is a prefix of [s_exp s],
   and the requested part of the store is an interleaving of [s_exp s] and the beacons appended in
   the hand-over window: those are the ONLY beacons that can be skipped *)
Theorem C11_skips_only_window : forall bk g es k s,
  nth_error (streams (ss_run bk (ss_init g) es)) k = Some s ->
  lprefix (s_sent s) (s_exp s) /\
  exists C rest, skipn (s_base s) (store (ss_run bk (ss_init g) es)) = C ++ rest /\
                 merge (s_exp s) (s_missed s) C.
Proof. exact stream_exact. Qed.
Print Assumptions C11_skips_only_window.

(* once registered (AddCallback ran with the store at length p and n0 beacons sent), what the
   stream sends afterwards is a prefix of the appends from that point on, in append order *)
Theorem C11_order_live : forall bk g es k s p n0,
  nth_error (streams (ss_run bk (ss_init g) es)) k = Some s -> s_reg s = Some (p, n0) ->
  lprefix (skipn n0 (s_sent s)) (skipn p (store (ss_run bk (ss_init g) es))).
Proof. exact stream_order_live. Qed.
Print Assumptions C11_order_live.

(* ---------- non-vacuity: two concurrent streams and a reconnect under the same id, no append in
   any window: premises hold and the streams have delivered several rounds ---------- *)
Definition busy_schedule : list sev :=
  [SPut 11; SPut 12; SPut 13;
   SStart 1 2; SStart 2 0; SRegister 1; SAck 0 true; SAck 0 true; SRegister 0;
   SPut 14; SPut 15; SAck 0 true; SAck 1 true;
   SStart 1 4; SAck 2 true; SAck 2 true; SRegister 2; SPut 16; SAck 2 true; SAck 0 true; SAck 0 true].
Example C11_nonvacuous :
  let st := ss_run Bolt (ss_init 10) busy_schedule in
  map (fun s => (map fst (s_sent s), s_missed s, s_reg s)) (streams st) =
    [([2; 3; 4; 5], [], Some (4%nat, 2%nat));
     ([4; 5], [], Some (4%nat, 0%nat));
     ([4; 5; 6], [], Some (6%nat, 2%nat))] /\
  map s_error (streams st) = [Some SErrReplaced; None; None].
Proof. vm_compute. split; reflexivity. Qed.
