(* C11 — A beacon stream delivers every round once, in order, from the requested round.
   Property theorems only; proofs are in Proofs/StreamProofs.v. The model (Model/Stream.v) is the
   server side of SyncChain over the callback store, with bolt's cursor as a snapshot and memdb's
   cursor as a live index; PublicRandStream reuses the routine (obligation on the generated
   Gen/StreamCalls.v).

   The statement quantifies over ALL schedules: any list of events (appends, stream starts with any
   connection id and start round, Send completions with success or failure, registrations), hence
   any number of concurrent streams and reconnects. *)
From Coq Require Import ZArith List Bool Lia.
From DV Require Import Model.Stream Proofs.StreamProofs Gen.StreamCalls.
Import ListNotations.
Open Scope Z_scope.

(* obligation tied to the source: the public stream hands the beacon's callback store to SyncChain *)
Theorem C11_public_stream_reuses_sync_chain : public_rand_stream_calls_sync_chain = true.
Proof. reflexivity. Qed.

(* obligation tied to the source: every return of SyncChain after store.AddCallback is directly
   preceded by store.RemoveCallback(id) or passes on the error of the callback (which removed itself
   or was replaced) - the model's "every exit unregisters" *)
Theorem C11_sync_chain_exits_unregister : sync_chain_exits_unregister = true.
Proof. reflexivity. Qed.

(* the full statement, proved for every schedule on both back-ends, any number of concurrent
   streams and same-id reconnects: what a stream has sent is a prefix of the stored beacons from its
   start position (no round skipped or repeated, strictly increasing, each equal to the stored
   one). SyncChain remembers the last round it sent, drops callback beacons at or below it and
   reads what was stored between its scan and AddCallback from the store (fix of the hand-over
   window, see known_findings.txt "fixed: property=C11"). *)
Theorem C11_full : forall bk g es k s,
  nth_error (streams (ss_run bk (ss_init g) es)) k = Some s ->
  lprefix (s_sent s) (skipn (s_base s) (store (ss_run bk (ss_init g) es))).
Proof. exact stream_full. Qed.
Print Assumptions C11_full.

(* ... that is: the i-th beacon sent has round start+i and is the stored beacon of that round;
   the start position is the requested round (unless the request was for round 0 = "from now on",
   or was refused because it lies beyond the head) *)
Theorem C11_rounds : forall bk g es k s,
  nth_error (streams (ss_run bk (ss_init g) es)) k = Some s ->
  forall i b, nth_error (s_sent s) i = Some b ->
    fst b = Z.of_nat (s_base s + i) /\
    nth_error (store (ss_run bk (ss_init g) es)) (s_base s + i) = Some b.
Proof. exact stream_full_rounds. Qed.
Print Assumptions C11_rounds.

Theorem C11_start_round : forall bk g es k s,
  nth_error (streams (ss_run bk (ss_init g) es)) k = Some s ->
  s_from s = 0 \/ s_phase s = PDone SErrNoBeacon \/ s_base s = Z.to_nat (s_from s).
Proof. exact stream_base. Qed.
Print Assumptions C11_start_round.

(* once AddCallback ran (the store covered p beacons of which the stream had sent n0 counting from
   its start), what the stream sends afterwards is a prefix of the store from position p on, in
   append order: first what was stored since its scan, then the live appends *)
Theorem C11_order_live : forall bk g es k s p n0,
  nth_error (streams (ss_run bk (ss_init g) es)) k = Some s -> s_reg s = Some (p, n0) ->
  lprefix (skipn n0 (s_sent s)) (skipn p (store (ss_run bk (ss_init g) es))).
Proof. exact stream_order_live. Qed.
Print Assumptions C11_order_live.

(* every delivered beacon is the stored beacon, hence it is sent in its stored form: in particular
   with the stored previous signature (the signature of the previous round on the chained scheme,
   empty on unchained schemes), whether it was sent by the scan, the hand-over or the live callback *)
Theorem C11_delivered_in_stored_form : forall chained bk g es k s,
  nth_error (streams (ss_run bk (ss_init g) es)) k = Some s ->
  forall i b, nth_error (s_sent s) i = Some b ->
    exists b', nth_error (store (ss_run bk (ss_init g) es)) (s_base s + i) = Some b' /\ b = b' /\
               stored_prev chained (store (ss_run bk (ss_init g) es)) b = stored_prev chained (store (ss_run bk (ss_init g) es)) b'.
Proof.
  intros chained bk g es k s H i b Hi. destruct (stream_full_rounds bk g es k s H i b Hi) as [_ Q].
  exists b. auto.
Qed.
Print Assumptions C11_delivered_in_stored_form.

(* every exit of SyncChain unregisters its callback: a stream that has ended (refused, send failed,
   replaced, context cancelled at any point, also inside the hand-over) is not registered, and the
   registered callbacks belong to pairwise distinct streams in their live phase - for every schedule *)
Theorem C11_ended_stream_unregistered : forall bk g es k s e,
  nth_error (streams (ss_run bk (ss_init g) es)) k = Some s -> s_phase s = PDone e ->
  registered (reg (ss_run bk (ss_init g) es)) k = false.
Proof. exact stream_ended_unregistered. Qed.
Print Assumptions C11_ended_stream_unregistered.

Theorem C11_registered_le_live : forall bk g es,
  (length (reg (ss_run bk (ss_init g) es)) <= length (live_indices (ss_run bk (ss_init g) es)))%nat.
Proof. exact registered_le_live. Qed.
Print Assumptions C11_registered_le_live.

(* consumers that fail or whose context is cancelled inside the hand-over leave nothing registered *)
Example C11_handover_failures_leave_nothing :
  let st := ss_run Bolt (ss_init 10)
    [SPut 11; SPut 12; SStart 10 2; SAck 0 true; SPut 13; SRegister 0; SAck 0 false;
     SStart 11 3; SAck 1 true; SPut 14; SRegisterCancel 1; SStart 12 4; SAck 2 true; SRegisterCancel 2] in
  reg st = [] /\ map s_error (streams st) = [Some SErrSend; Some SErrCanceled; Some SErrCanceled] /\
  map (fun s => map fst (s_sent s)) (streams st) = [[2]; [3]; [4]].
Proof. vm_compute. repeat split; reflexivity. Qed.

(* regression: the schedule that used to lose round 4 (store 0..3, stream from 1, an append between
   the end of the scan and AddCallback, sent 1 2 3 5 6 before the fix), and the append during the
   scan of a bolt snapshot *)
Definition handover_witness : list sev :=
  [SPut 11; SPut 12; SPut 13; SStart 1 1; SAck 0 true; SAck 0 true; SAck 0 true;
   SPut 14; SRegister 0; SPut 15; SPut 16; SAck 0 true; SAck 0 true; SAck 0 true].
Example C11_witness_repaired :
  map fst (s_sent (nth 0 (streams (ss_run Mem (ss_init 10) handover_witness)) (mkS 0 0 PWaitReg [] 0 [] [] None))) = [1; 2; 3; 4; 5; 6] /\
  map fst (s_sent (nth 0 (streams (ss_run Bolt (ss_init 10) handover_witness)) (mkS 0 0 PWaitReg [] 0 [] [] None))) = [1; 2; 3; 4; 5; 6] /\
  map fst (s_sent (nth 0 (streams (ss_run Bolt (ss_init 10)
     [SPut 11; SPut 12; SPut 13; SStart 1 1; SPut 14; SAck 0 true; SAck 0 true; SAck 0 true; SRegister 0; SPut 15; SAck 0 true]))
     (mkS 0 0 PWaitReg [] 0 [] [] None))) = [1; 2; 3; 4; 5].
Proof. vm_compute. repeat split; reflexivity. Qed.

(* a Put whose caller gives up (context cancelled between the commit of the wrapped store and the
   dispatch) is an ordinary append for every live stream; with a context that is already done bolt
   refuses the write (nothing is stored, nothing is sent) while memdb stores regardless *)
Definition cancelled_put_schedule (pre : bool) : list sev :=
  [SPut 11; SPut 12; SPut 13; SStart 1 2; SAck 0 true; SAck 0 true; SRegister 0; SStart 2 0; SRegister 1;
   SPut 14; SAck 0 true; SAck 1 true; SPutCtx 15 pre; SAck 0 true; SAck 1 true; SPut 16; SAck 0 true; SAck 1 true].
Example C11_cancelled_put :
  map (fun s => map fst (s_sent s)) (streams (ss_run Bolt (ss_init 10) (cancelled_put_schedule false))) = [[2; 3; 4; 5; 6]; [4; 5; 6]] /\
  map (fun s => map fst (s_sent s)) (streams (ss_run Mem (ss_init 10) (cancelled_put_schedule false))) = [[2; 3; 4; 5; 6]; [4; 5; 6]] /\
  map (fun s => map fst (s_sent s)) (streams (ss_run Mem (ss_init 10) (cancelled_put_schedule true))) = [[2; 3; 4; 5; 6]; [4; 5; 6]] /\
  map (fun s => map snd (s_sent s)) (streams (ss_run Bolt (ss_init 10) (cancelled_put_schedule true))) = [[12; 13; 14; 16]; [14; 16]] /\
  map fst (store (ss_run Bolt (ss_init 10) (cancelled_put_schedule true))) = [0; 1; 2; 3; 4; 5].
Proof. vm_compute. repeat split; reflexivity. Qed.

(* streams are identified by their connection (remote host and source port; here host*100000+port):
   two connections from one host do not replace each other, and the teardown of a stalled old
   connection does not unregister the connection that replaced it from a new port *)
Example C11_connections_of_one_host :
  let two := ss_run Bolt (ss_init 10)
    [SPut 11; SPut 12; SStart 541001 0; SRegister 0; SStart 541002 1; SAck 1 true; SAck 1 true; SRegister 1;
     SPut 13; SAck 0 true; SAck 1 true; SPut 14; SAck 0 true; SAck 1 true] in
  let renew := ss_run Bolt (ss_init 10)
    [SPut 11; SPut 12; SStart 641001 0; SRegister 0; SPut 13; SStart 641002 2; SAck 1 true; SAck 1 true; SRegister 1;
     SPut 14; SAck 1 true; SAck 0 false; SPut 15; SAck 1 true; SPut 16; SAck 1 true] in
  map (fun s => map fst (s_sent s)) (streams two) = [[3; 4]; [1; 2; 3; 4]] /\ map s_error (streams two) = [None; None] /\
  map (fun s => map fst (s_sent s)) (streams renew) = [[]; [2; 3; 4; 5; 6]] /\
  map s_error (streams renew) = [Some SErrSend; None] /\ reg renew = [(641002, 1%nat)].
Proof. vm_compute. repeat split; reflexivity. Qed.

(* ---------- non-vacuity: two concurrent streams and a reconnect under the same id; the streams
   have delivered several rounds and are registered ---------- *)
Definition busy_schedule : list sev :=
  [SPut 11; SPut 12; SPut 13;
   SStart 1 2; SStart 2 0; SRegister 1; SAck 0 true; SAck 0 true; SRegister 0;
   SPut 14; SPut 15; SAck 0 true; SAck 1 true;
   SStart 1 4; SAck 2 true; SAck 2 true; SRegister 2; SPut 16; SAck 2 true; SAck 0 true; SAck 0 true].
Example C11_nonvacuous :
  let st := ss_run Bolt (ss_init 10) busy_schedule in
  map (fun s => (map fst (s_sent s), s_missed s, s_reg s)) (streams st) =
    [([2; 3; 4; 5], [], Some (4%nat, 2%nat));
     ([4; 5], [], Some (4%nat, 0%nat));
     ([4; 5; 6], [], Some (6%nat, 2%nat))] /\
  map s_error (streams st) = [Some SErrReplaced; None; None].
Proof. vm_compute. split; reflexivity. Qed.
