(* C05 — Liveness: a threshold of connected honest nodes produces every due round.
   Theorems over Model/Node.v (one instance per honest node, each with its own share oracle);
   proofs in Proofs/NodeLive.v and Proofs/SystemLive.v.
   What is proved is the LOGIC of progress: from an aligned state, one exchange of partials
   among at least a threshold of honest nodes makes every one of them append the same verified
   beacon of the next round, and k exchanges append k rounds in order with none skipped; every
   tick re-broadcasts on top of the head and a gap triggers a sync; a node that was down stores
   an honest peer's whole stream when it syncs.  That the exchanges actually happen (timers
   fire, goroutines run, messages are delivered within a healed period) is the fairness premise
   of these theorems; wall-clock eventuality is outside what the kernel can certify (partial). *)
From Coq Require Import ZArith List Bool Lia.
From DV Require Import Model.Time Model.Node Proofs.NodeProofs Proofs.NodeLive Proofs.SystemLive Gen.Consts.
Import ListNotations.
Open Scope Z_scope.

Section C05.
  Variable C : cfg.
  Variable idx_of : Z -> Z.
  Variable vpart : Z -> Z -> Z -> Z -> bool.
  Variable recov : Z -> Z -> Z -> list Z -> Z -> option Z.
  Variable vrec : Z -> Z -> Z -> bool.
  (* recover-validity of threshold BLS: >= t valid partials with distinct indices interpolate to
     a signature valid under the group key *)
  Hypothesis recov_complete : forall P r p sigs t,
    NoDup (map idx_of sigs) -> t <= Z.of_nat (length sigs) ->
    (forall x, In x sigs -> vpart P r p x = true) ->
    exists s, recov P r p sigs t = Some s /\ vrec r p s = true.
  Hypothesis limit_nonneg : 0 <= c_limit C.
  Hypothesis vrec_unchained : c_chained C = false -> forall r p p' s, vrec r p s = vrec r p' s.
  Hypothesis vrec_unique : forall r p s1 s2, vrec r p s1 = true -> vrec r p s2 = true -> s1 = s2.

  (* one node: its tick followed by the valid partials of at least threshold-1 other members, in
     any order, leaves it with exactly the next round appended *)
  Theorem C05_node_round : forall own_psig s hb rho ps,
    ready s -> head s = hb -> rho <> b_round hb ->
    b_round hb + 1 <= current_round (s_now s) (c_period C) (c_genesis C) ->   (* the round's time has come *)
    let own := own_psig (g_poly (s_grp s)) (b_round hb + 1) (b_sig hb) in
    vpart (g_poly (s_grp s)) (b_round hb + 1) (b_sig hb) own = true ->
    (forall sg, In sg ps -> good_partial C idx_of vpart s hb sg) -> NoDup (map idx_of ps) ->
    (forall sg, In sg ps -> idx_of sg <> idx_of own) ->
    g_thr (s_grp s) <= 1 + Z.of_nat (length ps) ->
    produced C vrec s (deliver C idx_of vpart recov vrec own_psig
                               (fst (step C idx_of vpart recov vrec own_psig s (ETick rho None))) hb ps) hb.
  Proof.
    intros own_psig.
    exact (node_round_completes C idx_of vpart recov vrec own_psig recov_complete limit_nonneg vrec_unchained).
  Qed.

  (* the system: for ALL n, thresholds, groups and k, from an aligned state (every honest node
     running on the same head, the time of round hb+k has come on every clock) k exchanges among at least a
     threshold of honest nodes make EVERY node append the SAME k verified beacons, of rounds
     hb+1 .. hb+k in this order, none skipped -- and the state is aligned again *)
  Theorem C05_system_rounds : forall k G nodes hb rmax,
    sys_ok C idx_of vpart G nodes hb rmax -> b_round hb + Z.of_nat k <= rmax ->
    exists added hbk,
      length added = k /\ Forall (verified_b vrec) added /\
      b_round hbk = b_round hb + Z.of_nat k /\
      sys_ok C idx_of vpart G (rounds C idx_of vpart recov vrec k nodes) hbk rmax /\
      (forall i d, (i < length nodes)%nat ->
         s_chain (fst (nth i (rounds C idx_of vpart recov vrec k nodes) d)) = added ++ s_chain (fst (nth i nodes d))) /\
      (forall j b, nth_error (rev added) j = Some b -> b_round b = b_round hb + Z.of_nat j + 1).
  Proof.
    exact (k_rounds C idx_of vpart recov vrec recov_complete limit_nonneg vrec_unchained vrec_unique).
  Qed.

  (* every tick re-broadcasts on top of the stored head, as soon as that round's time has come on
     the node's clock; a gap triggers a sync with the group in any case *)
  Theorem C05_tick_rebroadcasts : forall own_psig s rho sync,
    s_running s = true ->
    (emit_round rho (head s) <= current_round (s_now s) (c_period C) (c_genesis C) ->
     exists p sg o', snd (step C idx_of vpart recov vrec own_psig s (ETick rho sync))
                     = OEmit (emit_round rho (head s)) p sg (s_now s) :: o') /\
    (b_round (head s) + 1 < rho -> In (OSyncReq rho) (snd (step C idx_of vpart recov vrec own_psig s (ETick rho sync)))).
  Proof. intros own_psig. exact (tick_rebroadcasts C idx_of vpart recov vrec own_psig). Qed.

  (* a node that was down rejoins by syncing: an honest peer's stream is stored completely (up
     to the requested round) *)
  Theorem C05_rejoin : forall bs s upto,
    honest_stream C vrec (head s) bs ->
    exists stored, s_chain (fst (try_node C vrec s upto bs)) = rev (map (stored_form C) stored) ++ s_chain s /\
      (exists rest, bs = stored ++ rest) /\
      ((forall b, In b bs -> b_round b <> upto) -> stored = bs).
  Proof. exact (try_node_stores_honest C vrec). Qed.
End C05.
Print Assumptions C05_node_round.
Print Assumptions C05_system_rounds.
Print Assumptions C05_tick_rebroadcasts.
Print Assumptions C05_rejoin.

(* non-vacuity: a concrete symbolic instance of the oracles and three aligned nodes of a (3,2)
   group; two exchanges give every node the chain 2 :: 1 :: genesis *)
Definition x_idx (sg : Z) := sg / 1000000.
Definition x_vpart (_ r _ sg : Z) := ((sg / 1000) mod 1000 =? r).
Definition x_recov (_ r _ : Z) (sigs : list Z) (t : Z) := if t <=? Z.of_nat (length sigs) then Some r else None.
Definition x_vrec (r _ s : Z) := s =? r.
Definition x_own (i : Z) (_ r _ : Z) := i * 1000000 + r * 1000 + 1.
Definition x_C := mkCfg true 3 1000 2 partial_cache_store_limit.
Definition x_node (i : Z) : node := (init 1100 0 (mkG 0 2 [0; 1; 2] i), x_own i).
Example C05_nonvacuous :
  map (fun n => map b_round (s_chain (fst n))) (rounds x_C x_idx x_vpart x_recov x_vrec 2 [x_node 0; x_node 1; x_node 2])
  = [[2; 1; 0]; [2; 1; 0]; [2; 1; 0]].
Proof. vm_compute. reflexivity. Qed.

(* ---------- in the composed system Model/Net.v (see Props/C04.v for the model) ---------- *)
From DV Require Import Model.Net Proofs.NetLive.
Section C05_system.
  Variable C : cfg.
  Variable idx_of : Z -> Z.
  Variable vpart : Z -> Z -> Z -> Z -> bool.
  Variable recov : Z -> Z -> Z -> list Z -> Z -> option Z.
  Variable vrec : Z -> Z -> Z -> bool.
  Variable own_of : Z -> Z -> Z -> Z -> Z.
  Hypothesis recov_complete : forall P r p sigs t,
    NoDup (map idx_of sigs) -> t <= Z.of_nat (length sigs) ->
    (forall x, In x sigs -> vpart P r p x = true) ->
    exists s, recov P r p sigs t = Some s /\ vrec r p s = true.
  Hypothesis limit_nonneg : 0 <= c_limit C.
  Hypothesis vrec_unchained : c_chained C = false -> forall r p p' s, vrec r p s = vrec r p' s.
  Hypothesis vrec_unique : forall r p s1 s2, vrec r p s1 = true -> vrec r p s2 = true -> s1 = s2.

  (* The system adds nothing to a node's behaviour but the routing of messages: the state of
     node j after ANY run of the system model (any adversarial schedule) is the node-local run of
     the events of that run that concern node j.  This is what lets the node-local theorems
     (which are the ones compared with the real Handler) speak about the composed system. *)
  Theorem C05_system_projection : forall gs y j s, nth_error (y_nodes y) j = Some s ->
    nth_error (y_nodes (grun C idx_of vpart recov vrec own_of y gs)) j
    = Some (lrun C idx_of vpart recov vrec own_of s (flat_map (proj j) gs)).
  Proof. exact (grun_proj C idx_of vpart recov vrec own_of). Qed.

  (* Liveness: from an aligned state of the system (every honest node running on the same head,
     at least a threshold of them, clocks allowing the next k rounds) k fair schedules --
     everybody handles the tick, then everybody's partial reaches everybody else -- are runs of
     the system model after which every node has appended the same k verified beacons, one round
     after the other with none skipped, and the system is aligned again: for every n, t, k. *)
  Theorem C05_system_fair_rounds : forall k y G hb rmax,
    sys_ok C idx_of vpart G (map (node_of own_of) (y_nodes y)) hb rmax -> b_round hb + Z.of_nat k <= rmax ->
    exists hbk, b_round hbk = b_round hb + Z.of_nat k /\
      sys_ok C idx_of vpart G (map (node_of own_of) (y_nodes (run_rounds C idx_of vpart recov vrec own_of k y))) hbk rmax /\
      forall j s, nth_error (y_nodes y) j = Some s ->
        exists s' added, nth_error (y_nodes (run_rounds C idx_of vpart recov vrec own_of k y)) j = Some s' /\
          s_chain s' = added ++ s_chain s /\ length added = k /\
          Forall (fun b => vrec (b_round b) (b_prev b) (b_sig b) = true) added.
  Proof.
    exact (rounds_complete C idx_of vpart recov vrec own_of recov_complete limit_nonneg vrec_unchained vrec_unique).
  Qed.
End C05_system.
Print Assumptions C05_system_projection.
Print Assumptions C05_system_fair_rounds.

(* non-vacuity in the system model: the same three aligned nodes as a system state; two fair
   schedules are runs of [gstep] after which every node holds 2 :: 1 :: genesis *)
Example C05_system_nonvacuous :
  map (fun s => map b_round (s_chain s))
      (y_nodes (run_rounds x_C x_idx x_vpart x_recov x_vrec x_own 2
                  (init_sys (mkB 0 (-1) 0) 1100 [mkG 0 2 [0; 1; 2] 0; mkG 0 2 [0; 1; 2] 1; mkG 0 2 [0; 1; 2] 2])))
  = [[2; 1; 0]; [2; 1; 0]; [2; 1; 0]].
Proof. vm_compute. reflexivity. Qed.
