(* Correspondence driver for C16: each case carries the inputs and the outputs observed on
   /repo/common/time.go; [mismatches] lists the cases on which the model disagrees. *)
From Coq Require Import ZArith List Bool.
From DV Require Import Model.Time Gen.Consts Corr.CorrBase.
Import ListNotations.
Open Scope Z_scope.

Inductive tcase :=
| TOR (p g r out : Z)                 (* TimeOfRound(p s, g, r) = out *)
| NR (now p g o1 o2 cur : Z).         (* NextRound(now,p,g) = (o1,o2); CurrentRound = cur *)

Definition ok (c : tcase) : bool :=
  match c with
  | TOR p g r out => time_of_round time_buffer_bits p g r =? out
  | NR now p g o1 o2 cur =>
      let '(n, t) := next_round now p g in
      (n =? o1) && (t =? o2) && (current_round now p g =? cur)
  end.

Definition mismatches (cs : list tcase) : list Z := mism_from ok 0 cs.
