(* Correspondence driver for C16: each case carries the inputs and the outputs observed on
   /repo/common/time.go; [mismatches] lists the cases on which the model disagrees. *)
From Coq Require Import ZArith List Bool.
From DV Require Import Model.Time Model.TimeFloat Gen.Consts Corr.CorrBase.
Import ListNotations.
Open Scope Z_scope.

Inductive tcase :=
| TOR (p g r out : Z)                 (* TimeOfRound(p s, g, r) = out *)
| NR (now p g o1 o2 cur : Z)          (* NextRound(now,p,g) = (o1,o2); CurrentRound = cur *)
| TK (p g t r : Z)                    (* the beacon ticker announced round r at time t *)
| TK2 (p g a w t r : Z).              (* ... to a channel registered at start time a, when the clock read w *)

Definition ok (c : tcase) : bool :=
  match c with
  | TOR p g r out => time_of_round time_buffer_bits p g r =? out
  | NR now p g o1 o2 cur =>
      (* the code divides in binary64: the float model is what is compared with the implementation;
         C16_float_division proves it equal to the integer model on the property's domain *)
      let '(n, t) := next_round_f now p g in
      (n =? o1) && (t =? o2) && (current_round_f now p g =? cur)
  | TK p g t r => current_round_f t p g =? r
  (* Model/Ticker.v: start <= stamp <= clock, round = current round of the stamp *)
  | TK2 p g a w t r => (current_round_f t p g =? r) && (a <=? t) && (t <=? w)
  end.

Definition mismatches (cs : list tcase) : list Z := mism_from ok 0 cs.
