(* Correspondence driver for the callback store (C12): every case is a script of events run on
   the real NewCallbackStore with harness-gated consumers, with which calls returned (within
   their own step / by the end) and what every consumer instance saw. *)
From Coq Require Import ZArith List Bool.
From DV Require Import Model.CbStore Gen.Consts Corr.CorrBase.
Import ListNotations.
Open Scope Z_scope.

Definition job_eqb (a b : job) : bool :=
  match a, b with
  | JBeacon x, JBeacon y => x =? y
  | JClose, JClose => true
  | _, _ => false
  end.
Fixpoint jobs_eqb (a b : list job) : bool :=
  match a, b with
  | [], [] => true
  | x :: a', y :: b' => job_eqb x y && jobs_eqb a' b'
  | _, _ => false
  end.
Fixpoint zs_eqb (a b : list Z) : bool :=
  match a, b with
  | [], [] => true
  | x :: a', y :: b' => (x =? y) && zs_eqb a' b'
  | _, _ => false
  end.
Definition zin (x : Z) (l : list Z) : bool := existsb (Z.eqb x) l.
Definition same_set (a b : list Z) : bool :=
  (Z.of_nat (length a) =? Z.of_nat (length b)) && forallb (fun x => zin x b) a && forallb (fun x => zin x a) b.

(* while a Put is blocked, which of the OTHER consumers already got that beacon depends on Go's
   map iteration order: compare modulo a trailing occurrence of the blocked beacon *)
Definition strip_last (r : Z) (l : list job) : list job :=
  match rev l with
  | JBeacon x :: t => if x =? r then rev t else l
  | _ => l
  end.
Definition blocked_round (s : cbst) : option Z :=
  match cur s with Some (_, HPut r _) => Some r | _ => None end.

Fixpoint logs_ok (tol : option Z) (chs : list chan) (logs : list (list job)) : bool :=
  match chs, logs with
  | [], [] => true
  | ch :: chs', l :: logs' =>
      (match tol with
       | Some r => jobs_eqb (strip_last r (ch_log ch)) (strip_last r l)
       | None => jobs_eqb (ch_log ch) l
       end) && logs_ok tol chs' logs'
  | _, _ => false
  end.

Inductive bcase :=
| BCase (tolerant : bool) (evs : list ev) (imm fin : list Z) (logs : list (list job)).

Definition ok (c : bcase) : bool :=
  match c with
  | BCase tolerant evs imm fin logs =>
      let Q := callback_worker_queue in
      let s := cb_run Q evs in
      zs_eqb (map Z.of_nat (cb_immediate Q cb_init 0 evs)) imm &&
      same_set (map Z.of_nat (ret s)) fin &&
      logs_ok (if tolerant then blocked_round s else None) (chans s) logs
  end.

Definition mismatches (cs : list bcase) : list Z := mism_from ok 0 cs.
