(* Correspondence driver for the partial cache (C12): every case carries operations and what
   was observed on the real partialCache (through the hook verif_export_cache.go). *)
From Coq Require Import ZArith List Bool.
From DV Require Import Model.Cache Gen.Consts Gen.AggWindow Corr.CorrBase.
Import ListNotations.
Open Scope Z_scope.

Definition cerr_code (e : cerr) : Z :=
  match e with COk => 0 | CErrIndex => 1 | CErrEvictMissing => 2 | CPanicEmpty => 3 end.

Definition zlen {A} (l : list A) : Z := Z.of_nat (length l).

Fixpoint cids_eqb (a b : list cid) : bool :=
  match a, b with
  | [], [] => true
  | x :: a', y :: b' => cid_eqb x y && cids_eqb a' b'
  | _, _ => false
  end.

(* observation after one operation: error class, len(rounds), len(rcvd), len(rcvd[idx]) of the
   operation's signer (0 when the operation has none) *)
Definition cobs := (Z * Z * Z * Z)%type.

Fixpoint check_ops (cap : Z) (c : pcache) (ops : list cop) (obs : list cobs) : option pcache :=
  match ops, obs with
  | [], [] => Some c
  | o :: ops', (e, nr, nk, nl) :: obs' =>
      let '(c', er) := pc_step cap c o in
      if (cerr_code er =? e) && (zlen (rounds c') =? nr) && (zlen (rcvd c') =? nk) &&
         (match o with CAppend idx _ => zlen (rcvd_of c' idx) =? nl | _ => true end)
      then check_ops cap c' ops' obs' else None
  | _, _ => None
  end.

(* the dump of the real cache (round caches sorted by id with sorted signers; rcvd per index in
   slice order) equals the model state up to the order of map entries *)
Definition same_state (c : pcache) (fr : list (cid * list Z)) (fk : list (Z * list cid)) : bool :=
  (zlen (rounds c) =? zlen fr) && (zlen (rcvd c) =? zlen fk) &&
  forallb (fun e => match sigs_of c (fst e) with
                    | Some s => (zlen s =? zlen (snd e)) && forallb (fun i => zmem i s) (snd e)
                    | None => false end) fr &&
  forallb (fun e => cids_eqb (rcvd_of c (fst e)) (snd e)) fk.

Inductive ccase :=
| CCase (ops : list cop) (obs : list cobs) (fr : list (cid * list Z)) (fk : list (Z * list cid))
    (* operations on the cache alone *)
| PCase (chained : bool) (evs : list nev) (fr : list (cid * list Z)) (fk : list (Z * list cid))
    (* partial packets with real threshold-BLS partial signatures: the harness accepts a packet
       iff the real VerifyPartial accepts it under DigestBeacon(round, prev) *)
| VCase (chained : bool) (signer r : Z) (prev : list Z) (r' : Z) (prev' : list Z) (valid : bool)
| QCase (sent returned : Z).
    (* engine "pending": sent = verified partials of one member handed to a real Handler whose
       aggregator is stalled, returned = how many of those calls returned *)
    (* a partial made for (r, prev) checked against (r', prev') by the real VerifyPartial *)

Definition kind_of (chained : bool) : scheme_kind := if chained then Chained else Unchained.

Definition ok (x : ccase) : bool :=
  match x with
  | CCase ops obs fr fk =>
      match check_ops max_partials_per_node pc_init ops obs with
      | Some c => same_state c fr fk
      | None => false
      end
  | PCase ch evs fr fk =>
      same_state (pc_run max_partials_per_node pc_init (cops_of (kind_of ch) evs)) fr fk
  | VCase ch i r prev r' prev' valid =>
      Bool.eqb (pkt_valid (kind_of ch) (mkPkt r' prev' (honest_sig (kind_of ch) i r prev))) valid
  | QCase sent returned => np_run default_partial_chan_buffer 0 (Z.to_nat sent) =? returned
  end.

Definition mismatches (cs : list ccase) : list Z := mism_from ok 0 cs.
