(* Correspondence driver for C18: each case is one operation sequence run on a fresh real
   back-end (boltdb.NewBoltStore untrimmed / trimmed, memdb.NewStore) together with the result
   observed after every operation; [mismatches] lists the cases on which the model's outputs
   differ (or whose rounds leave the uint64 range the model is stated for). *)
From Coq Require Import ZArith List Bool.
From DV Require Import Model.Backends Corr.CorrBase.
Import ListNotations.
Open Scope Z_scope.

Inductive backend :=
| BU                    (* untrimmed bolt *)
| BT (rp : bool)        (* trimmed bolt, requiresPrevious from the context *)
| BM (cap : Z).         (* memdb ring of that buffer size *)

Record scase := SCase { sc_be : backend; sc_ops : list op; sc_outs : list out }.

Definition model_run (be : backend) (ops : list op) : list out :=
  match be with
  | BU => run bu_step bu_init ops
  | BT rp => run (bt_step rp) bt_init ops
  | BM cap => run (md_step cap) md_init ops
  end.

Fixpoint outs_eqb (a b : list out) : bool :=
  match a, b with
  | [], [] => true
  | x :: a', y :: b' => out_eqb x y && outs_eqb a' b'
  | _, _ => false
  end.

Definition ok (c : scase) : bool :=
  forallb op_wfb (sc_ops c) && outs_eqb (model_run (sc_be c) (sc_ops c)) (sc_outs c).

Definition mismatches (cs : list scase) : list Z := mism_from ok 0 cs.
