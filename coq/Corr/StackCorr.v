(* Correspondence driver for C02: each case is one event sequence (Put through the stack,
   tryAppend, restart) run on the real wrapper stack
   NewCallbackStore(newAppendStore(NewSchemeStore(newDiscrepancyStore(base)))) over a real
   back-end, with the result class, the full cursor scan and Last observed after every event. *)
From Coq Require Import ZArith List Bool.
From DV Require Import Model.Backends Model.StoreStack Corr.CorrBase.
Import ListNotations.
Open Scope Z_scope.

(* what the harness can tell about an error without reading its text *)
Inductive oclass :=
| CStored            (* nil *)
| CAlready           (* errors.Is(err, ErrBeaconAlreadyStored) *)
| CCancelled         (* errors.Is(err, context.Canceled) *)
| COther.

Definition class_of (r : pres) : oclass :=
  match r with
  | RStored => CStored
  | RAlready => CAlready
  | RInner => CCancelled
  | RSamePrevDiff | RSameSigDiff | RRound | RPrev => COther
  end.

Inductive obs_res := OPut (c : oclass) | OTry (ok : bool) | ORestarted.

Record kcase := KCase {
  kc_kind : bkind; kc_chained : bool; kc_seed : list Z;
  kc_evs : list sev;
  kc_obs : list (obs_res * (list beacon * option beacon))
}.

Definition oclass_eqb (a b : oclass) : bool :=
  match a, b with
  | CStored, CStored | CAlready, CAlready | CCancelled, CCancelled | COther, COther => true
  | _, _ => false
  end.

Definition res_ok (m : sres) (o : obs_res) : bool :=
  match m, o with
  | ResPut r, OPut c => oclass_eqb (class_of r) c
  | ResTry a, OTry b => Bool.eqb a b
  | ResDone, ORestarted => true
  | _, _ => false
  end.

Fixpoint beacons_eqb (a b : list beacon) : bool :=
  match a, b with
  | [], [] => true
  | x :: a', y :: b' => beacon_eqb x y && beacons_eqb a' b'
  | _, _ => false
  end.

Definition obeacon_eqb (a b : option beacon) : bool :=
  match a, b with
  | None, None => true
  | Some x, Some y => beacon_eqb x y
  | _, _ => false
  end.

Fixpoint obs_ok (m : list (sres * (list beacon * option beacon)))
                (o : list (obs_res * (list beacon * option beacon))) : bool :=
  match m, o with
  | [], [] => true
  | (r, (sc, l)) :: m', (r', (sc', l')) :: o' =>
      res_ok r r' && beacons_eqb sc sc' && obeacon_eqb l l' && obs_ok m' o'
  | _, _ => false
  end.

Definition ok (c : kcase) : bool :=
  obs_ok (srun (kc_kind c) (kc_chained c) (kc_seed c)
               (init_stack (kc_kind c) (kc_chained c) (kc_seed c)) (kc_evs c))
         (kc_obs c).

Definition mismatches (cs : list kcase) : list Z := mism_from ok 0 cs.
