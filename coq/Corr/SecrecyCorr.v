(* Correspondence driver for C15 (file modes): each case carries a file (or directory) created by
   the real code under a given umask, the mode observed with stat, and whether the file's bytes
   contain the node's secret scalars; [mismatches] lists the cases on which the model disagrees. *)
From Coq Require Import ZArith List Bool.
From DV Require Import Model.Secrecy Gen.Consts Gen.SaveFlags Corr.CorrBase.
Import ListNotations.
Open Scope Z_scope.

Inductive scase :=
| FileMode (f : nfile) (umask : Z) (prior : option Z) (mode : Z) (has_secret : bool)
| DirMode (which : Z) (umask : Z) (mode : Z).   (* 0: fs.CreateSecureFolder, 1: dkg.NewDKGStore base folder *)

Definition dir_perm (which : Z) : Z := if which =? 0 then fs_default_dir_perm else dkg_dir_perm.

Definition ok (c : scase) : bool :=
  match c with
  | FileMode f u p m hs =>
      match final_mode u p (file_trace fs_rw_file_perm dkg_bolt_open_perm chain_bolt_open_perm save_secure f) with
      | Some m' => (m' =? m) && Bool.eqb (file_secret f) hs
      | None => false
      end
  | DirMode w u m => create_mode (dir_perm w) u =? m
  end.

Definition mismatches (cs : list scase) : list Z := mism_from ok 0 cs.
