(* Correspondence driver for C06: each case carries inputs and the outputs observed on the real
   code (internal/util SortedByPublicKey, internal/dkg setupDKG / asGroup through the verif
   hooks, and finished DBStates of real dkg.Process runs); [mismatches] lists the cases on which
   Model/DKGExec.v disagrees. *)
From Coq Require Import ZArith List Bool.
From DV Require Import Model.Time Model.DKGExec Gen.Consts Corr.CorrBase.
Import ListNotations.
Open Scope Z_scope.

(* compact notation of the case files for long byte strings: [B len 0xHEX] (big-endian) *)
Fixpoint bytes_of_Z (n : nat) (z : Z) (acc : bytes) : bytes :=
  match n with
  | O => acc
  | S n' => bytes_of_Z n' (z / 256) (z mod 256 :: acc)
  end.
Definition B (len z : Z) : bytes := bytes_of_Z (Z.to_nat len) z [].

Fixpoint list_eqb {A} (eqb : A -> A -> bool) (a b : list A) : bool :=
  match a, b with
  | [], [] => true
  | x :: a', y :: b' => eqb x y && list_eqb eqb a' b'
  | _, _ => false
  end.

Definition pair_zb_eqb (a b : Z * bytes) : bool := (fst a =? fst b) && bytes_eqb (snd a) (snd b).

Definition node_eqb (a b : node) : bool :=
  (n_index a =? n_index b) && bytes_eqb (n_key a) (n_key b) &&
  bytes_eqb (n_addr a) (n_addr b) && bytes_eqb (n_sig a) (n_sig b).

Definition group_eqb (a b : group) : bool :=
  bytes_eqb (g_id a) (g_id b) && (g_threshold a =? g_threshold b) && (g_period a =? g_period b) &&
  bytes_eqb (g_scheme a) (g_scheme b) && (g_catchup a =? g_catchup b) &&
  (g_genesis_time a =? g_genesis_time b) && bytes_eqb (g_genesis_seed a) (g_genesis_seed b) &&
  (g_transition_time a =? g_transition_time b) && list_eqb node_eqb (g_nodes a) (g_nodes b) &&
  list_eqb bytes_eqb (g_public a) (g_public b).

Definition hash_input_eqb (a b : hash_input) : bool :=
  list_eqb pair_zb_eqb (h_nodes a) (h_nodes b) && (h_threshold a =? h_threshold b) &&
  (h_genesis_time a =? h_genesis_time b) && (h_transition_time a =? h_transition_time b) &&
  list_eqb bytes_eqb (h_public a) (h_public b) && bytes_eqb (h_id a) (h_id b).

Definition config_eqb (a b : dkg_config) : bool :=
  list_eqb pair_zb_eqb (c_new_nodes a) (c_new_nodes b) &&
  list_eqb pair_zb_eqb (c_old_nodes a) (c_old_nodes b) &&
  list_eqb bytes_eqb (c_public_coeffs a) (c_public_coeffs b) &&
  (c_threshold a =? c_threshold b) && (c_old_threshold a =? c_old_threshold b) &&
  Bool.eqb (c_has_share a) (c_has_share b).

Definition err_eqb (a b : exec_err) : bool :=
  match a, b with
  | EBadScheme, EBadScheme | EBadKey, EBadKey | EIndexRange, EIndexRange
  | ENoParticipants, ENoParticipants => true
  | _, _ => false
  end.

Definition res_eqb {A} (eqb : A -> A -> bool) (a b : res A) : bool :=
  match a, b with
  | Ok x, Ok y => eqb x y
  | Err e, Err f => err_eqb e f
  | _, _ => false
  end.

Fixpoint nodup_keysb (l : list participant) : bool :=
  match l with
  | [] => true
  | p :: l' => negb (existsb (fun q => bytes_eqb (p_key p) (p_key q)) l') && nodup_keysb l'
  end.

(* the hash oracle: BLAKE2b of the one hash input the harness computed independently from the
   observed group (its own serialisation), anything else hashes to [] *)
Definition oracle (hin : option hash_input) (hout : bytes) (h : hash_input) : bytes :=
  match hin with
  | Some h0 => if hash_input_eqb h h0 then hout else []
  | None => []
  end.

Fixpoint zrange (from : Z) (n : nat) : list Z :=
  match n with O => [] | S n' => from :: zrange (from + 1) n' end.

Inductive dcase :=
(* util.SortedByPublicKey(input) = output *)
| DSort (input output : list participant)
(* Process.setupDKG with [st] as current and [last] as finished state: projected dkg.Config *)
| DSetup (st : dstate) (last : option (group * Z)) (out : res dkg_config)
(* asGroup(details, share{commits}, finalNodes with these indices, ttime) *)
| DAsGroup (defsch : bytes) (st : dstate) (commits : list bytes) (idxs : list Z) (ttime : Z)
           (hin : option hash_input) (hout : bytes) (out : res group)
(* a node of a real dkg.Process run: stored terms, black-box outcome seen through the share
   (commits) and QUAL, completion instant somewhere in [t0, t1], its finished FinalGroup *)
| DFinish (defsch : bytes) (st : dstate) (commits : list bytes) (qual : list Z) (t0 t1 : Z)
          (hin : option hash_input) (hout : bytes) (out : group)
(* the loops of internal/dkg/broadcast.go (newDispatcher, dispatcher.broadcast,
   dispatcher.broadcastDirect) as read from the source by the engine: the premise [shape_ok] of
   C06_echo_delivery *)
| DEcho (s : dispatcher_shape)
(* the argument of dkg.NewTimePhaser in startDKGExecution (internal/dkg/execution.go) as read
   from the source by the engine: the premise [phaser_ok] of C06_phase_window *)
| DPhaser (src : phaser_source).

Definition ok (c : dcase) : bool :=
  match c with
  | DSort input output =>
      sorted_by_key_check input output &&
      (if nodup_keysb input then list_eqb participant_eqb output (sort_by_key input) else true)
  | DSetup st last out => res_eqb config_eqb (setup_dkg st last) out
  | DAsGroup defsch st commits idxs ttime hin hout out =>
      res_eqb group_eqb (as_group (oracle hin hout) defsch st commits idxs ttime) out
  | DFinish defsch st commits qual t0 t1 hin hout out =>
      existsb (fun now =>
                 res_eqb group_eqb
                   (finish_dkg (oracle hin hout) defsch time_buffer_bits rounds_until_transition
                               st commits qual now) (Ok out))
              (zrange t0 (Z.to_nat (t1 - t0 + 1)))
  | DEcho s => shape_ok s
  | DPhaser src => phaser_ok src
  end.

Definition mismatches (cs : list dcase) : list Z := mism_from ok 0 cs.
