(* Correspondence driver for the HTTP relay's waiter logic (C01). *)
From Coq Require Import ZArith List Bool.
From DV Require Import Model.HttpWait Corr.CorrBase.
Import ListNotations.
Open Scope Z_scope.

Definition hcase := (list hevent * list (list hanswer))%type.

Definition key (a : hanswer) : Z * Z * Z :=
  match a with ABeacon x y => (x, 0, y) | AEmpty x => (x, 1, 0) | ANotFound x => (x, 2, 0) end.
Definition ans_eqb (a b : hanswer) : bool :=
  let '(a1, a2, a3) := key a in let '(b1, b2, b3) := key b in (a1 =? b1) && (a2 =? b2) && (a3 =? b3).
Definition ans_le (a b : hanswer) : bool := let '(a1, _, _) := key a in let '(b1, _, _) := key b in a1 <=? b1.
Fixpoint ins (x : hanswer) (l : list hanswer) :=
  match l with [] => [x] | y :: l' => if ans_le x y then x :: l else y :: ins x l' end.
Definition sorta (l : list hanswer) := fold_right ins [] l.
Fixpoint leq (a b : list hanswer) : bool :=
  match a, b with [], [] => true | x :: a', y :: b' => ans_eqb x y && leq a' b' | _, _ => false end.

Fixpoint go (s : hstate) (es : list hevent) (obs : list (list hanswer)) : bool :=
  match es, obs with
  | [], [] => true
  | e :: es', o :: obs' => let '(s1, a) := hstep s e in leq (sorta a) (sorta o) && go s1 es' obs'
  | _, _ => false
  end.

(* the engine primes the relay with one request and no watch item: latest = 0, no waiter *)
Definition ok (c : hcase) : bool := go hinit (fst c) (snd c).
Definition mismatches (cs : list hcase) : list Z := mism_from ok 0 cs.
