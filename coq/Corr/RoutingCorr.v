(* Correspondence driver for C19: each case carries a history of daemon events (replayed on a
   real DrandDaemon by harness/engrouting), a request, and what the real code did;
   [mismatches] lists the cases on which Model/Routing.v disagrees. *)
From Coq Require Import ZArith List Bool.
From DV Require Import Model.Routing Model.Time Gen.Consts Corr.CorrBase.
Import ListNotations.
Open Scope Z_scope.

Definition opt_eqb {A} (eq : A -> A -> bool) (a b : option A) : bool :=
  match a, b with
  | None, None => true
  | Some x, Some y => eq x y
  | _, _ => false
  end.
Definition group_eqb (a b : group) : bool := opt_eqb str_eqb a b.

(* observed outcome of getBeaconProcessFromRequest: the process reached (id, its group's chain
   hash) or the class of the refusal: 0 invalid id/hash pair, 1 unknown chain hash,
   2 not running *)
Inductive robs := OServe (i : str) (g : group) | ORefuse (c : Z).

Definition err_class (e : rerr) : Z :=
  match e with
  | EInvalidPair => 0 | EUnknownHash => 1 | ENotRunning => 2 | EAlreadyRunning => 3 | ENoKey => 4
  end.

Definition robs_ok (r : res (str * group)) (o : robs) : bool :=
  match r, o with
  | Ok (i, g), OServe i' g' => str_eqb i i' && group_eqb g g'
  | Err e, ORefuse c => err_class e =? c
  | _, _ => false
  end.

(* outcome class of a control operation: 0 ok, 1 error wrapping ErrUnknownChainhash,
   2 any other error *)
Definition res_class {A} (r : res A) : Z :=
  match r with
  | Ok _ => 0
  | Err EUnknownHash => 1
  | Err _ => 2
  end.
Definition step_class (d : daemon) (e : event) : Z :=
  match e with
  | EStartup => 0
  | ELoad m => res_class (snd (load_beacon d m))
  | EShutdown m =>
      match snd (shutdown d m) with
      | SAll | SOne _ => 0
      | SErr EUnknownHash => 1
      | SErr _ => 2
      end
  | EDkgDone _ _ => 0
  end.

(* observed tables are sorted snapshots; the model's association lists have unique keys, so
   equal length + every observed entry found = same map *)
Fixpoint keys_unique {A} (l : list (str * A)) : bool :=
  match l with
  | [] => true
  | (k, _) :: r => negb (existsb (fun x => str_eqb k (fst x)) r) && keys_unique r
  end.
Definition table_eqb {A} (eq : A -> A -> bool) (model obs : list (str * A)) : bool :=
  (Nat.eqb (length model) (length obs)) && keys_unique obs &&
  forallb (fun kv => opt_eqb eq (alookup (fst kv) model) (Some (snd kv))) obs.

Definition hroute_eqb (a b : http_route_res) : bool :=
  match a, b with
  | HBad, HBad | HNotFound, HNotFound => true
  | HServe i, HServe j => str_eqb i j
  | _, _ => false
  end.
Definition droute_eqb (a b : dkg_route) : bool :=
  match a, b with
  | DNoMeta, DNoMeta | DUnknown, DUnknown => true
  | DServe i, DServe j => str_eqb i j
  | _, _ => false
  end.

(* operations on a stand-alone handler table (handler/http with stub clients) *)
Inductive hop := HReg (k : str) (i : str) | HRem (k : str).
Definition hop_step (t : list (str * str)) (o : hop) : list (str * str) :=
  match o with
  | HReg k i => http_register k i t
  | HRem k => http_remove k t
  end.

Inductive rcase :=
(* after the history, the request is routed with outcome o and leaves id_after in its metadata *)
| RRoute (dk : list (str * group)) (evs : list event) (m : option meta) (o : robs) (id_after : str)
(* after the history, the daemon's tables are ps / hs and the HTTP table has keys ws
   (the "default" alias reported separately as wd) *)
| RSnap (dk : list (str * group)) (evs : list event)
        (ps : list (str * group)) (hs : list (str * str)) (ws : list str) (wd : bool)
(* after the history, control operation e has outcome class c *)
| RStep (dk : list (str * group)) (evs : list event) (e : event) (c : Z)
| RHttp (dk : list (str * group)) (evs : list event) (path : option str) (o : http_route_res)
| RDkg (dk : list (str * group)) (evs : list event) (m : option str) (o : dkg_route)
| RStub (ops : list hop) (path : option str) (o : http_route_res)
(* GET /{hash}/public/{r} on a chain with period p s and genesis g, at instant now: was the request
   handed to the backend client? Only a round whose scheduled time (Model/Time.v: the documented
   error value for rounds that cannot be scheduled) has come is. *)
| RSched (p g r now : Z) (forwarded : bool).

Definition ok (c : rcase) : bool :=
  match c with
  | RRoute dk evs m o ida =>
      let d := run (init_daemon dk) evs in
      robs_ok (get_process d m) o && str_eqb (meta_id_after d m) ida
  | RSnap dk evs ps hs ws wd =>
      let d := run (init_daemon dk) evs in
      table_eqb group_eqb (procs d) ps && table_eqb str_eqb (hashes d) hs &&
      table_eqb (fun _ _ => true) (adel default_str (http d)) (map (fun k => (k, [])) ws) &&
      Bool.eqb (match alookup default_str (http d) with Some _ => true | None => false end) wd
  | RStep dk evs e c => step_class (run (init_daemon dk) evs) e =? c
  | RHttp dk evs path o => hroute_eqb (http_route (http (run (init_daemon dk) evs)) path) o
  | RDkg dk evs m o => droute_eqb (dkg_proxy (run (init_daemon dk) evs) m) o
  | RStub ops path o => hroute_eqb (http_route (fold_left hop_step ops []) path) o
  | RSched p g r now fw => Bool.eqb (time_of_round time_buffer_bits p g r <=? now) fw
  end.

Definition mismatches (cs : list rcase) : list Z := mism_from ok 0 cs.
