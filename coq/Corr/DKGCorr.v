(* Correspondence driver for C08/C09 (engine dkgsm): each case is the trace of one real
   dkg.Process: its identity, its initial store, and for every step the event, the oracle inputs
   (computed by the harness with independent calls of the real crypto) and the observables read
   from the implementation after the step.  [mismatches] lists the cases on which the model
   disagrees.  Also: the 144-pair table check and the byte-level messageForSigning check. *)
From Coq Require Import ZArith List Bool Uint63.
From DV Require Import Gen.DKGTable Model.DKGState Model.DKGSign Corr.CorrBase.
Import ListNotations.
Open Scope Z_scope.

(* long byte strings in case files are written as primitive 63-bit words of 7 bytes (big-endian),
   the last word holding [last] bytes: native literals parse much faster than lists of Z *)
Fixpoint unbe_aux (n : nat) (x : Z) (acc : bytes) : bytes :=
  match n with O => acc | S n' => unbe_aux n' (Z.shiftr x 8) (Z.land x 255 :: acc) end.
Fixpoint unw (last : nat) (l : list Uint63.int) : bytes :=
  match l with
  | [] => []
  | [x] => unbe_aux last (Uint63.to_Z x) []
  | x :: l' => unbe_aux 7 (Uint63.to_Z x) [] ++ unw last l'
  end.

Inductive rclass := ROk | RErr (e : err) | ROther | RPanic | RUnobserved.

Record dstep := mkDs {
  ds_now : Z; ds_ev : event;
  ds_vj : list participant;      (* joiners whose self-signature is valid for the scheme the code uses *)
  ds_vk : list bytes;            (* keys that unmarshal in the node's key group *)
  ds_msg : option bytes;         (* real messageForSigning bytes for the terms of the next state *)
  ds_sk : list bytes;            (* keys under which the packet signature verifies on ds_msg *)
  ds_res : rclass;
  ds_cur : dbstate; ds_fin : option dbstate; ds_seen : list bytes }.

Record dcase := mkDc { dc_me : participant; dc_beacon : bytes; dc_init : store; dc_steps : list dstep }.

(* ---------- decidable equalities ---------- *)
Fixpoint list_eqb {A} (eqb : A -> A -> bool) (a b : list A) : bool :=
  match a, b with
  | [], [] => true
  | x :: a', y :: b' => eqb x y && list_eqb eqb a' b'
  | _, _ => false
  end.
Definition opt_eqb {A} (eqb : A -> A -> bool) (a b : option A) : bool :=
  match a, b with
  | None, None => true
  | Some x, Some y => eqb x y
  | _, _ => false
  end.
Definition parts_eqb := list_eqb equal_participant.
Definition group_eqb (a b : group) : bool :=
  parts_eqb (g_nodes a) (g_nodes b) && (g_threshold a =? g_threshold b)
  && (g_genesis_time a =? g_genesis_time b) && bytes_eqb (g_genesis_seed a) (g_genesis_seed b).
Definition dbstate_eqb (a b : dbstate) : bool :=
  bytes_eqb (st_beacon a) (st_beacon b) && (st_epoch a =? st_epoch b) && status_eqb (st_state a) (st_state b)
  && (st_threshold a =? st_threshold b) && (st_timeout a =? st_timeout b) && bytes_eqb (st_scheme a) (st_scheme b)
  && (st_genesis_time a =? st_genesis_time b) && bytes_eqb (st_genesis_seed a) (st_genesis_seed b)
  && (st_catchup a =? st_catchup b) && (st_period a =? st_period b)
  && opt_eqb equal_participant (st_leader a) (st_leader b)
  && parts_eqb (st_remaining a) (st_remaining b) && parts_eqb (st_joining a) (st_joining b)
  && parts_eqb (st_leaving a) (st_leaving b) && parts_eqb (st_acceptors a) (st_acceptors b)
  && parts_eqb (st_rejectors a) (st_rejectors b)
  && opt_eqb group_eqb (st_final_group a) (st_final_group b)
  && opt_eqb bytes_eqb (st_key_share a) (st_key_share b).
Definition set_eqb (a b : list bytes) : bool :=
  forallb (fun x => mem_bytes x b) a && forallb (fun x => mem_bytes x a) b.

Definition err_index (e : err) : Z :=
  match e with
  | EMissingTerms => 0 | ETimeoutReached => 1 | EInvalidBeaconID => 2 | EInvalidScheme => 3
  | EGenesisTimeNotEqual => 4 | ENoGenesisSeedForFirstEpoch => 5 | EGenesisTimeNotConsistent => 6
  | EGenesisSeedCannotChange => 7 | ESelfMissing => 8 | ECannotJoinIfNotInJoining => 9
  | EJoiningNeedsGroupFile => 10 | EInvalidEpoch => 11 | ELeaderCantJoinAfterFirstEpoch => 12
  | ELeaderNotRemaining => 13 | ELeaderNotJoining => 14 | EOnlyJoinersFirstEpoch => 15
  | ENoNodesRemaining => 16 | EMissingNodes => 17 | ECannotProposeAsNonLeader => 18
  | EThresholdHigher => 19 | ENodeCountTooLow => 20 | EThresholdTooLow => 21
  | ERemainingAndLeavingMustExist => 22 | ECannotAcceptLeaving => 23 | ECannotAcceptJoining => 24
  | ECannotRejectLeaving => 25 | ECannotRejectJoining => 26 | ECannotLeaveIfNotALeaver => 27
  | EOnlyLeaderCanExecute => 28 | EOnlyLeaderCanAbort => 29 | ECannotExecuteIfNotJoinerOrRemainer => 30
  | EUnknownAcceptor => 31 | EDuplicateAcceptance => 32 | EInvalidAcceptor => 33 | EInvalidRejector => 34
  | EUnknownRejector => 35 | EDuplicateRejection => 36 | EFinalGroupEmpty => 37 | EKeyShareEmpty => 38
  | EReceivedAcceptance => 39 | EReceivedRejection => 40 | EInvalidKeyScheme => 41
  | EMissingPreviousGroup => 42
  | EInvalidTransition a b => 100 + 12 * status_index a + status_index b
  | ENoMetadata => 50 | EShortSig => 51 | EInvalidPacket => 52 | ESigNoParticipant => 53 | ESigInvalid => 54
  | EGroupFileRequired => 55 | EGroupFileParse => 56 | EUnrecognizedCommand => 57 | EGossip => 58
  | EExecSetup => 59 | EPanic => 60 | EForeign => 61 | EDkgForward => 62 | EMigrationPath => 63
  end.

(* the class the harness can observe for a model outcome: sentinel errors by identity,
   InvalidStateChange by (from,to), all sentinel-less errors as one class, panics *)
Definition class_of (o : outcome) : rclass :=
  match o with
  | OK => ROk
  | Rej e =>
    match e with
    | EPanic => RPanic
    | ENoMetadata | EShortSig | EInvalidPacket | ESigNoParticipant | ESigInvalid
    | EGroupFileRequired | EGroupFileParse | EUnrecognizedCommand | EGossip | EExecSetup
    | EForeign | EDkgForward | EMigrationPath => ROther
    | _ => RErr e
    end
  end.

Definition rclass_eqb (a b : rclass) : bool :=
  match a, b with
  | ROk, ROk | ROther, ROther | RPanic, RPanic => true
  | RErr x, RErr y => err_index x =? err_index y
  | _, _ => false
  end.

(* executeAndFinishDKG always returns the kyber error on the failure path, also when the Failed
   state was recorded: the model's OK for EvFinish None is observed as a sentinel-less error *)
Definition expected_class (ev : event) (o : outcome) : rclass :=
  match ev, o with
  | EvFinish None, OK => ROther
  | _, _ => class_of o
  end.

Section Step.
  Variable c : dcase.
  Variable d : dstep.
  Definition o_joiner_ok (_ : bytes) (p : participant) : bool := contains (ds_vj d) p.
  Definition o_key_ok (k : bytes) : bool := mem_bytes k (ds_vk d).
  Definition o_sig : bytes :=
    match ds_ev d with
    | EvPacket p => match gp_md p with Some m => md_sig m | None => [] end
    | _ => []
    end.
  Definition o_verify (pk m s : bytes) : bool :=
    match ds_msg d with
    | Some m' => bytes_eqb m m' && bytes_eqb s o_sig && mem_bytes pk (ds_sk d)
    | None => false
    end.
  Definition do_step (s : store) : store * outcome :=
    pstep o_verify o_joiner_ok o_key_ok (dc_me c) (dc_beacon c) s (ds_now d, ds_ev d).

  (* byte-level check of message_for_signing against the real messageForSigning, whenever the
     model gets as far as the signature check *)
  Definition msg_ok (s : store) : bool :=
    match ds_ev d with
    | EvPacket p =>
      match gp_md p, gp_body p with
      | Some md, PDkg => true
      | Some md, body =>
        if (len (md_sig md) <? 4) || mem_bytes (md_sig md) (seen s)
           || negb (bytes_eqb (md_beacon md) (dc_beacon c)) then true else
        match apply_packet o_joiner_ok (ds_now d) (dc_me c) (effective (dc_beacon c) s) body md with
        | Ok next =>
          match ds_msg d with
          | Some m => bytes_eqb (message_for_signing (md_beacon md) body (terms_from_state next)) m
          | None => false
          end
        | Err _ => true
        end
      | None, _ => true
      end
    | _ => true
    end.

  Definition step_ok (s : store) : bool * store :=
    let '(s', o) := do_step s in
    (* an event addressed to another beacon id operates on another store key: only "this beacon's
       records are untouched" is compared, not the return value *)
    let res_ok := match ds_res d, o with
                  | RUnobserved, _ => true
                  | _, Rej EForeign => true
                  (* setupDKG failing after the state was saved is observed as key.ErrInvalidKeyScheme
                     (a participant key does not parse) or as a sentinel-less error (no participants) *)
                  | RErr EInvalidKeyScheme, Rej EExecSetup => true
                  | r, _ => rclass_eqb (expected_class (ds_ev d) o) r
                  end in
    (res_ok && msg_ok s
     && dbstate_eqb (get_current (dc_beacon c) s') (ds_cur d)
     && opt_eqb dbstate_eqb (finished s') (ds_fin d)
     && set_eqb (seen s') (ds_seen d), s').
End Step.

Fixpoint steps_ok (c : dcase) (s : store) (l : list dstep) : bool :=
  match l with
  | [] => true
  | d :: l' => let '(b, s') := step_ok c d s in b && steps_ok c s' l'
  end.

Definition ok (c : dcase) : bool := steps_ok c (dc_init c) (dc_steps c).
Definition mismatches (cs : list dcase) : list Z := mism_from ok 0 cs.

(* index of the first failing step of a case (for debugging / replay descriptions) *)
Fixpoint first_bad (c : dcase) (s : store) (l : list dstep) (i : Z) : Z :=
  match l with
  | [] => -1
  | d :: l' => let '(b, s') := step_ok c d s in if b then first_bad c s' l' (i + 1) else i
  end.
Definition first_bad_steps (cs : list dcase) : list Z :=
  map (fun c => first_bad c (dc_init c) (dc_steps c) 0) cs.

(* ---------- table cases: isValidStateChange / terminalStates / isProposalPhase / MinimumT as
   evaluated by the real code through the hook ---------- *)
Inductive tcase :=
| TValid (a b : status) (r : bool)
| TTerminal (l : list status)
| TPhase (a : status) (r : bool)
| TMinT (n r : Z).
Definition tok (t : tcase) : bool :=
  match t with
  | TValid a b r => Bool.eqb (valid_change a b) r
  | TTerminal l => list_eqb status_eqb terminal_states l
  | TPhase a r => Bool.eqb (in_statuses a proposal_phase_states) r
  | TMinT n r => minimum_t n =? r
  end.
Definition tmismatches (cs : list tcase) : list Z := mism_from tok 0 cs.
