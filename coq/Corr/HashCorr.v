(* Correspondence driver for C17 (engine "hash"): each case carries the hashed fields, the
   preimage bytes the engine built independently and checked in Go against the REAL digest
   ([dok]), and - for groups - an oracle table (preimage, digest) of the nested BLAKE2b calls,
   each entry also checked in Go against the real Node.Hash / DistPublic.Hash. [ok] demands that
   check and that the model's preimage (a fold over the generated write order) is the witness. *)
From Coq Require Import String ZArith List Bool.
From DV Require Import Model.ByteEnc Model.HashVocab Gen.HashOrder Model.Hashes Corr.CorrBase.
Import ListNotations.
Open Scope Z_scope.

Inductive hcase :=
| HNode (idx : Z) (key pre : bytes) (dok : bool)
| HDist (coeffs : list bytes) (pre : bytes) (dok : bool)
| HInfo (period_ns genesis : Z) (pk seed id pre : bytes) (dok : bool)
| HGroup (nodes : list (Z * bytes)) (thr genesis ttime : Z) (pk : option (list bytes)) (id : bytes)
         (tbl : list (bytes * bytes)) (pre : bytes) (dok : bool)
| HInfoOf (period : Z) (scheme id : bytes) (genesis : Z) (seed : option bytes) (c0 ghash : bytes)
          (o_pk o_id : bytes) (o_period : Z) (o_scheme : bytes) (o_genesis : Z) (o_seed : bytes)
| HWidth (sp : hashspec) (field : string) (width : Z).

Definition oracle (tbl : list (bytes * bytes)) (x : bytes) : bytes :=
  match find (fun p => bytes_eqb (fst p) x) tbl with Some p => snd p | None => [] end.
Definition no_hash (x : bytes) : bytes := [].

Definition mk_node (p : Z * bytes) : mnode := {| n_idx := fst p; n_key := snd p; n_addr := []; n_sig := [] |}.

Fixpoint item_width (it : hitem) (f : string) : option Z :=
  match it with
  | WInt _ w _ g => if String.eqb f g then Some w else None
  | WIf _ it' => item_width it' f
  | _ => None
  end.
Definition spec_width (sp : hashspec) (f : string) : option Z :=
  match flat_map (fun it => match item_width it f with Some w => [w] | None => [] end) (hs_items sp) with
  | [w] => Some w
  | _ => None
  end.

Definition ok (c : hcase) : bool :=
  match c with
  | HNode idx key pre dok =>
      dok && bytes_eqb (node_pre {| n_idx := idx; n_key := key; n_addr := []; n_sig := [] |}) pre
  | HDist cs pre dok => dok && bytes_eqb (dist_pre cs) pre
  | HInfo p g pk seed id pre dok =>
      dok && bytes_eqb (chain_pre {| i_pk := pk; i_id := id; i_period := p; i_scheme := []; i_genesis := g; i_seed := seed |}) pre
  | HGroup nodes thr g ttm pk id tbl pre dok =>
      dok && bytes_eqb (group_pre no_hash (oracle tbl)
        {| g_thr := thr; g_period := 0; g_catchup := 0; g_scheme := []; g_id := id; g_nodes := map mk_node nodes;
           g_genesis := g; g_seed := None; g_ttime := ttm; g_pk := pk |}) pre
  | HInfoOf period scheme id genesis seed c0 ghash o_pk o_id o_period o_scheme o_genesis o_seed =>
      (* the group hash enters only when the seed is nil: oracle = constant function *)
      match info_of_group no_hash (fun _ => ghash)
              {| g_thr := 0; g_period := period; g_catchup := 0; g_scheme := scheme; g_id := id; g_nodes := [];
                 g_genesis := genesis; g_seed := seed; g_ttime := 0; g_pk := Some [c0] |} with
      | Some i => bytes_eqb (i_pk i) o_pk && bytes_eqb (i_id i) o_id && (i_period i =? o_period) &&
                  bytes_eqb (i_scheme i) o_scheme && (i_genesis i =? o_genesis) && bytes_eqb (i_seed i) o_seed
      | None => false
      end
  | HWidth sp f w => match spec_width sp f with Some w' => w' =? w | None => false end
  end.

Definition mismatches (cs : list hcase) : list Z := mism_from ok 0 cs.
