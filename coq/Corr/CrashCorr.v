(* Correspondence driver for C13: each case carries the persistence operations the real code was
   made to issue (recorded by wrappers around the key store, the DKG store and the chain store), a
   crash point, and what fresh objects loaded from a copy of the directories taken at that point;
   [mismatches] lists the cases on which the model's [recover (crash cp run)] disagrees. *)
From Coq Require Import ZArith List Bool.
From DV Require Import Model.Crash Gen.CrashShape Corr.CorrBase.
Import ListNotations.
Open Scope Z_scope.

Definition drec_eqb (a b : drec) : bool :=
  (d_epoch a =? d_epoch b) && (d_status a =? d_status b) && (d_group a =? d_group b) && (d_share a =? d_share b).
Definition odrec_eqb (a b : option drec) : bool :=
  match a, b with
  | None, None => true
  | Some x, Some y => drec_eqb x y
  | _, _ => false
  end.
Definition fload_eqb (a b : fload) : bool :=
  match a, b with
  | LErr, LErr => true
  | LOk x, LOk y => x =? y
  | _, _ => false
  end.
Definition restart_eqb (a b : restart) : bool :=
  match a, b with
  | RFresh, RFresh | RFailNoGroup, RFailNoGroup | RFailShare, RFailShare
  | RFailFreshDecode, RFailFreshDecode => true
  | RRunning g s, RRunning g' s' => (g =? g') && (s =? s')
  | _, _ => false
  end.
Fixpoint zlist_eqb (a b : list Z) : bool :=
  match a, b with
  | [], [] => true
  | x :: a', y :: b' => (x =? y) && zlist_eqb a' b'
  | _, _ => false
  end.

Definition rec_eqb (m : recovered) (rounds : list Z) (fi cu : option drec) (g s : fload) (rs : restart) : bool :=
  zlist_eqb (r_rounds m) rounds && odrec_eqb (r_fin m) fi && odrec_eqb (r_cur m) cu &&
  fload_eqb (r_group m) g && fload_eqb (r_share m) s && restart_eqb (r_restart m) rs.

Inductive ccase :=
(* the low-level run as recorded, a crash point, and the reloaded observations *)
| Snap (run : list pop) (cp : crashpt) (rounds : list Z) (fi cu : option drec) (g s : fload) (rs : restart)
(* the same history as events, expanded with the shape read from the source; final state *)
| Hist (chain_ops : list pop) (evs : list event) (rounds : list Z) (fi cu : option drec) (g s : fload) (rs : restart)
(* write transactions counted on the real database around one call: 0 SaveCurrent, 1 SaveFinished, 2 beacon Put *)
| TxCount (which : Z) (n : Z)
(* a real DKG: did executeAndFinishDKG commit to dkg.db before handing the result over? *)
| FinishOrder (db_first : bool)
(* one lifetime of the append/scheme store stack: the head it started from, the beacons offered to
   Put, and the rounds of those it stored *)
| Attempts (chained : bool) (last : beacon) (bs : list beacon) (stored : list Z)
(* the same lifetime seen from outside the callback store: committed writes and hand-overs to the
   registered callback, in the order they happened (round, signature id) *)
| CbTrace (chained : bool) (last : beacon) (bs : list beacon) (obs : list cbev)
(* crash at cp, restart, and then the NEXT DKG output (epoch e) is stored in the same key folder by a
   fresh key store: what the group file and the share read back as *)
| LaterSave (run : list pop) (cp : crashpt) (e : Z) (g s : fload)
(* a REAL DrandDaemon started on the snapshot: what LoadBeaconFromStore did with the beacon id.
   class 0 = fresh (waits for a DKG), 1 = running with group ge / share se, 2 = refused (error) *)
| DaemonRestart (run : list pop) (cp : crashpt) (class ge se : Z).

Definition cbev_eqb (a b : cbev) : bool :=
  match a, b with
  | CWrite x, CWrite y | CServe x, CServe y => (b_round x =? b_round y) && (b_sig x =? b_sig y)
  | _, _ => false
  end.
Fixpoint cbevs_eqb (a b : list cbev) : bool :=
  match a, b with
  | [], [] => true
  | x :: a', y :: b' => cbev_eqb x y && cbevs_eqb a' b'
  | _, _ => false
  end.

Definition ok (c : ccase) : bool :=
  match c with
  | Snap run cp rounds fi cu g s rs =>
      rec_eqb (recover (crash cp run empty_state)) rounds fi cu g s rs
  | Hist cops evs rounds fi cu g s rs =>
      rec_eqb (recover (apply_ops (apply_ops empty_state cops) (expand_all crash_shape evs))) rounds fi cu g s rs
  | TxCount w n =>
      if w =? 0 then Z.of_nat (length (sh_save_current crash_shape)) =? n
      else if w =? 1 then Z.of_nat (length (sh_save_finished crash_shape)) =? n
      else Z.of_nat (length (sh_chain_put crash_shape)) =? n
  | FinishOrder b => Bool.eqb (sh_finish_db_first crash_shape) b
  | Attempts chained last bs stored =>
      zlist_eqb (flat_map (fun o => match o with PBeaconTx b => [b_round b] | _ => [] end)
                          (attempt_ops chained last bs)) stored
  | LaterSave run cp e g s =>
      let ip := sh_save_in_place crash_shape in
      let st := apply_ops (crash cp run empty_state) (save_file ip KGroup e ++ save_file ip KShare e) in
      fload_eqb (load_file (gfile st)) g && fload_eqb (load_file (sfile st)) s
  | DaemonRestart run cp class ge se =>
      match node_restart (crash cp run empty_state) with
      | RFresh => class =? 0
      | RRunning g s => (class =? 1) && (ge =? g) && (se =? s)
      | _ => class =? 2
      end
  | CbTrace chained last bs obs =>
      cbevs_eqb (cb_attempts (sh_cb_write_first crash_shape) chained last bs) obs
  end.

Definition mismatches (cs : list ccase) : list Z := mism_from ok 0 cs.
