(* Correspondence driver for the node-local model (C01, C03, C04, C05, C07): a case carries the
   oracle tables computed by the real scheme, the event list fed to the real beacon.Handler and
   the projected outputs observed after each event. *)
From Coq Require Import ZArith List Bool.
From DV Require Import Model.Time Model.Node Gen.Consts Corr.CorrBase.
Import ListNotations.
Open Scope Z_scope.

Record ncase := mkNC {
  nc_chained : bool; nc_period : Z; nc_genesis : Z; nc_catchup : Z;
  nc_now0 : Z; nc_seed : Z; nc_grp : grp;
  nc_idx : list (Z * Z);                  (* partial sig id -> IndexOf *)
  nc_vpart : list (Z * Z * Z * Z);        (* (poly, round, prev, psig) accepted by VerifyPartial *)
  nc_sigtab : list (Z * Z * Z);           (* (round, prev, sig): the unique signature Recover yields *)
  nc_vrec : list (Z * Z * Z);             (* (round, prev, sig) accepted by VerifyBeacon under the group key *)
  nc_own : list (Z * Z * Z * Z);          (* (poly, round, prev, psig): the node's own partial *)
  nc_events : list (list (list event));   (* per harness event: the admissible orders of the model events it stands for *)
  nc_obs : list (bool * list beacon * list (Z * Z * Z * Z))  (* per harness event: rejected, Puts in order, emissions sorted *)
}.

Definition eq3 (a b : Z * Z * Z) : bool :=
  let '(a1, a2, a3) := a in let '(b1, b2, b3) := b in (a1 =? b1) && (a2 =? b2) && (a3 =? b3).
Definition eq4 (a b : Z * Z * Z * Z) : bool :=
  let '(a1, a2, a3, a4) := a in let '(b1, b2, b3, b4) := b in
  (a1 =? b1) && (a2 =? b2) && (a3 =? b3) && (a4 =? b4).

Fixpoint lookup2 (t : list (Z * Z)) (k : Z) (d : Z) : Z :=
  match t with [] => d | (a, b) :: t' => if a =? k then b else lookup2 t' k d end.

Definition t_idx (c : ncase) (sg : Z) : Z := lookup2 (nc_idx c) sg (-1).
Definition t_vpart (c : ncase) (poly r p sg : Z) : bool := existsb (eq4 (poly, r, p, sg)) (nc_vpart c).
Definition t_vrec (c : ncase) (r p sg : Z) : bool := existsb (eq3 (r, p, sg)) (nc_vrec c).

Fixpoint t_sig (t : list (Z * Z * Z)) (r p : Z) : option Z :=
  match t with
  | [] => None
  | (a, b, s) :: t' => if (a =? r) && (b =? p) then Some s else t_sig t' r p
  end.

Fixpoint t_ownl (t : list (Z * Z * Z * Z)) (poly r p : Z) : Z :=
  match t with
  | [] => -999
  | (a, b, c, s) :: t' => if (a =? poly) && (b =? r) && (c =? p) then s else t_ownl t' poly r p
  end.

(* distinct indices among the partials that verify: what kyber's Recover counts *)
Fixpoint count_valid (c : ncase) (poly r p : Z) (seen : list Z) (sigs : list Z) : Z :=
  match sigs with
  | [] => 0
  | sg :: rest =>
      let i := t_idx c sg in
      if t_vpart c poly r p sg && negb (memb i seen)
      then 1 + count_valid c poly r p (i :: seen) rest
      else count_valid c poly r p seen rest
  end.

Definition t_recov (c : ncase) (poly r p : Z) (sigs : list Z) (thr : Z) : option Z :=
  if thr <=? count_valid c poly r p [] sigs then t_sig (nc_sigtab c) r p else None.

Definition case_cfg (c : ncase) : cfg :=
  mkCfg (nc_chained c) (nc_period c) (nc_genesis c) (nc_catchup c) partial_cache_store_limit.

Definition beacon_eqb (a b : beacon) : bool :=
  (b_round a =? b_round b) && (b_prev a =? b_prev b) && (b_sig a =? b_sig b).

(* projection of the model's outputs for one harness event *)
Definition proj_rej (o : list out) : bool := existsb (fun x => match x with OReject => true | _ => false end) o.
Fixpoint proj_puts (o : list out) : list beacon :=
  match o with [] => [] | OPut b :: o' => b :: proj_puts o' | _ :: o' => proj_puts o' end.
Fixpoint proj_emits (o : list out) : list (Z * Z * Z * Z) :=
  match o with [] => [] | OEmit r p s n :: o' => (r, p, s, n) :: proj_emits o' | _ :: o' => proj_emits o' end.

Definition le4 (a b : Z * Z * Z * Z) : bool :=
  let '(a1, a2, a3, a4) := a in let '(b1, b2, b3, b4) := b in
  if a1 <? b1 then true else if b1 <? a1 then false else
  if a2 <? b2 then true else if b2 <? a2 then false else a4 <=? b4.
Fixpoint ins4 (x : Z * Z * Z * Z) (l : list (Z * Z * Z * Z)) :=
  match l with [] => [x] | y :: l' => if le4 x y then x :: l else y :: ins4 x l' end.
Definition sort4 (l : list (Z * Z * Z * Z)) := fold_right ins4 [] l.

Fixpoint list_eqb {A B} (eqb : A -> B -> bool) (a : list A) (b : list B) : bool :=
  match a, b with
  | [], [] => true
  | x :: a', y :: b' => eqb x y && list_eqb eqb a' b'
  | _, _ => false
  end.

Section RunGroups.
  Variable stepf : nstate -> event -> nstate * list out.
  Fixpoint run_group (s : nstate) (es : list event) : nstate * list out :=
    match es with
    | [] => (s, [])
    | e :: es' => let '(s1, o) := stepf s e in let '(s2, o') := run_group s1 es' in (s2, o ++ o')
    end.
End RunGroups.

Definition obs_eqb (o : list out) (ob : bool * list beacon * list (Z * Z * Z * Z)) : bool :=
  let '(rej, puts, emits) := ob in
  Bool.eqb (proj_rej o) rej && list_eqb beacon_eqb (proj_puts o) puts
  && list_eqb eq4 (sort4 (proj_emits o)) emits.

Definition obs_t := (bool * list beacon * list (Z * Z * Z * Z))%type.

(* A harness event whose model events are concurrent in the implementation (a catch-up sleeper
   and the ticker woken by the same clock advance) lists every admissible order; the first
   order whose outputs equal the observation is taken. *)
Section Alt.
  Variable stepf : nstate -> event -> nstate * list out.
  (* states reachable by the orders whose outputs equal the observation *)
  Fixpoint picks (s : nstate) (alts : list (list event)) (ob : obs_t) : list nstate :=
    match alts with
    | [] => []
    | a :: alts' =>
        let '(s1, o) := run_group stepf s a in
        if obs_eqb o ob then s1 :: picks s alts' ob else picks s alts' ob
    end.
  (* index of the first harness event that no admissible order explains from any candidate
     state; -1 if all are explained.  Candidates are capped to keep evaluation cheap. *)
  Fixpoint first_diff_from (i : Z) (cands : list nstate) (gs : list (list (list event))) (obs : list obs_t) : Z :=
    match gs, obs with
    | [], [] => -1
    | g :: gs', ob :: obs' =>
        match firstn 6 (flat_map (fun s => picks s g ob) cands) with
        | [] => i
        | cs => first_diff_from (i + 1) cs gs' obs'
        end
    | _, _ => i
    end.
  Fixpoint states_at (n : nat) (cands : list nstate) (gs : list (list (list event))) (obs : list obs_t) : list nstate :=
    match n, gs, obs with
    | S n', g :: gs', ob :: obs' =>
        match firstn 6 (flat_map (fun s => picks s g ob) cands) with
        | [] => cands
        | cs => states_at n' cs gs' obs'
        end
    | _, _, _ => cands
    end.
End Alt.

Definition case_step (c : ncase) :=
  step (case_cfg c) (t_idx c) (t_vpart c) (t_recov c) (t_vrec c) (t_ownl (nc_own c)).

Definition first_diff (c : ncase) : Z :=
  first_diff_from (case_step c) 0 [init (nc_now0 c) (nc_seed c) (nc_grp c)] (nc_events c) (nc_obs c).

Definition ok (c : ncase) : bool := first_diff c =? -1.

Definition mismatches (cs : list ncase) : list Z := mism_from ok 0 cs.
