(* Correspondence driver for C10: each case carries the inputs given to the REAL
   beacon.SyncManager (or core.BeaconProcess.StartFollowChain) and what was observed on it;
   [mismatches] lists the cases on which Model/Sync.v predicts something else.
   The verification predicate is the oracle table of the case: the list of beacons for which an
   independent scheme.VerifyBeacon call (outside the code under test) returned nil. *)
From Coq Require Import ZArith List Bool.
From DV Require Import Model.Sync Gen.Follow Gen.Consts Corr.CorrBase.
Import ListNotations.
Open Scope Z_scope.

Definition vfy_tab (valid : list beacon) (b : beacon) : bool := existsb (beacon_eqb b) valid.

Record peer_c := mkPC { pc_self : bool; pc_reach : bool; pc_stream : list elem }.
Definition to_peer (p : peer_c) : peer := mkP (pc_self p) (pc_reach p) (fun _ => pc_stream p).

Fixpoint list_eqb {A} (eq : A -> A -> bool) (a b : list A) : bool :=
  match a, b with
  | [], [] => true
  | x :: a', y :: b' => eq x y && list_eqb eq a' b'
  | _, _ => false
  end.

Definition sync_err_eqb (a b : sync_err) : bool :=
  match a, b with
  | EFailedAll, EFailedAll | ECanceled, ECanceled | EInvalid, EInvalid => true
  | _, _ => false
  end.
Definition sync_res_eqb (a b : sync_res) : bool :=
  match a, b with
  | SyncOk, SyncOk => true
  | SyncErr x, SyncErr y => sync_err_eqb x y
  | SyncBlocked x, SyncBlocked y => sync_err_eqb x y
  | _, _ => false
  end.
Definition corr_res_eqb (a b : corr_res) : bool :=
  match a, b with
  | CorrOk, CorrOk | CorrErr, CorrErr | CorrBlocked, CorrBlocked => true
  | _, _ => false
  end.

Fixpoint zrange (i : Z) (n : nat) : list Z :=
  match n with O => [] | S n' => i :: zrange (i + 1) n' end.

(* canonical dump of a raw store: (round, signature) of every round that reads back, ascending *)
Definition dump_of (base : raw) : list (Z * bytes) :=
  flat_map (fun r => match raw_get base r with Some b => [(r, b_sig b)] | None => [] end)
           (zrange 0 (Z.to_nat (head_of base + 1))).
Definition dump_eqb (a b : list (Z * bytes)) : bool :=
  list_eqb (fun x y => (fst x =? fst y) && bytes_eqb (snd x) (snd y)) a b.

(* what the harness observed: result class, FromRound of every SyncChain request in order, every
   beacon handed to the raw store in order, the raw store afterwards *)
Record obs := mkObs { ob_res : sync_res; ob_reqs : list Z; ob_puts : list beacon; ob_dump : list (Z * bytes) }.

Definition obs_ok (chained resync : bool) (o : sync_out) (x : obs) : bool :=
  sync_res_eqb (sy_r o) (ob_res x) &&
  list_eqb Z.eqb (sy_reqs o) (ob_reqs x) &&
  list_eqb beacon_eqb (map (fun b => if resync then b else store_form chained b) (sy_ws o)) (ob_puts x) &&
  dump_eqb (dump_of (s_base (sy_st o))) (ob_dump x).

(* how StartFollowChain ended, as far as it can be told without reading error texts: returned an
   error by itself (the refusals are not distinguishable), returned nil, stayed blocked until
   cancelled, was still retrying when the scripted attempts ran out *)
Inductive fobs_res := FoRefused | FoDone | FoBlocked | FoRetrying.
Definition follow_res_eqb (a : follow_res) (b : fobs_res) : bool :=
  match a, b with
  | FwRefused _, FoRefused | FwDone, FoDone | FwBlocked, FoBlocked | FwRetrying, FoRetrying => true
  | _, _ => false
  end.

(* the progress callback closes [done] at the first stored round >= targ *)
Definition fires (targ : Z) (b : beacon) : bool := (targ <=? b_round b) && negb (b_round b =? 0).
(* number of writes up to and including the first one that closes [done] *)
Fixpoint fire_idx (targ : Z) (ws : list beacon) : nat :=
  match ws with
  | [] => O
  | b :: t => if fires targ b then 1%nat else S (fire_idx targ t)
  end.
Fixpoint is_prefix (a b : list Z) : bool :=
  match a, b with
  | [], _ => true
  | x :: a', y :: b' => (x =? y) && is_prefix a' b'
  | _, _ => false
  end.

Definition src : follow_src :=
  mkFsrc err_chan_is_made failed_sync_is_reported retry_branch_continues hash_pinned_before_store
         follow_stack_has_append_store.

Inductive scase :=
(* SyncManager.Sync(upTo) on stack [sk] over a raw store holding [base]; [peers] in tried order *)
| CSync (chained : bool) (bk : backend) (sk : stack) (valid : list beacon) (base : raw)
        (upTo : Z) (peers : list peer_c) (x : obs)
(* SyncManager.ReSync(from, to) *)
| CResync (chained : bool) (bk : backend) (sk : stack) (valid : list beacon) (base : raw)
          (from to : Z) (a1 a2 : list peer_c) (x : obs)
(* SyncManager.CheckPastBeacons(upTo); None = error *)
| CCheck (valid : list beacon) (base : raw) (upTo : Z) (res : option (list Z))
(* SyncManager.CorrectPastBeacons(rounds of jobs) *)
| CCorrect (chained : bool) (bk : backend) (sk : stack) (valid : list beacon) (base : raw)
           (jobs : list (Z * (list peer_c * list peer_c))) (res : corr_res)
           (puts : list beacon) (dump : list (Z * bytes))
(* SyncManager.Run driven by requests; one element of [attempts] per renewal *)
| CRun (chained : bool) (bk : backend) (valid : list beacon) (base : raw) (upTo : Z)
       (attempts : list (list peer_c)) (x : obs)
(* SyncManager.Run driven by one request per period for [nticks] periods (what Handler.run does
   while the node is behind); [attempts]: the node lists of the Syncs Run starts, in order;
   [inflight]: a Sync was still blocked on a silent peer at the end *)
| CTicks (chained : bool) (bk : backend) (valid : list beacon) (base : raw) (upTo : Z)
         (nticks : nat) (attempts : list (list peer_c)) (inflight : bool) (x : obs)
(* Sync(upTo) called once per element of [attempts] until one returns nil; the raw store under the
   stack fails the Put of round [r] once (it hits the first peer of the first attempt) *)
| CFault (chained : bool) (bk : backend) (valid : list beacon) (base : raw) (upTo r : Z)
         (attempts : list (list peer_c)) (x : obs)
(* BeaconProcess.StartFollowChain on a fresh node: [hash] = the operator's chain hash ([1] names
   the real chain's information, whose oracle table is [valid]; any other hash names foreign
   information, oracle table [valid2]); [answers]: per peer, the ChainInfo answer *)
| CFollow (chained : bool) (bk : backend) (valid valid2 : list beacon) (hash : bytes)
          (answers : list info_ans) (upTo cur : Z) (attempts : list (list peer_c))
          (res : fobs_res) (progress : option (list Z)) (dump : option (list (Z * bytes))).

Definition ok (c : scase) : bool :=
  match c with
  | CSync chained bk sk valid base upTo peers x =>
      match open_store base with
      | None => false
      | Some st => obs_ok chained false
                     (sync_loop (vfy_tab valid) chained bk sk 0 upTo st (map to_peer peers)) x
      end
  | CResync chained bk sk valid base from to a1 a2 x =>
      match open_store base with
      | None => false
      | Some st => obs_ok chained true
                     (resync (vfy_tab valid) chained bk sk from to st (map to_peer a1) (map to_peer a2)) x
      end
  | CCheck valid base upTo res =>
      match open_store base with
      | None => match res with None => true | Some _ => false end
      | Some st =>
          match check_past (vfy_tab valid) upTo st, res with
          | Some l, Some l' => list_eqb Z.eqb l l'
          | None, None => true
          | _, _ => false
          end
      end
  | CCorrect chained bk sk valid base jobs res puts dump =>
      match open_store base with
      | None => false
      | Some st =>
          let o := correct_past (vfy_tab valid) chained bk sk st
                     (map (fun j => (fst j, (map to_peer (fst (snd j)), map to_peer (snd (snd j))))) jobs) in
          corr_res_eqb (co_r o) res && list_eqb beacon_eqb (co_ws o) puts &&
          dump_eqb (dump_of (s_base (co_st o))) dump
      end
  | CRun chained bk valid base upTo attempts x =>
      match open_store base with
      | None => false
      | Some st => obs_ok chained false
                     (run_attempts (vfy_tab valid) chained bk SkAppend upTo st
                        (map (map to_peer) attempts)) x
      end
  | CTicks chained bk valid base upTo nticks attempts inflight x =>
      match open_store base with
      | None => false
      | Some st =>
          let s := run_ticks (vfy_tab valid) chained bk SkAppend sync_expiry_factor upTo nticks 0
                     (mkTk st false 0 [] [] (map (map to_peer) attempts)) in
          let res := if (0 <? upTo) && (upTo <=? head_of (s_base (tk_st s))) then SyncOk
                     else if tk_inflight s then SyncBlocked ECanceled else SyncErr EFailedAll in
          Bool.eqb (tk_inflight s) inflight &&
          obs_ok chained false (mkSy res (tk_st s) (tk_ws s) (tk_reqs s)) x
      end
  | CFault chained bk valid base upTo r attempts x =>
      match open_store base with
      | None => false
      | Some st =>
          let atts := match map (map to_peer) attempts with
                      | (p :: ps) :: rest => (with_put_failure r p :: ps) :: rest
                      | l => l
                      end in
          obs_ok chained false (run_attempts (vfy_tab valid) chained bk SkAppend upTo st atts) x
      end
  | CFollow chained bk valid valid2 hash answers upTo cur attempts res progress dump =>
      let o := follow (fun i => vfy_tab (if bytes_eqb (i_hash i) [1] then valid else valid2))
                 chained bk src false hash answers None upTo cur
                 (S (length attempts)) (map (map to_peer) attempts) in
      follow_res_eqb (fw_r o) res &&
      match fw_r o with
      | FwDone =>
          (* [done] was closed by the progress callback; the Sync still running is cancelled
             asynchronously: every cut of the attempt's write sequence at or after the write that
             closed [done] is a behaviour of the code *)
          let ws := fw_ws o in
          let targ := if negb (upTo =? 0) && (upTo <? cur) then upTo else cur in
          let base0 := match info_from_peers answers with
                       | Some i => raw_put bk [] (i_genesis i)
                       | None => []
                       end in
          let db_at (n : nat) := fold_left (raw_put bk) (map (store_form chained) (firstn n ws)) base0 in
          match progress, dump with
          | Some p, Some d =>
              is_prefix p (map b_round ws) && Nat.leb (fire_idx targ ws) (length p) &&
              existsb (fun n => dump_eqb (dump_of (db_at n)) d)
                      (seq (length p) (S (length ws - length p)))
          | _, _ => false
          end
      | _ =>
          match progress with
          | Some p => list_eqb Z.eqb (map b_round (fw_ws o)) p
          | None => true   (* upTo = 0: the progress stream is rate-limited against the clock *)
          end &&
          match fw_db o, dump with
          | None, None => true
          | Some b, Some d => dump_eqb (dump_of b) d
          | _, _ => false
          end
      end
  end.

Definition mismatches (cs : list scase) : list Z := mism_from ok 0 cs.
