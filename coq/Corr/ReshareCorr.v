(* Correspondence driver for validateGroupTransition (C07). *)
From Coq Require Import ZArith List Bool.
From DV Require Import Model.Reshare Corr.CorrBase.
Import ListNotations.
Open Scope Z_scope.

Record rcase := mkRC { rc_old : option ginfo; rc_new : option ginfo; rc_now : Z; rc_accepted : bool }.

Definition ok (c : rcase) : bool :=
  Bool.eqb (match validate_transition (rc_old c) (rc_new c) (rc_now c) with VtOk => true | _ => false end)
           (rc_accepted c).

Definition mismatches (cs : list rcase) : list Z := mism_from ok 0 cs.
