(* Correspondence driver for validateGroupTransition (C07). *)
From Coq Require Import ZArith List Bool.
From DV Require Import Model.Reshare Corr.CorrBase.
Import ListNotations.
Open Scope Z_scope.

Record rcase := mkRC { rc_old : option ginfo; rc_new : option ginfo; rc_now : Z; rc_accepted : bool }.

Definition ok (c : rcase) : bool :=
  Bool.eqb (match validate_transition (rc_old c) (rc_new c) (rc_now c) with VtOk => true | _ => false end)
           (rc_accepted c).

Definition mismatches (cs : list rcase) : list Z := mism_from ok 0 cs.

(* The node's group over a history of resharing outputs handed to a REAL BeaconProcess
   (onDKGCompleted -> transitionToNext): after every output the group the process holds (in memory
   and in its key store) is what [reshare_step] says: the new group if the output passes the
   checks, the old one -- untouched -- otherwise. *)
Definition list_eqbZ (a b : list Z) : bool :=
  (Nat.eqb (length a) (length b)) && forallb (fun p => fst p =? snd p) (combine a b).
Definition ginfo_eqb (a b : ginfo) : bool :=
  (gi_genesis a =? gi_genesis b) && (gi_period a =? gi_period b) && (canon_id (gi_id a) =? canon_id (gi_id b))
  && (gi_seed a =? gi_seed b) && (gi_pk a =? gi_pk b) && (gi_scheme a =? gi_scheme b)
  && (gi_transition a =? gi_transition b) && (gi_thr a =? gi_thr b) && list_eqbZ (gi_nodes a) (gi_nodes b).

Record racase := mkRA { ra_cur : ginfo; ra_evs : list reshare_ev; ra_obs : list ginfo }.

Fixpoint ra_run (cur : ginfo) (evs : list reshare_ev) (obs : list ginfo) : bool :=
  match evs, obs with
  | [], [] => true
  | e :: evs', o :: obs' => let nxt := reshare_step cur e in ginfo_eqb nxt o && ra_run nxt evs' obs'
  | _, _ => false
  end.

Definition ok_apply (c : racase) : bool := ra_run (ra_cur c) (ra_evs c) (ra_obs c).
Definition mismatches_apply (cs : list racase) : list Z := mism_from ok_apply 0 cs.

(* a fresh node is handed the output of epoch [jn_epoch] (it is in the new group, it was in no
   previous one) at time [jn_now]; [jn_ran]: no error came back and the beacon loop is running *)
Record jncase := mkJN { jn_epoch : Z; jn_genesis : Z; jn_now : Z; jn_ran : bool }.
Definition ok_join (c : jncase) : bool := Bool.eqb (join_runs (jn_epoch c) (jn_genesis c) (jn_now c)) (jn_ran c).
Definition mismatches_join (cs : list jncase) : list Z := mism_from ok_join 0 cs.

