(* Correspondence driver for C20 (engine "codec") and the JSON part of C17 (engine "infojson").
   Real values are converted to the model's values by reflection in the harness.
   CMir: a real conversion function was applied to [input] and gave [output]; the model's
         denotation of the generated mirror must give the same leaves ([VUnset] = not modelled:
         hashes, caller-supplied values).
   CRt:  [input] was encoded, sent through the real library / file / database and decoded to
         [decoded]; the model must predict it.
   CPair: CMir for encoder [a] (input -> mid) and decoder [b] (mid -> decoded), and CRt for every
         value in [rts] (what came back through a library / file / database path and is not
         literally [decoded]).
   CDec: a real decoder accepted or rejected [input]; the model's checks must agree.
   CDecOut: a real decoder accepted [input] and produced [decoded]; the model's decoder (checks,
         conversion, legacy overrides) must produce the same leaves.
   CFields: the leaf paths of a real struct as reflect sees them; must be the generated ones.
   CDisk: a history of operations on one REAL key file store (key.NewFileStore: SaveKeyPair /
         SaveShare / SaveGroup / Load* / Reset) and what each load returned: the number of the
         value it equals, -2 if it equals none of the values saved so far, None on error.
   Durations are printed / parsed by the real library: the table [durs] is the oracle. *)
From Coq Require Import String ZArith List Bool.
From DV Require Import Model.ByteEnc Model.CodecVocab Model.Codec Gen.Mirrors Corr.CorrBase.
Import ListNotations.
Open Scope Z_scope.

Inductive ccase :=
| CMir (name : string) (durs : list (Z * bytes)) (input output : record)
| CRt (a b : string) (durs : list (Z * bytes)) (input decoded : record)
| CPair (a b : string) (durs : list (Z * bytes)) (input mid decoded : record) (rts : list record)
| CDec (name : string) (durs : list (Z * bytes)) (good_addrs : list bytes) (hs : bytes) (input : record) (accepted : bool)
| CDecOut (name : string) (durs : list (Z * bytes)) (good_addrs : list bytes) (hs : bytes) (input decoded : record)
| CFields (typ : string) (leaves : list path)
| CDisk (ops : list dop) (loads : list (option Z)).

Definition ds_of (durs : list (Z * bytes)) (d : Z) : bytes :=
  match find (fun p => fst p =? d) durs with Some p => snd p | None => [] end.
Definition pd_of (durs : list (Z * bytes)) (s : bytes) : option Z :=
  match find (fun p => bytes_eqb (snd p) s) durs with Some p => Some (fst p) | None => None end.

(* model value vs observed value; VUnset on the model side matches anything *)
Fixpoint vmatch (m o : val) {struct m} : bool :=
  match m, o with
  | VUnset, _ => true
  | VInt x, VInt y => x =? y
  | VBytes x, VBytes y => bytes_eqb x y
  | VNil, VNil => true
  | VList l, VList l' =>
      (fix go (a b : list val) : bool :=
         match a, b with
         | [], [] => true
         | x :: a', y :: b' => vmatch x y && go a' b'
         | _, _ => false
         end) l l'
  | VRec r, VRec r' =>
      (fix go (a : list (path * val)) : bool :=
         match a with
         | [] => true
         | (k, v) :: a' => match get k r' with Some w => vmatch v w | None => false end && go a'
         end) r
  | _, _ => false
  end.
Definition rec_match (m o : record) : bool := vmatch (VRec m) (VRec o).

Definition ok (c : ccase) : bool :=
  match c with
  | CMir name durs input output =>
      match den (ds_of durs) (pd_of durs) mirrors name input with
      | Some out => rec_match out output
      | None => false
      end
  | CRt a b durs input decoded =>
      match den (ds_of durs) (pd_of durs) mirrors a input with
      | Some r1 => match den (ds_of durs) (pd_of durs) mirrors b r1 with
                   | Some r2 => rec_match r2 decoded
                   | None => false
                   end
      | None => false
      end
  | CPair a b durs input mid decoded rts =>
      match den (ds_of durs) (pd_of durs) mirrors a input with
      | Some x =>
          rec_match x mid &&
          match den (ds_of durs) (pd_of durs) mirrors b mid with
          | Some y => rec_match y decoded
          | None => false
          end &&
          match den (ds_of durs) (pd_of durs) mirrors b x with
          | Some z => rec_match z decoded && forallb (rec_match z) rts
          | None => false
          end
      | None => false
      end
  | CDec name durs good hs input accepted =>
      match decode (ds_of durs) (pd_of durs) (fun a => mem_bytes a good) hs mirrors name input with
      | Some _ => accepted
      | None => negb accepted
      end
  | CDecOut name durs good hs input decoded =>
      match decode (ds_of durs) (pd_of durs) (fun a => mem_bytes a good) hs mirrors name input with
      | Some x => rec_match x decoded
      | None => false
      end
  | CDisk ops loads =>
      (fix eq (a b : list (option Z)) : bool :=
         match a, b with
         | [], [] => true
         | Some x :: a', Some y :: b' => (x =? y) && eq a' b'
         | None :: a', None :: b' => eq a' b'
         | _, _ => false
         end) (snd (disk_run disk_init ops)) loads
  | CFields typ leaves =>
      existsb (fun d => (String.eqb (m_src_type d) typ && paths_eqb (m_src_leaves d) leaves)
                        || (String.eqb (m_dst_type d) typ && paths_eqb (m_dst_leaves d) leaves)) mirrors
  end.

Definition mismatches (cs : list ccase) : list Z := mism_from ok 0 cs.
