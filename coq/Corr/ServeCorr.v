(* Correspondence driver for the serving side of C01 (Model/Serve.v). *)
From Coq Require Import ZArith List Bool.
From DV Require Import Model.Node Model.Serve Corr.CorrBase.
Import ListNotations.
Open Scope Z_scope.

Inductive scase :=
| SGet (chain : list beacon) (reqs : list (Z * option beacon))     (* PublicRand / Proxy.Get answers *)
| SStream (chain : list beacon) (from : Z) (items : list beacon).  (* what a stream from [from] delivered *)

Definition beq (a b : beacon) : bool :=
  (b_round a =? b_round b) && (b_prev a =? b_prev b) && (b_sig a =? b_sig b).
Definition obeq (a b : option beacon) : bool :=
  match a, b with Some x, Some y => beq x y | None, None => true | _, _ => false end.
Fixpoint lbeq (a b : list beacon) : bool :=
  match a, b with [] , [] => true | x :: a', y :: b' => beq x y && lbeq a' b' | _, _ => false end.

(* the stored beacons from round [from] on, ascending *)
Definition stream_from (ch : list beacon) (from : Z) : list beacon :=
  filter (fun b => from <=? b_round b) (rev ch).

Definition ok (c : scase) : bool :=
  match c with
  | SGet ch reqs => forallb (fun '(r, ans) => obeq (public_rand ch r) ans) reqs
  | SStream ch from items => lbeq (stream_from ch from) items
  end.
Definition mismatches (cs : list scase) : list Z := mism_from ok 0 cs.
