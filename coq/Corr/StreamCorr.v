(* Correspondence driver for beacon streams (C11): every case is a schedule run on the real
   SyncChain (Send and AddCallback gated by the harness) with, per stream, the beacons passed to
   Send and the error class the call returned. *)
From Coq Require Import ZArith List Bool.
From DV Require Import Model.Stream Corr.CorrBase.
Import ListNotations.
Open Scope Z_scope.

Definition serr_code (s : stream) : Z :=
  match s_error s with
  | None => 0
  | Some SErrNoBeacon => 1
  | Some SErrSend => 2
  | Some SErrReplaced => 3
  | Some SErrCanceled => 4
  end.

(* what was passed to Send: round, signature token, previous-signature token *)
Definition sentobs := (Z * Z * Z)%type.

Fixpoint sent_ok (chained : bool) (sto : list beacon) (a : list beacon) (b : list sentobs) : bool :=
  match a, b with
  | [], [] => true
  | x :: a', (r, t, p) :: b' =>
      (fst x =? r) && (snd x =? t) && (stored_prev chained sto x =? p) && sent_ok chained sto a' b'
  | _, _ => false
  end.

Fixpoint obs_ok (chained : bool) (sto : list beacon) (ss : list stream) (obs : list (list sentobs * Z)) : bool :=
  match ss, obs with
  | [], [] => true
  | s :: ss', (sent, code) :: obs' =>
      sent_ok chained sto (s_sent s) sent && (serr_code s =? code) && obs_ok chained sto ss' obs'
  | _, _ => false
  end.

(* nreg: the number of callbacks registered in the real callback store at the end of the schedule *)
Inductive scase :=
  SCase (bk : backend) (chained : bool) (genesis : Z) (evs : list sev) (obs : list (list sentobs * Z)) (nreg : Z).

Definition ok (c : scase) : bool :=
  match c with
  | SCase bk chained g evs obs nreg =>
      let st := ss_run bk (ss_init g) evs in
      obs_ok chained (store st) (streams st) obs && (Z.of_nat (length (reg st)) =? nreg)
  end.

Definition mismatches (cs : list scase) : list Z := mism_from ok 0 cs.
