(* Correspondence driver for beacon streams (C11): every case is a schedule run on the real
   SyncChain (Send and AddCallback gated by the harness) with, per stream, the beacons passed to
   Send and the error class the call returned. *)
From Coq Require Import ZArith List Bool.
From DV Require Import Model.Stream Corr.CorrBase.
Import ListNotations.
Open Scope Z_scope.

Definition serr_code (s : stream) : Z :=
  match s_error s with
  | None => 0
  | Some SErrNoBeacon => 1
  | Some SErrSend => 2
  | Some SErrReplaced => 3
  end.

Fixpoint beacons_eqb (a b : list beacon) : bool :=
  match a, b with
  | [], [] => true
  | x :: a', y :: b' => (fst x =? fst y) && (snd x =? snd y) && beacons_eqb a' b'
  | _, _ => false
  end.

Fixpoint obs_ok (ss : list stream) (obs : list (list beacon * Z)) : bool :=
  match ss, obs with
  | [], [] => true
  | s :: ss', (sent, code) :: obs' => beacons_eqb (s_sent s) sent && (serr_code s =? code) && obs_ok ss' obs'
  | _, _ => false
  end.

Inductive scase := SCase (bk : backend) (genesis : Z) (evs : list sev) (obs : list (list beacon * Z)).

Definition ok (c : scase) : bool :=
  match c with
  | SCase bk g evs obs => obs_ok (streams (ss_run bk (ss_init g) evs)) obs
  end.

Definition mismatches (cs : list scase) : list Z := mism_from ok 0 cs.
