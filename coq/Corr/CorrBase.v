(* Shared helper for correspondence drivers: indices of the cases a checker rejects. *)
From Coq Require Import ZArith List.
Import ListNotations.
Open Scope Z_scope.

Fixpoint mism_from {A} (ok : A -> bool) (i : Z) (cs : list A) : list Z :=
  match cs with
  | [] => []
  | c :: cs' => if ok c then mism_from ok (i + 1) cs' else i :: mism_from ok (i + 1) cs'
  end.
