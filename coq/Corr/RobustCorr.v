(* Correspondence driver for C14: each case carries the shape of a request sent to a real
   service object (DrandDaemon / dkg.Process / beacon handler / HTTP handler) by
   harness/engrobust, the node-state facts the decision depends on, and the observed class
   (0 answered, 1 rejected, 2 panicked, 3 did not return before the deadline);
   [mismatches] lists the cases on which Model/Robust.v disagrees. *)
From Coq Require Import ZArith List Bool.
From DV Require Import Model.Routing Model.Robust Gen.DKGTable Corr.CorrBase.
Import ListNotations.
Open Scope Z_scope.

Definition class_of (d : decision) : Z :=
  match d with Answer => 0 | Reject => 1 | EPanic _ => 2 end.

Definition in_ids (ids : list str) (i : str) : bool := existsb (str_eqb i) ids.

Definition status_of_index (z : Z) : status :=
  match find (fun s => status_index s =? z) all_statuses with Some s => s | None => Fresh end.

Inductive kcase :=
(* target 0: DrandDaemon.Packet, 1: dkg.Process.Packet; exec_ids: ids with a running broadcaster *)
| KPacket (target : Z) (g : gossip) (exists_ : bool) (status_idx : Z) (leader_set fg_set timed_out me_leaving me_member : bool)
          (exec_ids : list str) (obs : Z)
(* target 0: DrandDaemon.BroadcastDKG, 1: dkg.Process.BroadcastDKG *)
| KBcast (target : Z) (d : dkg_shape) (exist_ids exec_ids : list str) (deep_ok : bool) (obs : Z)
| KPartial (p : partial) (b : bstate) (obs : Z)
(* a routed endpoint after the history: serves = ids whose process can answer this endpoint *)
| KRouted (dk : list (str * group)) (evs : list event) (m : option meta) (serves : list str) (obs : Z)
(* GET /{seg}/public/{round}: 0 = 400, 1 = 404 (no handler), 2 = routed to a handler *)
| KHttp (t : list (str * str)) (seg : option str) (round : str) (obs : Z).

Definition ok (c : kcase) : bool :=
  match c with
  | KPacket target g ex st ls fg to ml mm exec_ids obs =>
      let ns := mkN ex false (status_of_index st) ls fg to ml mm in
      let d := if target =? 0 then decide_packet_daemon g ns (in_ids exec_ids)
               else decide_packet_process g ns (in_ids exec_ids) in
      class_of d =? obs
  | KBcast target d exist_ids exec_ids deep obs =>
      let r := if target =? 0 then decide_bcast_daemon d (in_ids exist_ids) (in_ids exec_ids) deep
               else decide_bcast_process d (in_ids exec_ids) deep in
      class_of r =? obs
  | KPartial p b obs => class_of (decide_partial p b) =? obs
  | KRouted dk evs m serves obs =>
      class_of (decide_routed (run (init_daemon dk) evs) m (in_ids serves)) =? obs
  | KHttp t seg round obs =>
      (match decide_http_rand t seg round with H400 => 0 | H404 => 1 | HRouted _ _ => 2 end) =? obs
  end.

Definition mismatches (cs : list kcase) : list Z := mism_from ok 0 cs.
