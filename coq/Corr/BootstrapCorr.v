(* Correspondence driver for the memdb bootstrap (C01). *)
From Coq Require Import ZArith List Bool.
From DV Require Import Model.Node Model.Bootstrap Corr.CorrBase.
Import ListNotations.
Open Scope Z_scope.

Record bcase := mkBC {
  bc_valid : list (Z * Z * Z);            (* (round, prev, sig) accepted by VerifyBeacon under the group key *)
  bc_target : Z;
  bc_ans_target : list (option beacon);
  bc_ans_latest : list (option beacon);
  bc_obs : boot_res                       (* what was put into the store, or the error / nothing *)
}.

Definition t_v (c : bcase) (r p s : Z) : bool :=
  existsb (fun '(a, b, d) => (a =? r) && (b =? p) && (d =? s)) (bc_valid c).

Definition res_eqb (a b : boot_res) : bool :=
  match a, b with
  | BNothing, BNothing | BErr, BErr => true
  | BPut x, BPut y => (b_round x =? b_round y) && (b_prev x =? b_prev y) && (b_sig x =? b_sig y)
  | _, _ => false
  end.

Definition ok (c : bcase) : bool :=
  res_eqb (bootstrap (t_v c) (mkB 0 empty_id 0) (bc_target c) (bc_ans_target c) (bc_ans_latest c)) (bc_obs c).
Definition mismatches (cs : list bcase) : list Z := mism_from ok 0 cs.
