(* Correspondence driver for the system model Model/Net.v: several REAL beacon.Handlers of one
   group run side by side, the harness is the network and the adversary.  A case carries the
   oracle tables computed by the real scheme, the global event list in model terms and, for every
   harness step, what each real node stored / emitted / answered.  The driver replays the events
   through [gstep], checks every event against the boolean admissibility [gadm_b] (sound for
   [gadm], Proofs/NetProofs.v: the real run is one of the runs the system theorems quantify over)
   and compares the model's outputs with the observations node by node. *)
From Coq Require Import ZArith List Bool.
From DV Require Import Model.Time Model.Node Model.Net Gen.Consts Corr.CorrBase Corr.NodeCorr.
Import ListNotations.
Open Scope Z_scope.

Record netcase := mkNetC {
  xc_chained : bool; xc_period : Z; xc_genesis : Z; xc_catchup : Z;
  xc_now0 : Z; xc_seed : Z;
  xc_thr : list (Z * Z);                       (* sharing (public polynomial id) -> threshold *)
  xc_F : list (Z * list Z);                    (* sharing -> share indices the harness signs with as the adversary *)
  xc_groups : list grp;                        (* one per real node *)
  xc_idx : list (Z * Z);
  xc_vpart : list (Z * Z * Z * Z);
  xc_sigtab : list (Z * Z * Z);
  xc_vrec : list (Z * Z * Z);
  xc_own : list (Z * (Z * Z * Z * Z));         (* member index, (poly, round, prev, psig) *)
  xc_steps : list (list (list gevent) * list (nat * obs_t))   (* per harness step: the admissible orders of its model events, observation per acting node *)
}.

Definition as_ncase (c : netcase) : ncase :=
  mkNC (xc_chained c) (xc_period c) (xc_genesis c) (xc_catchup c) (xc_now0 c) (xc_seed c)
       (mkG 0 0 [] 0) (xc_idx c) (xc_vpart c) (xc_sigtab c) (xc_vrec c) [] [] [].

Definition x_own (c : netcase) (me poly r p : Z) : Z :=
  t_ownl (map snd (filter (fun e => fst e =? me) (xc_own c))) poly r p.

Definition x_thr (c : netcase) (P : Z) : Z := lookup2 (xc_thr c) P 1.
Fixpoint lookupl (t : list (Z * list Z)) (k : Z) : list Z :=
  match t with [] => [] | (a, b) :: t' => if a =? k then b else lookupl t' k end.
Definition x_F (c : netcase) (P : Z) : list Z := lookupl (xc_F c) P.
Definition x_polys (c : netcase) : list Z := map fst (xc_thr c).

Definition x_cfg (c : netcase) : cfg := case_cfg (as_ncase c).
Definition x_idx (c : netcase) := t_idx (as_ncase c).
Definition x_vpart (c : netcase) := t_vpart (as_ncase c).
Definition x_recov (c : netcase) := t_recov (as_ncase c).
Definition x_vrec (c : netcase) := t_vrec (as_ncase c).

Definition x_gstep (c : netcase) := gstep (x_cfg c) (x_idx c) (x_vpart c) (x_recov c) (x_vrec c) (x_own c).
Definition x_react (c : netcase) := nreact (x_cfg c) (x_idx c) (x_vpart c) (x_recov c) (x_vrec c) (x_own c).

Definition x_init (c : netcase) : sys :=
  init_sys (mkB 0 (-1) (xc_seed c)) (xc_now0 c) (xc_groups c).

(* the outputs of the node an event acts on *)
Definition outs_of (c : netcase) (y : sys) (g : gevent) : list (nat * list out) :=
  match g with
  | GNode j e => match nth_error (y_nodes y) j with Some s => [(j, snd (x_react c s e))] | None => [] end
  | GDeliver j (r, p, sg) =>
      match nth_error (y_nodes y) j with Some s => [(j, snd (x_react c s (EPart r p sg)))] | None => [] end
  | _ => []
  end.

Fixpoint run_events (c : netcase) (y : sys) (gs : list gevent) : sys * list (nat * list out) * bool :=
  match gs with
  | [] => (y, [], true)
  | g :: gs' =>
      let ok := gadm_b (x_cfg c) (x_idx c) (x_vpart c) (x_vrec c) (x_thr c) (x_F c) (x_polys c) y g in
      let o := outs_of c y g in
      let '(y', os, ok') := run_events c (x_gstep c y g) gs' in
      (y', o ++ os, ok && ok')
  end.

Definition outs_for (j : nat) (os : list (nat * list out)) : list out :=
  flat_map (fun e => if Nat.eqb (fst e) j then snd e else []) os.

Definition alt_ok (c : netcase) (y : sys) (gs : list gevent) (obs : list (nat * obs_t)) : sys * bool :=
  let '(y', os, adm) := run_events c y gs in
  (y', adm
       && forallb (fun jo => obs_eqb (outs_for (fst jo) os) (snd jo)) obs
       (* a node that is not listed as acting did nothing observable *)
       && forallb (fun e => existsb (fun jo => Nat.eqb (fst jo) (fst e)) obs
                            || (negb (proj_rej (snd e)) && match proj_puts (snd e), proj_emits (snd e) with [], [] => true | _, _ => false end)) os).

(* a harness step whose model events are concurrent in the implementation (sync manager vs
   aggregator inside one node) lists every admissible order; different orders can explain the same
   observation and leave different states (a catch-up sleeper or not), so every state reached by an
   admissible, observation-matching order is kept as a candidate (capped) *)
Fixpoint picks (c : netcase) (y : sys) (alts : list (list gevent)) (obs : list (nat * obs_t)) : list sys :=
  match alts with
  | [] => []
  | gs :: alts' => let '(y', ok) := alt_ok c y gs obs in
                   if ok then y' :: picks c y alts' obs else picks c y alts' obs
  end.

Fixpoint first_bad_from (c : netcase) (i : Z) (cands : list sys) (sts : list (list (list gevent) * list (nat * obs_t))) : Z :=
  match sts with
  | [] => -1
  | st :: sts' => match firstn 6 (flat_map (fun y => picks c y (fst st) (snd st)) cands) with
                  | [] => i
                  | cs => first_bad_from c (i + 1) cs sts'
                  end
  end.

Definition first_bad (c : netcase) (i : Z) (y : sys) sts : Z := first_bad_from c i [y] sts.

Definition net_ok (c : netcase) : bool := first_bad c 0 (x_init c) (xc_steps c) =? -1.
Definition mismatches (cs : list netcase) : list Z := mism_from net_ok 0 cs.
