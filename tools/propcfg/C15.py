from propcfg.common import *


def _post(c):
    """When a proof obligation is broken, name the offending (constructor, field) pairs of the
    regenerated exposure table and the offending constants in the replay file."""
    import os, re, tempfile, vlib
    if not [b for b in c.breaks if b["kind"] == "P"]:
        return
    src = ("From Coq Require Import ZArith List String.\nFrom DV Require Import Model.Secrecy Gen.Consts Gen.SaveFlags Gen.Exposure.\n"
           "Eval vm_compute in (bad_fields exposure).\n"
           "Eval vm_compute in (Z.land fs_rw_file_perm go_bits, Z.land dkg_bolt_open_perm go_bits, save_secure FKeyPrivate, save_secure FShare).\n")
    d = tempfile.mkdtemp(prefix="zzv-c15-")
    open(os.path.join(d, "bad.v"), "w").write(src)
    rc, out = vlib.sh(["coqc", "-R", vlib.COQ, "DV", "-Q", d, "Scratch", "bad.v"], timeout=300, cwd=d)
    for b in c.breaks:
        if b["kind"] == "P":
            b["witness"] = ("bad_fields exposure / (rw_perm&077, dkg_perm&077, secure(key), secure(share)) = " + re.sub(r"\s+", " ", out)[:3000])

CFG = {
    "disabled": False,
    "post": _post,
    "props": "Props/C15.v",
    "corr": ["Corr/SecrecyCorr.v"],
    "engines": [("secrecy", [])],
    "axioms": [],
    "trusted": COMMON_TB + [
        "open(2)/chmod(2) semantics: a new file gets perm & ~umask, an existing file keeps its mode, chmod ignores the umask (modelled in Model/Secrecy.v; validated on every run by stat of the files the real code creates in a re-executed child per umask)",
        "the exposure translator (harness/extract/exposure.go): a syntactic taint analysis over go/parser ASTs (struct field / parameter / result types read from declarations, calls into the parsed packages analysed through the callee's body, other calls propagate their arguments' roots); values passed through opaque external calls are assumed to depend only on their arguments; kyber's dkg.VerifyPacketSignature and dkg.NewProtocol, which take the DKG configuration (long-term key, share), are assumed not to put key material into their results or errors",
        "kyber: the deal bundles of the DKG are encrypted and signatures / partial signatures / commitments do not reveal the scalars they are computed from (not modelled; the crypto-op fields are exactly the ones the noninterference theorem blanks)",
    ],
    "assumptions": [
        "outputs modelled: every protobuf message literal, handler return value, stream Send, field assignment on a message and log call in internal/core/drand_beacon{,_control,_public}.go, drand_daemon_dkg_proxy.go, internal/dkg/actions_{active,passive,signing}.go, execution.go, broadcast.go and internal/chain/beacon/node.go; outputs built elsewhere are covered by the byte scan only",
        "file modes: the property is about files the current code creates; a dkg.db that already exists keeps its mode (C15_dkgdb_existing_file_keeps_mode)",
        "derived leaks (timing, memory dumps, core files) are outside any executable model",
    ],
    "level_text": "C15_secure_mode_precedes_content: the file fs.CreateSecureFile is applied to is the file the encoder writes into and the one that ends at the target (since the write-aside-and-rename Save: the temporary file). C15_modes: for EVERY umask, the key file, the share file and dkg.db have no group/other permission bit whenever content is written to them, proved by a bit-level lemma over the file-mode constants regenerated from fs.go / dkg/store.go (C15_secret_perm_constants fails if BoltStoreOpenPerm regresses to 0660); C15_noninterference: for all node states with equal public part and all requests, every modelled response / packet / stream item / log record is equal outside the fields computed by sign / partial_sign / pk_of / commit, as a consequence of the per-run obligation exposure_ok Gen.exposure = true over the field-source table the translator reads from the handlers, plus a generic soundness lemma (and a tightness lemma: every rejected field does leak in the model). Validation on every run: stat of every file the real key store, DKG store and chain store create under umask 000/002/022/027/077 (compared with the model inside Coq), and a byte scan (raw, reversed, hex, base64, decimal) of all control / public / protocol responses, HTTP bodies, DKG gossip and deal packets of a real 3-node DKG and resharing, partial-beacon packets, sync streams, stored beacons, public files and debug logs for every node's long-term scalar and share, over all 5 schemes. The modes child also saves the key pair and the share of a second beacon whose secret files are symbolic links into a vault folder (one dangling, one to an existing 0644 file) and stats the targets (monitor only).",
    "level_note": "Kernel + vm_compute; no axioms. The noninterference theorem is about the source table read by a syntactic translator (trusted, fails loudly on unknown shapes) and the mode theorem about a 4-operation model of open/chmod; both are tied to the real code by the per-run stat comparison and the byte scan. Secrecy of kyber's encrypted deals and of BLS/Schnorr signatures is assumed, not proved.",
}
