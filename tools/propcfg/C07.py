from propcfg.common import *
from propcfg.C01 import NODE_TB

CFG = {
    "props": "Props/C07.v",
    "corr": ["Corr/NodeCorr.v", "Corr/ReshareCorr.v", "Corr/NetCorr.v"],
    "engines": [("reshare", []), ("node", []), ("net", [])],
    "axioms": [],
    "trusted": NODE_TB + ["premise history_ok of C07_identity: each ceremony's output keeps the distributed public key (kyber resharing fed with the old share and public coefficients) and the scheme (copied by the leader's proposal); validateGroupTransition itself compares neither (C07_scheme_unchecked)",
                           "reshare engine: real validateGroupTransition through an add-only hook on generated group pairs"],
    "assumptions": ["kyber's resharing mathematics is not modelled", "the leaver's StopAt timing is not modelled", "the daemon-level wiring (transitionToNext/joinNetwork/leaveNetwork) is modelled by ETransition / ERestart / EStop events of the node model"],
    "level_text": "C07_identity: over ANY history of resharing attempts (outputs of any shape, invalid outputs, failed/aborted/timed-out ceremonies) the pinned chain information (period, genesis time, public key, seed, canonical id, scheme) is unchanged, given the stated key/scheme premise; C07_bad_output_ignored; C07_continuity (for every event list including transitions the chain grows by one verified linked round at a time); C07_switch_exact (the vault switches exactly when a stored round reaches the target, never otherwise); C07_failed_keeps_old; C07_only_live_shares (after the switch only partials verifying under the new polynomial from indices of the new group are accepted). Tied to the code by the reshare engine (validateGroupTransition) and the node engine (real Handler with TransitionNewGroup to groups of other sizes/thresholds, partials signed with shares of both epochs). C07_system_continuity (Model/Net.v with ETransition): in every reachable state of the composed system, across any number of resharings handed to any nodes at any time, every honest chain is one valid chain from the one genesis and every live/pending group carries the threshold of its own sharing; with C02_system_agree (all honest chains agree whichever nodes have switched) and C03_system_threshold (every beacon contributed by a threshold of ONE sharing, never a mix of epochs). Tied to the code by the system engine: all real nodes are handed the same new epoch (other threshold, other adversarial indices), the adversary keeps signing with stale and new shares.",
    "level_note": "Kernel-checked, no axioms. Key preservation is kyber's contract (premise); chain-hash equality follows from C17 since its preimage is exactly the chain_info fields; transport and real-time leave are not modelled.",
}
