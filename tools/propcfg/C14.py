from propcfg.common import *

CFG = {
    "disabled": False,
    "props": "Props/C14.v",
    "corr": ["Corr/RobustCorr.v", "Corr/CbStoreCorr.v", "Corr/StreamCorr.v"],
    "engines": [("robust", []), ("cbstore", []), ("stream", [])],
    "axioms": [],
    "trusted": COMMON_TB + [
        "lock-path translator (harness/extract/lockpaths.go): go/parser plus receiver-field resolution of mutexes; calls it cannot resolve to a function of internal/dkg, internal/chain/beacon, internal/core, handler/http are taken to be neutral for the listed mutexes; function literals that are not invoked or deferred in place, and `go` bodies, run elsewhere and are not part of the path; panic points are the dereferences of request parameters",
        "interface wiring table of the translator (DKGProcess -> dkg.Process, Broadcast -> echoBroadcast, Store -> BoltStore, the order of the store decorators, which the translator re-reads from newChainStore)",
        "sync.Mutex / sync.RWMutex are not reentrant; deferred calls run last-in first-out also while panicking (Go semantics, modelled)",
        "grpcrecovery turns a handler panic into an error for the caller; net/http recovers handler panics per connection (library behaviour, exercised by the loopback gRPC witnesses on every run)",
        "add-only hooks /repo/internal/dkg/verif_export_robust.go, /repo/internal/core/verif_export_robust.go, /repo/internal/core/verif_export_routing.go (build tag verif)",
    ],
    "assumptions": [
        "request-level model: oracle bits stand for deep validation (signature checks, full proposal validation); requests are classified by shape (which nested messages are nil, oneof variant, lengths)",
        "blocking channel sends accepted under a lock are listed by name in Props/C14.v (the callbackStore job queue is property C12's finding F5)",
        "memory exhaustion, goroutine leaks, Go runtime fatal errors (concurrent map access in beaconExists / KeypairFor) and panics in goroutines not under an interceptor are outside the model; lock-order inversions between different mutexes are not checked (only self-deadlock)",
    ],
    "level_text": "C14_paths_ok_sound is proved once: if the checker accepts a table of lock-event trees then every execution of every entry point (any branch, any number of loop iterations, a panic at any marked dereference, calls of any depth) never blocks on a mutex it already holds, never unlocks what it does not hold, and ends -- returning or panicking -- with no lock held. C14_locks / C14_recovery_installed / C14_contained are re-checked by the kernel on every run over Gen/LockPaths.v (lock events of 42 handlers of dkg.Process, echoBroadcast, the store decorators, DrandDaemon, BeaconProcess, DrandHandler and everything they call, regenerated from the sources) and Gen/Interceptors.v (interceptor chains of the peer-facing gRPC server). C14_total / C14_total_wire / C14_total_broadcast / C14_total_partial / C14_total_routed characterise, for ALL request shapes and node states of the request-level model, exactly when a handler dereferences nil (seven enumerated sites, four reachable from the wire), and C14_contained shows those frames release their locks and sit under the recovery interceptor. On every run the model is compared with real DrandDaemon / dkg.Process / HTTP handler objects on about a thousand generated requests in sequences, each under a deadline and followed by probes on the same and on other endpoints. The callback-store and stream engines (followers registering, hanging up and re-requesting while beacons are being dispatched, on the real callbackStore / SyncChain) also run under this property: a panic or fatal error of the process running the real code under their inputs is reported as the failing observation (class process-died).",
    "level_note": "Kernel + vm_compute; no axioms. Partial by nature: memory exhaustion, goroutine leaks, runtime fatal errors and lock-order inversions across different mutexes are not expressible in the total functional model; the lock analysis is path-insensitive, covers the four analysed packages, and trusts the translator's call resolution.",
}
