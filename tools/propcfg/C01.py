from propcfg.common import *

NODE_TB = COMMON_TB + [
    "cryptographic predicates (VerifyPartial, Recover, VerifyRecovered/VerifyBeacon, IndexOf, SignPartial) enter the model as Section variables (oracles); the correspondence instantiates them with tables computed by the real scheme, independently of the code path under test",
    "node engine: one real beacon.Handler driven inside a simulated group (in-memory ProtocolClient, clockwork fake clock, real threshold BLS, memdb/bolt); model step = the node's reaction to one event at quiescence; concurrent internal orders are listed as admissible alternatives",
]

CFG = {
    "props": "Props/C01.v",
    "corr": ["Corr/NodeCorr.v", "Corr/HttpWaitCorr.v", "Corr/SyncCorr.v", "Corr/ServeCorr.v", "Corr/BootstrapCorr.v", "Corr/StreamCorr.v", "Corr/RobustCorr.v"],
    "engines": [("httpwait", []), ("serve", []), ("bootstrap", []), ("sync", []), ("node", []), ("stream", []), ("robust", [])],
    "axioms": [],
    "trusted": NODE_TB + ["hypothesis vrec_unchained (unchained digests do not contain the previous signature: crypto/schemes.go DigestBeacon) is a Section hypothesis visible in the theorem statements"],
    "assumptions": ["pairing arithmetic, Lagrange interpolation in Recover and SHA-256 are not modelled (oracles)", "serving side: PublicRand's exact-round rule is modelled in Model/Serve.v; gRPC/HTTP marshalling is not modelled"],
    "level_text": "Theorems C01_store / C01_chain_stays_valid hold for EVERY list of events a node can see (partials from anyone with any bytes, sync streams with any content, ticks, restarts, transitions) and every instance of the cryptographic oracles: each beacon the node writes verifies for exactly its round and previous signature; C01_serve_exact / C01_served_verifies: a successful answer for round r is the stored beacon of round r and verifies; C01_randomness: the published randomness is the hash of the carried signature. The model is the node-local state machine Model/Node.v, compared on every run with a real beacon.Handler on random scenarios including forged partials and sync, with an independent monitor re-verifying every Put. The robust engine's child process adds the stale-head interleaving on the real BeaconProcess.PublicRand (round r stored between the request's reading of the head and the registration of its callback, chosen through a wrapper of the raw store): a successful answer to a request for round r must contain round r (class C01-answer-for-another-round).",
    "level_note": "Kernel-checked, no axioms. Trusts the oracle abstraction of BLS (validated by the correspondence with real signatures over 2 schemes quick / 5 thorough), the harness, and the quiescent-step granularity; transport layers are not modelled.",
}
