from propcfg.common import *

CFG = {
    "disabled": False,
    "props": "Props/C09.v",
    "corr": ["Corr/DKGCorr.v"],
    "engines": [("dkgsig", [])],
    "axioms": [],
    "trusted": COMMON_TB + [
        "the signature scheme is an abstract verify(pk, msg, sig) (Section variable, no laws assumed: the theorems state which key, which bytes and which sender the code checks); in the correspondence its table is filled by independent calls of the real AuthScheme.Verify on the real messageForSigning bytes, which are also compared byte for byte with the model's message_for_signing",
        "unforgeability of the Schnorr/BLS AuthScheme is the premise under which 'verifies under key k' means 'signed by the holder of k'",
        "time.Time.MarshalBinary of a UTC instant = version 1, 8-byte seconds since year 1, 4-byte nanoseconds, 0xFFFF (modelled; validated by the byte comparison)",
    ],
    "assumptions": [
        "C09_terms_covered assumes unambiguous framing: no newline in beacon id / scheme / addresses, all participant signatures of one fixed length, uint32 fields, representable instants (C09_framing_caveat shows the bytes are ambiguous otherwise)",
        "events are addressed to the node's own beacon id; protobuf-unreachable shapes are outside the model (as for C08)",
    ],
    "level_text": "For every packet, store and clock: C09_signed_by_named (a packet changes the store only if its signature verifies, on exactly the bytes messageForSigning writes for the terms being applied, under the key those terms list for metadata.Address, and the sender satisfies the role rule of its packet type); C09_terms_covered / C09_unsigned_fields (the signed bytes determine every proposal term except the participants' keys and the genesis seed, which are not signed); C09_fresh_caveat; C09_partial_addresses / C09_partial_stored_keys. Since the fixes of F7 and of the leaver's Execute shortcut: C09_members_authenticate_proposals (a node whose base state carries a group accepts a reshare proposal only if the signature verifies under the key recorded in that group for the sender's address) and C09_execute_leader (only the leader's Execute is obeyed, also by leavers) are proved; the former witnesses are replayed on the real Process.Packet with real keys and signatures on every run as regression cases. Remaining caveat (known finding): a node without any group takes keys and the genesis seed from the packet, and these fields are not signed.",
    "level_note": "Kernel + vm_compute; no axioms; no law of the signature scheme is assumed. F7 fixed (proposed_fixes/F7.diff applied). Known witness: C09-fresh-node-unsigned-field-altered-packet-accepted. Regression cases: C09-member-key-substitution-accepted, C09-unsigned-field-altered-packet-accepted, C09-nonleader-execute-accepted-by-leaver.",
}
