from propcfg.common import *

CFG = {
    "props": "Props/C16.v",
    "corr": ["Corr/TimeCorr.v"],
    "engines": [("time", []), ("ticker", [])],
    "axioms": FLOCQ_AXIOMS,
    "trusted": COMMON_TB + ["math.Log2 floor on [2, 2^32] = Z.log2 (modelled; validated by the correspondence at every 2^k boundary)", "Flocq 4.1.0 (binary64 semantics: BinarySingleNaN.Bdiv / Btrunc / binary_normalize) is the model of Go's float64 division, math.Floor and the uint64 conversion; axioms of Coq's classical real numbers (ClassicalDedekindReals.sig_forall_dec, sig_not_dec, FunctionalExtensionality.functional_extensionality_dep, Classical_Prop.classic) enter through Flocq for C16_float_division / C16_float_floor_div_exact only"],
    "assumptions": ["periods are whole seconds (sub-second periods are outside the property's quantifier)"],
    "level_text": "Theorems C16_no_wrap, C16_monotone, C16_error_upward_closed, C16_current_brackets, C16_current_unique, C16_next hold for ALL periods 1..2^32-1 s, genesis 0..2^32, instants up to 2^50 s after genesis and all 64-bit rounds, over a model of common/time.go that keeps uint64/int64 wrap-around explicit; the model is compared with the real TimeOfRound/NextRound/CurrentRound on grid, boundary-directed and random inputs on every run, and the buffer constant is regenerated from the source. The ticker engine drives the REAL beacon ticker (hook VerifTicker) on a fake clock through boundaries, bursts over several periods and stalls (ticks generated but not consumed) and checks every announced (round, time) pair against the model's current round (case TK) and an independent monitor (C16-tick-round-is-not-the-round-of-its-time).",
    "level_note": "Kernel + vm_compute; no axioms except the classical-reals axioms of the standard library under the two float theorems. The float division is proved equal to integer division below 2^53 on Flocq's binary64 (C16_float_division, uses the standard library's classical-reals axioms); math.Log2 floor = Z.log2 is validated by the correspondence at every 2^k boundary; the Go compiler/runtime is not verified.",
}
