from propcfg.common import *

CFG = {
    "props": "Props/C16.v",
    "corr": ["Corr/TimeCorr.v"],
    "engines": [("time", [])],
    "axioms": [],
    "trusted": COMMON_TB + ["math.Log2 floor on [2, 2^32] = Z.log2 and float64 floor division = integer division below 2^53 (modelled; validated by the correspondence on boundary-directed inputs)"],
    "assumptions": ["periods are whole seconds (sub-second periods are outside the property's quantifier)"],
    "level_text": "Theorems C16_no_wrap, C16_monotone, C16_error_upward_closed, C16_current_brackets, C16_current_unique, C16_next hold for ALL periods 1..2^32-1 s, genesis 0..2^32, instants up to 2^50 s after genesis and all 64-bit rounds, over a model of common/time.go that keeps uint64/int64 wrap-around explicit; the model is compared with the real TimeOfRound/NextRound/CurrentRound on grid, boundary-directed and random inputs on every run, and the buffer constant is regenerated from the source.",
    "level_note": "Kernel + vm_compute; no axioms. Assumes math.Log2 floor = Z.log2 and float64 floor division = integer division on the domain (validated by the correspondence, including at 2^k boundaries); the Go compiler/runtime is not verified.",
}
