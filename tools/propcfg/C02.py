from propcfg.common import *

CFG = {
    "disabled": False,
    "props": "Props/C02.v",
    "corr": ["Corr/NodeCorr.v", "Corr/StackCorr.v", "Corr/NetCorr.v", "Corr/SyncCorr.v"],
    "engines": [("stack", []), ("node", []), ("net", []), ("sync", [])],
    "axioms": [],
    "trusted": COMMON_TB + [
        "the base store under the wrapper stack is taken at the level of the C18 specification (one ascending map with untrimmed-bolt / trimmed-bolt / ring semantics); C18 ties that specification to the real back-ends",
        "signature uniqueness (deterministic threshold BLS: one valid signature per key and message) enters C02_agree / C02_nodes_agree as an explicit hypothesis on an abstract verification predicate; that writers hand only verified beacons to the stack (tryNode's VerifyBeacon, the aggregator's VerifyRecovered) is a premise of C02_node_chain, discharged by C01/C10 and the network model",
        "hook /repo/internal/chain/beacon/verif_export_stack.go (build tag verif): exports newAppendStore, newDiscrepancyStore and a tryAppend wrapper; adds no behaviour",
    ],
    "assumptions": [
        "one model step = one critical section (appendStore.Put holds its mutex across the scheme store and the base store); interleavings finer than that and bbolt internals are not modelled",
        "uint64 wrap-around of last.Round+1 is not modelled (rounds stay below 2^64-1)",
        "the ReSync path (CorrectPastBeacons -> raw store) bypasses the stack: covered by C02_resync_harmless / C02_resync_keeps_prev_refuted, not by C02_gapfree",
        "SyncManager.tryNode's ErrBeaconAlreadyStored handling (sync_put) is modelled from the source but not driven by the harness (needs a network peer); its Put goes through the same stack_put that is compared",
    ],
    "level_text": "For ALL event lists on a node (Put attempts by any mix of writers with arbitrary beacons, chainStore.tryAppend with fresh or stale views, sync puts, injected failures of the base store, stop/restart; by induction over the list) over each back-end and for chained and unchained schemes: the store stack callback(append(scheme(discrepancy(base)))) keeps the invariant of C02_node_invariant, hence the base holds exactly rounds 0..head (ring: the newest cap rounds), every round 1..head was written exactly once and in order, the head never decreases, on chained schemes prev(r) = sig(r-1) and on unchained ones prev is stripped (C02_gapfree, C02_head_monotone), no stored round is ever replaced by a different value (C02_no_rewrite), a restart changes nothing (C02_restart_identity), tryAppend reports success only if the round is then stored with that signature (C02_tryappend). Under signature uniqueness two all-verified chains with the same genesis agree bytewise on every common round (C02_agree, induction on the round), and any two nodes whose writers hand over verified beacons hold identical beacons for every round both have, whatever their back-ends and histories (C02_node_chain, C02_nodes_agree). The model is compared with the real newAppendStore/NewSchemeStore/newDiscrepancyStore/NewCallbackStore/tryAppend over real bolt (trimmed, untrimmed) and memdb on every run, restarts reopening the bolt file through the daemon's format probe (once per bolt configuration while the file lock is still held for 1.5 s); an independent monitor checks contiguity, linkage, no-rewrite, head monotonicity and once-only callbacks on the implementation's scans. C02_system_agree (Model/Net.v, see C04): in every reachable system state any two honest nodes hold the same beacon for every common round, whatever the adversary delivered, injected or served. Tied to the code by the system engine (several real Handlers on memdb/bolt, harness = network + adversary) with a monitor comparing the real stores.",
    "level_note": "Kernel-checked, no axioms, stdlib only; BLS uniqueness and 'only verified beacons are put' are explicit hypotheses of the agreement theorems. The multi-node corollary over the network model (C02_net) is built separately on C02_node_chain / C02_nodes_agree. Caveat proved as C02_resync_keeps_prev_refuted: the ReSync path on unchained + untrimmed bolt can store a peer-chosen previous_signature (F14, replayed on the real store by the engine and reported as an observation).",
}
