from propcfg.common import *

CFG = {
    "disabled": False,
    "props": "Props/C12.v",
    "corr": ["Corr/CacheCorr.v", "Corr/CbStoreCorr.v", "Corr/StreamCorr.v", "Corr/NodeCorr.v"],
    "corr_extra_note": "the stream engine (C11) also runs here: it counts the callbacks left registered in the real callback store after streams that end inside the hand-over",
    "engines": [("cache", []), ("cbstore", []), ("stream", []), ("node", []), ("pending", [])],
    "axioms": [],
    "trusted": COMMON_TB + [
        "validity of a partial packet is decided by the real VerifyPartial in the harness and enters the cache model as the symbolic rule 'chained: the signed message covers the previous signature; unchained: it does not' (checked against real threshold BLS on both scheme families on every run)",
        "the store window and the flush points of runAggregator are read from the source by the translator (Gen/AggWindow.v); runAggregator itself runs inside the node engine (one real beacon.Handler, Model/Node.v agg_partial with the same window): long-outage scenarios deliver a threshold of valid partials for a round beyond the window (class C12-partial-outside-window-not-ignored)",
        "callback store: a model step is one harness-visible event, the worker dequeues eagerly; Go's scheduler, the fairness of sync.RWMutex and the random iteration order of the callbacks map are not modelled (the correspondence compares only what does not depend on them); one producer issues Puts",
        "blocking is observed on the real code as 'did not return within 2 s' (microseconds expected): the only timing-based observable",
    ],
    "assumptions": [
        "C12_isolation_chained: chained scheme, the victim signs at most MaxPartialsPerNode ids, its partials originate from it (replays allowed)",
        "C12_put_partial / C12_put_others_served: at most CallbackWorkerQueue dispatched beacons in the run (the full statement is refuted: class C12-put-blocks-on-stalled-consumer)",
        "stored rounds reach the aggregator in non-decreasing order (appendStore)",
    ],
    "level_text": "Proved for ALL operation lists over faithful models of cache.go and of callbackStore (store.go): structural invariants of the partial cache (the ids recorded for an index are exactly the round caches it is in); per-signer bounds for every list, shared round caches included (each index in at most cap round caches, |rcvd idx| <= cap, at most cap x signers round caches; C12_cache_bounded), no eviction ever meets a missing round cache; isolation by signer index in every state; at most limit+1 distinct cached rounds under the store window; a victim that signs <= cap ids is never evicted on the chained scheme; runs with <= queue beacons never block and serve every registered consumer. Refuted with kernel-checked witnesses that are replayed on the real code on every run: isolation on unchained schemes, non-blocking Put (incl. the wedge surviving a disconnect). The floods that used to break the cache bounds are kept as regression cases in the model (C12_floods_repaired) and in the engine. Models are compared with the real partialCache / NewCallbackStore on generated floods and gated-consumer schedules; constants and window shape are regenerated from the source.",
    "level_note": "Kernel-checked, no axioms. Go scheduling below the modelled steps, gRPC flow control (when a non-reading client makes Send block) and MaxConcurrentStreams are not verified.",
}
