from propcfg.common import *

CFG = {
    "disabled": False,
    "props": "Props/C13.v",
    "corr": ["Corr/CrashCorr.v"],
    "engines": [("crash", [])],
    "axioms": [],
    "trusted": COMMON_TB + [
        "bbolt: one db.Update is one atomic, durable write and a cursor iterates in key order (assumed; torn states of the two bolt files are not generated)",
        "file system: a crash leaves a file that was being written empty, a prefix of the new text, or the complete text; fsync ordering between the three stores is not modelled",
        "the shape translator (harness/extract/crashshape.go): reads the order of the persistence calls of SaveCurrent, SaveFinished, storeDKGOutput, Reset, executeAndFinishDKG, boltdb Put and key.Save with go/parser and fails loudly on any other shape",
    ],
    "assumptions": [
        "crash points are whole persistence operations (a bolt transaction, a file create/truncate, a file write, a file removal) plus the torn middle of every file write",
        "the leaving scenario follows the property's script (Left recorded, then key-store Reset); whether executeAndFinishDKG ever hands a leaver's result over is C07/C08 matter",
        "'resumes producing beacons' is checked on the snapshots that load: a fresh appendStore over the reloaded chain accepts round last+1",
    ],
    "level_text": "C13_chain / C13_chain_restarts / C13_chain_linked: for every recovered gap-free chain database, every list of attempted Puts and every crash point, over any number of process lifetimes, the chain store is again a gap-free (and, chained, linked) chain from round 0 that extends the previous one by exactly the beacons whose transaction completed. C13_served_persisted: for every Put list offered to callbackStore(appendStore(schemeStore(bolt))) and every crash point between the visible events, every beacon already handed to a callback (PublicRandStream, SyncChain, hooks) is in the database the restart finds - stated over the order of callbackStore.Put read from the source (write, error returns, then dispatch). C13_dkgdb_atomic / C13_dkgdb: for every well-formed history and every crash point (torn ones included) dkg.db holds what it holds after a whole number of events: the completed record is absent or one whole epoch, the staged record is that record or a state staged on top of it - stated over the transaction structure of SaveCurrent/SaveFinished regenerated from the source (C13_shape_obligation). The statement of the property for the triple (dkg.db, group file, share) is kept as C13_files_full and REFUTED by the faithful model (C13_files_refuted) with one witness per crash class: database ahead of the files, group e+1 with share e, empty/torn file, half-done Reset of a leaving node; C13_files_partial proves consistency and restart at every event boundary, and C13_files_classified proves that every other crash point of every well-formed history falls in exactly those named classes. Every run replays the whole history (first DKG, 5+2 rounds with refused duplicate/gap, resharing, leaving) on the real key store, DKG store, beacon process and bolt chain store, reloads a copy of the directories after every persistence call and at the created-empty / torn / half-reset points with fresh objects, compares with the model inside Coq, counts committed write transactions per call, registers a subscriber on the real callback store and checks at every snapshot - including one taken INSIDE every Put, before the bolt transaction, and after a duplicate, a gap and an injected write failure - that everything the subscriber received is in the reloaded store, and sweeps every byte prefix of the group and share files through the real loaders.",
    "level_note": "Kernel + vm_compute; no axioms. bbolt's atomicity and the 'prefix' model of a torn write are assumed; the order of the persistence calls is read from the source by a syntactic translator. The full statement about the file triple does not hold on this tree: the refutation witnesses are replayed on the real code on every run and listed as known findings.",
}
