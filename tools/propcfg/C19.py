from propcfg.common import *

CFG = {
    "disabled": False,
    "props": "Props/C19.v",
    "corr": ["Corr/RoutingCorr.v"],
    "engines": [("routing", [])],
    "axioms": [],
    "trusted": COMMON_TB + [
        "chain hashes of distinct chains are distinct, non-empty byte strings (hypothesis hash_model of every C19 theorem: collision-freeness of chain.Info.Hash, which covers the beacon id and the genesis parameters; a resharing keeps the hash)",
        "Go map semantics = association lists with unique keys; gRPC / chi routing deliver the request metadata and the {chainHash} path segment unchanged (modelled)",
        "add-only hook /repo/internal/core/verif_export_routing.go (build tag verif): wrappers for readBeaconID, getBeaconProcessFromRequest, getBeaconProcessByID, beaconExists, storeDKGOutput and table snapshots",
    ],
    "assumptions": [
        "histories: start-up load, LoadBeacon, Shutdown and DKG-completion events in any order on any set of key stores; key-store folders carry canonical ids",
        "a whole-daemon Stop (Shutdown with an empty beacon id, also when a chain hash is given) leaves the tables as they are; closing the listeners is outside the model",
        "unsynchronised reads of beaconProcesses in beaconExists/KeypairFor (data race) are outside the model",
    ],
    "level_text": "Theorems C19_served_is_named, C19_known_hash_selects, C19_mismatch_refused, C19_neither_goes_to_default, C19_tables_step / C19_tables_consistent, C19_after_shutdown, C19_http, C19_hex_never_default, C19_http_alias_only_empty_path, C19_dkg_proxy hold for ALL histories of start-up / LoadBeacon / Shutdown / DKG-completion events and ALL requests (any id string incl. absent and default, any hash bytes incl. absent) over a model of readBeaconID, the daemon's beaconProcesses / chainHashes tables and the HTTP handler table written line by line from the Go code; C19_routes is re-checked by the kernel on every run over the endpoint table regenerated from internal/core (every DrandDaemon method taking a protobuf request resolves it before touching a process). The model is compared on every run with real DrandDaemon objects (real LoadBeacon / Shutdown / dkgCallback, real one-node chains producing randomness) on the full ids x hashes cross product after every event, and an independent monitor attributes every answer (chain info, identity, group, key, randomness, HTTP) to a chain by the key material in it. The stub part also asks /health and /{hash}/health on a table of four chains with different periods and genesis times (one in the future) while the default entry is added, removed and moved: the expected round reported must be the named chain's own (monitor C19-http-health-of-another-chain).",
    "level_note": "Kernel + vm_compute; no axioms. Assumes distinct chains have distinct chain hashes (hypothesis of the theorems). Status responses carry no chain-identifying content and are attributed only through the routing helper; the Go runtime, gRPC and chi are not verified.",
}
