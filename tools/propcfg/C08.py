from propcfg.common import *

CFG = {
    "disabled": False,
    "props": "Props/C08.v",
    "corr": ["Corr/DKGCorr.v"],
    "engines": [("dkgsm", [])],
    "axioms": [],
    "trusted": COMMON_TB + [
        "signature and identity checks enter the model as oracle functions (joiner_ok, key_ok, verify_message); the theorems hold for every such oracle; in the correspondence the oracle tables are filled by independent calls of the real AuthScheme.Verify / Identity.ValidSignature / Point.UnmarshalBinary",
        "bbolt: one Update is one atomic write (SaveFinished writes both buckets in one transaction); TOML encode/decode of DBState is the identity on the fields the model reads (validated by the correspondence: every observation is read back from the real dkg.db)",
        "the kyber execution is one Complete/Failed event whose group and share are inputs of the model (real kyber runs between in-process nodes are part of the correspondence histories)",
    ],
    "assumptions": [
        "events are addressed to the node's own beacon id (other ids use other store keys); shapes that protobuf decoding cannot produce (nil list elements, a set oneof with a nil message) are outside the model",
        "the deprecated v1->v2 key-migration branch of StartProposal (finished epoch-1 record with nil signatures, only produced by MigrateFromGroupfile) is not modelled",
        "DBState.TimedOut() is modelled as a method but has no caller in the process (no event produces state TimedOut)",
    ],
    "level_text": "For ALL histories of operator commands, gossip packets and execution outcomes (valid or not, any sender, arbitrary clock) over a model of state_machine.go / actions_active.go / actions_passive.go / execution.go / store.go whose transition relation is regenerated from isValidStateChange on every run: C08_legal (every change of current.State is an edge of the table, composed with the fallback to the finished record or Fresh), C08_finished_monotone / C08_finished_is_output (the finished record changes only when an execution completes from Executing, to a strictly larger epoch, and stores exactly that execution's group and share), C08_rejected_unchanged / C08_rejected_keeps_finished / C08_terminal_keeps_finished, C08_retry (a terminal current state is equivalent to the last completed state for every later event, and a well-formed proposal at finished.Epoch+1 is accepted), fourteen C08_reject_* rules with the state class in which the code applies each, C08_epoch_monotone_members. The all-nodes clause 'the epoch never decreases' is refuted by the model (C08_epoch_refuted: fresh node, epoch 7 -> abort -> epoch 3) and proved with the carve-out spelled out (C08_epoch_partial); a node in state Left without a group refuses proposals with an error (C08_reject_no_previous_group; it used to dereference nil), and so does a proposal without a leader (C08_reject_no_leader). The model is compared with the real dkg.Process (real bolt store, real keys/signatures, real kyber runs) on generated histories on every run.",
    "level_note": "Kernel + vm_compute; no axioms. Two save-then-fail paths of the code (proposal command stored then gossip fails; Execute stored then kyber set-up fails) change the current bucket although an error is returned; they are named in C08_rejected_unchanged. Known witnesses replayed on the real code: C08-fresh-node-epoch-decreases, C08-member-epoch-decreases. Fixed and kept as regression cases: C08-left-state-proposal-panics, C08-nil-leader-proposal-panics.",
}
