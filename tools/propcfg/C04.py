from propcfg.common import *

NODE_TB = COMMON_TB + [
    "cryptographic predicates (VerifyPartial, Recover, VerifyRecovered/VerifyBeacon, IndexOf, SignPartial) enter the model as Section variables (oracles); the correspondence instantiates them with tables computed by the real scheme, independently of the code path under test",
    "node engine: one real beacon.Handler driven inside a simulated group (in-memory ProtocolClient, clockwork fake clock, real threshold BLS, memdb/bolt); model step = the node's reaction to one event at quiescence; concurrent internal orders are listed as admissible alternatives",
]

CFG = {
    "props": "Props/C04.v",
    "corr": ["Corr/NodeCorr.v", "Corr/NetCorr.v"],
    "engines": [("node", []), ("net", [])],
    "axioms": [],
    "trusted": NODE_TB + ["hypothesis vrec_unchained (unchained digests do not contain the previous signature: crypto/schemes.go DigestBeacon) is a Section hypothesis visible in the theorem statements"],
    "assumptions": ["pairing arithmetic, Lagrange interpolation in Recover and SHA-256 are not modelled (oracles)", "serving side: PublicRand's exact-round rule is modelled in Model/Serve.v; gRPC/HTTP marshalling is not modelled"],
    "level_text": "C04_accept: in every state every partial for a round beyond next_round(clock) is refused and changes nothing. C04_emissions_never_early / C04_step_never_early: for EVERY state and EVERY event list -- ticks of any round (also stale ones consumed after a stall longer than a period), woken catch-up sleepers, restarts, transitions, a chain behind, level with or ahead of the clock -- every partial the node releases is for a round <= the current round of its own clock, with NO premise (after the fix: guard in broadcastNextPartial; before it the statement was refuted in two ways, kept as regression examples C04_fast_peers_witness_repaired / C04_stale_tick_witness_repaired, both also replayed on the real Handler by the node engine). C04_round_le_current_is_timely links rounds to scheduled times (C16). C04_system_no_future_round (Model/Net.v: any number of honest nodes each running the node-local step that is compared with the real Handler, a wire, an adversary owning the network and fewer than a threshold of share indices of every sharing, symbolic unforgeability as admissibility of its events, resharing and sync included, ticks of any round): in EVERY reachable state no beacon of a future round exists anywhere, no honest chain holds one, no valid partial of an honest index is early. C04_net_no_future_round is the older abstract argument over Proofs/NetTime.v. Tied to the code by the node engine (stamps every emission with the node's clock; fast-peer and process-stall scenarios; independent monitor time_of_round(r) <= clock for every emission) and the system engine (several real Handlers, harness = network + adversary; runs checked admissible by gadm_b, proved sound).",
    "level_note": "Kernel-checked, no axioms. Trusts the oracle abstraction of BLS (validated by the correspondence with real signatures over 2 schemes quick / 5 thorough), the harness, and the quiescent-step granularity; transport layers are not modelled.",
}

