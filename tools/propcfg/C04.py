from propcfg.common import *

NODE_TB = COMMON_TB + [
    "cryptographic predicates (VerifyPartial, Recover, VerifyRecovered/VerifyBeacon, IndexOf, SignPartial) enter the model as Section variables (oracles); the correspondence instantiates them with tables computed by the real scheme, independently of the code path under test",
    "node engine: one real beacon.Handler driven inside a simulated group (in-memory ProtocolClient, clockwork fake clock, real threshold BLS, memdb/bolt); model step = the node's reaction to one event at quiescence; concurrent internal orders are listed as admissible alternatives",
]

CFG = {
    "props": "Props/C04.v",
    "corr": ["Corr/NodeCorr.v", "Corr/NetCorr.v"],
    "engines": [("node", []), ("net", [])],
    "axioms": [],
    "trusted": NODE_TB + ["hypothesis vrec_unchained (unchained digests do not contain the previous signature: crypto/schemes.go DigestBeacon) is a Section hypothesis visible in the theorem statements"],
    "assumptions": ["pairing arithmetic, Lagrange interpolation in Recover and SHA-256 are not modelled (oracles)", "serving side: PublicRand's exact-round rule is modelled in Model/Serve.v; gRPC/HTTP marshalling is not modelled"],
    "level_text": "C04_accept: in every state every partial for a round beyond next_round(clock) is refused and changes nothing; C04_emissions_not_early_partial: for EVERY event list in which the clock moves forward and ticks are not from the clock's future, every partial the node releases (tick, catch-up sleeper, after restart, across transitions) is for a round <= the current round of its own clock, under the stated premise that the stored head is not ahead of the own clock when a tick is handled; C04_round_le_current_is_timely links rounds to scheduled times (C16); C04_unconditional_refuted shows the premise is needed (a threshold of fast/corrupted peers), recorded as an observation. Tied to the real Handler by the node engine, which stamps every emission with the node's clock; an independent monitor checks time_of_round(r) <= clock for every emission. C04_net_no_future_round: in the abstract network of Proofs/NetTime.v (adversarial partials for any round at any time from fewer than a threshold of corrupted or fast members, honest partials under the node-local rule, Recover needing t distinct signers) no beacon of a future round ever exists and no honest member signs early -- this discharges the carve-out premise at the system level. C04_system_no_future_round (Model/Net.v: any number of honest nodes each running the node-local step that is compared with the real Handler, a wire, an adversary owning the network and fewer than a threshold of share indices, symbolic unforgeability as admissibility of its events): in EVERY reachable state no beacon of a future round exists anywhere, no honest chain holds one, no valid partial of an honest index is early -- the carve-out premise is derived, not assumed. Tied to the code by the system engine (several real Handlers, harness = network + adversary), whose runs are checked admissible (gadm_b, proved sound) and compared node by node.",
    "level_note": "Kernel-checked, no axioms. Trusts the oracle abstraction of BLS (validated by the correspondence with real signatures over 2 schemes quick / 5 thorough), the harness, and the quiescent-step granularity; transport layers are not modelled.",
}

