from propcfg.common import *
from propcfg.C01 import NODE_TB

CFG = {
    "props": "Props/C05.v",
    "corr": ["Corr/NodeCorr.v", "Corr/NetCorr.v"],
    "engines": [("node", []), ("net", [])],
    "axioms": [],
    "trusted": NODE_TB + ["hypotheses recov_complete (recover-validity of threshold BLS), vrec_unique (deterministic BLS), vrec_unchained and 0 <= partialCacheStoreLimit are Section hypotheses visible in the theorem statements; the fairness premise (the exchanges happen) is the shape of the theorem: it speaks about the state after the exchanges"],
    "assumptions": ["PARTIAL: real timers, goroutine fairness, gRPC reconnects and the random peer order are not modelled; 'eventually' in wall-clock terms is outside a kernel-checked theorem; the node engine exercises stop/restart with honest sync, catch-up sleepers and multi-round production on the real Handler"],
    "level_text": "C05_system_rounds: for ALL group sizes, thresholds and k, from an aligned state k exchanges of partials among at least a threshold of honest nodes (each an instance of the node model with its own share) make every node append the same k verified beacons of rounds head+1..head+k in order, none skipped, and leave the system aligned again (so the argument iterates and covers catch-up from any backlog); C05_node_round is the one-node core (any arrival order); C05_tick_rebroadcasts (every tick re-broadcasts on top of the head; a gap triggers a sync) and C05_rejoin (a restarted node stores an honest peer's whole stream). Labelled partial: the theorems establish the logic of progress under the fairness premise; the runtime part (timers, scheduling, transport) is exercised by the node engine on the real Handler, not proved. System engine: several real Handlers with the harness as network; after a full exchange every running node must hold every round for which a threshold of valid partials reached it (monitor C05-threshold-connected-but-round-missing); its runs are replayed through Model/Net.v.",
    "level_note": "Kernel-checked, no axioms. Liveness in wall-clock terms is not certified (partial); crypto is abstracted by oracles with stated hypotheses; the correspondence with the real beacon.Handler is at quiescent steps.",
}
