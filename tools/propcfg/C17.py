from propcfg.common import *

CFG = {
    "disabled": False,
    "props": "Props/C17.v",
    "corr": ["Corr/HashCorr.v", "Corr/CodecCorr.v"],
    "engines": [("hash", []), ("infojson", [])],
    "axioms": [],
    "trusted": COMMON_TB + [
        "SHA-256 and BLAKE2b-256 idealised as injective functions (hypotheses `injective H256`, `injective Hb` of the theorems; false in mathematics, standard in symbolic models); BLAKE2b-256 has one fixed positive output length",
        "points are their MarshalBinary encodings: opaque byte strings, one length per scheme (hypothesis of the sensitivity theorems)",
        "the hash engine's witness protocol: Go checks hash(witness preimage) = digest returned by the real code, Coq checks model preimage = witness",
    ],
    "assumptions": ["periods are whole seconds below 2^32 for the sensitivity theorems (the sub-second part is not hashed: stated as a lemma)",
                    "node indices are pairwise distinct for order invariance (sort.Slice is not stable)"],
    "level_text": "Theorems C17_chain_sensitive, C17_group_order, C17_group_sensitive, C17_paths_agree, C17_decode_rejects (and the stated limits C17_chain_pre_joint_collision, C17_chain_subsecond_not_hashed) hold for ALL infos/groups over a model whose preimages are folds over the write orders regenerated from Info.Hash, Group.Hash, Node.Hash, DistPublic.Hash on every run; the model's preimages are compared with the real digests (through a witness preimage hashed in Go) on generated groups/infos over all 5 schemes with single-field perturbations, node permutations and a malformed stream, and a monitor checks sensitivity, order invariance, the seven encoding paths and the JSON chain_hash check on the real code, including documents in every mix of v1 / v2 key spellings (an accepted document's chain_hash must be the hash of the decoded info).",
    "level_note": "Kernel + vm_compute; no axioms. Hash functions idealised as injective; point encodings opaque; the Go compiler/runtime and the TOML/JSON/protobuf libraries are not verified.",
}
