from propcfg.common import *

NODE_TB = COMMON_TB + [
    "cryptographic predicates (VerifyPartial, Recover, VerifyRecovered/VerifyBeacon, IndexOf, SignPartial) enter the model as Section variables (oracles); the correspondence instantiates them with tables computed by the real scheme, independently of the code path under test",
    "node engine: one real beacon.Handler driven inside a simulated group (in-memory ProtocolClient, clockwork fake clock, real threshold BLS, memdb/bolt); model step = the node's reaction to one event at quiescence; concurrent internal orders are listed as admissible alternatives",
]

CFG = {
    "props": "Props/C03.v",
    "corr": ["Corr/NodeCorr.v", "Corr/NetCorr.v"],
    "engines": [("node", []), ("net", [])],
    "axioms": [],
    "trusted": NODE_TB + ["hypotheses vrec_unchained and recov_sound (kyber tbls.Recover returns only when >= t listed partials with distinct indices each verify; read from kyber v1.3.2 source) are Section hypotheses visible in the theorem statements; unforgeability of BLS is not a theorem here"],
    "assumptions": ["pairing arithmetic, Lagrange interpolation in Recover and SHA-256 are not modelled (oracles)", "serving side: PublicRand's exact-round rule is modelled in Model/Serve.v; gRPC/HTTP marshalling is not modelled"],
    "level_text": "C03_local: for every state and incoming partial, whenever the aggregator stores a beacon for (round, previous signature) the cache entry for exactly that pair holds at least the live threshold of pairwise-distinct signer indices whose partials verify against the live polynomial (via the soundness of Recover, stated as hypothesis recov_sound), and the beacon is head+1; C03_filter: only partials of live-group members other than the node itself, at most one round ahead of the clock and verifying, reach the aggregator -- for all inputs. Non-vacuity examples for (4,3): 3 contributors produce, 2 do not. Tied to the real Handler by the node engine (threshold-1 / threshold / duplicates / forged index / non-member cases) with an independent contributor-count monitor. C03_net: in the abstract network every beacon that exists anywhere was preceded by partials of at least t distinct members for exactly its round (symbolic unforgeability is the network model's rule, not a theorem about BLS). C03_system_threshold (Model/Net.v, see C04): in every reachable system state every beacon in every honest chain had valid partials of >= t distinct indices for exactly its round on the wire, >= t-|F| of them from indices the adversary does not hold. Tied to the code by the system engine (several real Handlers) with an independent monitor counting valid indices on the real wire.",
    "level_note": "Kernel-checked, no axioms. Trusts the oracle abstraction of BLS (validated by the correspondence with real signatures over 2 schemes quick / 5 thorough), the harness, and the quiescent-step granularity; transport layers are not modelled.",
}

