"""Per-property wiring: which theorems file, which engines, which axioms are expected."""
COMMON_TB = [
    "Coq 8.16.1 kernel (coqc, vm_compute; native_compute not used); coqchk re-check in the thorough tier",
    "translator harness/extract (Go, go/parser) that regenerates coq/Gen from /repo on every run",
    "correspondence harness (Go engines in harness/, case emitters, tools/vlib.py parser of coqc output); no extraction is used, models run inside Coq",
]
FLOCQ_AXIOMS = ["ClassicalDedekindReals.sig_forall_dec", "ClassicalDedekindReals.sig_not_dec",
                "FunctionalExtensionality.functional_extensionality_dep", "Classical_Prop.classic"]

