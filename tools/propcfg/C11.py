from propcfg.common import *

CFG = {
    "disabled": False,
    "props": "Props/C11.v",
    "corr": ["Corr/StreamCorr.v"],
    "engines": [("stream", [])],
    "axioms": [],
    "trusted": COMMON_TB + [
        "a model step is one harness-visible event (append, start of a stream up to its first Send, return of a Send up to the next Send / the end of the scan, AddCallback); the scan of bolt is a snapshot taken when Cursor() is called (bbolt read transaction), the scan of memdb reads the live slice; the store under the callback store is append-only with round = index (C02)",
        "queues of the callback store are unbounded in this model (blocking is the subject of C12); one worker per callback, FIFO (validated by the correspondence)",
        "gRPC stream buffering, the wall-clock width of the hand-over window and concurrent Puts racing between the inner Put and the dispatch are not modelled",
        "PublicRandStream is tied by the translator (Gen/StreamCalls.v: store := bp.beacon.Store(); return beacon.SyncChain(..., store, proxyReq, proxyStr); proxies forward round and fields unchanged), not executed",
    ],
    "assumptions": [
        "C11_contiguous_no_window / C11_contiguous_rounds: no beacon is appended between the stream's snapshot (bolt) or last scan read (memdb) and its AddCallback; the full statement is refuted (class C11-put-in-handover-window-skipped); C11_skips_only_window characterises every schedule without carve-out",
    ],
    "level_text": "Proved for ALL schedules (any interleaving of appends, stream starts at any round, Send completions with success or failure, registrations; any number of concurrent streams and same-id reconnects) on both cursor kinds: what a stream sends is a prefix of the requested part of the store minus exactly the beacons appended in its hand-over window (C11_skips_only_window), hence contiguous, in order and equal to the stored beacons when the window is empty (C11_contiguous_no_window, C11_contiguous_rounds, C11_start_round), and after AddCallback a prefix of the appends from that point in append order (C11_order_live). The full statement is refuted by a kernel-checked 13-event witness that is replayed on the real SyncChain on every run (sent 1 2 3 5 6). The model is compared with the real SyncChain over the real callback store on memdb, trimmed bolt and untrimmed bolt under harness-chosen interleavings.",
    "level_note": "Kernel-checked, no axioms. The bbolt read-transaction snapshot, gRPC buffering and Go scheduling inside a step are assumed/modelled, validated by the correspondence, not verified.",
}
