from propcfg.common import *

CFG = {
    "disabled": False,
    "props": "Props/C11.v",
    "corr": ["Corr/StreamCorr.v"],
    "engines": [("stream", [])],
    "axioms": [],
    "trusted": COMMON_TB + [
        "a model step is one harness-visible event (append, start of a stream up to its first Send, return of a Send up to the next Send / the end of the scan, AddCallback); the scan of bolt is a snapshot taken when Cursor() is called (bbolt read transaction), the scan of memdb reads the live slice; the store under the callback store is append-only with round = index (C02)",
        "queues of the callback store are unbounded in this model (blocking is the subject of C12); one worker per callback, FIFO (validated by the correspondence)",
        "gRPC stream buffering, the wall-clock width of the hand-over window and concurrent Puts racing between the inner Put and the dispatch are not modelled",
        "PublicRandStream is tied by the translator (Gen/StreamCalls.v: store := bp.beacon.Store(); return beacon.SyncChain(..., store, proxyReq, proxyStr); proxies forward round and fields unchanged), not executed",
    ],
    "assumptions": [],
    "level_text": "Proved for ALL schedules (any interleaving of appends, stream starts at any round, Send completions with success or failure, registrations; any number of concurrent streams and same-id reconnects) on both cursor kinds (bolt snapshot, memdb live index): what a stream has sent is a prefix of the stored beacons from its start position - every round once, in order, equal to the stored beacon (C11_full, C11_rounds, C11_start_round), and after AddCallback a prefix of the store from the registration position on (C11_order_live). The schedule that used to lose a beacon in the hand-over window is kept as a regression case in the model (C11_witness_repaired) and in the engine. Every exit of SyncChain unregisters its callback (C11_ended_stream_unregistered, C11_registered_le_live, and the obligation C11_sync_chain_exits_unregister on the source). The model is compared with the real SyncChain over the daemon's store stack callback(append(scheme(back-end))) with a chained and an unchained scheme and over the bare callback store, on memdb, trimmed bolt and untrimmed bolt, under harness-chosen interleavings; delivered beacons are compared with the stored ones including the previous signature, and the callbacks left in the real callback store with the model's registrations.",
    "level_note": "Kernel-checked, no axioms. The bbolt read-transaction snapshot, gRPC buffering and Go scheduling inside a step are assumed/modelled, validated by the correspondence, not verified.",
}
