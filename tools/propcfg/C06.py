from propcfg.common import *
import json, os


def _post(c):
    """F15 (transition-time skew) is replayed by the engine on every run and recorded as a known
    witness, not as a monitor failure, until it is listed in known_findings.txt; once listed it is
    reported as a KNOWN-FINDING like any other (set VERIF_C06_WITNESSES=fail to see it as a violation)."""
    import vlib
    p = os.path.join(c.out, "dkgrun.json")
    if not os.path.exists(p):
        return
    rep = json.load(open(p))
    listed = {k["class"]: k for k in vlib.known_findings() if k["property"] == c.pid}
    seen = set(k["class"] for k, _ in c.known_hit)
    for w in rep.get("known_witnesses") or []:
        cls = w["class"]
        if cls in listed and cls not in seen:
            seen.add(cls)
            c.known_hit.append((listed[cls], w))
        elif cls not in listed:
            c.notes.append("candidate finding replayed on the implementation (not listed): " + cls)
            c.cov.setdefault("extra", {}).setdefault("candidate_findings", []).append({"class": cls, "what": w["what"]})


CFG = {
    "disabled": False,
    "props": "Props/C06.v",
    "corr": ["Corr/DKGExecCorr.v"],
    "engines": [("dkgrun", [])],
    "post": _post,
    "axioms": [],
    "trusted": COMMON_TB + [
        "kyber's Pedersen DKG / resharing (github.com/drand/kyber/share/dkg) is a black box: the theorems take its contract as the premise dkg_contract (on success the holder of the long-term key at DKG index i of QUAL receives a share on the common public polynomial at i, and all QUAL members see the same commits); the engine checks the contract's conclusion on real runs (g^share = eval at own index)",
        "threshold BLS (kyber sign/tbls) enters as the premise recover_validity; the engine signs and recovers with every t-subset of real shares",
        "BLAKE2b-256 is an uninterpreted function H on the structured hash input; equality of hash inputs is proved, the byte serialisation of Group.Hash is re-implemented in the engine and compared with the real seed",
        "echo broadcast (internal/dkg/broadcast.go) and the gossip of proposal/accept/execute packets are exercised by delivery schedules only (random delays, duplicates, one slow node), not modelled",
    ],
    "assumptions": [
        "participants of one proposal have pairwise distinct public keys (premise NoDup of the order-independence theorems)",
        "periods are whole seconds; instants up to 2^50 s after genesis (domain of C16)",
        "a resharing starts after the traffic of the previous DKG has ended (the engine waits for a quiet network between epochs)",
    ],
    "level_text": "For ALL participant lists, permutations, thresholds, QUAL sets/orders and commitments: C06_order_independent/C06_agreement (two nodes with permuted Remaining++Joining, same terms and same black-box outcome build groups equal up to node listing order with equal hash inputs; identical in epoch 1), C06_index_alignment/C06_share_on_polynomial/C06_threshold_signing (group index i carries the key of DKG participant i; with the kyber contract the share lies on the public polynomial at the node's own index and any threshold of shares recovers a signature valid under commits[0]), C06_terms_agree, C06_sorted_unique (unstable in-place sort is canonical under distinct keys), C06_sort_in_place_is_permutation, C06_echo_delivery (with the loop shapes of internal/dkg/broadcast.go read from the source on every run - one sender per other participant, broadcast and broadcastDirect range over all senders, checked as the DEcho case - every bundle seen by one node is re-sent to every other participant; C06_echo_needs_all_senders shows the obligation is necessary), C06_phase_window (with the phaser of startDKGExecution built from config.TimeBetweenDKGPhases - read from the source on every run, DPhaser case - a bundle arriving within the configured phase duration is processed in its phase; C06_phase_needs_configured_duration shows the obligation is necessary). Transition time: the full agreement statement is REFUTED in the faithful model (C06_transition_agree_refuted, F15: computed from each node's own clock) and proved with the carve-out 'same round or first epoch' (C06_transition_time, C06_transition_skew gives the exact condition and amount). The model is compared on every run with SortedByPublicKey, setupDKG and asGroup through add-only hooks and with the finished states of real multi-node dkg.Process runs (real kyber DKG, bolt stores, scripted delivery schedules including exactly one lost or late direct transmission of a deal/response bundle towards each receiver rank in key order, which the echo broadcast must repair, and one deal/response bundle reaching one holder (all copies) after the kick-off grace period but well inside the configured phase duration).",
    "level_note": "Kernel + vm_compute; no axioms. Kyber DKG and tbls are premises (black boxes), BLAKE2b uninterpreted; message-timing independence of the kyber/echo-broadcast layer is tested by schedules, not proved. Transition-time agreement holds only when the nodes complete within one beacon round (F15, replayed on the real code).",
}
