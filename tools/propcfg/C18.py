from propcfg.common import *

CFG = {
    "disabled": True,
    "props": "Props/C18.v",
    "corr": ["Corr/StoreCorr.v"],
    "engines": [("store", [])],
    "axioms": [],
    "trusted": COMMON_TB + [],
    "assumptions": [],
    "level_text": "",
    "level_note": "",
}
