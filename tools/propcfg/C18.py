from propcfg.common import *

CFG = {
    "disabled": False,
    "props": "Props/C18.v",
    "corr": ["Corr/StoreCorr.v"],
    "engines": [("store", [])],
    "axioms": [],
    "trusted": COMMON_TB + [
        "bbolt (go.etcd.io/bbolt v1.4.3) is modelled at its documented contract, not verified: a bucket is a map on byte keys iterated in bytes.Compare order, Get/Put/Delete by key, Cursor First/Next/Seek(first key >= k)/Last, Update atomic (Model/Backends.v bk_*, cur_*); validated by the correspondence on every run",
        "sort.Slice on pairwise distinct rounds = insertion sort (memdb); encoding/json round-trips a beacon (untrimmed bolt value)",
        "hook-free: the engine drives boltdb.NewBoltStore (untrimmed via boltdb.IsATest, trimmed on a fresh directory) and memdb.NewStore directly",
    ],
    "assumptions": [
        "rounds are uint64 (0 <= r < 2^64), which is what the Go types allow",
        "a write to the same bolt store from inside a Store.Cursor callback (a bbolt read transaction) is outside the modelled behaviour (answered OBad without effect; it can deadlock on bbolt's remap lock and drand never does it); memdb allows it and is modelled and compared with it",
        "the postgres back-end is not claimed (no server in the sandbox)",
    ],
    "level_text": "For ALL operation histories (lists of put/get/last/del/len and cursor open/first/next/seek/last/close operations, by induction over the list): the models of untrimmed bolt, trimmed bolt (with and without previous-signature reconstruction) and the memdb ring each refine one strictly ascending association list round->beacon (C18_refines_*: equal outputs after every history; the ring = the map with keep-old re-put restricted to the newest cap rounds, C18_ring_keeps / C18_ring_bounded / C18_ring_forgets_oldest); the refinement of the bolt models goes through the byte-key ordering lemma be64 r < be64 r' (bytes.Compare) iff r < r' (C18_key_order). On top of that: every beacon any operation returns is exactly what Get of the round it is labelled with returns (C18_label_integrity, all three back-ends, including memdb cursors used during mutation), Get returns the data last put for the round and not deleted since (C18_get_boltU, C18_returned_*), the trimmed store's previous signature is the stored signature of round r-1 or the read fails (C18_prev_reconstruction), seeking a stored round returns that round (C18_seek_stored), First/Next iteration is strictly ascending and complete (C18_iteration), and a memdb cursor used while the store is mutated may skip or repeat rounds (witnesses C18_memdb_cursor_skips / _repeats). The models are compared with the real back-ends on every run (corpus incl. the F1 witness, exhaustive put/del sequences + full read probe, random sequences with gaps, byte-boundary rounds up to 2^64-1, re-puts, deletions, absent seeks, cursor sessions, and close/reopen histories of the bolt files through the daemon's format probe, also while another handle still holds the file lock), and an independent reference-map monitor checks the property on the implementation's outputs.",
    "level_note": "Kernel-checked, no axioms, stdlib only. Theorems are about executable models of the three back-ends; bbolt, sort.Slice and encoding/json are modelled at their contracts and validated by the differential harness, not verified. F1 (trimmed Seek mislabelling) is fixed in /repo; the model has the fixed Seek, the full label-integrity theorem covers the trimmed store, and a recurrence is reported by the monitor as class boltT-seek-mislabel.",
}
