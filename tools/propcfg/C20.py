from propcfg.common import *

CFG = {
    "disabled": False,
    "props": "Props/C20.v",
    "corr": ["Corr/CodecCorr.v"],
    "engines": [("codec", [])],
    "axioms": [],
    "trusted": COMMON_TB + [
        "BurntSushi/toml, encoding/json, hexjson and protobuf transport the mirror structs unchanged (validated on every run: every value goes through the real libraries, the key store files and the dkg BoltStore)",
        "time.ParseDuration inverts time.Duration.String, which never returns \"\" (hypothesis `dur_laws` of C20_roundtrip; validated on every generated duration through an oracle table)",
        "points, scalars and schemes are modelled by their canonical encodings / names; kyber's MarshalBinary/UnmarshalBinary round trip is validated by the engine, not proved",
    ],
    "assumptions": ["values are well-formed (vp_P): whole-second periods on the protobuf/JSON paths, thresholds and times within their integer types, known scheme, non-nil non-empty genesis seed, byte strings either nil or non-empty where the code tests for emptiness",
                    "stated normalisations: beacon id read back canonical, identity scheme supplied by the caller on the protobuf path, a key pair's public identity lives in its own file"],
    "level_text": "The reflection theorem roundtrip_sound (Proofs/CodecProofs.v) is proved once; on every run the conversion functions of 15 mirror pairs (DBState, Group TOML/protobuf, Node, Identity, Pair, Share, DistPublic, chain Info protobuf/JSON, Beacon protobuf/JSON) are re-read from the sources and the per-pair obligations roundtrip_ok = true are re-checked by vm_compute, giving C20_roundtrip for ALL well-formed values; decode-side rejection of out-of-range thresholds / unknown schemes is proved from the generated check lists (two-sided on TOML; on protobuf only the lower bound exists: C20_decode_rejects_refuted/_partial). The disk path is modelled as one register per file (C20_disk_last_written: for every history of saves, loads and resets a load returns the value written last) and histories with values growing and shrinking are replayed on the real key.NewFileStore. The model's denotation of the generated mirrors is compared with the real conversion functions, libraries, key-store files and dkg database on generated values over all 5 schemes.",
    "level_note": "Kernel + vm_compute; no axioms. Serialisation libraries, kyber encodings and time.Duration printing are assumed (and exercised on every run), not verified.",
}
