#!/usr/bin/env python3
"""usage: seedkeep.py <ID> <name> '<what I ran / which check caught it>'  -- copies /tmp/seed_<ID>/_seed into /verif/seeded/<name>/ and extends meta.json"""
import json, os, shutil, sys
pid, name, note = sys.argv[1], sys.argv[2], sys.argv[3]
src = "/tmp/%s_%s/_seed" % (os.environ.get("SEEDPFX", "seed"), pid)
dst = "/verif/seeded/%s" % name
os.makedirs(dst, exist_ok=True)
for f in os.listdir(src):
    if os.path.isfile(os.path.join(src, f)):
        shutil.copy(os.path.join(src, f), os.path.join(dst, f))
mp = os.path.join(dst, "meta.json")
try:
    m = json.load(open(mp))
except Exception:
    m = {"property": pid}
m["property"] = pid
m["confirmed_by_me"] = "tools/seedconfirm.sh %s: builds with the change, the demonstration fails with it and passes without it, the stable baseline tests of the affected packages still pass" % pid
m["checks_run"] = note
json.dump(m, open(mp, "w"), indent=1)
print("kept", dst, os.listdir(dst))
